SPEC = {
    "id": "C05",
    "level": "proof",
    "lean_modules": ["PallasVerif.Props.C05"],
    "required_theorems": ["elemSpan_is_slice", "txId_is_hash_of_slice", "encode_injective", "id_input_changes_with_encoding",
                          "byron_prefix", "headerHash_cases", "keepraw_span", "blockHash_is_hash_of_slice", "itemsOfKey_slices", "proper_prefix_not_item", "decoded_span_is_one_item", "underconsuming_decoder_span_not_item", "headerHashN2N_cases"],
    "streams": [{"name": "idhash", "quick": 400, "thorough": 12000}],
    "rule": "cases: `tx <era> <cbor>` (+ `datums`, `scripts`, `inline`: hashes of witness-set datums, native scripts, inline datums), `block <cbor>`, "
            "`header <wrapper-tag> <cbor>`, `datum <cbor>` / `script <cbor>` (KeepRaw<PlutusData> / KeepRaw<NativeScript> decoded stand-alone, spans sliced out of the corpus transactions). Corpus: every test_data/*.tx, *.block (+ each block's header span and first 2 (thorough 6) transactions), "
            "*.header; genesis.block (epoch boundary) and a small synthetic epoch-boundary block; every 400th (thorough: 8th) block of the three immutable-db chunks; `hdr <tag> <subtag> <cbor>` drives MultiEraHeader::decode through every (tag, subtag) that selects the fitting decoder (EBB (0,0); Byron main (0,1)/(0,-)/(0,7)/(0,255); Shelley family 1..4; Babbage family 5,6,7,255); `byrontx` / `body <era>` decode KeepRaw<byron::Tx> / KeepRaw<TransactionBody> stand-alone. Systematic mutants: EVERY single-site to-indef (incl. empty maps / arrays) / to-def / widen-head / head-8-bytes / chunk-string mutant of stand-alone headers of every era incl. the epoch-boundary header (2, thorough 8, headers per wrapper tag, each through its entry points) and of stand-alone Byron txs; evenly spread single sites always including the LAST one for bodies, whole transactions and small blocks; every single-site to-indef / to-def / widen-head / chunk-string mutant (first 8, thorough 64, sites) of every stand-alone datum and native script; pool datums and their single-site mutants spliced as inline datums into corpus transactions. Random mutants (the `quick`/`thorough` count): the same items after 1..3 "
            "structural CBOR mutations at the concrete-syntax level (definite<->indefinite containers, wider-than-minimal heads on ints / lengths / tags, "
            "swapped map entries, byte strings split into chunks, set tag 258 dropped), kept only if pallas still decodes them. distinct = sha1 of op text; "
            "non-trivial = the case produced at least one identifier (decoded tx / block / header)",
    "trusted_base": ["Model/Blake2b.lean (RFC 7693 transcription, validated by start-up vectors and by C10) and Model/Cbor.lean (strict parser, "
                     "bijection proved in Proofs/Cbor.lean) make the Lean driver an oracle that shares no code with pallas, minicbor or cryptoxide",
                     "Model/IdHash.lean: which element is hashed and with which prefix (transcribed from hashes.rs / tx.rs / header.rs / block.rs)",
                     "second oracle in the harness: minicbor `Decoder::skip` offsets + pallas-crypto Hasher"],
    "assumptions": ["typed era decoders stop where the generic item ends (ConsumesItem) — sampled by the stream, proved only as the hypothesis of keepraw_span",
                    "BLAKE2b collision freedom is NOT assumed: id_input_changes_with_encoding is about hash inputs",
                    "ComputeHash impls (hash of a re-encoding, e.g. DatumOption::compute_hash, PlutusData::compute_hash) are by contract not original-byte "
                    "hashes and are not observed here; only MultiEraTx::hash, MultiEraBlock::hash, MultiEraHeader::hash and OriginalHash::original_hash are"],
    "explanation": "seeded change C05-a (EmptyMap::decode leaving the break of `bf ff` unread) is caught by `hdr 0 0 ..81bfff` (header-hash-not-over-wire-bytes, header-raw-cbor) and by `byrontx` mutants. deviation found and fixed: constr-102 with an indefinite outer array (see known_findings.d/C05.json; corpus/C05/idhash-constr102-indef.ops replays it). self-tests run on a scratch edit of the pallas worktree: MultiEraTx::hash Babbage/Conway arms `original_hash()` -> `compute_hash()` "
                   "(passes pallas' own tests; here exit 1, VIOLATION, replay idhash-viol-tx-id-not-hash-of-wire-body = a widened-head / re-ordered mutant); "
                   "KeepRaw<PlutusData>::original_hash -> hash_cbor(self.deref()) caught as datums-hash-not-over-wire-bytes; swapping the order of the match arms in "
                   "MultiEraTx::hash (behaviour preserving: quiet, exit 0)",
}
