"""MANIFEST.json is generated from manifest.d/<id>.json fragments (one per claimed property) so that
work on different properties never edits the same file."""
import json
import os
import subprocess

ROOT = os.path.dirname(os.path.dirname(os.path.abspath(__file__)))

HOOKS_FILE = os.path.join(ROOT, "manifest.d", "_hooks.json")
NA_FILE = os.path.join(ROOT, "manifest.d", "_not_applicable.json")


def all_ids():
    return [json.loads(l)["id"] for l in open(os.path.join(ROOT, "properties.jsonl")) if l.strip()]


def claimed():
    d = os.path.join(ROOT, "manifest.d")
    return sorted(f[:-5] for f in os.listdir(d) if f.endswith(".json") and not f.startswith("_"))


def build():
    d = os.path.join(ROOT, "manifest.d")
    checks = []
    for pid in claimed():
        frag = json.load(open(os.path.join(d, pid + ".json")))
        frag.setdefault("property_id", pid)
        frag.setdefault("quick_cmd", f"./check {pid} --tier quick")
        frag.setdefault("thorough_cmd", f"./check {pid} --tier thorough")
        frag.setdefault("evidence_file", f"/verif/evidence/{pid}.json")
        frag.setdefault("replay_cmd_template", f"./check {pid} --replay {{path}}")
        frag.setdefault("engine", "lean4-proof+correspondence")
        checks.append(frag)
    hooks = json.load(open(HOOKS_FILE))
    hooks["source_commits"] = [h for h, s in repo_log() if s.startswith("verif-hook:")]
    na_reasons = json.load(open(NA_FILE)) if os.path.exists(NA_FILE) else {}
    have = {c["property_id"] for c in checks}
    na = [{"property_id": i, "reason": na_reasons.get(i, "not yet claimed: its model, theorems and code tie are not built at this commit (planned, see DESIGN.md section 5)")}
          for i in all_ids() if i not in have]
    return {
        "version": 1,
        "setup_cmd": "./check setup",
        "hooks": hooks,
        "engines": [{
            "name": "lean4-proof+correspondence",
            "path": "/verif/check",
            "serves_properties": sorted(have),
            "kind_free_text": "Lean 4 theorems about executable models (lean/PallasVerif), tied to /repo on every run by "
                              "source translators (lib/translate_*.py -> lean/PallasVerif/Gen) and/or a differential "
                              "correspondence between the Lean driver (pvdriver) and a Rust harness calling the real code (harness/)",
        }],
        "checks": checks,
        "notes": "See DESIGN.md. Every check: regenerate -> lake build theorem module -> axiom audit -> build harness against /repo "
                 "working tree with --cfg txpipe_pallas_verif -> corpus + generated correspondence -> failing-input search -> evidence.",
        "not_applicable": na,
    }


def repo_log():
    try:
        out = subprocess.run(["git", "-C", "/repo", "log", "--format=%H %s"], capture_output=True, text=True).stdout
    except OSError:
        return []
    return [l.split(" ", 1) for l in out.splitlines() if " " in l]


def write_findings():
    from lib import core
    log = repo_log()
    findings = core.all_findings()
    for f in findings:
        if f.get("status") == "fixed":
            subj = f.get("commit", "")
            subjs = subj if isinstance(subj, list) else [subj]
            hs = [h for h, s in log if any(s.strip() == x.strip() for x in subjs)]
            if hs:
                f["commit_hash"] = hs if len(hs) > 1 else hs[0]
    doc = ("Genuine defects of txpipe/pallas found by the checks (generated union of known_findings.d/*.json). "
           "status=known: recorded, not repaired; printed as KNOWN-FINDING on every run and not counted as a violation; "
           "matched by (property, stream, key_regex on the oracle's stable violation key), so a different violation of the "
           "same property is still reported. status=fixed: repaired by a `fix:` commit in /repo; suppresses nothing. "
           "Never modified at run time.")
    with open(os.path.join(ROOT, "known_findings.json"), "w") as f:
        json.dump({"_doc": doc, "findings": findings}, f, indent=1)
        f.write("\n")


def write():
    write_findings()
    m = build()
    with open(os.path.join(ROOT, "MANIFEST.json"), "w") as f:
        json.dump(m, f, indent=1)
        f.write("\n")


def validate():
    code = r'''
import json, sys, glob, jsonschema
root = sys.argv[1]
rc = 0
ms = json.load(open("/root/.vp/MANIFEST.schema.json")); es = json.load(open("/root/.vp/EVIDENCE.schema.json"))
try:
    jsonschema.validate(json.load(open(root + "/MANIFEST.json")), ms); print("MANIFEST ok")
except Exception as e:
    print("MANIFEST INVALID", str(e)[:500]); rc = 1
for f in sorted(glob.glob(root + "/evidence/*.json")):
    try:
        jsonschema.validate(json.load(open(f)), es); print("ok", f)
    except Exception as e:
        print("INVALID", f, str(e)[:500]); rc = 1
sys.exit(rc)
'''
    return subprocess.call(["python3-vt", "-c", code, ROOT])
