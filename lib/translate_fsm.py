"""Tie A for C23 / C24: regenerate the Lean transition tables from the pallas sources.

  translate_n2(repo, lean)  pallas-network2/src/protocol/**  `State::apply`      -> Gen/FsmN2.lean
  translate_n1(repo, lean)  pallas-network/src/miniprotocols/*/{client,server}.rs -> Gen/FsmN1.lean

Both work on a very regular subset of Rust (enum declarations, `match` tables whose arms are
`pattern => Ok(..) | Err(..)`, state assignments `self.0 = State::X`).  They fail *closed*: whatever
is not recognised is put into the generated `unknowns` list, and the property modules prove
`unknowns = []` by `decide`, so an unparsed construct breaks the build instead of being skipped.
The translators resolve Rust's first-match-wins semantics themselves: the generated table has one
row per (state class, message class) of the *complete* product.
"""
import os
import re

# ----------------------------------------------------------------------------------- lexical helpers


def strip_comments(src):
    src = re.sub(r"/\*.*?\*/", " ", src, flags=re.S)
    out = []
    for line in src.split("\n"):
        # no string literal in the tables we read contains `//`
        i = line.find("//")
        out.append(line if i < 0 else line[:i])
    src = "\n".join(out)
    # string / char literals may hold unbalanced brackets (`debug!("send intersect found ({point:?}")`)
    src = re.sub(r'"(?:[^"\\\n]|\\.)*"', '""', src)
    src = re.sub(r"'(?:[^'\\\n]|\\.)'", "' '", src)
    return src


OPEN = {"(": ")", "[": "]", "{": "}"}
CLOSE = {")", "]", "}"}


def match_close(s, i):
    """s[i] is an opening bracket; index of its partner."""
    depth = 0
    j = i
    while j < len(s):
        c = s[j]
        if c in OPEN:
            depth += 1
        elif c in CLOSE:
            depth -= 1
            if depth == 0:
                return j
        j += 1
    raise ValueError("unbalanced bracket")


def split_top(s, sep=","):
    """split at top-level separators (angle brackets of generics count as brackets)"""
    parts, depth, ang, cur = [], 0, 0, []
    i = 0
    while i < len(s):
        c = s[i]
        if c in OPEN:
            depth += 1
        elif c in CLOSE:
            depth -= 1
        elif c == "<":
            ang += 1
        elif c == ">" and ang > 0 and not (i > 0 and s[i - 1] in "=-"):
            ang -= 1
        if c == sep and depth == 0 and ang == 0:
            parts.append("".join(cur).strip())
            cur = []
        else:
            cur.append(c)
        i += 1
    last = "".join(cur).strip()
    if last:
        parts.append(last)
    return parts


def parse_enum(src, name):
    """-> [(variant, kind, [(fieldname|None, type)])] or None. kind: unit|tuple|struct"""
    m = re.search(r"\benum\s+%s\b[^{;]*\{" % re.escape(name), src)
    if not m:
        return None
    o = m.end() - 1
    body = src[o + 1:match_close(src, o)]
    body = re.sub(r"#\[[^\]]*\]", " ", body)
    res = []
    for part in split_top(body):
        part = part.strip()
        if not part:
            continue
        mm = re.match(r"^(\w+)\s*(.*)$", part, flags=re.S)
        if not mm:
            return None
        v, rest = mm.group(1), mm.group(2).strip()
        if not rest:
            res.append((v, "unit", []))
        elif rest.startswith("("):
            inner = rest[1:match_close(rest, 0)]
            res.append((v, "tuple", [(None, t) for t in split_top(inner)]))
        elif rest.startswith("{"):
            inner = rest[1:match_close(rest, 0)]
            fields = []
            for f in split_top(inner):
                f = re.sub(r"^pub\s+", "", f.strip())
                fn, _, ft = f.partition(":")
                fields.append((fn.strip(), ft.strip()))
            res.append((v, "struct", fields))
        else:
            return None
    return res


def find_fn(src, name, start=0):
    """-> (body_text, end_index) of the first `fn name` at or after start, or None"""
    m = re.compile(r"\bfn\s+%s\b" % re.escape(name)).search(src, start)
    if not m:
        return None
    o = src.find("{", m.end())
    # skip a `where` clause / return type containing no braces
    c = match_close(src, o)
    return src[o + 1:c], c


def find_match(body, start=0):
    """first `match <scrutinee> {` in body at/after start -> (scrutinee, arms_text, end) or None"""
    m = re.compile(r"\bmatch\b").search(body, start)
    if not m:
        return None
    o = body.find("{", m.end())
    c = match_close(body, o)
    return body[m.end():o].strip(), body[o + 1:c], c


def split_arms(text):
    """-> [(pattern, expr)] of a match body"""
    arms = []
    i, n = 0, len(text)
    while i < n:
        while i < n and text[i] in " \t\r\n,":
            i += 1
        if i >= n:
            break
        # pattern up to top-level `=>`
        depth, j = 0, i
        while j < n:
            c = text[j]
            if c in OPEN:
                depth += 1
            elif c in CLOSE:
                depth -= 1
            elif c == "=" and depth == 0 and text[j:j + 2] == "=>":
                break
            j += 1
        if j >= n:
            arms.append((text[i:].strip(), None))
            break
        pat = text[i:j].strip()
        k = j + 2
        while k < n and text[k] in " \t\r\n":
            k += 1
        if k < n and text[k] == "{":
            e = match_close(text, k)
            expr = text[k + 1:e].strip()
            k = e + 1
        elif text.startswith("match", k) and re.match(r"match\b", text[k:]):
            o = text.find("{", k)
            e = match_close(text, o)
            expr = text[k:e + 1].strip()
            k = e + 1
        else:
            depth, e = 0, k
            while e < n:
                c = text[e]
                if c in OPEN:
                    depth += 1
                elif c in CLOSE:
                    depth -= 1
                elif c == "," and depth == 0:
                    break
                e += 1
            expr = text[k:e].strip()
            k = e
        arms.append((pat, expr))
        i = k
    return arms


# ----------------------------------------------------------------------------------- patterns

class Unknown(Exception):
    pass


def parse_variant_pattern(pat, enum_names):
    """`Self::V`, `State::V(a, _)`, `Message::V { f, .. }`, `_`  ->  (variant|None, subpatterns)
    subpatterns: ('tuple', [str]) | ('struct', {field: str}, rest) | ('unit',)"""
    pat = pat.strip()
    if pat == "_":
        return None, ("any",)
    m = re.match(r"^&?\s*(\w+)(?:::<[^>]*>)?::(\w+)\s*(.*)$", pat, flags=re.S)
    if not m or m.group(1) not in enum_names:
        raise Unknown("pattern `%s`" % pat)
    v, rest = m.group(2), m.group(3).strip()
    if not rest:
        return v, ("unit",)
    if rest.startswith("(") and match_close(rest, 0) == len(rest) - 1:
        return v, ("tuple", split_top(rest[1:-1]))
    if rest.startswith("{") and match_close(rest, 0) == len(rest) - 1:
        fields, has_rest = {}, False
        for f in split_top(rest[1:-1]):
            f = f.strip()
            if f == "..":
                has_rest = True
                continue
            fn, sep, sub = f.partition(":")
            fields[fn.strip()] = sub.strip() if sep else fn.strip()
        return v, ("struct", fields, has_rest)
    raise Unknown("pattern `%s`" % pat)


def bind_fields(sub, decl_fields, kind, what):
    """-> ({ident: field index}, {field index: literal}) for a variant pattern against its declaration"""
    binds, lits = {}, {}
    n = len(decl_fields)

    def one(idx, p):
        p = p.strip()
        if p == "_":
            return
        if re.match(r"^(true|false|\d+)$", p):
            lits[idx] = p
            return
        mm = re.match(r"^(?:ref\s+)?(\w+)$", p)
        if mm:
            binds[mm.group(1)] = idx
            return
        raise Unknown("%s sub-pattern `%s`" % (what, p))

    if sub[0] in ("unit", "any"):
        if sub[0] == "unit" and kind != "unit":
            raise Unknown("%s unit pattern for a variant with fields" % what)
        return binds, lits
    if sub[0] == "tuple":
        if kind != "tuple":
            raise Unknown("%s tuple pattern for a non-tuple variant" % what)
        ps = sub[1]
        if ".." in ps:
            k = ps.index("..")
            head, tail = ps[:k], ps[k + 1:]
            if ".." in tail or len(head) + len(tail) > n:
                raise Unknown("%s pattern arity" % what)
            for i, p in enumerate(head):
                one(i, p)
            for i, p in enumerate(tail):
                one(n - len(tail) + i, p)
        else:
            if len(ps) != n:
                raise Unknown("%s pattern arity" % what)
            for i, p in enumerate(ps):
                one(i, p)
        return binds, lits
    if sub[0] == "struct":
        if kind != "struct":
            raise Unknown("%s struct pattern for a non-struct variant" % what)
        names = [f for f, _ in decl_fields]
        for fn, p in sub[1].items():
            if fn not in names:
                raise Unknown("%s unknown field %s" % (what, fn))
            one(names.index(fn), p)
        if not sub[2] and len(sub[1]) != n:
            raise Unknown("%s struct pattern misses fields" % what)
        return binds, lits
    raise Unknown(what)


# ----------------------------------------------------------------------------------- expressions -> DExp

class ExprParser:
    """tiny recursive descent over the constructor expressions that occur in `apply` arms"""

    def __init__(self, text, env):
        self.toks = re.findall(r"::|\.\.|[A-Za-z_]\w*|\d+|[(){}\[\],.*&:]|\S", text)
        self.i = 0
        self.env = env  # ident -> Lean DExp text

    def peek(self, k=0):
        return self.toks[self.i + k] if self.i + k < len(self.toks) else None

    def eat(self, t=None):
        x = self.peek()
        if x is None or (t is not None and x != t):
            raise Unknown("expected %s at %s" % (t, " ".join(self.toks[self.i:self.i + 6])))
        self.i += 1
        return x

    def done(self):
        return self.i >= len(self.toks)

    def path(self):
        segs = [self.eat()]
        if not re.match(r"^[A-Za-z_]\w*$", segs[0]):
            raise Unknown("path at `%s`" % segs[0])
        while self.peek() == "::":
            self.eat()
            if self.peek() == "<":  # turbofish
                depth = 0
                while True:
                    t = self.eat()
                    if t == "<":
                        depth += 1
                    elif t == ">":
                        depth -= 1
                        if depth == 0:
                            break
                self.eat("::") if self.peek() == "::" else None
                continue
            segs.append(self.eat())
        return segs

    def args(self, close):
        res = []
        while self.peek() != close:
            res.append(self.expr())
            if self.peek() == ",":
                self.eat()
        self.eat(close)
        return res

    def expr(self):
        """-> ('d', lean_text) for data, with attribute .into = True when `.into()` was applied"""
        t = self.peek()
        if t in ("*", "&"):
            self.eat()
            return self.expr()
        if t == "(":
            self.eat()
            items = self.args(")")
            node = items[0] if len(items) == 1 else ".ctor \"\" [%s]" % ", ".join(items)
        else:
            segs = self.path()
            if self.peek() == "(":
                self.eat()
                a = self.args(")")
                node = self.ctor(segs, a)
            elif self.peek() == "{" and segs[-1][0].isupper():
                self.eat()
                a = []
                while self.peek() != "}":
                    fn = self.eat()
                    if self.peek() == ":":
                        self.eat()
                        a.append(self.expr())
                    else:
                        a.append(self.ident(fn))
                    if self.peek() == ",":
                        self.eat()
                self.eat("}")
                node = self.ctor(segs, a)
            elif len(segs) == 1 and not segs[0][0].isupper():
                node = self.ident(segs[0])
            else:
                node = self.ctor(segs, [])
        while self.peek() == ".":
            self.eat()
            meth = self.eat()
            self.eat("(")
            self.eat(")")
            if meth in ("clone", "to_vec", "to_owned"):
                continue
            raise Unknown("method .%s()" % meth)
        return node

    def ident(self, name):
        if name in self.env:
            return self.env[name]
        raise Unknown("free identifier `%s`" % name)

    def ctor(self, segs, a):
        last = segs[-1]
        if last[0].isupper():
            tag = last
        elif segs == ["Vec", "new"] and not a:
            tag = "Vec::new"
        else:
            raise Unknown("call of `%s`" % "::".join(segs))
        return ".ctor \"%s\" [%s]" % (tag, ", ".join(a))


def parse_result(expr, env, state_enum, from_impls):
    """`Ok(Self::V(..))` / `Ok(<data>.into())` / `Err(Error::K)` -> Lean `Res` text"""
    expr = expr.strip().rstrip(",").strip()
    m = re.match(r"^Err\(\s*(?:\w+::)*(\w+)\s*\)$", expr)
    if m:
        return '.err "%s"' % m.group(1)
    if not (expr.startswith("Ok(") and match_close(expr, 2) == len(expr) - 1):
        raise Unknown("result `%s`" % expr[:80])
    inner = expr[3:-1].strip().rstrip(",").strip()
    variants = {v: (k, f) for v, k, f in state_enum}
    m = re.match(r"^(?:Self|State)::(\w+)\s*(.*)$", inner, flags=re.S)
    if m and m.group(1) in variants:
        v, rest = m.group(1), m.group(2).strip()
        kind, fields = variants[v]
        if not rest:
            if kind != "unit":
                raise Unknown("result `%s`: variant with fields built without them" % inner)
            return '.ok "%s" []' % v
        if rest.startswith("(") and match_close(rest, 0) == len(rest) - 1:
            p = ExprParser(rest[1:-1], env)
            a = p.args(None) if False else []
            while not p.done():
                a.append(p.expr())
                if p.peek() == ",":
                    p.eat()
            if len(a) != len(fields):
                raise Unknown("result `%s`: arity" % inner)
            return '.ok "%s" [%s]' % (v, ", ".join(a))
        raise Unknown("result `%s`" % inner[:80])
    m = re.match(r"^(.*)\.into\(\)$", inner, flags=re.S)
    if m:
        head = re.match(r"^\s*(\w+)::", m.group(1))
        if head and head.group(1) in from_impls:
            v = from_impls[head.group(1)]
            p = ExprParser(m.group(1), env)
            d = p.expr()
            if not p.done():
                raise Unknown("result `%s`" % inner[:80])
            return '.ok "%s" [%s]' % (v, d)
    raise Unknown("result `%s`" % inner[:80])


# ----------------------------------------------------------------------------------- network2: State::apply

def bool_aliases(src):
    return {"bool"} | set(re.findall(r"\btype\s+(\w+)\s*=\s*bool\s*;", src))


# message variants whose state-machine meaning depends on a bool field (MsgRequestTxIds blocking / non-blocking)
SPLIT_VARIANTS = {"RequestTxIds"}


def message_classes(msg_enum, bools):
    """-> [(class name, variant, {field index: literal})]; the bool-typed field of a SPLIT_VARIANTS
    variant splits it into two classes (a literal pattern on any other field is reported as unknown)"""
    res = []
    for v, kind, fields in msg_enum:
        split = [i for i, (_, t) in enumerate(fields) if t.strip() in bools] if v in SPLIT_VARIANTS else []
        if not split:
            res.append((v, v, {}))
        else:
            i = split[0]
            for lit in ("true", "false"):
                res.append(("%s(%s)" % (v, lit), v, {i: lit}))
    return res


def n2_protocol(name, src, unknowns):
    src = strip_comments(src)
    st_enum = parse_enum(src, "State")
    msg_enum = parse_enum(src, "Message")
    if st_enum is None or msg_enum is None:
        unknowns.append("%s: State/Message enum not parsed" % name)
        return None
    bools = bool_aliases(src)
    mclasses = message_classes(msg_enum, bools)
    # From<T> for State  =>  State::V(x)
    from_impls = {}
    for m in re.finditer(r"impl(?:<[^>]*>)?\s+From<\s*(\w+)[^{]*>\s+for\s+State\b[^{]*\{", src):
        o = m.end() - 1
        body = src[o:match_close(src, o)]
        mm = re.search(r"(?:State|Self)::(\w+)\(\s*\w+\s*\)", body)
        if mm:
            from_impls[m.group(1)] = mm.group(1)
        else:
            unknowns.append("%s: From<%s> for State body" % (name, m.group(1)))
    # initial state
    init = None
    m = re.search(r"impl(?:<[^>]*>)?\s+Default\s+for\s+State\b[^{]*\{", src)
    if m:
        o = m.end() - 1
        body = src[o:match_close(src, o)]
        fb = find_fn(body, "default")
        if fb:
            try:
                init = parse_result("Ok(%s)" % fb[0].strip(), {}, st_enum, from_impls)
            except Unknown as e:
                unknowns.append("%s: default(): %s" % (name, e))
    else:
        raw = src[re.search(r"\benum\s+State\b", src).start():]
        raw = raw[:match_close(raw, raw.find("{")) + 1]
        mm = re.search(r"#\[default\]\s*(\w+)", raw)
        if mm:
            init = '.ok "%s" []' % mm.group(1)
    if init is None:
        unknowns.append("%s: initial state not found" % name)
        init = '.err "unknown"'
    # apply
    impl_pos = [m.start() for m in re.finditer(r"\bimpl(?:<[^>]*>)?\s+State\b", src)]
    fb = None
    for p in impl_pos:
        o = src.find("{", p)
        c = match_close(src, o)
        f = find_fn(src[o:c + 1], "apply")
        if f:
            fb = f[0]
            break
    if fb is None:
        unknowns.append("%s: State::apply not found" % name)
        return None
    top = find_match(fb)
    if top is None or top[0] != "self" or fb[top[2] + 1:].strip():
        unknowns.append("%s: apply is not a single `match self`" % name)
        return None
    if fb[:fb.find("match")].strip():
        unknowns.append("%s: statements before `match self` in apply" % name)
    outer = []
    for pat, expr in split_arms(top[1]):
        try:
            v, sub = parse_variant_pattern(pat, {"Self", "State"})
            outer.append((v, sub, expr, pat))
        except Unknown as e:
            unknowns.append("%s: apply: %s" % (name, e))
    st_decl = {v: (k, f) for v, k, f in st_enum}
    msg_decl = {v: (k, f) for v, k, f in msg_enum}
    rows = []
    for sv, skind, sfields in st_enum:
        arm = next((a for a in outer if a[0] in (sv, None)), None)
        for mc, mv, mlits in mclasses:
            tag = "%s: %s + %s" % (name, sv, mc)
            if arm is None:
                unknowns.append(tag + ": no arm (non-exhaustive?)")
                rows.append((sv, mc, '.err "unknown"'))
                continue
            try:
                sbind, slits = bind_fields(arm[1], sfields, skind, "state") if arm[0] else ({}, {})
                if slits:
                    raise Unknown("literal in a state pattern")
                env = {k: ".stArg %d" % i for k, i in sbind.items()}
                expr = arm[2]
                if expr is None:
                    raise Unknown("arm without body")
                if re.match(r"^match\b", expr):
                    scrut, inner, end = find_match(expr)
                    if scrut != "msg":
                        raise Unknown("inner match on `%s`" % scrut)
                    chosen = None
                    for ipat, iexpr in split_arms(inner):
                        if "|" in ipat or " if " in ipat:
                            raise Unknown("or-pattern / guard `%s`" % ipat)
                        iv, isub = parse_variant_pattern(ipat, {"Message"})
                        if iv is None:
                            chosen = ({}, iexpr)
                            break
                        if iv != mv:
                            continue
                        mk, mf = msg_decl[mv]
                        mbind, lits = bind_fields(isub, mf, mk, "message")
                        if any(mlits.get(i, lit) != lit for i, lit in lits.items()):
                            continue
                        if any(i not in mlits for i in lits):
                            raise Unknown("literal pattern on an unsplit field in `%s`" % ipat)
                        chosen = ({k: ".msgArg %d" % i for k, i in mbind.items()}, iexpr)
                        break
                    if chosen is None:
                        raise Unknown("no message arm applies")
                    env2 = dict(env)
                    env2.update(chosen[0])
                    res = parse_result(chosen[1], env2, st_enum, from_impls)
                else:
                    res = parse_result(expr, env, st_enum, from_impls)
                rows.append((sv, mc, res))
            except Unknown as e:
                unknowns.append("%s: %s" % (tag, e))
                rows.append((sv, mc, '.err "unknown"'))
    return {
        "name": name,
        "states": [(v, len(f)) for v, _, f in st_enum],
        "msgs": [(mc, len(msg_decl[mv][1])) for mc, mv, _ in mclasses],
        "init": init,
        "rows": rows,
    }


def lean_str(s):
    return '"' + s.replace("\\", "\\\\").replace('"', '\\"') + '"'


def emit_protos(ns, header, protos, unknowns):
    out = ["-- GENERATED by lib/translate_fsm.py from %s — do not edit" % header,
           "import PallasVerif.Model.Fsm", "namespace PallasVerif.Gen.%s" % ns, "open PallasVerif.Fsm", ""]
    for p in protos:
        init = p["init"]
        m = re.match(r'^\.ok ("[^"]*") \[(.*)\]$', init)
        init_txt = "(%s, [%s])" % (m.group(1), m.group(2)) if m else '("?", [])'
        out.append("def %s : Proto where" % p["lean_name"])
        out.append("  name := %s" % lean_str(p["name"]))
        out.append("  states := [%s]" % ", ".join("(%s, %d)" % (lean_str(a), b) for a, b in p["states"]))
        out.append("  msgs := [%s]" % ", ".join("(%s, %d)" % (lean_str(a), b) for a, b in p["msgs"]))
        out.append("  init := %s" % init_txt)
        out.append("  rows := [")
        out.append(",\n".join("    ⟨%s, %s, %s⟩" % (lean_str(s), lean_str(m_), r) for s, m_, r in p["rows"]))
        out.append("  ]")
        out.append("")
    out.append("def protos : List Proto := [%s]" % ", ".join(p["lean_name"] for p in protos))
    out.append("")
    out.append("/-- constructs of the sources the translator could not classify (must be empty) -/")
    out.append("def unknowns : List String := [%s]" % ", ".join(lean_str(u) for u in unknowns))
    out.append("")
    out.append("end PallasVerif.Gen.%s" % ns)
    return "\n".join(out) + "\n"


def write_if_changed(path, txt):
    try:
        if open(path).read() == txt:
            return
    except OSError:
        pass
    os.makedirs(os.path.dirname(path), exist_ok=True)
    with open(path, "w") as f:
        f.write(txt)


def n2_tables(repo):
    base = os.path.join(repo, "pallas-network2", "src", "protocol")
    unknowns, protos = [], []
    files = []
    for f in sorted(os.listdir(base)):
        p = os.path.join(base, f)
        if os.path.isdir(p) and os.path.exists(os.path.join(p, "mod.rs")):
            files.append((f, os.path.join(p, "mod.rs")))
        elif f.endswith(".rs") and f != "mod.rs":
            files.append((f[:-3], p))
    for name, path in files:
        src = open(path).read()
        if not re.search(r"\bfn\s+apply\b", strip_comments(src)):
            continue  # no state machine in this file (common.rs, cddl.rs)
        p = n2_protocol(name, src, unknowns)
        if p:
            p["lean_name"] = name
            protos.append(p)
    return protos, unknowns


def translate_n2(repo, lean):
    protos, unknowns = n2_tables(repo)
    if not protos:
        unknowns.append("no State::apply found under pallas-network2/src/protocol")
    txt = emit_protos("FsmN2", "pallas-network2/src/protocol/**  (State::apply)", protos, unknowns)
    write_if_changed(os.path.join(lean, "PallasVerif", "Gen", "FsmN2.lean"), txt)



# ----------------------------------------------------------------------------------- network1: agents

N1_PROTOCOLS = ["handshake", "chainsync", "blockfetch", "txsubmission", "keepalive", "peersharing",
                "localstate", "localtxsubmission", "txmonitor"]
ASSIGN = re.compile(r"\bself\s*\.\s*(?:0|state)\s*=\s*State::(\w+)")


def norm(s):
    return re.sub(r"\s+", "", s)


def alt_split(pat):
    return [x.strip() for x in split_top(pat, "|")]


def classes_of_state_pat(pat, st_enum):
    """state pattern (with `|`) -> set of state classes"""
    allv = [v for v, _, _ in st_enum]
    res = set()
    for alt in alt_split(pat):
        alt = alt.lstrip("&").strip()
        if alt == "_":
            return set(allv)
        v, sub = parse_variant_pattern(alt, {"State", "Self"})
        if v not in allv:
            raise Unknown("state `%s`" % alt)
        kind, fields = next((k, f) for vv, k, f in st_enum if vv == v)
        b, lits = bind_fields(sub, fields, kind, "state")
        if lits:
            raise Unknown("literal in state pattern `%s`" % alt)
        res.add(v)
    return res


def classes_of_msg_pat(pat, msg_enum, mclasses):
    """message pattern (with `|`) -> set of message classes"""
    res = set()
    for alt in alt_split(pat):
        alt = alt.lstrip("&").strip()
        if alt == "_":
            return {c for c, _, _ in mclasses}
        v, sub = parse_variant_pattern(alt, {"Message"})
        decl = next(((k, f) for vv, k, f in msg_enum if vv == v), None)
        if decl is None:
            raise Unknown("message `%s`" % alt)
        b, lits = bind_fields(sub, decl[1], decl[0], "message")
        for c, vv, ml in mclasses:
            if vv != v:
                continue
            if any(i not in ml for i in lits):
                raise Unknown("literal pattern on an unsplit field in `%s`" % alt)
            if all(ml[i] == lit for i, lit in lits.items()):
                res.add(c)
    return res


def fn_bodies(src):
    """-> [(name, body)] of every fn in src"""
    res = []
    for m in re.finditer(r"\bfn\s+(\w+)\b", src):
        o = src.find("{", m.end())
        semi = src.find(";", m.end())
        if o < 0 or (0 <= semi < o):
            continue
        try:
            c = match_close(src, o)
        except ValueError:
            continue
        res.append((m.group(1), src[o + 1:c], o + 1))
    return res


def enclosing_block_end(text, pos):
    """index of the `}` (or len) closing the innermost `{` block that contains pos"""
    depth = 0
    i = pos
    while i < len(text):
        c = text[i]
        if c == "{":
            depth += 1
        elif c == "}":
            if depth == 0:
                return i
            depth -= 1
        i += 1
    return len(text)


def enclosing_block_header(text, pos):
    """text between the previous statement end and the `{` that opens the innermost block containing pos"""
    depth = 0
    i = pos - 1
    while i >= 0:
        c = text[i]
        if c == "}":
            depth += 1
        elif c == "{":
            if depth == 0:
                j = i - 1
                while j >= 0 and text[j] not in ";{}":
                    j -= 1
                return text[j + 1:i].strip()
            depth -= 1
        i -= 1
    return ""


def depth0_segments(text):
    """yield (start, end) of the parts of text at brace depth 0"""
    depth, start = 0, 0
    for i, c in enumerate(text):
        if c == "{":
            if depth == 0:
                yield (start, i)
            depth += 1
        elif c == "}":
            depth -= 1
            if depth == 0:
                start = i + 1
    yield (start, len(text))


def n1_agent(proto, role, src, psrc, unknowns):
    tag = "%s/%s" % (proto, role)
    src = strip_comments(src)
    psrc = strip_comments(psrc)
    st_enum, msg_enum = parse_enum(psrc, "State"), parse_enum(psrc, "Message")
    if st_enum is None or msg_enum is None:
        unknowns.append("%s: State/Message enum not parsed" % tag)
        return None
    bools = bool_aliases(psrc) | bool_aliases(src)
    mclasses = message_classes(msg_enum, bools)
    msg_decl = {v: (k, f) for v, k, f in msg_enum}
    states = [v for v, _, _ in st_enum]
    fns = fn_bodies(src)
    fmap = {}
    for name, body, off in fns:
        fmap.setdefault(name, body)

    def need(name):
        if name not in fmap:
            unknowns.append("%s: fn %s not found" % (tag, name))
            return None
        return fmap[name]

    # --- initial state
    init = None
    nb = need("new")
    if nb is not None:
        m = re.search(r"Self\s*\(\s*State::(\w+)", nb) or re.search(r"\bstate\s*:\s*State::(\w+)", nb)
        if m:
            init = m.group(1)
    if init is None:
        unknowns.append("%s: initial state not found in new()" % tag)
        init = "?"

    # --- has_agency
    agency = []
    hb = need("has_agency")
    if hb is not None:
        mt = find_match(hb)
        mm_ = re.match(r"^(!?)\s*matches!\(\s*(?:self\.state\(\)|&?self\.0|&?self\.state)\s*,(.*)\)$", hb.strip(), flags=re.S)
        if mm_:
            try:
                yes = classes_of_state_pat(mm_.group(2).strip(), st_enum)
                neg = mm_.group(1) == "!"
                agency = [(sv, "true" if (sv in yes) != neg else "false") for sv in states]
            except Unknown as e:
                unknowns.append("%s: has_agency: %s" % (tag, e))
        elif not mt or hb[mt[2] + 1:].strip() or norm(mt[0]) not in ("self.state()", "&self.0", "self.0", "&self.state", "self.state"):
            unknowns.append("%s: has_agency is not a single match on the state" % tag)
        else:
            arms = split_arms(mt[1])
            for sv in states:
                val = None
                for pat, expr in arms:
                    try:
                        if sv in classes_of_state_pat(pat, st_enum):
                            if expr in ("true", "false"):
                                val = expr
                            else:
                                unknowns.append("%s: has_agency arm `%s => %s`" % (tag, pat, expr))
                            break
                    except Unknown as e:
                        unknowns.append("%s: has_agency: %s" % (tag, e))
                if val is None:
                    unknowns.append("%s: has_agency has no arm for %s" % (tag, sv))
                    val = "false"
                agency.append((sv, val))

    # --- assert_agency_is_* / send_message / recv_message shapes
    b = need("assert_agency_is_ours")
    if b is not None and not re.match(r"^if!self\.has_agency\(\)\{Err\(\w+::AgencyIsTheirs\)\}else\{Ok\(\(\)\)\}$", norm(b)):
        unknowns.append("%s: assert_agency_is_ours has an unexpected shape" % tag)
    b = need("assert_agency_is_theirs")
    if b is not None and not re.match(r"^ifself\.has_agency\(\)\{Err\(\w+::AgencyIsOurs\)\}else\{Ok\(\(\)\)\}$", norm(b)):
        unknowns.append("%s: assert_agency_is_theirs has an unexpected shape" % tag)
    b = need("send_message")
    if b is not None and not re.match(
            r"^self\.assert_agency_is_ours\(\)\?;self\.assert_outbound_state\(msg\)\?;self\.\w+\.send_msg_chunks\(msg\)\.await\.map_err\([\w:]+\)\?;Ok\(\(\)\)$", norm(b)):
        unknowns.append("%s: send_message has an unexpected shape" % tag)
    b = need("recv_message")
    if b is not None and not re.match(
            r"^self\.assert_agency_is_theirs\(\)\?;letmsg=self\.\w+\.recv_full_msg\(\)\.await\.map_err\([\w:]+\)\?;self\.assert_inbound_state\(&msg\)\?;Ok\(msg\)$", norm(b)):
        unknowns.append("%s: recv_message has an unexpected shape" % tag)

    # --- outbound / inbound tables
    errkinds = {}

    def table(fname):
        acc = []
        tb = need(fname)
        if tb is None:
            return acc
        mt = find_match(tb)
        if not mt or tb[mt[2] + 1:].strip() or norm(mt[0]) not in ("(&self.0,msg)", "(&self.state,msg)"):
            unknowns.append("%s: %s is not a single match on (state, msg)" % (tag, fname))
            return acc
        arms = []
        for pat, expr in split_arms(mt[1]):
            try:
                if pat.strip() == "_":
                    sset, mset = set(states), {c for c, _, _ in mclasses}
                else:
                    if not (pat.startswith("(") and match_close(pat, 0) == len(pat) - 1):
                        raise Unknown("arm pattern `%s`" % pat)
                    parts = split_top(pat[1:-1])
                    if len(parts) != 2:
                        raise Unknown("arm pattern `%s`" % pat)
                    sset = classes_of_state_pat(parts[0], st_enum)
                    mset = classes_of_msg_pat(parts[1], msg_enum, mclasses)
                e = norm(expr or "")
                if e == "Ok(())":
                    ok = True
                elif re.match(r"^Err\([\w:]+\)$", e):
                    ok = False
                    kind_ = re.match(r"^Err\((?:\w+::)*(\w+)\)$", e).group(1)
                    if errkinds.setdefault(fname, kind_) != kind_:
                        raise Unknown("different error kinds in %s" % fname)
                else:
                    raise Unknown("arm result `%s`" % expr)
                arms.append((sset, mset, ok))
            except Unknown as e:
                unknowns.append("%s: %s: %s" % (tag, fname, e))
        for sv in states:
            for c, _, _ in mclasses:
                hit = next((a for a in arms if sv in a[0] and c in a[1]), None)
                if hit is None:
                    unknowns.append("%s: %s: no arm for (%s, %s)" % (tag, fname, sv, c))
                elif hit[2]:
                    acc.append((sv, c))
        return acc

    outbound = table("assert_outbound_state")
    inbound = table("assert_inbound_state")

    # --- state updates in the methods
    sends, recvs = [], []
    skip = {"new", "has_agency", "assert_agency_is_ours", "assert_agency_is_theirs", "assert_outbound_state",
            "assert_inbound_state", "send_message", "recv_message", "state", "is_done"}
    for name, body, _ in fns:
        if name in skip:
            continue
        total = len(ASSIGN.findall(body))
        attributed = 0
        try:
            # sends
            for m in re.finditer(r"self\s*\.\s*send_message\(\s*&(\w+)\s*\)\s*\.await\s*\?\s*;", body):
                ident = m.group(1)
                lets = [x for x in re.finditer(r"\blet\s+%s\s*=\s*Message::(\w+)" % re.escape(ident), body[:m.start()])]
                if not lets:
                    raise Unknown("send_message(&%s) without `let %s = Message::..`" % (ident, ident))
                let = lets[-1]
                v = let.group(1)
                if v not in msg_decl:
                    raise Unknown("sends unknown message %s" % v)
                # constructor arguments (to resolve a split field)
                argtxt = ""
                k = let.end()
                while k < len(body) and body[k] in " \t\r\n":
                    k += 1
                if body.startswith("::<", k):
                    k = body.find(">", k) + 1
                if k < len(body) and body[k] == "(":
                    argtxt = body[k + 1:match_close(body, k)]
                args = split_top(argtxt)
                end = enclosing_block_end(body, m.end())
                rest = body[m.end():end]
                nxt = re.search(r"\blet\s+\w+\s*=\s*Message::", rest)
                if nxt:
                    rest = rest[:nxt.start()]
                classes = [(c, ml) for c, vv, ml in mclasses if vv == v]
                found = None
                # `if let State::V(..) = self.state() { .. send .. }`: the method does nothing in other states
                guard = None
                hdr = enclosing_block_header(body, m.start())
                gm = re.match(r"^if\s+let\s+State::(\w+)\s*(?:\([^)]*\))?\s*=\s*&?\s*self\s*\.\s*(?:state\(\)|0|state)\b[^{]*$", hdr)
                if gm:
                    guard = gm.group(1)
                elif re.match(r"^(if|while)\b", hdr):
                    raise Unknown("send under a condition `%s` in %s" % (hdr[:60], name))
                # `match flag { true => self.0 = A, false => self.0 = B }`
                mm = re.search(r"\bmatch\s+(\w+)\s*\{", rest)
                if mm and len(classes) == 2:
                    o = rest.find("{", mm.start())
                    c = match_close(rest, o)
                    fld = next(iter(classes[0][1].keys()))
                    if fld < len(args) and args[fld].strip() == mm.group(1):
                        per = {}
                        for pat, expr in split_arms(rest[o + 1:c]):
                            a = ASSIGN.findall(expr or "")
                            if pat.strip() in ("true", "false") and len(a) == 1:
                                per[pat.strip()] = a[0]
                            else:
                                raise Unknown("match on the split field after send in %s" % name)
                        for cname, ml in classes:
                            sends.append((name, cname, per[ml[fld]], False, guard))
                            attributed += 1
                        found = True
                if not found:
                    target = None
                    for a, b_ in depth0_segments(rest):
                        am = ASSIGN.search(rest, a, b_)
                        if am:
                            target = am.group(1)
                            attributed += 1
                            break
                    for cname, ml in classes:
                        sends.append((name, cname, target, False, guard))
            # recvs
            n_recvs_before = len(recvs)
            for m in re.finditer(r"self\s*\.\s*recv_message\(\)\s*\.await\s*\?", body):
                before = body[:m.start()].rstrip()
                arms_txt = None
                if before.endswith("match"):
                    o = body.find("{", m.end())
                    arms_txt = body[o + 1:match_close(body, o)]
                else:
                    lm = re.search(r"\blet\s+(\w+)\s*=\s*$", before)
                    if lm:
                        mm = re.search(r"\bmatch\s+%s\s*\{" % re.escape(lm.group(1)), body[m.end():])
                        if not mm:
                            raise Unknown("received message is not matched in %s" % name)
                        o = m.end() + mm.end() - 1
                        arms_txt = body[o + 1:match_close(body, o)]
                if arms_txt is None:
                    # bare `self.recv_message().await?;` : whatever the inbound table lets through
                    end = enclosing_block_end(body, m.end())
                    rest = body[m.end():end]
                    target = None
                    for a, b_ in depth0_segments(rest):
                        am = ASSIGN.search(rest, a, b_)
                        if am:
                            target = am.group(1)
                            attributed += 1
                            break
                    recvs.append((name, "*", target, False))
                    continue
                for pat, expr in split_arms(arms_txt):
                    pat = pat.strip()
                    expr = expr or ""
                    if pat == "_":
                        if not re.match(r"^Err\([\w:]+\)$", norm(expr)):
                            raise Unknown("wildcard arm of %s is not an error" % name)
                        continue
                    v, sub = parse_variant_pattern(pat, {"Message"})
                    if v not in msg_decl:
                        raise Unknown("arm for unknown message %s" % v)
                    mbind, lits = bind_fields(sub, msg_decl[v][1], msg_decl[v][0], "message")
                    if lits:
                        raise Unknown("literal in arm pattern `%s`" % pat)
                    classes = [(c, ml) for c, vv, ml in mclasses if vv == v]
                    assigns = ASSIGN.findall(expr)
                    inner = re.match(r"^match\s+(\w+)\s*\{", expr)
                    if inner and len(classes) == 2 and mbind.get(inner.group(1)) == next(iter(classes[0][1].keys())):
                        o = expr.find("{")
                        per = {}
                        for ipat, iexpr in split_arms(expr[o + 1:match_close(expr, o)]):
                            a = ASSIGN.findall(iexpr or "")
                            if ipat.strip() in ("true", "false") and len(a) <= 1 and not re.search(r"\b(match|if)\b", iexpr or ""):
                                per[ipat.strip()] = a[0] if a else None
                                attributed += len(a)
                            else:
                                raise Unknown("match on the split field in arm `%s` of %s" % (pat, name))
                        fld = next(iter(classes[0][1].keys()))
                        for cname, ml in classes:
                            recvs.append((name, cname, per[ml[fld]], False))
                        continue
                    cond = False
                    if re.search(r"\b(match|if)\b", expr):
                        # accepted only: a nested match on the own state with a guarded arm holding the assignment
                        g = re.search(r"\bmatch\s+self\s*\.\s*(?:state\(\)|0|state)\s*\{", expr)
                        if g and len(assigns) == 1 and re.search(r"State::\w+\([^)]*\)\s+if\s+[^{]*=>\s*\{[^}]*" + ASSIGN.pattern, expr):
                            cond = True
                        else:
                            raise Unknown("control flow in arm `%s` of %s" % (pat, name))
                    if len(assigns) > 1:
                        raise Unknown("several state assignments in arm `%s` of %s" % (pat, name))
                    attributed += len(assigns)
                    for cname, ml in classes:
                        recvs.append((name, cname, assigns[0] if assigns else None, cond))
            # `if self.0 != State::G { return Err(E::K); }` in front of the receive
            rets = list(re.finditer(r"\breturn\b", body))
            if rets:
                gm = re.search(r"if\s+self\s*\.\s*(?:0|state)\s*!=\s*State::(\w+)\s*\{\s*return\s+Err\(\s*(?:\w+::)*(\w+)\s*\)\s*;?\s*\}", body)
                if len(rets) == 1 and gm and len(recvs) > n_recvs_before and gm.end() <= body.find("recv_message"):
                    for i_ in range(n_recvs_before, len(recvs)):
                        recvs[i_] = recvs[i_] + (gm.group(1), gm.group(2))
                elif len(recvs) > n_recvs_before or re.search(r"send_message", body):
                    raise Unknown("early return in %s" % name)
        except (Unknown, ValueError) as e:
            unknowns.append("%s: fn %s: %s" % (tag, name, e))
            continue
        if attributed != total:
            unknowns.append("%s: fn %s: %d state assignment(s) not attributed to a send/receive" % (tag, name, total - attributed))
    recvs = [r if len(r) == 6 else r + (None, "NoOp") for r in recvs]
    sends = [x + ("NoOp",) for x in sends]
    for _, _, t_, _, _, _ in sends + recvs:
        if t_ is not None and t_ not in states:
            unknowns.append("%s: assignment of unknown state %s" % (tag, t_))
    return {"proto": proto, "role": role, "states": states, "msgs": [c for c, _, _ in mclasses], "init": init,
            "agency": agency, "outbound": outbound, "inbound": inbound, "sends": sends, "recvs": recvs,
            "outboundErr": errkinds.get("assert_outbound_state", "InvalidOutbound"),
            "inboundErr": errkinds.get("assert_inbound_state", "InvalidInbound")}


def n1_tables(repo):
    base = os.path.join(repo, "pallas-network", "src", "miniprotocols")
    unknowns, agents, others = [], [], []
    for d in sorted(os.listdir(base)):
        dp = os.path.join(base, d)
        if not os.path.isdir(dp):
            continue
        if d not in N1_PROTOCOLS:
            others.append(d)
            continue
        pp = os.path.join(dp, "protocol.rs")
        for role in ("client", "server"):
            rp = os.path.join(dp, role + ".rs")
            if not os.path.exists(rp):
                continue
            if not os.path.exists(pp):
                unknowns.append("%s: protocol.rs missing" % d)
                continue
            a = n1_agent(d, role, open(rp).read(), open(pp).read(), unknowns)
            if a:
                agents.append(a)
    for d in N1_PROTOCOLS:
        if not os.path.isdir(os.path.join(base, d)):
            unknowns.append("protocol directory %s missing" % d)
    return agents, unknowns, others


def emit_agents(agents, unknowns, others):
    out = ["-- GENERATED by lib/translate_fsm.py from pallas-network/src/miniprotocols/*/{client,server}.rs — do not edit",
           "import PallasVerif.Model.Agent", "namespace PallasVerif.Gen.FsmN1", "open PallasVerif.Fsm PallasVerif.Agent", ""]

    def opt(x):
        return "none" if x is None else "some %s" % lean_str(x)

    def steps(l):
        return "[" + ", ".join("⟨%s, %s, %s, %s, %s, %s⟩" % (lean_str(f), lean_str(m), opt(t_), "true" if c else "false", opt(g), lean_str(ge))
                                for f, m, t_, c, g, ge in l) + "]"

    names = []
    for a in agents:
        n = "%s_%s" % (a["proto"], a["role"])
        names.append(n)
        out.append("def %s : Agent where" % n)
        out.append("  proto := %s" % lean_str(a["proto"]))
        out.append("  role := .%s" % a["role"])
        out.append("  states := [%s]" % ", ".join(lean_str(x) for x in a["states"]))
        out.append("  msgs := [%s]" % ", ".join(lean_str(x) for x in a["msgs"]))
        out.append("  init := %s" % lean_str(a["init"]))
        out.append("  agency := [%s]" % ", ".join("(%s, %s)" % (lean_str(s), v) for s, v in a["agency"]))
        out.append("  outbound := [%s]" % ", ".join("(%s, %s)" % (lean_str(s), lean_str(m)) for s, m in a["outbound"]))
        out.append("  inbound := [%s]" % ", ".join("(%s, %s)" % (lean_str(s), lean_str(m)) for s, m in a["inbound"]))
        out.append("  sends := %s" % steps(a["sends"]))
        out.append("  recvs := %s" % steps(a["recvs"]))
        out.append("  outboundErr := %s" % lean_str(a["outboundErr"]))
        out.append("  inboundErr := %s" % lean_str(a["inboundErr"]))
        out.append("")
    out.append("def agents : List Agent := [%s]" % ", ".join(names))
    out.append("")
    out.append("/-- mini-protocol directories outside C23's quantifier (not translated) -/")
    out.append("def notCovered : List String := [%s]" % ", ".join(lean_str(x) for x in others))
    out.append("")
    out.append("/-- constructs of the sources the translator could not classify (must be empty) -/")
    out.append("def unknowns : List String := [%s]" % ", ".join(lean_str(u) for u in unknowns))
    out.append("")
    out.append("end PallasVerif.Gen.FsmN1")
    return "\n".join(out) + "\n"


def translate_n1(repo, lean):
    agents, unknowns, others = n1_tables(repo)
    if not agents:
        unknowns.append("no agents found under pallas-network/src/miniprotocols")
    write_if_changed(os.path.join(lean, "PallasVerif", "Gen", "FsmN1.lean"), emit_agents(agents, unknowns, others))


if __name__ == "__main__":
    import sys
    repo = sys.argv[1] if len(sys.argv) > 1 else os.environ.get("PV_REPO", "/repo")
    if len(sys.argv) > 2 and sys.argv[2] == "n1":
        print(emit_agents(*n1_tables(repo)))
    else:
        protos, unknowns = n2_tables(repo)
        print(emit_protos("FsmN2", "x", protos, unknowns))
