"""Tie A for C23 / C24: regenerate the Lean transition tables from the pallas sources.

  translate_n2(repo, lean)  pallas-network2/src/protocol/**  `State::apply`      -> Gen/FsmN2.lean
  translate_n1(repo, lean)  pallas-network/src/miniprotocols/*/{client,server}.rs -> Gen/FsmN1.lean

Both work on a very regular subset of Rust (enum declarations, `match` tables whose arms are
`pattern => Ok(..) | Err(..)`, state assignments `self.0 = State::X`).  They fail *closed*: whatever
is not recognised is put into the generated `unknowns` list, and the property modules prove
`unknowns = []` by `decide`, so an unparsed construct breaks the build instead of being skipped.
The translators resolve Rust's first-match-wins semantics themselves: the generated table has one
row per (state class, message class) of the *complete* product.
"""
import os
import re

# ----------------------------------------------------------------------------------- lexical helpers


def strip_comments(src):
    src = re.sub(r"/\*.*?\*/", " ", src, flags=re.S)
    out = []
    for line in src.split("\n"):
        # no string literal in the tables we read contains `//`
        i = line.find("//")
        out.append(line if i < 0 else line[:i])
    return "\n".join(out)


OPEN = {"(": ")", "[": "]", "{": "}"}
CLOSE = {")", "]", "}"}


def match_close(s, i):
    """s[i] is an opening bracket; index of its partner."""
    depth = 0
    j = i
    while j < len(s):
        c = s[j]
        if c in OPEN:
            depth += 1
        elif c in CLOSE:
            depth -= 1
            if depth == 0:
                return j
        j += 1
    raise ValueError("unbalanced bracket")


def split_top(s, sep=","):
    """split at top-level separators (angle brackets of generics count as brackets)"""
    parts, depth, ang, cur = [], 0, 0, []
    i = 0
    while i < len(s):
        c = s[i]
        if c in OPEN:
            depth += 1
        elif c in CLOSE:
            depth -= 1
        elif c == "<":
            ang += 1
        elif c == ">" and ang > 0 and not (i > 0 and s[i - 1] in "=-"):
            ang -= 1
        if c == sep and depth == 0 and ang == 0:
            parts.append("".join(cur).strip())
            cur = []
        else:
            cur.append(c)
        i += 1
    last = "".join(cur).strip()
    if last:
        parts.append(last)
    return parts


def parse_enum(src, name):
    """-> [(variant, kind, [(fieldname|None, type)])] or None. kind: unit|tuple|struct"""
    m = re.search(r"\benum\s+%s\b[^{;]*\{" % re.escape(name), src)
    if not m:
        return None
    o = m.end() - 1
    body = src[o + 1:match_close(src, o)]
    body = re.sub(r"#\[[^\]]*\]", " ", body)
    res = []
    for part in split_top(body):
        part = part.strip()
        if not part:
            continue
        mm = re.match(r"^(\w+)\s*(.*)$", part, flags=re.S)
        if not mm:
            return None
        v, rest = mm.group(1), mm.group(2).strip()
        if not rest:
            res.append((v, "unit", []))
        elif rest.startswith("("):
            inner = rest[1:match_close(rest, 0)]
            res.append((v, "tuple", [(None, t) for t in split_top(inner)]))
        elif rest.startswith("{"):
            inner = rest[1:match_close(rest, 0)]
            fields = []
            for f in split_top(inner):
                f = re.sub(r"^pub\s+", "", f.strip())
                fn, _, ft = f.partition(":")
                fields.append((fn.strip(), ft.strip()))
            res.append((v, "struct", fields))
        else:
            return None
    return res


def find_fn(src, name, start=0):
    """-> (body_text, end_index) of the first `fn name` at or after start, or None"""
    m = re.compile(r"\bfn\s+%s\b" % re.escape(name)).search(src, start)
    if not m:
        return None
    o = src.find("{", m.end())
    # skip a `where` clause / return type containing no braces
    c = match_close(src, o)
    return src[o + 1:c], c


def find_match(body, start=0):
    """first `match <scrutinee> {` in body at/after start -> (scrutinee, arms_text, end) or None"""
    m = re.compile(r"\bmatch\b").search(body, start)
    if not m:
        return None
    o = body.find("{", m.end())
    c = match_close(body, o)
    return body[m.end():o].strip(), body[o + 1:c], c


def split_arms(text):
    """-> [(pattern, expr)] of a match body"""
    arms = []
    i, n = 0, len(text)
    while i < n:
        while i < n and text[i] in " \t\r\n,":
            i += 1
        if i >= n:
            break
        # pattern up to top-level `=>`
        depth, j = 0, i
        while j < n:
            c = text[j]
            if c in OPEN:
                depth += 1
            elif c in CLOSE:
                depth -= 1
            elif c == "=" and depth == 0 and text[j:j + 2] == "=>":
                break
            j += 1
        if j >= n:
            arms.append((text[i:].strip(), None))
            break
        pat = text[i:j].strip()
        k = j + 2
        while k < n and text[k] in " \t\r\n":
            k += 1
        if k < n and text[k] == "{":
            e = match_close(text, k)
            expr = text[k + 1:e].strip()
            k = e + 1
        elif text.startswith("match", k) and re.match(r"match\b", text[k:]):
            o = text.find("{", k)
            e = match_close(text, o)
            expr = text[k:e + 1].strip()
            k = e + 1
        else:
            depth, e = 0, k
            while e < n:
                c = text[e]
                if c in OPEN:
                    depth += 1
                elif c in CLOSE:
                    depth -= 1
                elif c == "," and depth == 0:
                    break
                e += 1
            expr = text[k:e].strip()
            k = e
        arms.append((pat, expr))
        i = k
    return arms


# ----------------------------------------------------------------------------------- patterns

class Unknown(Exception):
    pass


def parse_variant_pattern(pat, enum_names):
    """`Self::V`, `State::V(a, _)`, `Message::V { f, .. }`, `_`  ->  (variant|None, subpatterns)
    subpatterns: ('tuple', [str]) | ('struct', {field: str}, rest) | ('unit',)"""
    pat = pat.strip()
    if pat == "_":
        return None, ("any",)
    m = re.match(r"^&?\s*(\w+)(?:::<[^>]*>)?::(\w+)\s*(.*)$", pat, flags=re.S)
    if not m or m.group(1) not in enum_names:
        raise Unknown("pattern `%s`" % pat)
    v, rest = m.group(2), m.group(3).strip()
    if not rest:
        return v, ("unit",)
    if rest.startswith("(") and match_close(rest, 0) == len(rest) - 1:
        return v, ("tuple", split_top(rest[1:-1]))
    if rest.startswith("{") and match_close(rest, 0) == len(rest) - 1:
        fields, has_rest = {}, False
        for f in split_top(rest[1:-1]):
            f = f.strip()
            if f == "..":
                has_rest = True
                continue
            fn, sep, sub = f.partition(":")
            fields[fn.strip()] = sub.strip() if sep else fn.strip()
        return v, ("struct", fields, has_rest)
    raise Unknown("pattern `%s`" % pat)


def bind_fields(sub, decl_fields, kind, what):
    """-> ({ident: field index}, {field index: literal}) for a variant pattern against its declaration"""
    binds, lits = {}, {}
    n = len(decl_fields)

    def one(idx, p):
        p = p.strip()
        if p == "_":
            return
        if re.match(r"^(true|false|\d+)$", p):
            lits[idx] = p
            return
        mm = re.match(r"^(?:ref\s+)?(\w+)$", p)
        if mm:
            binds[mm.group(1)] = idx
            return
        raise Unknown("%s sub-pattern `%s`" % (what, p))

    if sub[0] in ("unit", "any"):
        if sub[0] == "unit" and kind != "unit":
            raise Unknown("%s unit pattern for a variant with fields" % what)
        return binds, lits
    if sub[0] == "tuple":
        if kind != "tuple":
            raise Unknown("%s tuple pattern for a non-tuple variant" % what)
        ps = sub[1]
        if ".." in ps:
            k = ps.index("..")
            head, tail = ps[:k], ps[k + 1:]
            if ".." in tail or len(head) + len(tail) > n:
                raise Unknown("%s pattern arity" % what)
            for i, p in enumerate(head):
                one(i, p)
            for i, p in enumerate(tail):
                one(n - len(tail) + i, p)
        else:
            if len(ps) != n:
                raise Unknown("%s pattern arity" % what)
            for i, p in enumerate(ps):
                one(i, p)
        return binds, lits
    if sub[0] == "struct":
        if kind != "struct":
            raise Unknown("%s struct pattern for a non-struct variant" % what)
        names = [f for f, _ in decl_fields]
        for fn, p in sub[1].items():
            if fn not in names:
                raise Unknown("%s unknown field %s" % (what, fn))
            one(names.index(fn), p)
        if not sub[2] and len(sub[1]) != n:
            raise Unknown("%s struct pattern misses fields" % what)
        return binds, lits
    raise Unknown(what)


# ----------------------------------------------------------------------------------- expressions -> DExp

class ExprParser:
    """tiny recursive descent over the constructor expressions that occur in `apply` arms"""

    def __init__(self, text, env):
        self.toks = re.findall(r"::|\.\.|[A-Za-z_]\w*|\d+|[(){}\[\],.*&:]|\S", text)
        self.i = 0
        self.env = env  # ident -> Lean DExp text

    def peek(self, k=0):
        return self.toks[self.i + k] if self.i + k < len(self.toks) else None

    def eat(self, t=None):
        x = self.peek()
        if x is None or (t is not None and x != t):
            raise Unknown("expected %s at %s" % (t, " ".join(self.toks[self.i:self.i + 6])))
        self.i += 1
        return x

    def done(self):
        return self.i >= len(self.toks)

    def path(self):
        segs = [self.eat()]
        if not re.match(r"^[A-Za-z_]\w*$", segs[0]):
            raise Unknown("path at `%s`" % segs[0])
        while self.peek() == "::":
            self.eat()
            if self.peek() == "<":  # turbofish
                depth = 0
                while True:
                    t = self.eat()
                    if t == "<":
                        depth += 1
                    elif t == ">":
                        depth -= 1
                        if depth == 0:
                            break
                self.eat("::") if self.peek() == "::" else None
                continue
            segs.append(self.eat())
        return segs

    def args(self, close):
        res = []
        while self.peek() != close:
            res.append(self.expr())
            if self.peek() == ",":
                self.eat()
        self.eat(close)
        return res

    def expr(self):
        """-> ('d', lean_text) for data, with attribute .into = True when `.into()` was applied"""
        t = self.peek()
        if t in ("*", "&"):
            self.eat()
            return self.expr()
        if t == "(":
            self.eat()
            items = self.args(")")
            node = items[0] if len(items) == 1 else ".ctor \"\" [%s]" % ", ".join(items)
        else:
            segs = self.path()
            if self.peek() == "(":
                self.eat()
                a = self.args(")")
                node = self.ctor(segs, a)
            elif self.peek() == "{" and segs[-1][0].isupper():
                self.eat()
                a = []
                while self.peek() != "}":
                    fn = self.eat()
                    if self.peek() == ":":
                        self.eat()
                        a.append(self.expr())
                    else:
                        a.append(self.ident(fn))
                    if self.peek() == ",":
                        self.eat()
                self.eat("}")
                node = self.ctor(segs, a)
            elif len(segs) == 1 and not segs[0][0].isupper():
                node = self.ident(segs[0])
            else:
                node = self.ctor(segs, [])
        while self.peek() == ".":
            self.eat()
            meth = self.eat()
            self.eat("(")
            self.eat(")")
            if meth in ("clone", "to_vec", "to_owned"):
                continue
            raise Unknown("method .%s()" % meth)
        return node

    def ident(self, name):
        if name in self.env:
            return self.env[name]
        raise Unknown("free identifier `%s`" % name)

    def ctor(self, segs, a):
        last = segs[-1]
        if last[0].isupper():
            tag = last
        elif segs == ["Vec", "new"] and not a:
            tag = "Vec::new"
        else:
            raise Unknown("call of `%s`" % "::".join(segs))
        return ".ctor \"%s\" [%s]" % (tag, ", ".join(a))


def parse_result(expr, env, state_enum, from_impls):
    """`Ok(Self::V(..))` / `Ok(<data>.into())` / `Err(Error::K)` -> Lean `Res` text"""
    expr = expr.strip().rstrip(",").strip()
    m = re.match(r"^Err\(\s*(?:\w+::)*(\w+)\s*\)$", expr)
    if m:
        return '.err "%s"' % m.group(1)
    if not (expr.startswith("Ok(") and match_close(expr, 2) == len(expr) - 1):
        raise Unknown("result `%s`" % expr[:80])
    inner = expr[3:-1].strip().rstrip(",").strip()
    variants = {v: (k, f) for v, k, f in state_enum}
    m = re.match(r"^(?:Self|State)::(\w+)\s*(.*)$", inner, flags=re.S)
    if m and m.group(1) in variants:
        v, rest = m.group(1), m.group(2).strip()
        kind, fields = variants[v]
        if not rest:
            if kind != "unit":
                raise Unknown("result `%s`: variant with fields built without them" % inner)
            return '.ok "%s" []' % v
        if rest.startswith("(") and match_close(rest, 0) == len(rest) - 1:
            p = ExprParser(rest[1:-1], env)
            a = p.args(None) if False else []
            while not p.done():
                a.append(p.expr())
                if p.peek() == ",":
                    p.eat()
            if len(a) != len(fields):
                raise Unknown("result `%s`: arity" % inner)
            return '.ok "%s" [%s]' % (v, ", ".join(a))
        raise Unknown("result `%s`" % inner[:80])
    m = re.match(r"^(.*)\.into\(\)$", inner, flags=re.S)
    if m:
        head = re.match(r"^\s*(\w+)::", m.group(1))
        if head and head.group(1) in from_impls:
            v = from_impls[head.group(1)]
            p = ExprParser(m.group(1), env)
            d = p.expr()
            if not p.done():
                raise Unknown("result `%s`" % inner[:80])
            return '.ok "%s" [%s]' % (v, d)
    raise Unknown("result `%s`" % inner[:80])


# ----------------------------------------------------------------------------------- network2: State::apply

def bool_aliases(src):
    return {"bool"} | set(re.findall(r"\btype\s+(\w+)\s*=\s*bool\s*;", src))


def message_classes(msg_enum, bools):
    """-> [(class name, variant, {field index: literal})]; a bool-typed field splits a variant"""
    res = []
    for v, kind, fields in msg_enum:
        split = [i for i, (_, t) in enumerate(fields) if t.strip() in bools]
        if not split:
            res.append((v, v, {}))
        else:
            i = split[0]
            for lit in ("true", "false"):
                res.append(("%s(%s)" % (v, lit), v, {i: lit}))
    return res


def n2_protocol(name, src, unknowns):
    src = strip_comments(src)
    st_enum = parse_enum(src, "State")
    msg_enum = parse_enum(src, "Message")
    if st_enum is None or msg_enum is None:
        unknowns.append("%s: State/Message enum not parsed" % name)
        return None
    bools = bool_aliases(src)
    mclasses = message_classes(msg_enum, bools)
    # From<T> for State  =>  State::V(x)
    from_impls = {}
    for m in re.finditer(r"impl(?:<[^>]*>)?\s+From<\s*(\w+)[^{]*>\s+for\s+State\b[^{]*\{", src):
        o = m.end() - 1
        body = src[o:match_close(src, o)]
        mm = re.search(r"(?:State|Self)::(\w+)\(\s*\w+\s*\)", body)
        if mm:
            from_impls[m.group(1)] = mm.group(1)
        else:
            unknowns.append("%s: From<%s> for State body" % (name, m.group(1)))
    # initial state
    init = None
    m = re.search(r"impl(?:<[^>]*>)?\s+Default\s+for\s+State\b[^{]*\{", src)
    if m:
        o = m.end() - 1
        body = src[o:match_close(src, o)]
        fb = find_fn(body, "default")
        if fb:
            try:
                init = parse_result("Ok(%s)" % fb[0].strip(), {}, st_enum, from_impls)
            except Unknown as e:
                unknowns.append("%s: default(): %s" % (name, e))
    else:
        raw = src[re.search(r"\benum\s+State\b", src).start():]
        raw = raw[:match_close(raw, raw.find("{")) + 1]
        mm = re.search(r"#\[default\]\s*(\w+)", raw)
        if mm:
            init = '.ok "%s" []' % mm.group(1)
    if init is None:
        unknowns.append("%s: initial state not found" % name)
        init = '.err "unknown"'
    # apply
    impl_pos = [m.start() for m in re.finditer(r"\bimpl(?:<[^>]*>)?\s+State\b", src)]
    fb = None
    for p in impl_pos:
        o = src.find("{", p)
        c = match_close(src, o)
        f = find_fn(src[o:c + 1], "apply")
        if f:
            fb = f[0]
            break
    if fb is None:
        unknowns.append("%s: State::apply not found" % name)
        return None
    top = find_match(fb)
    if top is None or top[0] != "self" or fb[top[2] + 1:].strip():
        unknowns.append("%s: apply is not a single `match self`" % name)
        return None
    if fb[:fb.find("match")].strip():
        unknowns.append("%s: statements before `match self` in apply" % name)
    outer = []
    for pat, expr in split_arms(top[1]):
        try:
            v, sub = parse_variant_pattern(pat, {"Self", "State"})
            outer.append((v, sub, expr, pat))
        except Unknown as e:
            unknowns.append("%s: apply: %s" % (name, e))
    st_decl = {v: (k, f) for v, k, f in st_enum}
    msg_decl = {v: (k, f) for v, k, f in msg_enum}
    rows = []
    for sv, skind, sfields in st_enum:
        arm = next((a for a in outer if a[0] in (sv, None)), None)
        for mc, mv, mlits in mclasses:
            tag = "%s: %s + %s" % (name, sv, mc)
            if arm is None:
                unknowns.append(tag + ": no arm (non-exhaustive?)")
                rows.append((sv, mc, '.err "unknown"'))
                continue
            try:
                sbind, slits = bind_fields(arm[1], sfields, skind, "state") if arm[0] else ({}, {})
                if slits:
                    raise Unknown("literal in a state pattern")
                env = {k: ".stArg %d" % i for k, i in sbind.items()}
                expr = arm[2]
                if expr is None:
                    raise Unknown("arm without body")
                if re.match(r"^match\b", expr):
                    scrut, inner, end = find_match(expr)
                    if scrut != "msg":
                        raise Unknown("inner match on `%s`" % scrut)
                    chosen = None
                    for ipat, iexpr in split_arms(inner):
                        if "|" in ipat or " if " in ipat:
                            raise Unknown("or-pattern / guard `%s`" % ipat)
                        iv, isub = parse_variant_pattern(ipat, {"Message"})
                        if iv is None:
                            chosen = ({}, iexpr)
                            break
                        if iv != mv:
                            continue
                        mk, mf = msg_decl[mv]
                        mbind, lits = bind_fields(isub, mf, mk, "message")
                        if any(mlits.get(i, lit) != lit for i, lit in lits.items()):
                            continue
                        if any(i not in mlits for i in lits):
                            raise Unknown("literal pattern on an unsplit field in `%s`" % ipat)
                        chosen = ({k: ".msgArg %d" % i for k, i in mbind.items()}, iexpr)
                        break
                    if chosen is None:
                        raise Unknown("no message arm applies")
                    env2 = dict(env)
                    env2.update(chosen[0])
                    res = parse_result(chosen[1], env2, st_enum, from_impls)
                else:
                    res = parse_result(expr, env, st_enum, from_impls)
                rows.append((sv, mc, res))
            except Unknown as e:
                unknowns.append("%s: %s" % (tag, e))
                rows.append((sv, mc, '.err "unknown"'))
    return {
        "name": name,
        "states": [(v, len(f)) for v, _, f in st_enum],
        "msgs": [(mc, len(msg_decl[mv][1])) for mc, mv, _ in mclasses],
        "init": init,
        "rows": rows,
    }


def lean_str(s):
    return '"' + s.replace("\\", "\\\\").replace('"', '\\"') + '"'


def emit_protos(ns, header, protos, unknowns):
    out = ["-- GENERATED by lib/translate_fsm.py from %s — do not edit" % header,
           "import PallasVerif.Model.Fsm", "namespace PallasVerif.Gen.%s" % ns, "open PallasVerif.Fsm", ""]
    for p in protos:
        init = p["init"]
        m = re.match(r'^\.ok ("[^"]*") \[(.*)\]$', init)
        init_txt = "(%s, [%s])" % (m.group(1), m.group(2)) if m else '("?", [])'
        out.append("def %s : Proto where" % p["lean_name"])
        out.append("  name := %s" % lean_str(p["name"]))
        out.append("  states := [%s]" % ", ".join("(%s, %d)" % (lean_str(a), b) for a, b in p["states"]))
        out.append("  msgs := [%s]" % ", ".join("(%s, %d)" % (lean_str(a), b) for a, b in p["msgs"]))
        out.append("  init := %s" % init_txt)
        out.append("  rows := [")
        out.append(",\n".join("    ⟨%s, %s, %s⟩" % (lean_str(s), lean_str(m_), r) for s, m_, r in p["rows"]))
        out.append("  ]")
        out.append("")
    out.append("def protos : List Proto := [%s]" % ", ".join(p["lean_name"] for p in protos))
    out.append("")
    out.append("/-- constructs of the sources the translator could not classify (must be empty) -/")
    out.append("def unknowns : List String := [%s]" % ", ".join(lean_str(u) for u in unknowns))
    out.append("")
    out.append("end PallasVerif.Gen.%s" % ns)
    return "\n".join(out) + "\n"


def write_if_changed(path, txt):
    try:
        if open(path).read() == txt:
            return
    except OSError:
        pass
    os.makedirs(os.path.dirname(path), exist_ok=True)
    with open(path, "w") as f:
        f.write(txt)


def n2_tables(repo):
    base = os.path.join(repo, "pallas-network2", "src", "protocol")
    unknowns, protos = [], []
    files = []
    for f in sorted(os.listdir(base)):
        p = os.path.join(base, f)
        if os.path.isdir(p) and os.path.exists(os.path.join(p, "mod.rs")):
            files.append((f, os.path.join(p, "mod.rs")))
        elif f.endswith(".rs") and f != "mod.rs":
            files.append((f[:-3], p))
    for name, path in files:
        src = open(path).read()
        if not re.search(r"\bfn\s+apply\b", strip_comments(src)):
            continue  # no state machine in this file (common.rs, cddl.rs)
        p = n2_protocol(name, src, unknowns)
        if p:
            p["lean_name"] = name
            protos.append(p)
    return protos, unknowns


def translate_n2(repo, lean):
    protos, unknowns = n2_tables(repo)
    if not protos:
        unknowns.append("no State::apply found under pallas-network2/src/protocol")
    txt = emit_protos("FsmN2", "pallas-network2/src/protocol/**  (State::apply)", protos, unknowns)
    write_if_changed(os.path.join(lean, "PallasVerif", "Gen", "FsmN2.lean"), txt)


if __name__ == "__main__":
    import sys
    repo = sys.argv[1] if len(sys.argv) > 1 else os.environ.get("PV_REPO", "/repo")
    protos, unknowns = n2_tables(repo)
    print(emit_protos("FsmN2", "x", protos, unknowns))
