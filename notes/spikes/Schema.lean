/-! spike: generic schema interpreter with round-trip and prefix (eoi) theorems -/
namespace Spike.Schema

inductive Res (α : Type) where
  | ok (a : α) (rest : List Nat)
  | eoi
  | err
deriving Repr

/-- generic values -/
inductive Val where
  | n (k : Nat)
  | tup (vs : List Val)
  | sum (label : Nat) (v : Val)
deriving Repr

/-- schemas: small uint (<24), fixed tuples (<24 fields), label-dispatched sums `[label, payload]` -/
inductive Sch where
  | uint
  | tup (fields : List Sch)
  | sum (alts : List Sch)       -- label i selects alts[i]

-- encoder -----------------------------------------------------------------
mutual
def enc : Sch → Val → Option (List Nat)
  | .uint, .n k => if k < 24 then some [k] else none
  | .tup fs, .tup vs => if fs.length < 24 then (encs fs vs).map (fun b => (128 + fs.length) :: b) else none
  | .sum alts, .sum l v =>
    if l < 24 then
      match encAlt alts l v with
      | some b => some (130 :: l :: b)
      | none => none
    else none
  | _, _ => none
def encs : List Sch → List Val → Option (List Nat)
  | [], [] => some []
  | f :: fs, v :: vs => match enc f v, encs fs vs with
    | some a, some b => some (a ++ b)
    | _, _ => none
  | _, _ => none
def encAlt : List Sch → Nat → Val → Option (List Nat)
  | [], _, _ => none
  | a :: _, 0, v => enc a v
  | _ :: as, l+1, v => encAlt as l v
end

-- decoder -----------------------------------------------------------------
mutual
def dec : Sch → List Nat → Res Val
  | .uint, [] => .eoi
  | .uint, b :: r => if b < 24 then .ok (.n b) r else .err
  | .tup _, [] => .eoi
  | .tup fs, b :: r =>
    if b = 128 + fs.length then
      match decs fs r with
      | .ok vs r' => .ok (.tup vs) r'
      | .eoi => .eoi
      | .err => .err
    else .err
  | .sum _, [] => .eoi
  | .sum alts, b :: r =>
    if b = 130 then
      match r with
      | [] => .eoi
      | l :: r' =>
        if l < 24 then
          match decAlt alts l r' with
          | .ok v r'' => .ok (.sum l v) r''
          | .eoi => .eoi
          | .err => .err
        else .err
    else .err
def decs : List Sch → List Nat → Res (List Val)
  | [], r => .ok [] r
  | f :: fs, r =>
    match dec f r with
    | .ok v r' =>
      match decs fs r' with
      | .ok vs r'' => .ok (v :: vs) r''
      | .eoi => .eoi
      | .err => .err
    | .eoi => .eoi
    | .err => .err
def decAlt : List Sch → Nat → List Nat → Res Val
  | [], _, _ => .err
  | a :: _, 0, r => dec a r
  | _ :: as, l+1, r => decAlt as l r
end

-- round trip ----------------------------------------------------------------
mutual
theorem rt : ∀ (s : Sch) (v : Val) (b r : List Nat), enc s v = some b → dec s (b ++ r) = .ok v r
  | .uint, .n k, b, r, h => by
    simp only [enc] at h; split at h
    · next hk => cases h; simp [dec, hk]
    · cases h
  | .uint, .tup _, _, _, h => by simp [enc] at h
  | .uint, .sum _ _, _, _, h => by simp [enc] at h
  | .tup fs, .tup vs, b, r, h => by
    simp only [enc] at h; split at h
    · next hl =>
      cases he : encs fs vs with
      | none => simp [he] at h
      | some bb =>
        simp [he] at h; subst h
        have := rts fs vs bb r he
        simp [dec, this]
    · cases h
  | .tup _, .n _, _, _, h => by simp [enc] at h
  | .tup _, .sum _ _, _, _, h => by simp [enc] at h
  | .sum alts, .sum l v, b, r, h => by
    simp only [enc] at h; split at h
    · next hl =>
      cases he : encAlt alts l v with
      | none => simp [he] at h
      | some bb =>
        simp [he] at h; subst h
        have := rtAlt alts l v bb r he
        simp [dec, hl, this]
    · cases h
  | .sum _, .n _, _, _, h => by simp [enc] at h
  | .sum _, .tup _, _, _, h => by simp [enc] at h
theorem rts : ∀ (fs : List Sch) (vs : List Val) (b r : List Nat), encs fs vs = some b → decs fs (b ++ r) = .ok vs r
  | [], [], b, r, h => by simp [encs] at h; subst h; simp [decs]
  | [], _ :: _, _, _, h => by simp [encs] at h
  | _ :: _, [], _, _, h => by simp [encs] at h
  | f :: fs, v :: vs, b, r, h => by
    simp only [encs] at h
    cases h1 : enc f v with
    | none => simp [h1] at h
    | some a =>
      cases h2 : encs fs vs with
      | none => simp [h1, h2] at h
      | some bb =>
        simp [h1, h2] at h; subst h
        have e1 := rt f v a (bb ++ r) h1
        have e2 := rts fs vs bb r h2
        simp [decs, List.append_assoc, e1, e2]
theorem rtAlt : ∀ (alts : List Sch) (l : Nat) (v : Val) (b r : List Nat), encAlt alts l v = some b → decAlt alts l (b ++ r) = .ok v r
  | [], _, _, _, _, h => by simp [encAlt] at h
  | a :: _, 0, v, b, r, h => by simp only [encAlt] at h; simp [decAlt, rt a v b r h]
  | _ :: as, l+1, v, b, r, h => by simp only [encAlt] at h; simp [decAlt, rtAlt as l v b r h]
end

-- prefix property: decoding a proper prefix of anything never yields `err` when the whole succeeds,
-- and never yields `ok` with a different result (stated as: prefix result is eoi or the same ok)
mutual
theorem pfx : ∀ (s : Sch) (x y : List Nat) (v : Val) (r : List Nat), dec s (x ++ y) = .ok v r →
    (dec s x = .eoi) ∨ (∃ r', dec s x = .ok v r' ∧ r = r' ++ y)
  | .uint, [], y, v, r, h => by left; rfl
  | .uint, b :: x, y, v, r, h => by
    right
    simp only [List.cons_append, dec] at h ⊢
    split at h
    · next hb =>
      simp only [hb, ↓reduceIte, Res.ok.injEq] at h ⊢
      exact ⟨x, ⟨h.1, rfl⟩, h.2.symm⟩
    · cases h
  | .tup fs, [], y, v, r, h => by left; rfl
  | .tup fs, b :: x, y, v, r, h => by
    simp only [List.cons_append, dec] at h ⊢
    split at h
    · next hb =>
      simp only [hb, ↓reduceIte]
      cases hd : decs fs (x ++ y) with
      | ok vs r' =>
        simp [hd] at h
        rcases pfxs fs x y vs r' hd with h1 | ⟨r'', h1, h2⟩
        · left; simp [h1]
        · right; refine ⟨r'', ?_, ?_⟩
          · simp [h1, h.1]
          · rw [← h.2, h2]
      | eoi => simp [hd] at h
      | err => simp [hd] at h
    · cases h
  | .sum alts, [], y, v, r, h => by left; rfl
  | .sum alts, [b], y, v, r, h => by
    simp only [List.cons_append, List.nil_append, dec] at h ⊢
    split at h
    · next hb => left; simp [hb]
    · cases h
  | .sum alts, b :: l :: x, y, v, r, h => by
    simp only [List.cons_append, dec] at h ⊢
    split at h
    · next hb =>
      simp only [hb, ↓reduceIte]
      split at h
      · next hl =>
        simp only [hl, ↓reduceIte]
        cases hd : decAlt alts l (x ++ y) with
        | ok v' r' =>
          simp [hd] at h
          rcases pfxAlt alts l x y v' r' hd with h1 | ⟨r'', h1, h2⟩
          · left; simp [h1]
          · right; refine ⟨r'', ?_, ?_⟩
            · simp [h1, h.1]
            · rw [← h.2, h2]
        | eoi => simp [hd] at h
        | err => simp [hd] at h
      · cases h
    · cases h
theorem pfxs : ∀ (fs : List Sch) (x y : List Nat) (vs : List Val) (r : List Nat), decs fs (x ++ y) = .ok vs r →
    (decs fs x = .eoi) ∨ (∃ r', decs fs x = .ok vs r' ∧ r = r' ++ y)
  | [], x, y, vs, r, h => by
    right
    simp only [decs, Res.ok.injEq] at h ⊢
    exact ⟨x, ⟨h.1, rfl⟩, h.2.symm⟩
  | f :: fs, x, y, vs, r, h => by
    simp only [decs] at h ⊢
    cases hd : dec f (x ++ y) with
    | ok v r1 =>
      simp only [hd] at h
      rcases pfx f x y v r1 hd with h1 | ⟨r1', h1, h2⟩
      · left; simp [h1]
      · simp only [h1]
        subst h2
        cases hd2 : decs fs (r1' ++ y) with
        | ok vs2 r2 =>
          simp [hd2] at h
          rcases pfxs fs r1' y vs2 r2 hd2 with h3 | ⟨r2', h3, h4⟩
          · left; simp [h3]
          · right; refine ⟨r2', ?_, ?_⟩
            · simp [h3, h.1]
            · rw [← h.2, h4]
        | eoi => simp [hd2] at h
        | err => simp [hd2] at h
    | eoi => simp [hd] at h
    | err => simp [hd] at h
theorem pfxAlt : ∀ (alts : List Sch) (l : Nat) (x y : List Nat) (v : Val) (r : List Nat), decAlt alts l (x ++ y) = .ok v r →
    (decAlt alts l x = .eoi) ∨ (∃ r', decAlt alts l x = .ok v r' ∧ r = r' ++ y)
  | [], _, _, _, _, _, h => by simp [decAlt] at h
  | a :: _, 0, x, y, v, r, h => by simp only [decAlt] at h ⊢; exact pfx a x y v r h
  | _ :: as, l+1, x, y, v, r, h => by simp only [decAlt] at h ⊢; exact pfxAlt as l x y v r h
end

end Spike.Schema
