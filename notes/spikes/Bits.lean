namespace Spike.Bits
open BitVec

/-- impl: write 8 bits `v` when `u` bits (0..7) of `cur` are used; returns (pushed byte, new cur) -/
def write8 (u : Nat) (cur v : BitVec 8) : BitVec 8 × BitVec 8 :=
  if u = 0 then (cur ||| v, 0#8) else (cur ||| (v >>> u), v <<< (8 - u))

/-- invariant: bits below the top `u` are zero -/
def Inv (u : Nat) (cur : BitVec 8) : Prop := ∀ i, u ≤ i → i < 8 → cur.getMsbD i = false

/-- pushed byte: top u bits come from cur, the rest from the top of v -/
theorem write8_out (u : Nat) (hu : u < 8) (cur v : BitVec 8) (h : Inv u cur) (i : Nat) (hi : i < 8) :
    (write8 u cur v).1.getMsbD i = if i < u then cur.getMsbD i else v.getMsbD (i - u) := by
  unfold write8
  split
  · next h0 =>
    subst h0
    have := h i (by omega) hi
    simp [getMsbD_or, this]
  · next h0 =>
    simp only [getMsbD_or, getMsbD_ushiftRight]
    by_cases hlt : i < u
    · simp [hlt]
    · have := h i (by omega) hi
      simp [hlt, this]; omega

/-- new current byte: its top u bits are the low u bits of v, and it keeps the invariant -/
theorem write8_cur (u : Nat) (hu : u < 8) (cur v : BitVec 8) (i : Nat) (hi : i < 8) :
    (write8 u cur v).2.getMsbD i = if i < u then v.getMsbD (8 - u + i) else false := by
  unfold write8
  split
  · next h0 => subst h0; simp
  · next h0 =>
    simp only [getMsbD_shiftLeft]
    by_cases hlt : i < u
    · simp [hlt]; congr 1; omega
    · simp [hlt]
      apply getMsbD_of_ge; omega
end Spike.Bits
