namespace Spike.Kes

inductive Dir | L | R deriving DecidableEq, Repr
abbrev Path := List Dir

inductive Key where
  | leaf (seed : Path)
  | node (active : Key) (seedR : Option Path)
deriving Repr

def keygen : Nat → Path → Key
  | 0, p => .leaf p
  | d+1, p => .node (keygen d (p ++ [.L])) (some (p ++ [.R]))

/-- transcription of `update_slice` (depth passed as in the macro instantiation) -/
def update : Nat → Key → Nat → Option Key
  | 0, _, _ => none
  | d+1, .node a sr, t =>
    if t + 1 = 2^(d+1) then none
    else if t + 1 < 2^d then (update d a t).map (fun a' => .node a' sr)
    else if t + 1 = 2^d then
      match sr with
      | some s => some (.node (keygen d s) none)     -- seed consumed and zeroed
      | none => none
    else (update d a (t - 2^d)).map (fun a' => .node a' sr)
  | _+1, .leaf _, _ => none

def material : Key → List Path
  | .leaf s => [s]
  | .node a sr => material a ++ sr.toList

/-- path of the leaf for period `t` in a depth-`d` subtree rooted at `p` -/
def leafPath : Nat → Path → Nat → Path
  | 0, p, _ => p
  | d+1, p, t => if t < 2^d then leafPath d (p ++ [.L]) t else leafPath d (p ++ [.R]) (t - 2^d)

/-- closed form of the key at period `t` -/
def keyAt : Nat → Path → Nat → Key
  | 0, p, _ => .leaf p
  | d+1, p, t =>
    if t < 2^d then .node (keyAt d (p ++ [.L]) t) (some (p ++ [.R]))
    else .node (keyAt d (p ++ [.R]) (t - 2^d)) none

theorem keyAt_zero (d : Nat) (p : Path) : keyAt d p 0 = keygen d p := by
  induction d generalizing p with
  | zero => rfl
  | succ d ih =>
    have : 0 < 2^d := Nat.two_pow_pos d
    simp [keyAt, keygen, this, ih]

theorem update_keyAt (d : Nat) (p : Path) (t : Nat) (h : t + 1 < 2^d) :
    update d (keyAt d p t) t = some (keyAt d p (t+1)) := by
  induction d generalizing p t with
  | zero => simp at h
  | succ d ih =>
    have hp : 2^(d+1) = 2^d + 2^d := by rw [Nat.pow_succ]; omega
    unfold keyAt
    by_cases h1 : t < 2^d
    · simp only [h1, ↓reduceIte, update]
      have hne : ¬ (t + 1 = 2^(d+1)) := by omega
      simp only [hne, ↓reduceIte]
      by_cases h2 : t + 1 < 2^d
      · simp [h2, ih _ _ h2]
      · have h3 : t + 1 = 2^d := by omega
        have h4 : ¬ (t + 1 < 2^d) := by omega
        simp only [h4, ↓reduceIte, h3]
        have : t + 1 - 2^d = 0 := by omega
        simp [this, keyAt_zero]
    · have hne : ¬ (t + 1 = 2^(d+1)) := by omega
      have h2 : ¬ (t + 1 < 2^d) := by omega
      have h3 : ¬ (t + 1 = 2^d) := by omega
      have h5 : ¬ (t + 1 < 2^d) := by omega
      simp only [h1, ↓reduceIte, update, hne, h2, h3]
      have h4 : (t - 2^d) + 1 < 2^d := by omega
      rw [ih _ _ h4]
      have : t + 1 - 2^d = t - 2^d + 1 := by omega
      simp [this]

theorem update_fails_at_end (d : Nat) (p : Path) : update d (keyAt d p (2^d - 1)) (2^d - 1) = none := by
  cases d with
  | zero => rfl
  | succ d =>
    have hp : 2^(d+1) = 2^d + 2^d := by rw [Nat.pow_succ]; omega
    have : 0 < 2^d := Nat.two_pow_pos d
    have h1 : ¬ (2^(d+1) - 1 < 2^d) := by omega
    have h2 : 2^(d+1) - 1 + 1 = 2^(d+1) := by omega
    simp [keyAt, h1, update, h2]

/-- every seed in the key lies under the subtree root `p` -/
theorem material_under (d : Nat) (p : Path) (t : Nat) : ∀ s ∈ material (keyAt d p t), p <+: s := by
  induction d generalizing p t with
  | zero => intro s hs; simp [keyAt, material] at hs; subst hs; exact List.prefix_refl _
  | succ d ih =>
    intro s hs
    unfold keyAt at hs
    split at hs
    · simp [material] at hs
      rcases hs with h | h
      · exact List.IsPrefix.trans (List.prefix_append p [.L]) (ih _ _ s h)
      · subst h; exact List.prefix_append p [.R]
    · simp [material] at hs
      exact List.IsPrefix.trans (List.prefix_append p [.R]) (ih _ _ s hs)

theorem leafPath_under (d : Nat) (p : Path) (q : Nat) : p <+: leafPath d p q := by
  induction d generalizing p q with
  | zero => exact List.prefix_refl _
  | succ d ih =>
    unfold leafPath; split
    · exact List.IsPrefix.trans (List.prefix_append p [.L]) (ih _ _)
    · exact List.IsPrefix.trans (List.prefix_append p [.R]) (ih _ _)

theorem leafPath_length (d : Nat) (p : Path) (q : Nat) : (leafPath d p q).length = p.length + d := by
  induction d generalizing p q with
  | zero => simp [leafPath]
  | succ d ih => unfold leafPath; split <;> simp [ih] <;> omega

/-- two prefixes of the same list that disagree at position |p| cannot both hold -/
theorem not_both (p x y : Path) (h1 : p ++ [.L] <+: x) (h2 : p ++ [.R] <+: y) (h : x <+: y) : False := by
  have h3 : p ++ [.L] <+: y := List.IsPrefix.trans h1 h
  obtain ⟨a, ha⟩ := h3
  obtain ⟨b, hb⟩ := h2
  have : (p ++ [Dir.L]) ++ a = (p ++ [Dir.R]) ++ b := by rw [ha, hb]
  simp [List.append_assoc] at this

/-- forward security: no seed present at period `t` is an ancestor-or-self of a leaf of an earlier period -/
theorem forward_secure (d : Nat) (p : Path) (t q : Nat) (ht : t < 2^d) (hq : q < t) :
    ∀ s ∈ material (keyAt d p t), ¬ (s <+: leafPath d p q) := by
  induction d generalizing p t q with
  | zero => simp at ht; omega
  | succ d ih =>
    have hp : 2^(d+1) = 2^d + 2^d := by rw [Nat.pow_succ]; omega
    intro s hs hpre
    unfold keyAt at hs
    by_cases h1 : t < 2^d
    · -- both in the left half
      simp only [h1, ↓reduceIte, material, List.mem_append, Option.toList_some, List.mem_singleton] at hs
      have hq1 : q < 2^d := by omega
      unfold leafPath at hpre; simp only [hq1, ↓reduceIte] at hpre
      rcases hs with h | h
      · exact ih _ _ _ h1 hq s h hpre
      · subst h
        exact not_both p _ _ (leafPath_under d (p ++ [.L]) q) (List.prefix_refl _) (by
          -- p++[R] <+: leafPath d (p++[L]) q  contradicts
          exact absurd hpre (by
            intro hh
            have := List.IsPrefix.trans (List.prefix_refl (p ++ [Dir.R])) hh
            obtain ⟨a, ha⟩ := this
            obtain ⟨b, hb⟩ := leafPath_under d (p ++ [.L]) q
            have : (p ++ [Dir.R]) ++ a = (p ++ [Dir.L]) ++ b := by rw [ha, hb]
            simp [List.append_assoc] at this))
    · -- t in the right half: seed slot is empty, active subtree is the right one
      simp only [h1, ↓reduceIte, material, Option.toList_none, List.append_nil] at hs
      unfold leafPath at hpre
      by_cases hq1 : q < 2^d
      · simp only [hq1, ↓reduceIte] at hpre
        have hu := material_under d (p ++ [.R]) (t - 2^d) s hs
        have hv := leafPath_under d (p ++ [.L]) q
        -- s lies under p++[R], the leaf under p++[L]; s <+: leaf is impossible
        obtain ⟨a, ha⟩ := List.IsPrefix.trans hu hpre
        obtain ⟨b, hb⟩ := hv
        have : (p ++ [Dir.R]) ++ a = (p ++ [Dir.L]) ++ b := by rw [ha, hb]
        simp [List.append_assoc] at this
      · simp only [hq1, ↓reduceIte] at hpre
        exact ih _ _ _ (by omega) (by omega) s hs hpre
end Spike.Kes
