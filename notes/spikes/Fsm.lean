namespace Spike.Fsm
inductive St | idle | canAwait | mustReply | intersect | done deriving DecidableEq, Repr
inductive Msg | requestNext | awaitReply | rollForward | rollBackward | findIntersect | intersectFound | intersectNotFound | done deriving DecidableEq, Repr

def allSt : List St := [.idle, .canAwait, .mustReply, .intersect, .done]
def allMsg : List Msg := [.requestNext, .awaitReply, .rollForward, .rollBackward, .findIntersect, .intersectFound, .intersectNotFound, .done]

-- "generated" table (as the translator would emit): list of accepted (state,msg,next)
def genTable : List (St × Msg × St) :=
  [(.idle,.findIntersect,.intersect),(.idle,.requestNext,.canAwait),(.idle,.done,.done),
   (.intersect,.intersectFound,.idle),(.intersect,.intersectNotFound,.idle),
   (.canAwait,.rollForward,.idle),(.canAwait,.rollBackward,.idle),(.canAwait,.awaitReply,.mustReply),
   (.mustReply,.rollForward,.idle),(.mustReply,.rollBackward,.idle)]

def genStep (s : St) (m : Msg) : Option St :=
  (genTable.find? (fun t => t.1 = s ∧ t.2.1 = m)).map (·.2.2)

def spec : St → Msg → Option St
  | .idle, .requestNext => some .canAwait
  | .idle, .findIntersect => some .intersect
  | .idle, .done => some .done
  | .canAwait, .awaitReply => some .mustReply
  | .canAwait, .rollForward => some .idle
  | .canAwait, .rollBackward => some .idle
  | .mustReply, .rollForward => some .idle
  | .mustReply, .rollBackward => some .idle
  | .intersect, .intersectFound => some .idle
  | .intersect, .intersectNotFound => some .idle
  | _, _ => none

theorem gen_eq_spec : ∀ s ∈ allSt, ∀ m ∈ allMsg, genStep s m = spec s m := by decide

theorem allSt_complete : ∀ s : St, s ∈ allSt := by intro s; cases s <;> decide
theorem allMsg_complete : ∀ m : Msg, m ∈ allMsg := by intro m; cases m <;> decide

theorem gen_refines : ∀ s m, genStep s m = spec s m :=
  fun s m => gen_eq_spec s (allSt_complete s) m (allMsg_complete m)

-- trace-level: run over any message list
def run (step : St → Msg → Option St) : St → List Msg → Option St
  | s, [] => some s
  | s, m :: ms => match step s m with | some s' => run step s' ms | none => none

theorem run_eq : ∀ ms s, run genStep s ms = run spec s ms := by
  intro ms; induction ms with
  | nil => intro s; rfl
  | cons m ms ih => intro s; simp [run, gen_refines, ih]
end Spike.Fsm
