-- spike: C14 memcmp step on BitVec 32
namespace Spike

def step (res diff : BitVec 32) : BitVec 32 :=
  (res &&& (((diff - 1) &&& ~~~diff).sshiftRight 8)) ||| diff

def mask (diff : BitVec 32) : BitVec 32 := ((diff - 1) &&& ~~~diff).sshiftRight 8

-- all differences of two bytes: a - b for a b : BitVec 8 zero-extended
def diffOf (a b : BitVec 8) : BitVec 32 := a.zeroExtend 32 - b.zeroExtend 32

theorem mask_cases : ∀ a b : BitVec 8, mask (diffOf a b) = if a = b then (-1 : BitVec 32) else 0 := by
  decide +kernel

def finalize (res : BitVec 32) : BitVec 32 := (res - 1).sshiftRight 8 + res.sshiftRight 8 + 1

theorem final_cases : ∀ a b : BitVec 8,
    finalize (diffOf a b) = if a = b then 0 else if a.toNat < b.toNat then (-1 : BitVec 32) else 1 := by
  decide +kernel

end Spike
