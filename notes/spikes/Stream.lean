namespace Spike.Stream
variable {S : Type}

def loop (step : S → List Nat → S) (s : S) (inp : List Nat) : S × List Nat :=
  if h : inp.length > 128 then loop step (step s (inp.take 128)) (inp.drop 128) else (s, inp)
termination_by inp.length
decreasing_by simp [List.length_drop]; omega

/-- transcription of cryptoxide `update_mut` on the state (engine state, buffered bytes) -/
def update (step : S → List Nat → S) (st : S × List Nat) (inp : List Nat) : S × List Nat :=
  if inp = [] then st
  else
    let fill := 128 - st.2.length
    if inp.length > fill then
      loop step (step st.1 (st.2 ++ inp.take fill)) (inp.drop fill)
    else (st.1, st.2 ++ inp)

theorem loop_small (step : S → List Nat → S) (s : S) (x : List Nat) (h : x.length ≤ 128) :
    loop step s x = (s, x) := by
  rw [loop]; simp; omega

theorem update_eq_loop (step : S → List Nat → S) (s : S) (buf inp : List Nat) (hb : buf.length ≤ 128) :
    update step (s, buf) inp = loop step s (buf ++ inp) := by
  unfold update
  split
  · next h => subst h; simp [loop_small step s buf hb]
  · simp only
    split
    · next h2 =>
      rw [loop.eq_1 step s (buf ++ inp)]
      have hl : (buf ++ inp).length > 128 := by simp; omega
      simp only [hl, ↓reduceDIte]
      have e1 : (buf ++ inp).take 128 = buf ++ inp.take (128 - buf.length) := by
        rw [List.take_append]; simp [List.take_of_length_le hb]
      have e2 : (buf ++ inp).drop 128 = inp.drop (128 - buf.length) := by
        rw [List.drop_append]; simp [List.drop_of_length_le hb]
      rw [e1, e2]
    · next h2 =>
      have : (buf ++ inp).length ≤ 128 := by simp; omega
      rw [loop_small step s _ this]

theorem loop_buf_le (step : S → List Nat → S) (s : S) (x : List Nat) :
    (loop step s x).2.length ≤ 128 := by
  fun_induction loop step s x with
  | case1 s x h ih => exact ih
  | case2 s x h => simp; omega

theorem loop_append (step : S → List Nat → S) (s : S) (x y : List Nat) :
    loop step (loop step s x).1 ((loop step s x).2 ++ y) = loop step s (x ++ y) := by
  fun_induction loop step s x with
  | case1 s x h ih =>
    rw [ih]
    rw [loop.eq_1 step s (x ++ y)]
    have hl : (x ++ y).length > 128 := by simp; omega
    simp only [hl, ↓reduceDIte]
    have hz : 128 - x.length = 0 := by omega
    have e1 : (x ++ y).take 128 = x.take 128 := by
      rw [List.take_append, hz]; simp
    have e2 : (x ++ y).drop 128 = x.drop 128 ++ y := by
      rw [List.drop_append, hz]; simp
    rw [e1, e2]
  | case2 s x h => rfl

/-- streaming over any chunking = one update with the concatenation -/
theorem stream_eq_oneshot (step : S → List Nat → S) (s0 : S) (chunks : List (List Nat)) :
    chunks.foldl (update step) (s0, []) = update step (s0, []) chunks.flatten := by
  suffices h : ∀ (st : S × List Nat) (m : List Nat), st = loop step s0 m →
      chunks.foldl (update step) st = loop step s0 (m ++ chunks.flatten) by
    have := h (s0, []) [] (by simp [loop_small])
    rw [this, update_eq_loop step s0 [] _ (by simp)]
  induction chunks with
  | nil => intro st m h; simp [h]
  | cons c cs ih =>
    intro st m h
    simp only [List.foldl_cons, List.flatten_cons]
    have hb : st.2.length ≤ 128 := by rw [h]; exact loop_buf_le step s0 m
    have : update step st c = loop step s0 (m ++ c) := by
      obtain ⟨s1, b1⟩ := st
      rw [update_eq_loop step s1 b1 c hb]
      have h1 : s1 = (loop step s0 m).1 := by rw [← h]
      have h2 : b1 = (loop step s0 m).2 := by rw [← h]
      rw [h1, h2, loop_append]
    rw [ih _ (m ++ c) this, List.append_assoc]
end Spike.Stream
