-- spike: Ed25519 group arithmetic speed on Nat
def p : Nat := 2^255 - 19
def dConst : Nat := 37095705934669439343138083508754565189542113879843219016388785533085940283555
def L : Nat := 2^252 + 27742317777372353535851937790883648493

def powMod (b e m : Nat) : Nat := Id.run do
  let mut r := 1; let mut b := b % m; let mut e := e
  while e > 0 do
    if e % 2 == 1 then r := r * b % m
    b := b * b % m; e := e / 2
  return r
def inv (x : Nat) : Nat := powMod x (p - 2) p

structure Pt where (x y z t : Nat)

def padd (a b : Pt) : Pt :=
  let A := (a.y + p - a.x) * (b.y + p - b.x) % p
  let B := (a.y + a.x) * (b.y + b.x) % p
  let C := a.t * 2 % p * dConst % p * b.t % p
  let D := a.z * 2 % p * b.z % p
  let E := (B + p - A) % p; let F := (D + p - C) % p; let G := (D + C) % p; let H := (B + A) % p
  ⟨E * F % p, G * H % p, F * G % p, E * H % p⟩

def smul (s : Nat) (pt : Pt) : Pt := Id.run do
  let mut q : Pt := ⟨0, 1, 1, 0⟩; let mut pt := pt; let mut s := s
  while s > 0 do
    if s % 2 == 1 then q := padd q pt
    pt := padd pt pt; s := s / 2
  return q

def By : Nat := 4 * inv 5 % p
def recoverX (y : Nat) (sign : Nat) : Nat :=
  let x2 := (y*y + p - 1) % p * inv ((dConst * y % p * y + 1) % p) % p
  let x := powMod x2 ((p+3)/8) p
  let x := if (x*x + p - x2) % p != 0 then x * powMod 2 ((p-1)/4) p % p else x
  if x % 2 != sign then p - x else x
def Bx : Nat := recoverX By 0
def B : Pt := ⟨Bx, By, 1, Bx * By % p⟩

def main : IO Unit := do
  let t0 ← IO.monoMsNow
  let mut acc := 0
  for i in [0:200] do
    let q := smul (L - 1 - i) B
    acc := (acc + q.x) % p
  let t1 ← IO.monoMsNow
  let q := smul L B
  IO.println s!"200 scalar mults: {t1 - t0} ms; acc={acc % 1000}; L*B affine neutral? x={q.x % p} y==z {q.y % p == q.z % p}"
