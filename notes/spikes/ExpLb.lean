import Mathlib.Analysis.Complex.Exponential
open Finset in
theorem partial_le_exp (x : ℝ) (hx : 0 ≤ x) (n : ℕ) :
    ∑ i ∈ range n, x ^ i / (Nat.factorial i : ℝ) ≤ Real.exp x :=
  Real.sum_le_exp_of_nonneg hx n

-- a fixed-point flavoured corollary: a rational lower bound below the partial sum is below exp
theorem lower_sound (x c : ℝ) (hx : 0 ≤ x) (n : ℕ)
    (h : c < ∑ i ∈ Finset.range n, x ^ i / (Nat.factorial i : ℝ)) : c < Real.exp x :=
  lt_of_lt_of_le h (partial_le_exp x hx n)
