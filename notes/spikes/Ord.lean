namespace Spike.Ord

inductive PD where
  | int (i : Int)
  | list (xs : List PD)

mutual
def cmp : PD → PD → Ordering
  | .int a, .int b => compare a b
  | .int _, .list _ => .lt
  | .list _, .int _ => .gt
  | .list xs, .list ys => cmps xs ys
def cmps : List PD → List PD → Ordering
  | [], [] => .eq
  | [], _ :: _ => .lt
  | _ :: _, [] => .gt
  | x :: xs, y :: ys => match cmp x y with
    | .eq => cmps xs ys
    | o => o
end

mutual
theorem cmp_swap : ∀ a b : PD, cmp a b = (cmp b a).swap
  | .int a, .int b => by simp [cmp, Int.compare_swap]
  | .int _, .list _ => by simp [cmp]
  | .list _, .int _ => by simp [cmp]
  | .list xs, .list ys => by simp [cmp, cmps_swap xs ys]
theorem cmps_swap : ∀ xs ys : List PD, cmps xs ys = (cmps ys xs).swap
  | [], [] => by simp [cmps]
  | [], _ :: _ => by simp [cmps]
  | _ :: _, [] => by simp [cmps]
  | x :: xs, y :: ys => by
    simp only [cmps]
    rw [cmp_swap x y, cmps_swap xs ys]
    cases cmp y x <;> simp
end

end Spike.Ord
