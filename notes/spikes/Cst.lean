namespace Spike.Cst

inductive Item where
  | uint (n : Nat)            -- n < 24
  | arr (xs : List Item)      -- length < 24
  | tag (t : Nat) (i : Item)  -- t < 24
deriving Repr

mutual
def enc : Item → List Nat
  | .uint n => [n]
  | .arr xs => (128 + xs.length) :: encs xs
  | .tag t i => (192 + t) :: enc i
def encs : List Item → List Nat
  | [] => []
  | x :: xs => enc x ++ encs xs
end

mutual
def WF : Item → Prop
  | .uint n => n < 24
  | .arr xs => xs.length < 24 ∧ WFs xs
  | .tag t i => t < 24 ∧ WF i
def WFs : List Item → Prop
  | [] => True
  | x :: xs => WF x ∧ WFs xs
end

mutual
def parse : Nat → List Nat → Option (Item × List Nat)
  | 0, _ => none
  | _, [] => none
  | fuel+1, b :: rest =>
    if b < 24 then some (.uint b, rest)
    else if 128 ≤ b ∧ b < 152 then
      match parseN fuel (b - 128) rest with
      | some (xs, r) => some (.arr xs, r)
      | none => none
    else if 192 ≤ b ∧ b < 216 then
      match parse fuel rest with
      | some (i, r) => some (.tag (b - 192) i, r)
      | none => none
    else none
def parseN : Nat → Nat → List Nat → Option (List Item × List Nat)
  | _, 0, bs => some ([], bs)
  | 0, _+1, _ => none
  | fuel+1, k+1, bs =>
    match parse fuel bs with
    | some (x, r) =>
      match parseN fuel k r with
      | some (xs, r') => some (x :: xs, r')
      | none => none
    | none => none
end

mutual
def size : Item → Nat
  | .uint _ => 1
  | .arr xs => 1 + sizes xs
  | .tag _ i => 1 + size i
def sizes : List Item → Nat
  | [] => 1
  | x :: xs => 1 + size x + sizes xs
end

mutual
theorem parse_enc : ∀ (i : Item) (fuel : Nat) (r : List Nat), WF i → size i ≤ fuel →
    parse fuel (enc i ++ r) = some (i, r)
  | .uint n, fuel, r, h, hf => by
    cases fuel with
    | zero => simp [size] at hf
    | succ f => simp [WF] at h; simp [enc, parse, h]
  | .arr xs, fuel, r, h, hf => by
    cases fuel with
    | zero => simp [size] at hf
    | succ f =>
      simp [WF] at h
      have hs : sizes xs ≤ f := by simp [size] at hf; omega
      have := parseN_encs xs f r h.2 hs
      have h24 : ¬ (128 + xs.length < 24) := by omega
      simp [enc, parse, h24, this]; omega
  | .tag t i, fuel, r, h, hf => by
    cases fuel with
    | zero => simp [size] at hf
    | succ f =>
      simp [WF] at h
      have hs : size i ≤ f := by simp [size] at hf; omega
      have := parse_enc i f r h.2 hs
      have h24 : ¬ (192 + t < 24) := by omega
      have h128 : ¬ (128 ≤ 192 + t ∧ 192 + t < 152) := by omega
      simp [enc, parse, h24, h128, this]; omega
theorem parseN_encs : ∀ (xs : List Item) (fuel : Nat) (r : List Nat), WFs xs → sizes xs ≤ fuel →
    parseN fuel xs.length (encs xs ++ r) = some (xs, r)
  | [], fuel, r, _, _ => by cases fuel <;> simp [encs, parseN]
  | x :: xs, fuel, r, h, hf => by
    cases fuel with
    | zero => simp [sizes] at hf
    | succ f =>
      simp [WFs] at h
      have h1 : size x ≤ f := by simp [sizes] at hf; omega
      have h2 : sizes xs ≤ f := by simp [sizes] at hf; omega
      have e1 := parse_enc x f (encs xs ++ r) h.1 h1
      have e2 := parseN_encs xs f r h.2 h2
      simp [encs, parseN, List.append_assoc, e1, e2]
end

end Spike.Cst
