namespace Spike.Head

def be (k : Nat) (n : Nat) : List Nat :=   -- k bytes big endian
  match k with
  | 0 => []
  | k+1 => (n / 256^k) % 256 :: be k n

def ofBe : List Nat → Nat
  | [] => 0
  | b :: bs => b * 256^bs.length + ofBe bs

theorem be_length (k n : Nat) : (be k n).length = k := by
  induction k with
  | zero => rfl
  | succ k ih => simp [be, ih]

-- encode head: major type m (0..7), argument n < 2^64
def encHead (m n : Nat) : List Nat :=
  if n < 24 then [m * 32 + n]
  else if n < 256 then [m * 32 + 24, n]
  else if n < 65536 then (m * 32 + 25) :: be 2 n
  else if n < 4294967296 then (m * 32 + 26) :: be 4 n
  else (m * 32 + 27) :: be 8 n

def decHead : List Nat → Option (Nat × Nat × List Nat)
  | [] => none
  | b :: rest =>
    let m := b / 32; let ai := b % 32
    if ai < 24 then some (m, ai, rest)
    else if ai = 24 then match rest with | x :: r => some (m, x, r) | _ => none
    else if ai = 25 then match rest with | a :: b :: r => some (m, ofBe [a,b], r) | _ => none
    else if ai = 26 then match rest with | a :: b :: c :: d :: r => some (m, ofBe [a,b,c,d], r) | _ => none
    else if ai = 27 then match rest with | a::b::c::d::e::f::g::h::r => some (m, ofBe [a,b,c,d,e,f,g,h], r) | _ => none
    else none

theorem dec_enc (m n : Nat) (hm : m < 8) (hn : n < 2^64) (r : List Nat) :
    decHead (encHead m n ++ r) = some (m, n, r) := by
  unfold encHead
  split
  · have h1 : (m * 32 + n) / 32 = m := by omega
    have h2 : (m * 32 + n) % 32 = n := by omega
    simp [decHead, h1, h2]; omega
  · split
    · have h1 : (m * 32 + 24) / 32 = m := by omega
      have h2 : (m * 32 + 24) % 32 = 24 := by omega
      simp [decHead, h1, h2]
    · split
      · have h1 : (m * 32 + 25) / 32 = m := by omega
        have h2 : (m * 32 + 25) % 32 = 25 := by omega
        simp [decHead, h1, h2, be, ofBe]; omega
      · split
        · have h1 : (m * 32 + 26) / 32 = m := by omega
          have h2 : (m * 32 + 26) % 32 = 26 := by omega
          simp [decHead, h1, h2, be, ofBe]; omega
        · have h1 : (m * 32 + 27) / 32 = m := by omega
          have h2 : (m * 32 + 27) % 32 = 27 := by omega
          simp [decHead, h1, h2, be, ofBe]; omega
end Spike.Head
