#!/usr/bin/env python3
"""One-off porting tool: extracts the positive fixtures (`successful_*` tests) and the
`mk_*params*` builders of pallas-validate/tests/*.rs into harness/src/fixtures/<era>.rs.
The output is committed; this script is not part of the framework."""
import os, re, shutil, sys

REPO = "/var/tmp/pv-w6/repo"
OUT = "/var/tmp/pv-w6/verif/harness/src/fixtures"
T = os.path.join(REPO, "pallas-validate/tests")


def match_brace(s, i):
    """s[i] == '{' -> index just past the matching '}' (string/char literals are simple here)."""
    assert s[i] == "{"
    d = 0
    j = i
    in_str = False
    while j < len(s):
        c = s[j]
        if in_str:
            if c == "\\":
                j += 2
                continue
            if c == '"':
                in_str = False
        else:
            if c == '"':
                in_str = True
            elif c == "/" and s[j:j + 2] == "//":
                j = s.index("\n", j)
                continue
            elif c == "{":
                d += 1
            elif c == "}":
                d -= 1
                if d == 0:
                    return j + 1
        j += 1
    raise ValueError("unbalanced")


def items(src):
    """yield (kind, name, text, is_test) for fn / macro_rules / const items anywhere in src."""
    for m in re.finditer(r"^[ \t]*(?:pub )?fn (\w+)\s*(?:<[^>]*>)?\(", src, flags=re.M):
        name = m.group(1)
        b = src.index("{", m.end())
        # skip past a possible return type containing no braces
        e = match_brace(src, b)
        head_start = m.start()
        # attributes/comments above
        pre = src[:head_start].rstrip().split("\n")[-4:]
        is_test = any("#[test]" in l for l in pre)
        yield ("fn", name, src[head_start:e], is_test)
    for m in re.finditer(r"^[ \t]*macro_rules! (\w+) \{", src, flags=re.M):
        b = src.index("{", m.start())
        e = match_brace(src, b)
        yield ("macro", m.group(1), src[m.start():e], False)
    for m in re.finditer(r"^[ \t]*const (\w+): [^;]*;", src, flags=re.M | re.S):
        yield ("const", m.group(1), src[m.start():m.end()], False)


def uses(src):
    res = []
    for m in re.finditer(r"^[ \t]*use [^;]*;", src, flags=re.M | re.S):
        u = m.group(0).strip()
        if u in ("use super::*;",):
            continue
        u = u.replace("use crate::common::*;", "use super::common::*;").replace("use common::*;", "use super::common::*;")
        res.append(u)
    return res


def convert_test(era_mod, name, text):
    body_start = text.index("{") + 1
    body = text[body_start:text.rindex("}")]
    cut = re.search(r"^[ \t]*match validate_txs\(", body, flags=re.M)
    assert cut, name
    call = body[cut.start():]
    envarg = re.search(r"validate_txs\(\s*[^,]+,\s*&([^,]+),", call).group(1).strip()
    pre = body[:cut.start()]
    pre = "\n".join(l for l in pre.split("\n") if "dbg!(" not in l)
    pre = pre.replace('include_str!("../../test_data/', 'include_str!("data/')
    m = re.search(r"MultiEraTx::from_alonzo_compatible\(&mtx, (Era::\w+)\)", pre)
    if m:
        era = "pallas_traverse::" + m.group(1)
    elif "MultiEraTx::from_babbage" in pre:
        era = "pallas_traverse::Era::Babbage"
    elif "MultiEraTx::from_conway" in pre:
        era = "pallas_traverse::Era::Conway"
    elif "MultiEraTx::from_byron" in pre:
        era = "pallas_traverse::Era::Byron"
    else:
        raise ValueError(name)
    modified = re.search(r"let mut mtx\b", pre) is not None
    txc = "pallas_codec::minicbor::to_vec(&mtx).unwrap()" if modified else "cbor_bytes.clone()"
    tail = ""
    if envarg != "env":
        tail += f"        let env: pallas_validate::utils::Environment = {envarg};\n"
    tail += f"        let tx_cbor: Vec<u8> = {txc};\n"
    tail += f"        Fixture::from_parts(\"{era_mod}.{name}\", {era}, tx_cbor, &utxos, env, cert_state)\n"
    doc = f"    /// ported from pallas-validate/tests/{era_mod}.rs `{name}`\n"
    return doc + f"    pub fn {name}() -> Fixture {{" + pre.rstrip() + "\n" + tail + "    }\n"


def main():
    os.makedirs(os.path.join(OUT, "data"), exist_ok=True)
    shutil.copy(os.path.join(T, "common.rs"), os.path.join(OUT, "common.rs"))
    hdr = open(os.path.join(OUT, "common.rs")).read()
    open(os.path.join(OUT, "common.rs"), "w").write(
        "//! Verbatim copy of pallas-validate/tests/common.rs (test-data builders; not code under verification).\n"
        "#![allow(unused, clippy::all)]\n" + hdr)
    used_data = set()
    for era_mod in ("byron", "shelley_ma", "alonzo", "babbage", "conway"):
        src = open(os.path.join(T, era_mod + ".rs")).read()
        out = [f"//! Positive fixtures and protocol-parameter builders ported from pallas-validate/tests/{era_mod}.rs\n"
               "//! by /var/tmp one-off extraction (function bodies are verbatim up to the `validate_txs` call).\n"
               "#![allow(unused, clippy::all)]\n"]
        us = []
        for u in uses(src):
            if u not in us:
                us.append(u)
        out.append("\n".join(us) + "\nuse super::Fixture;\n")
        names = []
        helper_txt = []
        for kind, name, text, is_test in sorted(items(src), key=lambda x: {"macro": 0, "const": 1, "fn": 2}[x[0]]):
            if kind == "fn" and is_test and name.startswith("successful"):
                conv = convert_test(era_mod, name, text)
                for d in re.findall(r'include_str!\("data/([^"]+)"\)', conv):
                    used_data.add(d)
                helper_txt.append(conv)
                names.append(name)
            elif kind == "fn" and not is_test and (name.startswith("mk_") or name.startswith("mary")):
                t = text if text.lstrip().startswith("pub") else re.sub(r"^(\s*)fn ", r"\1pub fn ", text, count=1)
                helper_txt.append(t + "\n")
            elif kind == "macro":
                helper_txt.append(text + "\n")
            elif kind == "const":
                helper_txt.append(text + "\n")
        out.append("\n".join(helper_txt))
        out.append("    /// every positive fixture of this era\n    pub fn all() -> Vec<Fixture> {\n        vec![" +
                   ", ".join(n + "()" for n in names) + "]\n    }\n")
        txt = "\n".join(out)
        # no direct chrono dependency in the harness: DateTime<FixedOffset> implements FromStr (RFC 3339)
        txt = re.sub(r'chrono::DateTime::parse_from_rfc3339\(("[^"]+")\)\s*\.unwrap\(\)', r'\1.parse().unwrap()', txt)
        txt = txt.replace("use crate::common::", "use super::common::")
        open(os.path.join(OUT, era_mod + ".rs"), "w").write(txt)
        print(era_mod, names)
    for d in sorted(used_data):
        shutil.copy(os.path.join(REPO, "test_data", d), os.path.join(OUT, "data", d))
    print("data:", sorted(used_data))


main()
