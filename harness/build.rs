// Registers every src/streams/*.rs as a stream module (plugin style, no shared list to edit).
use std::{env, fs, path::PathBuf};
fn main() {
    let dir = PathBuf::from(env::var("CARGO_MANIFEST_DIR").unwrap()).join("src/streams");
    println!("cargo:rerun-if-changed={}", dir.display());
    println!("cargo::rustc-check-cfg=cfg(txpipe_pallas_verif)");
    let mut names: Vec<String> = fs::read_dir(&dir)
        .unwrap()
        .filter_map(|e| e.ok())
        .filter_map(|e| {
            let p = e.path();
            if p.extension()? == "rs" { Some(p.file_stem()?.to_str()?.to_string()) } else { None }
        })
        .filter(|n| n != "mod")
        .collect();
    names.sort();
    let mut out = String::new();
    for n in &names {
        out += &format!("#[path = \"{}/{}.rs\"] pub mod {};\n", dir.display(), n, n);
    }
    out += "pub fn registry() -> Vec<crate::fw::StreamDef> { vec![\n";
    for n in &names {
        out += &format!("  crate::fw::StreamDef {{ name: {n}::NAME, generate: {n}::generate, run_case: {n}::run_case }},\n");
    }
    out += "] }\n";
    fs::write(PathBuf::from(env::var("OUT_DIR").unwrap()).join("registry.rs"), out).unwrap();
}
