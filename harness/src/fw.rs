//! Harness framework: PRNG, case/ops plumbing, reply writer, panic capture.
use std::fmt::Write as _;
use std::panic::{self, AssertUnwindSafe, UnwindSafe};

/// splitmix64 — the single source of randomness (seeded from VERIF_SEED).
#[derive(Clone)]
pub struct Rng(pub u64);
impl Rng {
    pub fn new(seed: u64) -> Self { Rng(seed.wrapping_mul(0x9E3779B97F4A7C15) ^ 0xD1B54A32D192ED03) }
    pub fn next(&mut self) -> u64 {
        self.0 = self.0.wrapping_add(0x9E3779B97F4A7C15);
        let mut z = self.0;
        z = (z ^ (z >> 30)).wrapping_mul(0xBF58476D1CE4E5B9);
        z = (z ^ (z >> 27)).wrapping_mul(0x94D049BB133111EB);
        z ^ (z >> 31)
    }
    /// uniform in [0, n)
    pub fn below(&mut self, n: u64) -> u64 { if n == 0 { 0 } else { self.next() % n } }
    pub fn range(&mut self, lo: u64, hi_incl: u64) -> u64 { lo + self.below(hi_incl - lo + 1) }
    pub fn chance(&mut self, num: u64, den: u64) -> bool { self.below(den) < num }
    pub fn pick<'a, T>(&mut self, xs: &'a [T]) -> &'a T { &xs[self.below(xs.len() as u64) as usize] }
    pub fn bytes(&mut self, n: usize) -> Vec<u8> { (0..n).map(|_| self.next() as u8).collect() }
    /// boundary-weighted u64
    pub fn u64_edgy(&mut self) -> u64 {
        const B: [u64; 18] = [0, 1, 23, 24, 255, 256, 65535, 65536, (1 << 32) - 1, 1 << 32, (1 << 63) - 1, 1 << 63,
            u64::MAX, u64::MAX - 1, 127, 128, 1 << 31, (1 << 31) - 1];
        match self.below(4) {
            0 => *self.pick(&B),
            1 => self.below(300),
            2 => self.next() >> self.below(64),
            _ => self.next(),
        }
    }
    pub fn fork(&mut self) -> Rng { Rng(self.next()) }
}

pub fn hex(bs: &[u8]) -> String { if bs.is_empty() { "-".into() } else { hex::encode(bs) } }
pub fn unhex(s: &str) -> Option<Vec<u8>> { if s == "-" { Some(vec![]) } else { hex::decode(s).ok() } }

pub struct Case {
    pub id: u64,
    pub seed: u64,
    pub ops: Vec<Vec<String>>,
}

/// Collects generated cases as ops text.
pub struct Gen {
    pub rng: Rng,
    pub cases: usize,
    pub tier: String,
    pub seed: u64,
    pub out: String,
    next_id: u64,
}
impl Gen {
    pub fn new(seed: u64, cases: usize, tier: &str) -> Self {
        Gen { rng: Rng::new(seed), cases, tier: tier.into(), seed, out: String::new(), next_id: 0 }
    }
    pub fn thorough(&self) -> bool { self.tier == "thorough" }
    pub fn case<I: IntoIterator<Item = String>>(&mut self, ops: I) {
        let _ = writeln!(self.out, "case {} {}", self.next_id, self.seed);
        for l in ops { let _ = writeln!(self.out, "{}", l); }
        let _ = writeln!(self.out, "end");
        self.next_id += 1;
    }
}

/// Reply writer for one case. Exactly one reply line per op; `!`-lines are side channel
/// (`!viol` = the property itself fails on the implementation; `!cov` = distribution tags;
/// `!nt` = this case is non-trivial by the stream's rule) and are not diffed against the model.
pub struct Out {
    pub lines: Vec<String>,
    pub replies: usize,
}
impl Out {
    pub fn ok<S: AsRef<str>>(&mut self, v: S) { self.reply(format!("ok {}", v.as_ref())) }
    pub fn err<S: AsRef<str>>(&mut self, c: S) { self.reply(format!("err {}", c.as_ref())) }
    pub fn panic(&mut self) { self.reply("panic".into()) }
    pub fn reply(&mut self, l: String) { self.lines.push(l.trim_end().to_string()); self.replies += 1; }
    /// property oracle failed on the real implementation; `key` is stable and specific
    pub fn viol<S: AsRef<str>, T: AsRef<str>>(&mut self, key: S, detail: T) {
        self.lines.push(format!("!viol {} :: {}", key.as_ref(), detail.as_ref()));
    }
    pub fn cov<S: AsRef<str>>(&mut self, tag: S) { self.lines.push(format!("!cov {}", tag.as_ref())); }
    pub fn nontrivial(&mut self) { self.lines.push("!nt".into()); }
}

pub struct StreamDef {
    pub name: &'static str,
    pub generate: fn(&mut Gen),
    pub run_case: fn(&Case, &mut Out),
}

/// Run `f`, mapping a panic to `None`.
pub fn guard<T, F: FnOnce() -> T + UnwindSafe>(f: F) -> Option<T> { panic::catch_unwind(f).ok() }
pub fn guard_mut<T, F: FnOnce() -> T>(f: F) -> Option<T> { panic::catch_unwind(AssertUnwindSafe(f)).ok() }

pub fn parse_cases(text: &str) -> Vec<Case> {
    let mut cases = vec![];
    let mut cur: Option<Case> = None;
    for line in text.lines() {
        let toks: Vec<String> = line.split_whitespace().map(|s| s.to_string()).collect();
        if toks.is_empty() || toks[0].starts_with('#') { continue; }
        if toks[0] == "case" {
            let id = toks.get(1).and_then(|s| s.parse().ok()).unwrap_or(0);
            let seed = toks.get(2).and_then(|s| s.parse().ok()).unwrap_or(0);
            cur = Some(Case { id, seed, ops: vec![] });
        } else if toks[0] == "end" {
            if let Some(c) = cur.take() { cases.push(c); }
        } else if let Some(c) = cur.as_mut() {
            c.ops.push(toks);
        } else {
            // ops outside a case: implicit single case
            cur = Some(Case { id: 0, seed: 0, ops: vec![toks] });
        }
    }
    if let Some(c) = cur.take() { cases.push(c); }
    cases
}

pub fn run_all(def: &StreamDef, text: &str) -> String {
    let mut res = String::new();
    for case in parse_cases(text) {
        let mut out = Out { lines: vec![], replies: 0 };
        let r = panic::catch_unwind(AssertUnwindSafe(|| (def.run_case)(&case, &mut out)));
        let _ = writeln!(res, "case {}", case.id);
        for l in &out.lines { let _ = writeln!(res, "{}", l); }
        if r.is_err() {
            // a panic escaped the per-op guards: account for it on the current op, pad the rest
            if out.replies < case.ops.len() { let _ = writeln!(res, "panic"); }
            for _ in (out.replies + 1)..case.ops.len() { let _ = writeln!(res, "aborted"); }
        } else {
            for _ in out.replies..case.ops.len() { let _ = writeln!(res, "no-reply"); }
        }
        let _ = writeln!(res, "end");
    }
    res
}
