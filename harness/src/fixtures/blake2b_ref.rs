//! Independent BLAKE2b (RFC 7693, unkeyed, sequential) written from the RFC text for use as a
//! property oracle in the harness. Deliberately the plain one-shot formulation: pad, split in
//! 128-byte blocks, compress. Shares no code with cryptoxide or with the Lean model.
const IV: [u64; 8] = [
    0x6a09e667f3bcc908, 0xbb67ae8584caa73b, 0x3c6ef372fe94f82b, 0xa54ff53a5f1d36f1,
    0x510e527fade682d1, 0x9b05688c2b3e6c1f, 0x1f83d9abfb41bd6b, 0x5be0cd19137e2179,
];
const SIGMA: [[usize; 16]; 10] = [
    [0, 1, 2, 3, 4, 5, 6, 7, 8, 9, 10, 11, 12, 13, 14, 15],
    [14, 10, 4, 8, 9, 15, 13, 6, 1, 12, 0, 2, 11, 7, 5, 3],
    [11, 8, 12, 0, 5, 2, 15, 13, 10, 14, 3, 6, 7, 1, 9, 4],
    [7, 9, 3, 1, 13, 12, 11, 14, 2, 6, 5, 10, 4, 0, 15, 8],
    [9, 0, 5, 7, 2, 4, 10, 15, 14, 1, 11, 12, 6, 8, 3, 13],
    [2, 12, 6, 10, 0, 11, 8, 3, 4, 13, 7, 5, 15, 14, 1, 9],
    [12, 5, 1, 15, 14, 13, 4, 10, 0, 7, 6, 3, 9, 2, 8, 11],
    [13, 11, 7, 14, 12, 1, 3, 9, 5, 0, 15, 4, 8, 6, 2, 10],
    [6, 15, 14, 9, 11, 3, 0, 8, 12, 2, 13, 7, 1, 4, 10, 5],
    [10, 2, 8, 4, 7, 6, 1, 5, 15, 11, 9, 14, 3, 12, 13, 0],
];

fn f(h: &mut [u64; 8], block: &[u8], t: u128, last: bool) {
    let mut m = [0u64; 16];
    for i in 0..16 {
        let mut w = [0u8; 8];
        w.copy_from_slice(&block[8 * i..8 * i + 8]);
        m[i] = u64::from_le_bytes(w);
    }
    let mut v = [0u64; 16];
    v[..8].copy_from_slice(h);
    v[8..].copy_from_slice(&IV);
    v[12] ^= t as u64;
    v[13] ^= (t >> 64) as u64;
    if last { v[14] = !v[14]; }
    let mut g = |a: usize, b: usize, c: usize, d: usize, x: u64, y: u64| {
        v[a] = v[a].wrapping_add(v[b]).wrapping_add(x);
        v[d] = (v[d] ^ v[a]).rotate_right(32);
        v[c] = v[c].wrapping_add(v[d]);
        v[b] = (v[b] ^ v[c]).rotate_right(24);
        v[a] = v[a].wrapping_add(v[b]).wrapping_add(y);
        v[d] = (v[d] ^ v[a]).rotate_right(16);
        v[c] = v[c].wrapping_add(v[d]);
        v[b] = (v[b] ^ v[c]).rotate_right(63);
    };
    for r in 0..12 {
        let s = &SIGMA[r % 10];
        g(0, 4, 8, 12, m[s[0]], m[s[1]]);
        g(1, 5, 9, 13, m[s[2]], m[s[3]]);
        g(2, 6, 10, 14, m[s[4]], m[s[5]]);
        g(3, 7, 11, 15, m[s[6]], m[s[7]]);
        g(0, 5, 10, 15, m[s[8]], m[s[9]]);
        g(1, 6, 11, 12, m[s[10]], m[s[11]]);
        g(2, 7, 8, 13, m[s[12]], m[s[13]]);
        g(3, 4, 9, 14, m[s[14]], m[s[15]]);
    }
    for i in 0..8 { h[i] ^= v[i] ^ v[i + 8]; }
}

/// RFC 7693 §3.3 with kk = 0.
pub fn blake2b(nn: usize, data: &[u8]) -> Vec<u8> {
    let mut h = IV;
    h[0] ^= 0x0101_0000 ^ nn as u64;
    let dd = if data.is_empty() { 1 } else { data.len().div_ceil(128) };
    let mut padded = data.to_vec();
    padded.resize(dd * 128, 0);
    for i in 0..dd - 1 {
        f(&mut h, &padded[i * 128..(i + 1) * 128], ((i + 1) * 128) as u128, false);
    }
    f(&mut h, &padded[(dd - 1) * 128..], data.len() as u128, true);
    h.iter().flat_map(|w| w.to_le_bytes()).take(nn).collect()
}
