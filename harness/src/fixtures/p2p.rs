//! Shared by the `p2p_*` streams (C27/C28/C29): token <-> pallas-network2 message conversion,
//! canonical state text, and a synchronous driver of the real `InitiatorBehavior` /
//! `ResponderBehavior` (no tokio: events are fed to `handle_io`/`execute`, the `OutboundQueue`
//! is drained with a no-op waker).
use crate::fw::*;
use futures::StreamExt;
use pallas_network2::behavior::responder::{ResponderBehavior, ResponderCommand, ResponderEvent, ResponderState};
use pallas_network2::behavior::{
    AnyMessage, ConnectionState, InitiatorBehavior, InitiatorCommand, InitiatorEvent, InitiatorState,
    PromotionBehavior, PromotionConfig, PromotionTag,
};
use pallas_network2::protocol::{self as proto, AnyCbor, Point};
use pallas_network2::{Behavior, BehaviorOutput, InterfaceCommand, InterfaceError, InterfaceEvent, PeerId};
use std::collections::HashMap;
use std::net::Ipv4Addr;

pub fn pid(i: u64) -> PeerId {
    PeerId { host: format!("10.{}.{}.{}", (i >> 16) & 255, (i >> 8) & 255, i & 255), port: (3000 + (i % 60000)) as u16 }
}
pub fn idx(p: &PeerId) -> u64 {
    let v: Vec<u64> = p.host.split('.').filter_map(|x| x.parse().ok()).collect();
    if v.len() == 4 { (v[1] << 16) | (v[2] << 8) | v[3] } else { u64::MAX }
}
fn addr(i: u64) -> proto::peersharing::PeerAddress {
    proto::peersharing::PeerAddress::V4(Ipv4Addr::new(10, ((i >> 16) & 255) as u8, ((i >> 8) & 255) as u8, (i & 255) as u8), (3000 + (i % 60000)) as u16)
}
fn addr_idx(a: &proto::peersharing::PeerAddress) -> u64 {
    idx(&PeerId::from(a.clone()))
}
fn point(i: u64) -> Point { Point::Specific(i, vec![(i & 255) as u8; 4]) }
fn point_id(p: &Point) -> u64 { p.slot_or_default() }
fn tip() -> proto::chainsync::Tip { proto::chainsync::Tip(Point::Origin, 0) }
fn header(h: u64) -> proto::chainsync::HeaderContent {
    proto::chainsync::HeaderContent { variant: 1, byron_prefix: None, cbor: h.to_be_bytes().to_vec() }
}
fn be_id(b: &[u8]) -> u64 { let mut x = [0u8; 8]; if b.len() == 8 { x.copy_from_slice(b); } u64::from_be_bytes(x) }
fn any_cbor() -> AnyCbor { AnyCbor::from_raw_bytes(vec![0x01]) }
pub fn version_data(magic: u64, ps: Option<u8>) -> proto::handshake::n2n::VersionData {
    proto::handshake::n2n::VersionData::new(magic, false, ps, Some(false))
}

fn nat(s: &str) -> Option<u64> { s.parse().ok() }

pub fn parse_msg(t: &str) -> Option<AnyMessage> {
    use proto::{blockfetch as bf, chainsync as cs, handshake as hs, keepalive as ka, leiosfetch as lf, leiosnotify as ln, peersharing as ps, txsubmission as tx};
    let parts: Vec<&str> = t.split(':').collect();
    Some(match parts.as_slice() {
        ["hs.propose"] => AnyMessage::Handshake(hs::Message::Propose(hs::VersionTable { values: HashMap::new() })),
        ["hs.propose", tbl] => {
            let mut values = HashMap::new();
            if *tbl != "-" {
                for e in tbl.split(',') {
                    let (v, m) = e.split_once('-')?;
                    values.insert(nat(v)?, version_data(nat(m)?, Some(1)));
                }
            }
            AnyMessage::Handshake(hs::Message::Propose(hs::VersionTable { values }))
        }
        ["hs.accept", v, p] => {
            let psv = if *p == "x" { None } else { Some(nat(p)? as u8) };
            AnyMessage::Handshake(hs::Message::Accept(nat(v)?, version_data(proto::MAINNET_MAGIC, psv)))
        }
        ["hs.refuse"] => AnyMessage::Handshake(hs::Message::Refuse(hs::RefuseReason::VersionMismatch(vec![]))),
        ["hs.query"] => AnyMessage::Handshake(hs::Message::QueryReply(hs::VersionTable { values: HashMap::new() })),
        ["ka.keepalive", c] => AnyMessage::KeepAlive(ka::Message::KeepAlive(nat(c)? as u16)),
        ["ka.resp", c] => AnyMessage::KeepAlive(ka::Message::ResponseKeepAlive(nat(c)? as u16)),
        ["ka.done"] => AnyMessage::KeepAlive(ka::Message::Done),
        ["ps.req", n] => AnyMessage::PeerSharing(ps::Message::ShareRequest(nat(n)? as u8)),
        ["ps.peers", l] => {
            let mut v = vec![];
            if *l != "-" && !l.is_empty() { for e in l.split(',') { v.push(addr(nat(e)?)); } }
            AnyMessage::PeerSharing(ps::Message::SharePeers(v))
        }
        ["ps.done"] => AnyMessage::PeerSharing(ps::Message::Done),
        ["bf.req", r] => AnyMessage::BlockFetch(bf::Message::RequestRange((Point::Origin, point(nat(r)?)))),
        ["bf.clientdone"] => AnyMessage::BlockFetch(bf::Message::ClientDone),
        ["bf.start"] => AnyMessage::BlockFetch(bf::Message::StartBatch),
        ["bf.noblocks"] => AnyMessage::BlockFetch(bf::Message::NoBlocks),
        ["bf.block", b] => AnyMessage::BlockFetch(bf::Message::Block(nat(b)?.to_be_bytes().to_vec())),
        ["bf.batchdone"] => AnyMessage::BlockFetch(bf::Message::BatchDone),
        ["cs.reqnext"] => AnyMessage::ChainSync(cs::Message::RequestNext),
        ["cs.await"] => AnyMessage::ChainSync(cs::Message::AwaitReply),
        ["cs.fwd", h] => AnyMessage::ChainSync(cs::Message::RollForward(header(nat(h)?), tip())),
        ["cs.bwd", p] => AnyMessage::ChainSync(cs::Message::RollBackward(point(nat(p)?), tip())),
        ["cs.find"] => AnyMessage::ChainSync(cs::Message::FindIntersect(vec![Point::Origin])),
        ["cs.found", p] => AnyMessage::ChainSync(cs::Message::IntersectFound(point(nat(p)?), tip())),
        ["cs.notfound"] => AnyMessage::ChainSync(cs::Message::IntersectNotFound(tip())),
        ["cs.done"] => AnyMessage::ChainSync(cs::Message::Done),
        ["tx.init"] => AnyMessage::TxSubmission(tx::Message::Init),
        ["tx.reqids"] => AnyMessage::TxSubmission(tx::Message::RequestTxIds(true, 0, 10)),
        ["tx.reqidsnb"] => AnyMessage::TxSubmission(tx::Message::RequestTxIds(false, 0, 10)),
        ["tx.replyids"] => AnyMessage::TxSubmission(tx::Message::ReplyTxIds(vec![])),
        ["tx.reqtxs"] => AnyMessage::TxSubmission(tx::Message::RequestTxs(vec![])),
        ["tx.replytxs", n] => AnyMessage::TxSubmission(tx::Message::ReplyTxs((0..nat(n)?).map(|i| tx::EraTxBody(6, vec![i as u8])).collect())),
        ["tx.done"] => AnyMessage::TxSubmission(tx::Message::Done),
        ["ln.reqnext"] => AnyMessage::LeiosNotify(ln::Message::RequestNext),
        ["ln.announce"] => AnyMessage::LeiosNotify(ln::Message::BlockAnnouncement(any_cbor())),
        ["ln.offer"] => AnyMessage::LeiosNotify(ln::Message::BlockOffer(point(1), 10)),
        ["ln.txsoffer"] => AnyMessage::LeiosNotify(ln::Message::BlockTxsOffer(point(1))),
        ["ln.votes"] => AnyMessage::LeiosNotify(ln::Message::Votes(vec![any_cbor()])),
        ["ln.done"] => AnyMessage::LeiosNotify(ln::Message::Done),
        ["lf.blockreq", e] => AnyMessage::LeiosFetch(lf::Message::BlockRequest(point(nat(e)?))),
        ["lf.block"] => AnyMessage::LeiosFetch(lf::Message::Block(any_cbor())),
        ["lf.txsreq", e] => AnyMessage::LeiosFetch(lf::Message::BlockTxsRequest(point(nat(e)?), lf::Bitmaps::all(3))),
        ["lf.blocktxs"] => AnyMessage::LeiosFetch(lf::Message::BlockTxs { point: point(1), bitmaps: lf::Bitmaps::all(3), txs: vec![any_cbor()] }),
        ["lf.done"] => AnyMessage::LeiosFetch(lf::Message::Done),
        _ => return None,
    })
}

fn show_pairs(t: &proto::handshake::n2n::VersionTable) -> String {
    let mut ks: Vec<_> = t.values.iter().map(|(k, v)| (*k, v.network_magic)).collect();
    ks.sort();
    ks.iter().map(|(k, m)| format!("{k}-{m}")).collect::<Vec<_>>().join(",")
}

/// `tbl`: print the proposed version table (responder side) or drop it (the initiator's own proposal)
pub fn show_msg(m: &AnyMessage, tbl: bool) -> String {
    use proto::{blockfetch as bf, chainsync as cs, handshake as hs, keepalive as ka, leiosfetch as lf, leiosnotify as ln, peersharing as ps, txsubmission as tx};
    match m {
        AnyMessage::Handshake(hs::Message::Propose(t)) => if tbl && !t.values.is_empty() { format!("hs.propose:{}", show_pairs(t)) } else { "hs.propose".into() },
        AnyMessage::Handshake(hs::Message::Accept(v, d)) => format!("hs.accept:{}:{}", v, d.peer_sharing.unwrap_or(0)),
        AnyMessage::Handshake(hs::Message::Refuse(_)) => "hs.refuse".into(),
        AnyMessage::Handshake(hs::Message::QueryReply(_)) => "hs.query".into(),
        AnyMessage::KeepAlive(ka::Message::KeepAlive(c)) => format!("ka.keepalive:{c}"),
        AnyMessage::KeepAlive(ka::Message::ResponseKeepAlive(c)) => format!("ka.resp:{c}"),
        AnyMessage::KeepAlive(ka::Message::Done) => "ka.done".into(),
        AnyMessage::PeerSharing(ps::Message::ShareRequest(n)) => format!("ps.req:{n}"),
        AnyMessage::PeerSharing(ps::Message::SharePeers(l)) => format!("ps.peers:{}", if l.is_empty() { "-".to_string() } else { l.iter().map(|a| addr_idx(a).to_string()).collect::<Vec<_>>().join(",") }),
        AnyMessage::PeerSharing(ps::Message::Done) => "ps.done".into(),
        AnyMessage::BlockFetch(bf::Message::RequestRange(r)) => format!("bf.req:{}", point_id(&r.1)),
        AnyMessage::BlockFetch(bf::Message::ClientDone) => "bf.clientdone".into(),
        AnyMessage::BlockFetch(bf::Message::StartBatch) => "bf.start".into(),
        AnyMessage::BlockFetch(bf::Message::NoBlocks) => "bf.noblocks".into(),
        AnyMessage::BlockFetch(bf::Message::Block(b)) => format!("bf.block:{}", be_id(b)),
        AnyMessage::BlockFetch(bf::Message::BatchDone) => "bf.batchdone".into(),
        AnyMessage::ChainSync(cs::Message::RequestNext) => "cs.reqnext".into(),
        AnyMessage::ChainSync(cs::Message::AwaitReply) => "cs.await".into(),
        AnyMessage::ChainSync(cs::Message::RollForward(h, _)) => format!("cs.fwd:{}", be_id(&h.cbor)),
        AnyMessage::ChainSync(cs::Message::RollBackward(p, _)) => format!("cs.bwd:{}", point_id(p)),
        AnyMessage::ChainSync(cs::Message::FindIntersect(_)) => "cs.find".into(),
        AnyMessage::ChainSync(cs::Message::IntersectFound(p, _)) => format!("cs.found:{}", point_id(p)),
        AnyMessage::ChainSync(cs::Message::IntersectNotFound(_)) => "cs.notfound".into(),
        AnyMessage::ChainSync(cs::Message::Done) => "cs.done".into(),
        AnyMessage::TxSubmission(tx::Message::Init) => "tx.init".into(),
        AnyMessage::TxSubmission(tx::Message::RequestTxIds(b, ..)) => if *b { "tx.reqids".into() } else { "tx.reqidsnb".into() },
        AnyMessage::TxSubmission(tx::Message::ReplyTxIds(_)) => "tx.replyids".into(),
        AnyMessage::TxSubmission(tx::Message::RequestTxs(_)) => "tx.reqtxs".into(),
        AnyMessage::TxSubmission(tx::Message::ReplyTxs(l)) => format!("tx.replytxs:{}", l.len()),
        AnyMessage::TxSubmission(tx::Message::Done) => "tx.done".into(),
        AnyMessage::LeiosNotify(ln::Message::RequestNext) => "ln.reqnext".into(),
        AnyMessage::LeiosNotify(ln::Message::BlockAnnouncement(_)) => "ln.announce".into(),
        AnyMessage::LeiosNotify(ln::Message::BlockOffer(..)) => "ln.offer".into(),
        AnyMessage::LeiosNotify(ln::Message::BlockTxsOffer(_)) => "ln.txsoffer".into(),
        AnyMessage::LeiosNotify(ln::Message::Votes(_)) => "ln.votes".into(),
        AnyMessage::LeiosNotify(ln::Message::Done) => "ln.done".into(),
        AnyMessage::LeiosFetch(lf::Message::BlockRequest(e)) => format!("lf.blockreq:{}", point_id(e)),
        AnyMessage::LeiosFetch(lf::Message::Block(_)) => "lf.block".into(),
        AnyMessage::LeiosFetch(lf::Message::BlockTxsRequest(e, _)) => format!("lf.txsreq:{}", point_id(e)),
        AnyMessage::LeiosFetch(lf::Message::BlockTxs { .. }) => "lf.blocktxs".into(),
        AnyMessage::LeiosFetch(lf::Message::Done) => "lf.done".into(),
    }
}

pub fn show_conn(c: &ConnectionState) -> &'static str {
    match c {
        ConnectionState::New => "n", ConnectionState::Connecting => "g", ConnectionState::Connected => "c",
        ConnectionState::Initialized => "i", ConnectionState::Disconnected => "d", ConnectionState::Errored => "e",
    }
}
fn show_hs(s: &proto::handshake::State<proto::handshake::n2n::VersionData>) -> String {
    use proto::handshake::{DoneState, State};
    match s {
        State::Propose => "P".into(), State::Confirm(_) => "C".into(),
        State::Done(DoneState::Accepted(v, d)) => format!("A{}.{}", v, d.peer_sharing.unwrap_or(0)),
        State::Done(DoneState::Rejected(_)) => "R".into(), State::Done(DoneState::QueryReply(_)) => "Q".into(),
    }
}
fn show_ka(s: &proto::keepalive::State) -> String {
    use proto::keepalive::{ClientState, State};
    match s { State::Client(ClientState::Empty) => "C-".into(), State::Client(ClientState::Response(c)) => format!("C{c}"), State::Server(c) => format!("S{c}"), State::Done => "D".into() }
}
fn show_ps(s: &proto::peersharing::State) -> String {
    use proto::peersharing::{IdleState, State};
    match s {
        State::Idle(IdleState::Empty) => "I-".into(),
        State::Idle(IdleState::Response(l)) => format!("I[{}]", l.iter().map(|a| addr_idx(a).to_string()).collect::<Vec<_>>().join(",")),
        State::Busy(n) => format!("B{n}"), State::Done => "D".into(),
    }
}
fn show_bf(s: &proto::blockfetch::State) -> String {
    use proto::blockfetch::State;
    match s { State::Idle => "I".into(), State::Busy(r) => format!("B{}", point_id(&r.1)), State::Streaming(None) => "S-".into(), State::Streaming(Some(b)) => format!("S{}", be_id(b)), State::Done => "D".into() }
}
fn show_cs(s: &proto::chainsync::State<proto::chainsync::HeaderContent>) -> String {
    use proto::chainsync::{Data, State};
    match s {
        State::Idle(Data::New) => "In".into(), State::Idle(Data::Intersection(p, _)) => format!("Ii{}", point_id(p)),
        State::Idle(Data::NoIntersection(_)) => "Ix".into(), State::Idle(Data::Content(h, _)) => format!("Ic{}", be_id(&h.cbor)),
        State::Idle(Data::Rollback(p, _)) => format!("Ir{}", point_id(p)), State::Idle(Data::Drained) => "Id".into(),
        State::CanAwait => "A".into(), State::MustReply => "M".into(), State::Intersect(_) => "X".into(), State::Done => "D".into(),
    }
}
fn show_tx(s: &proto::txsubmission::State) -> String {
    use proto::txsubmission::State;
    match s { State::Init => "N".into(), State::Idle => "I".into(), State::TxIdsNonBlocking => "n".into(), State::TxIdsBlocking => "b".into(), State::Txs(l) => format!("T{}", l.len()), State::Done => "D".into() }
}
fn show_ln(s: &proto::leiosnotify::State) -> String {
    use proto::leiosnotify::State;
    match s { State::Idle(None) => "I0".into(), State::Idle(Some(_)) => "I1".into(), State::Busy => "B".into(), State::Done => "D".into() }
}
fn show_lf(s: &proto::leiosfetch::State) -> String {
    use proto::leiosfetch::State;
    match s { State::Idle(None) => "I-".into(), State::Idle(Some((e, _))) => format!("I{}", point_id(e)), State::AwaitingBlock(e) => format!("A{}", point_id(e)), State::AwaitingBlockTxs(e, _) => format!("T{}", point_id(e)), State::Done => "D".into() }
}
pub fn show_tag(t: PromotionTag) -> &'static str {
    match t { PromotionTag::Cold => "C", PromotionTag::Warm => "W", PromotionTag::Hot => "H", PromotionTag::Banned => "B" }
}
fn show_peer(i: u64, st: &InitiatorState) -> String {
    format!("{}:{}{}:v{}:e{}:s{}:{}", i, show_tag(st.promotion()), show_conn(st.verif_connection()), st.verif_violation() as u8, st.verif_error_count(),
        st.verif_continue_sync() as u8,
        [show_hs(st.verif_handshake()), show_ka(st.verif_keepalive()), show_ps(st.verif_peersharing()), show_bf(st.verif_blockfetch()),
         show_cs(st.verif_chainsync()), show_tx(st.verif_tx_submission()), show_ln(st.verif_leios_notify()), show_lf(st.verif_leios_fetch())].join("/"))
}
fn show_set(s: &std::collections::HashSet<PeerId>) -> String {
    let mut v: Vec<u64> = s.iter().map(idx).collect();
    v.sort();
    format!("[{}]", v.iter().map(|x| x.to_string()).collect::<Vec<_>>().join(","))
}
fn sorted(v: Vec<PeerId>) -> Vec<u64> { let mut v: Vec<u64> = v.iter().map(idx).collect(); v.sort(); v }
fn join(v: &[u64], sep: &str) -> String { v.iter().map(|x| x.to_string()).collect::<Vec<_>>().join(sep) }

/// one drained output of the initiator, in canonical form
#[derive(Clone, Debug, PartialEq)]
pub enum OutItem { Connect(u64), Disconnect(u64), Send(u64, String), Event(String) }
impl OutItem {
    pub fn text(&self) -> String {
        match self { OutItem::Connect(p) => format!("connect:{p}"), OutItem::Disconnect(p) => format!("disconnect:{p}"), OutItem::Send(p, m) => format!("send:{p}:{m}"), OutItem::Event(e) => e.clone() }
    }
}
fn show_init_event(e: &InitiatorEvent) -> String {
    match e {
        InitiatorEvent::PeerInitialized(p, (v, _)) => format!("ev.init:{}:{}", idx(p), v),
        InitiatorEvent::IntersectionFound(p, pt, _) => format!("ev.isect:{}:{}", idx(p), point_id(pt)),
        InitiatorEvent::BlockHeaderReceived(p, h, _) => format!("ev.hdr:{}:{}", idx(p), be_id(&h.cbor)),
        InitiatorEvent::RollbackReceived(p, pt, _) => format!("ev.rb:{}:{}", idx(p), point_id(pt)),
        InitiatorEvent::BlockBodyReceived(p, b) => format!("ev.body:{}:{}", idx(p), be_id(b)),
        InitiatorEvent::TxRequested(p, _) => format!("ev.txreq:{}", idx(p)),
        InitiatorEvent::EbNotification(p, _) => format!("ev.ebnote:{}", idx(p)),
        InitiatorEvent::EbFetched(p, eb, _) => format!("ev.ebfetched:{}:{}", idx(p), point_id(eb)),
    }
}

pub struct Init {
    pub b: InitiatorBehavior,
    pub max: (usize, usize, usize, u32),
    pub dead: bool,
}

pub enum Step { Ok { annot: String, outs: Vec<OutItem> }, Panic, Dead, Bad }

impl Init {
    pub fn new(max_peers: usize, max_warm: usize, max_hot: usize, max_err: u32) -> Self {
        let b = InitiatorBehavior {
            promotion: PromotionBehavior::new(PromotionConfig { max_peers, max_warm_peers: max_warm, max_hot_peers: max_hot, max_error_count: max_err }),
            ..Default::default()
        };
        Init { b, max: (max_peers, max_warm, max_hot, max_err), dead: false }
    }
    pub fn drain(&mut self) -> Vec<OutItem> {
        let waker = futures::task::noop_waker();
        let mut cx = std::task::Context::from_waker(&waker);
        let mut v = vec![];
        while let std::task::Poll::Ready(Some(o)) = self.b.poll_next_unpin(&mut cx) {
            v.push(match o {
                BehaviorOutput::InterfaceCommand(InterfaceCommand::Connect(p)) => OutItem::Connect(idx(&p)),
                BehaviorOutput::InterfaceCommand(InterfaceCommand::Disconnect(p)) => OutItem::Disconnect(idx(&p)),
                BehaviorOutput::InterfaceCommand(InterfaceCommand::Send(p, m)) => OutItem::Send(idx(&p), show_msg(&m, false)),
                BehaviorOutput::ExternalEvent(e) => OutItem::Event(show_init_event(&e)),
            });
        }
        v
    }
    pub fn set(&self, which: char) -> Vec<u64> {
        let s = match which { 'C' => &self.b.promotion.cold_peers, 'W' => &self.b.promotion.warm_peers, 'H' => &self.b.promotion.hot_peers, _ => &self.b.promotion.banned_peers };
        let mut v: Vec<u64> = s.iter().map(idx).collect();
        v.sort();
        v
    }
    pub fn state_text(&self, outs: &[OutItem]) -> String {
        let mut ps: Vec<(u64, &InitiatorState)> = self.b.peers.iter().map(|(k, v)| (idx(k), v)).collect();
        ps.sort_by_key(|x| x.0);
        format!("[{}] C{} W{} H{} B{} D[{}] Q{}/{} |{}",
            outs.iter().map(|o| o.text()).collect::<Vec<_>>().join(" "),
            show_set(&self.b.promotion.cold_peers), show_set(&self.b.promotion.warm_peers), show_set(&self.b.promotion.hot_peers), show_set(&self.b.promotion.banned_peers),
            join(&sorted(self.b.discovery.verif_discovered()), ","), self.b.blockfetch.verif_requests().len(), self.b.leiosfetch.verif_requests().len(),
            ps.iter().map(|(i, st)| format!(" {}", show_peer(*i, st))).collect::<String>())
    }
    /// run one op against the real behaviour; panics are caught
    pub fn exec(&mut self, op: &[String]) -> Step {
        if self.dead { return Step::Dead; }
        let a: Vec<&str> = op.iter().map(|s| s.as_str()).collect();
        let p = |s: &str| nat(s).map(pid);
        let mut annot = String::new();
        enum Act { Cmd(InitiatorCommand), Io(InterfaceEvent<AnyMessage>) }
        let act = match a.as_slice() {
            ["include", x] => p(x).map(|x| Act::Cmd(InitiatorCommand::IncludePeer(x))),
            ["hk", ..] => Some(Act::Cmd(InitiatorCommand::Housekeeping)),
            ["idle", ..] => Some(Act::Io(InterfaceEvent::Idle)),
            ["startsync"] => Some(Act::Cmd(InitiatorCommand::StartSync(vec![Point::Origin]))),
            ["continuesync", x] => p(x).map(|x| Act::Cmd(InitiatorCommand::ContinueSync(x))),
            ["reqblocks", r] => nat(r).map(|r| Act::Cmd(InitiatorCommand::RequestBlocks((Point::Origin, point(r))))),
            ["sendtx"] => Some(Act::Cmd(InitiatorCommand::SendTx(pid(0), proto::txsubmission::EraTxId(6, vec![1]), proto::txsubmission::EraTxBody(6, vec![2])))),
            ["fetcheb", x, e] => p(x).and_then(|x| nat(e).map(|e| Act::Cmd(InitiatorCommand::FetchEb(x, point(e))))),
            ["fetchebtxs", x, e] => p(x).and_then(|x| nat(e).map(|e| Act::Cmd(InitiatorCommand::FetchEbTxs(x, point(e), proto::leiosfetch::Bitmaps::all(3))))),
            ["ban", x] => p(x).map(|x| Act::Cmd(InitiatorCommand::BanPeer(x))),
            ["demote", x] => p(x).map(|x| Act::Cmd(InitiatorCommand::DemotePeer(x))),
            ["connected", x] => p(x).map(|x| Act::Io(InterfaceEvent::Connected(x))),
            ["disconnected", x] => p(x).map(|x| Act::Io(InterfaceEvent::Disconnected(x))),
            ["error", x] => p(x).map(|x| Act::Io(InterfaceEvent::Error(x, InterfaceError::Other("err".into())))),
            ["sent", x, m] => p(x).and_then(|x| parse_msg(m).map(|m| Act::Io(InterfaceEvent::Sent(x, m)))),
            ["recv", x, ms @ ..] => p(x).and_then(|x| ms.iter().map(|m| parse_msg(m)).collect::<Option<Vec<_>>>().map(|ms| Act::Io(InterfaceEvent::Recv(x, ms)))),
            _ => None,
        };
        let Some(act) = act else { return Step::Bad; };
        let is_hk = matches!(a[0], "hk" | "idle");
        // the hash-map iteration order the coming housekeeping pass will use, and what discovery holds
        let (order, disc_before) = if is_hk {
            (self.b.peers.keys().map(idx).collect::<Vec<u64>>(), sorted(self.b.discovery.verif_discovered()))
        } else { (vec![], vec![]) };
        let b = &mut self.b;
        let r = guard_mut(move || match act { Act::Cmd(c) => b.execute(c), Act::Io(e) => b.handle_io(e) });
        if r.is_none() { self.dead = true; return Step::Panic; }
        if is_hk {
            let after = sorted(self.b.discovery.verif_discovered());
            let taken: Vec<u64> = disc_before.iter().filter(|x| !after.contains(x)).cloned().collect();
            annot = format!("@ {} ; {} @ ", join(&order, " "), join(&taken, " "));
        }
        let outs = self.drain();
        Step::Ok { annot, outs }
    }
}

// ---------------------------------------------------------------------------------------------
// responder

/// responder peers `4h..4h+3` share host `10.0.0.h`
pub fn rpid(i: u64) -> PeerId { PeerId { host: format!("10.0.0.{}", i / 4), port: (3000 + i % 4) as u16 } }
pub fn ridx(p: &PeerId) -> u64 {
    let h: u64 = p.host.rsplit('.').next().and_then(|x| x.parse().ok()).unwrap_or(0);
    h * 4 + (p.port as u64 - 3000)
}
fn rhost(h: &str) -> u64 { h.rsplit('.').next().and_then(|x| x.parse().ok()).unwrap_or(0) }

fn show_resp_event(e: &ResponderEvent) -> String {
    match e {
        ResponderEvent::PeerInitialized(p, (v, _)) => format!("ev.init:{}:{}", ridx(p), v),
        ResponderEvent::PeerDisconnected(p) => format!("ev.disc:{}", ridx(p)),
        ResponderEvent::IntersectionRequested(p, _) => format!("ev.isectreq:{}", ridx(p)),
        ResponderEvent::NextHeaderRequested(p) => format!("ev.nextreq:{}", ridx(p)),
        ResponderEvent::BlockRangeRequested(p, r) => format!("ev.rangereq:{}:{}", ridx(p), point_id(&r.1)),
        ResponderEvent::PeersRequested(p, n) => format!("ev.peersreq:{}:{}", ridx(p), n),
        ResponderEvent::TxReceived(p, _) => format!("ev.txrecv:{}", ridx(p)),
        ResponderEvent::EbNotificationRequested(p) => format!("ev.ebnotereq:{}", ridx(p)),
        ResponderEvent::EbRequested(p, e) => format!("ev.ebreq:{}:{}", ridx(p), point_id(e)),
        ResponderEvent::EbTxsRequested(p, e, _) => format!("ev.ebtxsreq:{}:{}", ridx(p), point_id(e)),
    }
}
fn show_rpeer(i: u64, st: &ResponderState) -> String {
    format!("{}:{}:v{}:e{}:{}", i, show_conn(st.verif_connection()), st.verif_violation() as u8, st.verif_error_count(),
        [show_hs(st.verif_handshake()), show_ka(st.verif_keepalive()), show_ps(st.verif_peersharing()), show_bf(st.verif_blockfetch()),
         show_cs(st.verif_chainsync()), show_tx(st.verif_tx_submission()), show_ln(st.verif_leios_notify()), show_lf(st.verif_leios_fetch())].join("/"))
}

pub struct Resp { pub b: ResponderBehavior, pub dead: bool }

impl Resp {
    pub fn new(max_err: u32, max_per_ip: usize, tbl: &str) -> Option<Self> {
        use pallas_network2::behavior::responder::{connection, handshake};
        let mut values = HashMap::new();
        if tbl != "-" { for e in tbl.split(',') { let (v, m) = e.split_once('-')?; values.insert(nat(v)?, version_data(nat(m)?, Some(1))); } }
        let b = ResponderBehavior {
            connection: connection::ConnectionResponder::new(connection::ConnectionResponderConfig { max_error_count: max_err, max_connections_per_ip: max_per_ip }),
            handshake: handshake::HandshakeResponder::new(handshake::HandshakeResponderConfig { supported_version: proto::handshake::VersionTable { values } }),
            ..Default::default()
        };
        Some(Resp { b, dead: false })
    }
    pub fn drain(&mut self) -> Vec<OutItem> {
        let waker = futures::task::noop_waker();
        let mut cx = std::task::Context::from_waker(&waker);
        let mut v = vec![];
        while let std::task::Poll::Ready(Some(o)) = self.b.poll_next_unpin(&mut cx) {
            v.push(match o {
                BehaviorOutput::InterfaceCommand(InterfaceCommand::Connect(p)) => OutItem::Connect(ridx(&p)),
                BehaviorOutput::InterfaceCommand(InterfaceCommand::Disconnect(p)) => OutItem::Disconnect(ridx(&p)),
                BehaviorOutput::InterfaceCommand(InterfaceCommand::Send(p, m)) => OutItem::Send(ridx(&p), show_msg(&m, true)),
                BehaviorOutput::ExternalEvent(e) => OutItem::Event(show_resp_event(&e)),
            });
        }
        v
    }
    pub fn state_text(&self, outs: &[OutItem]) -> String {
        let mut ps: Vec<(u64, &ResponderState)> = self.b.peers.iter().map(|(k, v)| (ridx(k), v)).collect();
        ps.sort_by_key(|x| x.0);
        let mut banned: Vec<u64> = self.b.connection.verif_banned().iter().map(ridx).collect();
        banned.sort();
        let mut acc: Vec<u64> = self.b.connection.verif_accepted().iter().map(ridx).collect();
        acc.sort();
        let mut ips: Vec<(u64, usize)> = self.b.connection.verif_connections_per_ip().iter().map(|(h, c)| (rhost(h), *c)).collect();
        ips.sort();
        format!("[{}] B[{}] A[{}] n{} IP[{}] |{}",
            outs.iter().map(|o| o.text()).collect::<Vec<_>>().join(" "), join(&banned, ","), join(&acc, ","), self.b.connection.verif_active_peers(),
            ips.iter().map(|(h, c)| format!("{h}:{c}")).collect::<Vec<_>>().join(" "),
            ps.iter().map(|(i, st)| format!(" {}", show_rpeer(*i, st))).collect::<String>())
    }
    pub fn exec(&mut self, op: &[String]) -> Step {
        if self.dead { return Step::Dead; }
        let a: Vec<&str> = op.iter().map(|s| s.as_str()).collect();
        let p = |s: &str| nat(s).map(rpid);
        enum Act { Cmd(ResponderCommand), Io(InterfaceEvent<AnyMessage>) }
        let list = |l: &str| -> Option<Vec<u64>> { if l == "-" || l.is_empty() { Some(vec![]) } else { l.split(',').map(nat).collect() } };
        let act = match a.as_slice() {
            ["hk", ..] => Some(Act::Cmd(ResponderCommand::Housekeeping)),
            ["idle", ..] => Some(Act::Io(InterfaceEvent::Idle)),
            ["connected", x] => p(x).map(|x| Act::Io(InterfaceEvent::Connected(x))),
            ["disconnected", x] => p(x).map(|x| Act::Io(InterfaceEvent::Disconnected(x))),
            ["error", x] => p(x).map(|x| Act::Io(InterfaceEvent::Error(x, InterfaceError::Other("err".into())))),
            ["sent", x, m] => p(x).and_then(|x| parse_msg(m).map(|m| Act::Io(InterfaceEvent::Sent(x, m)))),
            ["recv", x, ms @ ..] => p(x).and_then(|x| ms.iter().map(|m| parse_msg(m)).collect::<Option<Vec<_>>>().map(|ms| Act::Io(InterfaceEvent::Recv(x, ms)))),
            ["isect", x, v] => p(x).and_then(|x| nat(v).map(|v| Act::Cmd(ResponderCommand::ProvideIntersection(x, point(v), tip())))),
            ["header", x, v] => p(x).and_then(|x| nat(v).map(|v| Act::Cmd(ResponderCommand::ProvideHeader(x, header(v), tip())))),
            ["rollback", x, v] => p(x).and_then(|x| nat(v).map(|v| Act::Cmd(ResponderCommand::ProvideRollback(x, point(v), tip())))),
            ["blocks", x, l] => p(x).and_then(|x| list(l).map(|l| Act::Cmd(ResponderCommand::ProvideBlocks(x, l.iter().map(|b| b.to_be_bytes().to_vec()).collect())))),
            ["peers", x, l] => p(x).and_then(|x| list(l).map(|l| Act::Cmd(ResponderCommand::ProvidePeers(x, l.iter().map(|i| addr(*i)).collect())))),
            ["ebann", x] => p(x).map(|x| Act::Cmd(ResponderCommand::ProvideEbAnnouncement(x, any_cbor()))),
            ["eboffer", x] => p(x).map(|x| Act::Cmd(ResponderCommand::ProvideEbOffer(x, point(1), 10))),
            ["ebtxsoffer", x] => p(x).map(|x| Act::Cmd(ResponderCommand::ProvideEbTxsOffer(x, point(1)))),
            ["votes", x] => p(x).map(|x| Act::Cmd(ResponderCommand::ProvideVotes(x, vec![any_cbor()]))),
            ["eb", x] => p(x).map(|x| Act::Cmd(ResponderCommand::ProvideEb(x, any_cbor()))),
            ["ebtxs", x] => p(x).map(|x| Act::Cmd(ResponderCommand::ProvideEbTxs(x, point(1), proto::leiosfetch::Bitmaps::all(3), vec![any_cbor()]))),
            ["ban", x] => p(x).map(|x| Act::Cmd(ResponderCommand::BanPeer(x))),
            ["disc", x] => p(x).map(|x| Act::Cmd(ResponderCommand::DisconnectPeer(x))),
            _ => None,
        };
        let Some(act) = act else { return Step::Bad; };
        let is_hk = matches!(a[0], "hk" | "idle");
        let order: Vec<u64> = if is_hk { self.b.peers.keys().map(ridx).collect() } else { vec![] };
        let b = &mut self.b;
        let r = guard_mut(move || match act { Act::Cmd(c) => b.execute(c), Act::Io(e) => b.handle_io(e) });
        if r.is_none() { self.dead = true; return Step::Panic; }
        let annot = if is_hk { format!("@ {} ;  @ ", join(&order, " ")) } else { String::new() };
        let outs = self.drain();
        Step::Ok { annot, outs }
    }
}

// ---------------------------------------------------------------------------------------------
// C28: abstract connections with a specification-conformant responder. The tables below are
// written from DESIGN.md Appendix A (Ouroboros network spec / CIP-164), independently of both the
// pallas `State::apply` functions and the Lean model; messages are the canonical tokens.

#[derive(Clone, Debug, PartialEq)]
pub struct Wire { pub hs: char, pub ka: char, pub ps: char, pub bf: char, pub cs: char, pub tx: char, pub ln: char, pub lf: char }
impl Default for Wire { fn default() -> Self { Wire { hs: 'P', ka: 'C', ps: 'I', bf: 'I', cs: 'I', tx: 'N', ln: 'I', lf: 'I' } } }
impl Wire {
    pub fn text(&self) -> String { [self.hs, self.ka, self.ps, self.bf, self.cs, self.tx, self.ln, self.lf].iter().collect() }
}
pub fn kind(tok: &str) -> &str { tok.split(':').next().unwrap_or("") }
pub fn proto_of(tok: &str) -> &str { tok.split('.').next().unwrap_or("") }

/// what the initiator (client agency) may send in view `w`
pub fn client_step(w: &Wire, tok: &str) -> Option<Wire> {
    let mut n = w.clone();
    match (kind(tok), w) {
        ("hs.propose", Wire { hs: 'P', .. }) => n.hs = 'C',
        ("ka.keepalive", Wire { ka: 'C', .. }) => n.ka = 'S',
        ("ka.done", Wire { ka: 'C', .. }) => n.ka = 'D',
        ("ps.req", Wire { ps: 'I', .. }) => n.ps = 'B',
        ("ps.done", Wire { ps: 'I', .. }) => n.ps = 'D',
        ("bf.req", Wire { bf: 'I', .. }) => n.bf = 'B',
        ("bf.clientdone", Wire { bf: 'I', .. }) => n.bf = 'D',
        ("cs.reqnext", Wire { cs: 'I', .. }) => n.cs = 'A',
        ("cs.find", Wire { cs: 'I', .. }) => n.cs = 'X',
        ("cs.done", Wire { cs: 'I', .. }) => n.cs = 'D',
        ("tx.init", Wire { tx: 'N', .. }) => n.tx = 'I',
        ("tx.replyids", Wire { tx: 'b', .. }) | ("tx.replyids", Wire { tx: 'n', .. }) => n.tx = 'I',
        ("tx.replytxs", Wire { tx: 'T', .. }) => n.tx = 'I',
        ("tx.done", Wire { tx: 'b', .. }) => n.tx = 'D',
        ("ln.reqnext", Wire { ln: 'I', .. }) => n.ln = 'B',
        ("ln.done", Wire { ln: 'I', .. }) => n.ln = 'D',
        ("lf.blockreq", Wire { lf: 'I', .. }) => n.lf = 'A',
        ("lf.txsreq", Wire { lf: 'I', .. }) => n.lf = 'T',
        ("lf.done", Wire { lf: 'I', .. }) => n.lf = 'D',
        _ => return None,
    }
    Some(n)
}
/// what the responder (server agency) may send in view `w`
pub fn server_step(w: &Wire, tok: &str) -> Option<Wire> {
    let mut n = w.clone();
    match (kind(tok), w) {
        ("hs.accept", Wire { hs: 'C', .. }) | ("hs.refuse", Wire { hs: 'C', .. }) | ("hs.query", Wire { hs: 'C', .. }) => n.hs = 'D',
        ("ka.resp", Wire { ka: 'S', .. }) => n.ka = 'C',
        ("ps.peers", Wire { ps: 'B', .. }) => n.ps = 'I',
        ("bf.start", Wire { bf: 'B', .. }) => n.bf = 'S',
        ("bf.noblocks", Wire { bf: 'B', .. }) => n.bf = 'I',
        ("bf.block", Wire { bf: 'S', .. }) => {}
        ("bf.batchdone", Wire { bf: 'S', .. }) => n.bf = 'I',
        ("cs.await", Wire { cs: 'A', .. }) => n.cs = 'M',
        ("cs.fwd", Wire { cs: 'A', .. }) | ("cs.fwd", Wire { cs: 'M', .. }) | ("cs.bwd", Wire { cs: 'A', .. }) | ("cs.bwd", Wire { cs: 'M', .. }) => n.cs = 'I',
        ("cs.found", Wire { cs: 'X', .. }) | ("cs.notfound", Wire { cs: 'X', .. }) => n.cs = 'I',
        ("ln.announce", Wire { ln: 'B', .. }) | ("ln.offer", Wire { ln: 'B', .. }) | ("ln.txsoffer", Wire { ln: 'B', .. }) | ("ln.votes", Wire { ln: 'B', .. }) => n.ln = 'I',
        ("lf.block", Wire { lf: 'A', .. }) => n.lf = 'I',
        ("lf.blocktxs", Wire { lf: 'T', .. }) => n.lf = 'I',
        _ => return None,
    }
    Some(n)
}
pub fn reply_choices(w: &Wire, cookie: u64, proto: &str) -> Vec<String> {
    let v: Vec<String> = match (proto, w) {
        ("hs", Wire { hs: 'C', .. }) => vec!["hs.accept:13:1".into(), "hs.accept:15:1".into(), "hs.refuse".into(), "hs.query".into()],
        ("ka", Wire { ka: 'S', .. }) => vec![format!("ka.resp:{cookie}")],
        ("ps", Wire { ps: 'B', .. }) => vec!["ps.peers:-".into(), "ps.peers:7,8".into()],
        ("bf", Wire { bf: 'B', .. }) => vec!["bf.start".into(), "bf.noblocks".into()],
        ("bf", Wire { bf: 'S', .. }) => vec!["bf.block:9".into(), "bf.batchdone".into()],
        ("cs", Wire { cs: 'A', .. }) => vec!["cs.await".into(), "cs.fwd:7".into(), "cs.bwd:3".into()],
        ("cs", Wire { cs: 'M', .. }) => vec!["cs.fwd:7".into(), "cs.bwd:3".into()],
        ("cs", Wire { cs: 'X', .. }) => vec!["cs.found:3".into(), "cs.notfound".into()],
        ("ln", Wire { ln: 'B', .. }) => vec!["ln.announce".into(), "ln.offer".into(), "ln.txsoffer".into(), "ln.votes".into()],
        ("lf", Wire { lf: 'A', .. }) => vec!["lf.block".into()],
        ("lf", Wire { lf: 'T', .. }) => vec!["lf.blocktxs".into()],
        _ => vec![],
    };
    v
}

#[derive(Clone, Default)]
pub struct Link {
    pub w: Wire,
    pub cookie: u64,
    /// (message, emitted on a protocol whose views had diverged by a Send-before-confirmation)
    pub unconfirmed: std::collections::VecDeque<(String, bool)>,
    pub to_resp: std::collections::VecDeque<(String, bool)>,
    pub to_init: std::collections::VecDeque<String>,
    /// protocols on which a Send was emitted while an earlier one was unconfirmed (DESIGN §6 #16)
    pub diverged: std::collections::BTreeSet<String>,
}
#[derive(Clone)]
pub enum LinkSt { Pending, Up(Link) }

pub struct SchedSys {
    pub init: Init,
    pub links: std::collections::BTreeMap<u64, LinkSt>,
    pub observed: usize,
    pub ids: std::collections::BTreeSet<u64>,
    pub sends: usize,
    pub delivered: usize,
    /// every step so far satisfied the side conditions of `initiator_conformant_delayed` (Props/C28): no Send queued on a
    /// protocol with an unconfirmed Send on that connection, no reply delivered ahead of the Sent of its request
    pub in_domain: bool,
}

pub enum SchedStep { Ok(String), Panic, Dead, Bad }

const COMMANDS: [&str; 11] = ["include", "hk", "idle", "startsync", "continuesync", "reqblocks", "sendtx", "fetcheb", "fetchebtxs", "ban", "demote"];

impl SchedSys {
    pub fn new(init: Init) -> Self {
        SchedSys { init, links: Default::default(), observed: 0, ids: Default::default(), sends: 0, delivered: 0, in_domain: true }
    }
    fn absorb(&mut self, outs: &[OutItem]) {
        for o in outs {
            match o {
                OutItem::Connect(p) => { if !self.links.contains_key(p) { self.links.insert(*p, LinkSt::Pending); } }
                OutItem::Send(p, m) => {
                    if let Some(LinkSt::Up(l)) = self.links.get_mut(p) {
                        // once a Send overlapped an unconfirmed one of the same protocol, the initiator's and the
                        // responder's views of that protocol on this connection have diverged for good
                        if l.unconfirmed.iter().any(|(u, _)| proto_of(u) == proto_of(m)) { l.diverged.insert(proto_of(m).to_string()); self.in_domain = false; }
                        let taint = l.diverged.contains(proto_of(m));
                        l.unconfirmed.push_back((m.clone(), taint));
                        l.to_resp.push_back((m.clone(), taint));
                        self.sends += 1;
                    }
                }
                _ => {}
            }
        }
    }
    /// feed one concrete event/command to the real initiator; returns (annot, outs) or the failure
    fn feed(&mut self, op: Vec<String>) -> Result<(String, Vec<OutItem>), SchedStep> {
        match self.init.exec(&op) {
            Step::Ok { annot, outs } => { self.absorb(&outs); Ok((annot, outs)) }
            Step::Panic => Err(SchedStep::Panic),
            Step::Dead => Err(SchedStep::Dead),
            Step::Bad => Err(SchedStep::Bad),
        }
    }
    pub fn text(&self, outs: &[OutItem]) -> String {
        let mut s = format!("{} | obs{}", self.init.state_text(outs), self.observed);
        let dom = if self.in_domain { " dom1" } else { " dom0" };
        for (p, l) in &self.links {
            match l {
                LinkSt::Pending => s += &format!(" L{p}=pending"),
                LinkSt::Up(l) => s += &format!(" L{p}=up/u{}/r{}/i{}/{}", l.unconfirmed.len(), l.to_resp.len(), l.to_init.len(), l.w.text()),
            }
        }
        s + dom
    }
    fn note_ids(&mut self, op: &[String]) {
        // same rule as the Lean stream: every peer id mentioned by the op (ord/taken ids are added by the annotation on the model side)
        for t in op.iter().skip(1) {
            if t == "@" || t == ";" { continue; }
            if let Some(rest) = t.strip_prefix("ps.peers:") { for x in rest.split(',') { if let Ok(v) = x.parse() { self.ids.insert(v); } } }
        }
        let a: Vec<&str> = op.iter().map(|s| s.as_str()).collect();
        match a.as_slice() {
            ["include", p] | ["continuesync", p] | ["ban", p] | ["demote", p] | ["connect", p] | ["confirm", p] | ["arrive", p]
            | ["drop", p] | ["fail", p] | ["fetcheb", p, _] | ["fetchebtxs", p, _] | ["reply", p, _, _] | ["deliver", p, _] => { if let Ok(v) = p.parse() { self.ids.insert(v); } }
            _ => {}
        }
    }
    fn arrive(&mut self, p: u64, out: &mut Out) {
        if let Some(LinkSt::Up(l)) = self.links.get_mut(&p) {
            if let Some((m, taint)) = l.to_resp.pop_front() {
                match client_step(&l.w, &m) {
                    Some(w) => { if kind(&m) == "ka.keepalive" { l.cookie = m.split(':').nth(1).and_then(|x| x.parse().ok()).unwrap_or(0); } l.w = w; }
                    None => {
                        // ---- the property: a conformant responder observes a violation ----
                        self.observed += 1;
                        let view = match proto_of(&m) { "hs" => l.w.hs, "ka" => l.w.ka, "ps" => l.w.ps, "bf" => l.w.bf, "cs" => l.w.cs, "tx" => l.w.tx, "ln" => l.w.ln, _ => l.w.lf };
                        let class = if self.in_domain { "nonconformant-in-domain" } else if taint { "send-before-sent" } else { "nonconformant" };
                        out.viol(format!("{} {} in-state-{}", class, kind(&m), view),
                                 format!("peer {p}: responder view {} received {}", l.w.text(), m));
                    }
                }
            }
        }
    }
    pub fn exec(&mut self, op: &[String], out: &mut Out) -> SchedStep {
        if self.init.dead { return SchedStep::Dead; }
        self.note_ids(op);
        let a: Vec<&str> = op.iter().map(|s| s.as_str()).collect();
        let nat = |s: &str| s.parse::<u64>().ok();
        let r: Result<(String, Vec<OutItem>), SchedStep> = match a.as_slice() {
            [c, ..] if COMMANDS.contains(c) => self.feed(op.to_vec()),
            ["connect", p] => match nat(p) {
                Some(p) => if matches!(self.links.get(&p), Some(LinkSt::Pending)) {
                    self.links.insert(p, LinkSt::Up(Link::default()));
                    self.feed(vec!["connected".into(), p.to_string()])
                } else { Ok((String::new(), vec![])) },
                None => Err(SchedStep::Bad),
            },
            ["confirm", p] => match nat(p) {
                Some(p) => {
                    let m = if let Some(LinkSt::Up(l)) = self.links.get_mut(&p) { l.unconfirmed.pop_front() } else { None };
                    match m { Some((m, _)) => self.feed(vec!["sent".into(), p.to_string(), m]), None => Ok((String::new(), vec![])) }
                }
                None => Err(SchedStep::Bad),
            },
            ["confirmall"] => {
                let ps: Vec<u64> = self.links.keys().cloned().collect();
                let mut res = Ok((String::new(), vec![]));
                'outer: for p in ps {
                    loop {
                        let m = if let Some(LinkSt::Up(l)) = self.links.get_mut(&p) { l.unconfirmed.pop_front() } else { None };
                        let Some((m, _)) = m else { break; };
                        if let Err(e) = self.feed(vec!["sent".into(), p.to_string(), m]) { res = Err(e); break 'outer; }
                    }
                }
                res
            }
            ["arrive", p] => match nat(p) { Some(p) => { self.arrive(p, out); Ok((String::new(), vec![])) } None => Err(SchedStep::Bad) },
            ["arriveall"] => {
                let ps: Vec<u64> = self.links.keys().cloned().collect();
                for p in ps {
                    let n = if let Some(LinkSt::Up(l)) = self.links.get(&p) { l.to_resp.len() } else { 0 };
                    for _ in 0..n { self.arrive(p, out); }
                }
                Ok((String::new(), vec![]))
            }
            ["reply", p, x, k] => match (nat(p), nat(k)) {
                (Some(p), Some(k)) => {
                    if let Some(LinkSt::Up(l)) = self.links.get_mut(&p) {
                        let ch = reply_choices(&l.w, l.cookie, x);
                        if !ch.is_empty() {
                            let m = ch[(k as usize) % ch.len()].clone();
                            if let Some(w) = server_step(&l.w, &m) { l.w = w; l.to_init.push_back(m); }
                        }
                    }
                    Ok((String::new(), vec![]))
                }
                _ => Err(SchedStep::Bad),
            },
            ["deliver", p, n] => match (nat(p), nat(n)) {
                (Some(p), Some(n)) => {
                    let mut overtakes = false;
                    let ms: Vec<String> = if let Some(LinkSt::Up(l)) = self.links.get_mut(&p) {
                        let k = (n as usize + 1).min(l.to_init.len());
                        overtakes = l.to_init.iter().take(k).any(|r| l.unconfirmed.iter().any(|(u, _)| proto_of(u) == proto_of(r)));
                        l.to_init.drain(0..k).collect()
                    } else { vec![] };
                    if overtakes { self.in_domain = false; }
                    if ms.is_empty() { Ok((String::new(), vec![])) } else {
                        self.delivered += ms.len();
                        let mut v = vec!["recv".to_string(), p.to_string()];
                        v.extend(ms);
                        self.feed(v)
                    }
                }
                _ => Err(SchedStep::Bad),
            },
            ["drop", p] => match nat(p) {
                Some(p) => if self.links.remove(&p).is_some() { self.feed(vec!["disconnected".into(), p.to_string()]) } else { Ok((String::new(), vec![])) },
                None => Err(SchedStep::Bad),
            },
            ["fail", p] => match nat(p) {
                Some(p) => if self.links.contains_key(&p) { self.feed(vec!["error".into(), p.to_string()]) } else { Ok((String::new(), vec![])) },
                None => Err(SchedStep::Bad),
            },
            _ => Err(SchedStep::Bad),
        };
        match r {
            Ok((annot, outs)) => SchedStep::Ok(format!("{}{}", annot, self.text(&outs))),
            Err(e) => e,
        }
    }
}
