//! Positive fixtures and protocol-parameter builders ported from pallas-validate/tests/byron.rs
//! by /var/tmp one-off extraction (function bodies are verbatim up to the `validate_txs` call).
#![allow(unused, clippy::all)]

use super::common::{cbor_to_bytes, minted_tx_payload_from_cbor, mk_utxo_for_byron_tx};
use pallas_validate::{
        phase1::validate_txs,
        utils::{
            ByronError, ByronProtParams, CertState, Environment, MultiEraProtocolParameters, UTxOs,
            ValidationError::*,
        },
    };
use pallas_codec::{
        minicbor::{
            decode::{Decode, Decoder},
            encode,
        },
        utils::{CborWrap, MaybeIndefArray},
    };
use pallas_primitives::byron::{Twit, Tx, TxOut, TxPayload, Witnesses};
use pallas_traverse::MultiEraTx;
use std::vec::Vec;
use super::Fixture;

    macro_rules! hardcoded_environment_values {
        ($($key:ident = $value:expr),*) => {
            {
                #[allow(unused_mut)]
                let mut pparams = ByronProtParams {
                    block_version: (1, 0, 0),
                    start_time: 1506203091,
                    script_version: 0,
                    slot_duration: 20000,
                    max_block_size: 2000000,
                    max_header_size: 2000000,
                    max_tx_size: 4096,
                    max_proposal_size: 700,
                    mpc_thd: 20000000000000,
                    heavy_del_thd: 300000000000,
                    update_vote_thd: 1000000000000,
                    update_proposal_thd: 100000000000000,
                    update_implicit: 10000,
                    soft_fork_rule: (900000000000000, 600000000000000, 50000000000000),
                    summand: 155381,
                    multiplier: 44,
                    unlock_stake_epoch: 18446744073709551615,
                };

                $(
                    pparams.$key = $value;
                )*

                Environment {
                    prot_params: MultiEraProtocolParameters::Byron(pparams),
                    prot_magic: 764824073,
                    block_slot: 6341,
                    network_id: 1,
                    acnt: None,
                }
            }
        }
    }

    /// ported from pallas-validate/tests/byron.rs `successful_mainnet_tx_with_genesis_utxos`
    pub fn successful_mainnet_tx_with_genesis_utxos() -> Fixture {
        let cbor_bytes: Vec<u8> = cbor_to_bytes(include_str!("data/byron2.tx"));
        let mtxp: TxPayload = minted_tx_payload_from_cbor(&cbor_bytes);
        let metx: MultiEraTx = MultiEraTx::from_byron(&mtxp);
        let utxos: UTxOs = mk_utxo_for_byron_tx(
            &mtxp.transaction,
            &[(
                String::from("83581CDC7E4DD6A44886816DEC9A4B2021056A8FCAF500C09E316028F2985FA002"),
                19999000000,
            )],
        );
        let env: Environment = hardcoded_environment_values!();
        let mut cert_state: CertState = CertState::default();
        let tx_cbor: Vec<u8> = cbor_bytes.clone();
        Fixture::from_parts("byron.successful_mainnet_tx_with_genesis_utxos", pallas_traverse::Era::Byron, tx_cbor, &utxos, env, cert_state)
    }

    /// ported from pallas-validate/tests/byron.rs `successful_mainnet_tx`
    pub fn successful_mainnet_tx() -> Fixture {
        let cbor_bytes: Vec<u8> = cbor_to_bytes(include_str!("data/byron1.tx"));
        let mtxp: TxPayload = minted_tx_payload_from_cbor(&cbor_bytes);
        let metx: MultiEraTx = MultiEraTx::from_byron(&mtxp);
        let utxos: UTxOs = mk_utxo_for_byron_tx(
            &mtxp.transaction,
            &[(
                String::from(
                    "83581cff66e7549ee0706abe5ce63ba325f792f2c1145d918baf563db2b457a101581e581cca3e553c9c63c5927480e7434620200eb3a162ef0b6cf6f671ba925100",
                ),
                19999000000,
            )],
        );
        let env: Environment = hardcoded_environment_values!();
        let mut cert_state: CertState = CertState::default();
        let tx_cbor: Vec<u8> = cbor_bytes.clone();
        Fixture::from_parts("byron.successful_mainnet_tx", pallas_traverse::Era::Byron, tx_cbor, &utxos, env, cert_state)
    }

    /// every positive fixture of this era
    pub fn all() -> Vec<Fixture> {
        vec![successful_mainnet_tx_with_genesis_utxos(), successful_mainnet_tx()]
    }
