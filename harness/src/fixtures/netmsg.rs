//! Shared by the streams `msgs` (C22) and `msgfuzz` (C09): canonical text form `V` of every
//! mini-protocol message of both network stacks, conversion to / from the real pallas types,
//! encode / decode through the real codecs, an independent strict CBOR well-formedness checker,
//! and generators.
use crate::fw::*;
use pallas_codec::minicbor::{self, Decode, Decoder, Encode, Encoder, decode, encode};
use pallas_codec::utils::{AnyCbor, Bytes as PBytes, TagWrap};
use std::collections::{BTreeMap, HashMap};
use std::net::{Ipv4Addr, Ipv6Addr};

#[derive(Clone, Debug, PartialEq)]
pub enum V {
    Nat(u128),
    Hex(Vec<u8>),
    Node(String, Vec<V>),
}

pub fn n(tag: &str, args: Vec<V>) -> V { V::Node(tag.to_string(), args) }
pub fn nat<T: Into<u128>>(x: T) -> V { V::Nat(x.into()) }
pub fn hx(b: &[u8]) -> V { V::Hex(b.to_vec()) }
pub fn vb(b: bool) -> V { n(if b { "T" } else { "F" }, vec![]) }
pub fn vopt<T>(o: Option<T>, f: impl Fn(T) -> V) -> V { match o { None => n("N", vec![]), Some(x) => n("S", vec![f(x)]) } }
pub fn vlist<T>(l: impl IntoIterator<Item = T>, f: impl Fn(T) -> V) -> V { n("L", l.into_iter().map(f).collect()) }
pub fn vpair(a: V, b: V) -> V { n("P", vec![a, b]) }

impl V {
    pub fn show(&self) -> String {
        match self {
            V::Nat(x) => x.to_string(),
            V::Hex(b) => format!("h{}", hex::encode(b)),
            V::Node(t, args) => {
                let mut s = format!("( {}", t);
                for a in args { s.push(' '); s.push_str(&a.show()); }
                s.push_str(" )");
                s
            }
        }
    }
    pub fn tag(&self) -> &str { match self { V::Node(t, _) => t.as_str(), V::Nat(_) => "nat", V::Hex(_) => "hex" } }
    pub fn is_leaf_only(&self) -> bool { matches!(self, V::Node(_, a) if a.is_empty()) }
    fn node(&self) -> Option<(&str, &[V])> { match self { V::Node(t, a) => Some((t.as_str(), a.as_slice())), _ => None } }
}

pub fn parse_v(toks: &[String]) -> Option<V> {
    fn go(toks: &[String], i: &mut usize) -> Option<V> {
        let t = toks.get(*i)?;
        *i += 1;
        if t == "(" {
            let tag = toks.get(*i)?.clone();
            *i += 1;
            let mut args = vec![];
            loop {
                if toks.get(*i)? == ")" { *i += 1; break; }
                args.push(go(toks, i)?);
            }
            Some(V::Node(tag, args))
        } else if let Some(h) = t.strip_prefix('h') {
            Some(V::Hex(hex::decode(h).ok()?))
        } else {
            Some(V::Nat(t.parse().ok()?))
        }
    }
    let mut i = 0;
    let v = go(toks, &mut i)?;
    if i == toks.len() { Some(v) } else { None }
}

fn u<T: TryFrom<u128>>(v: &V) -> Option<T> { match v { V::Nat(x) => T::try_from(*x).ok(), _ => None } }
fn h(v: &V) -> Option<Vec<u8>> { match v { V::Hex(b) => Some(b.clone()), _ => None } }
fn txt(v: &V) -> Option<String> { String::from_utf8(h(v)?).ok() }
fn b(v: &V) -> Option<bool> { match v.node()? { ("T", []) => Some(true), ("F", []) => Some(false), _ => None } }
fn opt<T>(v: &V, f: impl Fn(&V) -> Option<T>) -> Option<Option<T>> {
    match v.node()? { ("N", []) => Some(None), ("S", [x]) => Some(Some(f(x)?)), _ => None }
}
fn list<T>(v: &V, f: impl Fn(&V) -> Option<T>) -> Option<Vec<T>> {
    match v.node()? { ("L", xs) => xs.iter().map(|x| f(x)).collect(), _ => None }
}
fn pair<A, B>(v: &V, f: impl Fn(&V) -> Option<A>, g: impl Fn(&V) -> Option<B>) -> Option<(A, B)> {
    match v.node()? { ("P", [a, bb]) => Some((f(a)?, g(bb)?)), _ => None }
}

#[derive(Debug, Clone, Copy, PartialEq)]
pub enum DecErr { Eoi, Other }
pub type EncRes = Option<Result<Vec<u8>, ()>>; // None = not a value of this protocol
pub type DecRes = Result<V, DecErr>;

fn enc_any<T: Encode<()>>(m: &T) -> Result<Vec<u8>, ()> { minicbor::to_vec(m).map_err(|_| ()) }
fn dec_any<T: for<'b> Decode<'b, ()>>(bs: &[u8], f: impl Fn(&T) -> V) -> DecRes {
    match minicbor::decode::<T>(bs) {
        Ok(m) => Ok(f(&m)),
        Err(e) => Err(if e.is_end_of_input() { DecErr::Eoi } else { DecErr::Other }),
    }
}

/// n2c `VersionData` has private fields and no accessors: read them from `Debug`
/// (`VersionData(<magic>, None|Some(true|false))`).
fn n2c_from_debug(s: &str) -> V {
    let inner = s.strip_prefix("VersionData(").and_then(|x| x.strip_suffix(')')).expect("n2c debug");
    let (m, q) = inner.split_once(", ").expect("n2c debug");
    let q = match q { "None" => None, "Some(true)" => Some(true), "Some(false)" => Some(false), _ => panic!("n2c debug {s}") };
    n("n2c", vec![V::Nat(m.parse().expect("magic")), vopt(q, vb)])
}

// ------------------------------------------------------------------------------------------------
// shapes shared by both stacks (same module and type names under a different root)
macro_rules! stack_common {
    ($m:ident, $($root:ident)::+) => {
        pub mod $m {
            use super::*;
            use $($root)::+::{Point, chainsync as cs, handshake as hs, keepalive as ka};

            pub fn v_point(p: &Point) -> V {
                match p { Point::Origin => n("o", vec![]), Point::Specific(s, hh) => n("pt", vec![nat(*s), hx(hh)]) }
            }
            pub fn point(v: &V) -> Option<Point> {
                match v.node()? { ("o", []) => Some(Point::Origin), ("pt", [s, hh]) => Some(Point::Specific(u(s)?, h(hh)?)), _ => None }
            }
            pub fn v_tip(t: &cs::Tip) -> V { n("tip", vec![v_point(&t.0), nat(t.1)]) }
            pub fn tip(v: &V) -> Option<cs::Tip> {
                match v.node()? { ("tip", [p, k]) => Some(cs::Tip(point(p)?, u(k)?)), _ => None }
            }
            pub fn v_header(x: &cs::HeaderContent) -> V {
                n("hdr", vec![nat(x.variant), vopt(x.byron_prefix, |(a, bb)| vpair(nat(a), nat(bb))), hx(&x.cbor)])
            }
            pub fn header(v: &V) -> Option<cs::HeaderContent> {
                match v.node()? {
                    ("hdr", [var, p, c]) => Some(cs::HeaderContent { variant: u(var)?, byron_prefix: opt(p, |x| pair(x, u::<u8>, u::<u64>))?, cbor: h(c)? }),
                    _ => None,
                }
            }
            pub fn v_block(x: &cs::BlockContent) -> V { hx(&x.0) }
            pub fn block(v: &V) -> Option<cs::BlockContent> { Some(cs::BlockContent(h(v)?)) }
            pub fn v_skipped(_: &cs::SkippedContent) -> V { n("skipped", vec![]) }
            pub fn skipped(v: &V) -> Option<cs::SkippedContent> { match v.node()? { ("skipped", []) => Some(cs::SkippedContent), _ => None } }

            pub fn v_cs<C>(m: &cs::Message<C>, f: impl Fn(&C) -> V) -> V {
                use cs::Message::*;
                match m {
                    RequestNext => n("requestNext", vec![]),
                    AwaitReply => n("awaitReply", vec![]),
                    RollForward(c, t) => n("rollForward", vec![f(c), v_tip(t)]),
                    RollBackward(p, t) => n("rollBackward", vec![v_point(p), v_tip(t)]),
                    FindIntersect(ps) => n("findIntersect", vec![vlist(ps, v_point)]),
                    IntersectFound(p, t) => n("intersectFound", vec![v_point(p), v_tip(t)]),
                    IntersectNotFound(t) => n("intersectNotFound", vec![v_tip(t)]),
                    Done => n("done", vec![]),
                }
            }
            pub fn cs_msg<C>(v: &V, f: impl Fn(&V) -> Option<C>) -> Option<cs::Message<C>> {
                use cs::Message::*;
                Some(match v.node()? {
                    ("requestNext", []) => RequestNext,
                    ("awaitReply", []) => AwaitReply,
                    ("rollForward", [c, t]) => RollForward(f(c)?, tip(t)?),
                    ("rollBackward", [p, t]) => RollBackward(point(p)?, tip(t)?),
                    ("findIntersect", [ps]) => FindIntersect(list(ps, point)?),
                    ("intersectFound", [p, t]) => IntersectFound(point(p)?, tip(t)?),
                    ("intersectNotFound", [t]) => IntersectNotFound(tip(t)?),
                    ("done", []) => Done,
                    _ => return None,
                })
            }

            pub fn v_refuse(r: &hs::RefuseReason) -> V {
                use hs::RefuseReason::*;
                match r {
                    VersionMismatch(vs) => n("versionMismatch", vec![vlist(vs, |x| nat(*x))]),
                    HandshakeDecodeError(ver, m) => n("handshakeDecodeError", vec![nat(*ver), hx(m.as_bytes())]),
                    Refused(ver, m) => n("refused", vec![nat(*ver), hx(m.as_bytes())]),
                }
            }
            pub fn refuse(v: &V) -> Option<hs::RefuseReason> {
                use hs::RefuseReason::*;
                Some(match v.node()? {
                    ("versionMismatch", [l]) => VersionMismatch(list(l, u::<u64>)?),
                    ("handshakeDecodeError", [ver, m]) => HandshakeDecodeError(u(ver)?, txt(m)?),
                    ("refused", [ver, m]) => Refused(u(ver)?, txt(m)?),
                    _ => return None,
                })
            }
            pub fn v_table<D: std::fmt::Debug + Clone>(t: &hs::VersionTable<D>, f: &impl Fn(&D) -> V) -> V {
                let mut keys: Vec<&u64> = t.values.keys().collect();
                keys.sort();
                vlist(keys, |k| vpair(nat(*k), f(&t.values[k])))
            }
            pub fn table<D: std::fmt::Debug + Clone>(v: &V, f: &impl Fn(&V) -> Option<D>) -> Option<hs::VersionTable<D>> {
                let ps = list(v, |x| pair(x, u::<u64>, |y| f(y)))?;
                let mut values = HashMap::new();
                for (k, d) in ps { values.insert(k, d); }
                Some(hs::VersionTable { values })
            }
            pub fn v_hs<D: std::fmt::Debug + Clone>(m: &hs::Message<D>, f: impl Fn(&D) -> V) -> V {
                use hs::Message::*;
                match m {
                    Propose(t) => n("propose", vec![v_table(t, &f)]),
                    Accept(ver, d) => n("accept", vec![nat(*ver), f(d)]),
                    Refuse(r) => n("refuse", vec![v_refuse(r)]),
                    QueryReply(t) => n("queryReply", vec![v_table(t, &f)]),
                }
            }
            pub fn hs_msg<D: std::fmt::Debug + Clone>(v: &V, f: impl Fn(&V) -> Option<D>) -> Option<hs::Message<D>> {
                use hs::Message::*;
                Some(match v.node()? {
                    ("propose", [t]) => Propose(table(t, &f)?),
                    ("accept", [ver, d]) => Accept(u(ver)?, f(d)?),
                    ("refuse", [r]) => Refuse(refuse(r)?),
                    ("queryReply", [t]) => QueryReply(table(t, &f)?),
                    _ => return None,
                })
            }
            pub fn v_n2n(d: &hs::n2n::VersionData) -> V {
                n("n2n", vec![nat(d.network_magic), vb(d.initiator_only_diffusion_mode), vopt(d.peer_sharing, nat::<u8>), vopt(d.query, vb)])
            }
            pub fn n2n(v: &V) -> Option<hs::n2n::VersionData> {
                match v.node()? {
                    ("n2n", [m, io, ps, q]) => Some(hs::n2n::VersionData::new(u(m)?, b(io)?, opt(ps, u::<u8>)?, opt(q, b)?)),
                    _ => None,
                }
            }
            pub fn v_n2c(d: &hs::n2c::VersionData) -> V { n2c_from_debug(&format!("{:?}", d)) }
            pub fn n2c(v: &V) -> Option<hs::n2c::VersionData> {
                match v.node()? { ("n2c", [m, q]) => Some(hs::n2c::VersionData::new(u(m)?, opt(q, b)?)), _ => None }
            }

            pub fn v_ka(m: &ka::Message) -> V {
                match m {
                    ka::Message::KeepAlive(c) => n("keepAlive", vec![nat(*c)]),
                    ka::Message::ResponseKeepAlive(c) => n("responseKeepAlive", vec![nat(*c)]),
                    ka::Message::Done => n("done", vec![]),
                }
            }
            pub fn ka_msg(v: &V) -> Option<ka::Message> {
                Some(match v.node()? {
                    ("keepAlive", [c]) => ka::Message::KeepAlive(u(c)?),
                    ("responseKeepAlive", [c]) => ka::Message::ResponseKeepAlive(u(c)?),
                    ("done", []) => ka::Message::Done,
                    _ => return None,
                })
            }

            pub fn codec(p: &str) -> Option<Codec> {
                Some(match p {
                    "hsn" => Codec { enc: |v| hs_msg(v, n2n).map(|m| enc_any(&m)), dec: |bs| dec_any::<hs::Message<hs::n2n::VersionData>>(bs, |m| v_hs(m, v_n2n)) },
                    "hsc" => Codec { enc: |v| hs_msg(v, n2c).map(|m| enc_any(&m)), dec: |bs| dec_any::<hs::Message<hs::n2c::VersionData>>(bs, |m| v_hs(m, v_n2c)) },
                    "csh" => Codec { enc: |v| cs_msg(v, header).map(|m| enc_any(&m)), dec: |bs| dec_any::<cs::Message<cs::HeaderContent>>(bs, |m| v_cs(m, v_header)) },
                    "csb" => Codec { enc: |v| cs_msg(v, block).map(|m| enc_any(&m)), dec: |bs| dec_any::<cs::Message<cs::BlockContent>>(bs, |m| v_cs(m, v_block)) },
                    "css" => Codec { enc: |v| cs_msg(v, skipped).map(|m| enc_any(&m)), dec: |bs| dec_any::<cs::Message<cs::SkippedContent>>(bs, |m| v_cs(m, v_skipped)) },
                    "ka" => Codec { enc: |v| ka_msg(v).map(|m| enc_any(&m)), dec: |bs| dec_any::<ka::Message>(bs, v_ka) },
                    _ => return None,
                })
            }
        }
    };
}
stack_common!(c1, pallas_network::miniprotocols);
stack_common!(c2, pallas_network2::protocol);

pub struct Codec {
    pub enc: fn(&V) -> EncRes,
    pub dec: fn(&[u8]) -> DecRes,
}

// ------------------------------------------------------------------------------------------------
// pallas-network only / shapes that differ
mod s1 {
    use super::*;
    use super::c1::*;
    use pallas_network::miniprotocols::{blockfetch as bf, localmsgnotification as dn, localmsgsubmission as dm, localstate as ls,
        localtxsubmission as ltx, peersharing as ps, txmonitor as tm, txsubmission as ts};

    pub fn v_bf(m: &bf::Message) -> V {
        use bf::Message::*;
        match m {
            RequestRange { range } => n("requestRange", vec![v_point(&range.0), v_point(&range.1)]),
            ClientDone => n("clientDone", vec![]),
            StartBatch => n("startBatch", vec![]),
            NoBlocks => n("noBlocks", vec![]),
            Block { body } => n("block", vec![hx(body)]),
            BatchDone => n("batchDone", vec![]),
        }
    }
    pub fn bf_msg(v: &V) -> Option<bf::Message> {
        use bf::Message::*;
        Some(match v.node()? {
            ("requestRange", [a, bb]) => RequestRange { range: (point(a)?, point(bb)?) },
            ("clientDone", []) => ClientDone,
            ("startBatch", []) => StartBatch,
            ("noBlocks", []) => NoBlocks,
            ("block", [x]) => Block { body: h(x)? },
            ("batchDone", []) => BatchDone,
            _ => return None,
        })
    }

    pub type TsMsg = ts::Message<ts::EraTxId, ts::EraTxBody>;
    fn v_txid(t: &ts::EraTxId) -> V { n("txid", vec![nat(t.0), hx(&t.1)]) }
    fn txid(v: &V) -> Option<ts::EraTxId> { match v.node()? { ("txid", [e, i]) => Some(ts::EraTxId(u(e)?, h(i)?)), _ => None } }
    fn v_body(t: &ts::EraTxBody) -> V { n("tx", vec![nat(t.0), hx(&t.1)]) }
    fn body(v: &V) -> Option<ts::EraTxBody> { match v.node()? { ("tx", [e, i]) => Some(ts::EraTxBody(u(e)?, h(i)?)), _ => None } }
    pub fn v_ts(m: &TsMsg) -> V {
        use ts::Message::*;
        match m {
            Init => n("init", vec![]),
            RequestTxIds(bl, a, r) => n("requestTxIds", vec![vb(*bl), nat(*a), nat(*r)]),
            ReplyTxIds(ids) => n("replyTxIds", vec![vlist(ids, |x| n("ids", vec![v_txid(&x.0), nat(x.1)]))]),
            RequestTxs(ids) => n("requestTxs", vec![vlist(ids, v_txid)]),
            ReplyTxs(txs) => n("replyTxs", vec![vlist(txs, v_body)]),
            Done => n("done", vec![]),
        }
    }
    pub fn ts_msg(v: &V) -> Option<TsMsg> {
        use ts::Message::*;
        Some(match v.node()? {
            ("init", []) => Init,
            ("requestTxIds", [bl, a, r]) => RequestTxIds(b(bl)?, u(a)?, u(r)?),
            ("replyTxIds", [l]) => ReplyTxIds(list(l, |x| match x.node()? { ("ids", [i, s]) => Some(ts::TxIdAndSize(txid(i)?, u(s)?)), _ => None })?),
            ("requestTxs", [l]) => RequestTxs(list(l, txid)?),
            ("replyTxs", [l]) => ReplyTxs(list(l, body)?),
            ("done", []) => Done,
            _ => return None,
        })
    }

    fn v_peer(p: &ps::PeerAddress) -> V {
        match p {
            ps::PeerAddress::V4(a, port) => n("v4", vec![nat(a.to_bits()), nat(*port)]),
            ps::PeerAddress::V6(a, port) => n("v6", vec![nat(a.to_bits()), nat(*port)]),
        }
    }
    fn peer(v: &V) -> Option<ps::PeerAddress> {
        match v.node()? {
            ("v4", [a, p]) => Some(ps::PeerAddress::V4(Ipv4Addr::from_bits(u(a)?), u(p)?)),
            ("v6", [a, p]) => Some(ps::PeerAddress::V6(Ipv6Addr::from_bits(u(a)?), u(p)?)),
            _ => None,
        }
    }
    pub fn v_ps(m: &ps::Message) -> V {
        match m {
            ps::Message::ShareRequest(k) => n("shareRequest", vec![nat(*k)]),
            ps::Message::SharePeers(l) => n("sharePeers", vec![vlist(l, v_peer)]),
            ps::Message::Done => n("done", vec![]),
        }
    }
    pub fn ps_msg(v: &V) -> Option<ps::Message> {
        Some(match v.node()? {
            ("shareRequest", [k]) => ps::Message::ShareRequest(u(k)?),
            ("sharePeers", [l]) => ps::Message::SharePeers(list(l, peer)?),
            ("done", []) => ps::Message::Done,
            _ => return None,
        })
    }

    pub fn v_tm(m: &tm::Message) -> V {
        use tm::Message::*;
        match m {
            Done => n("done", vec![]),
            Acquire => n("acquire", vec![]),
            Acquired(s) => n("acquired", vec![nat(*s)]),
            Release => n("release", vec![]),
            AwaitAcquire => n("awaitAcquire", vec![]),
            RequestNextTx => n("requestNextTx", vec![]),
            ResponseNextTx(tx) => n("responseNextTx", vec![vopt(tx.as_ref(), |(e, bd)| vpair(nat(*e), hx(&bd.0)))]),
            RequestHasTx(id) => n("requestHasTx", vec![hx(id.as_bytes())]),
            ResponseHasTx(x) => n("responseHasTx", vec![vb(*x)]),
            RequestSizeAndCapacity => n("requestSizeAndCapacity", vec![]),
            ResponseSizeAndCapacity(s) => n("responseSizeAndCapacity", vec![nat(s.capacity_in_bytes), nat(s.size_in_bytes), nat(s.number_of_txs)]),
        }
    }
    pub fn tm_msg(v: &V) -> Option<tm::Message> {
        use tm::Message::*;
        Some(match v.node()? {
            ("done", []) => Done,
            ("acquire", []) => Acquire,
            ("acquired", [s]) => Acquired(u(s)?),
            ("release", []) => Release,
            ("awaitAcquire", []) => AwaitAcquire,
            ("requestNextTx", []) => RequestNextTx,
            ("responseNextTx", [tx]) => ResponseNextTx(opt(tx, |x| pair(x, u::<u8>, |y| Some(TagWrap::<PBytes, 24>::new(PBytes::from(h(y)?)))))?),
            ("requestHasTx", [id]) => RequestHasTx(txt(id)?),
            ("responseHasTx", [x]) => ResponseHasTx(b(x)?),
            ("requestSizeAndCapacity", []) => RequestSizeAndCapacity,
            ("responseSizeAndCapacity", [c, s, k]) => ResponseSizeAndCapacity(tm::MempoolSizeAndCapacity { capacity_in_bytes: u(c)?, size_in_bytes: u(s)?, number_of_txs: u(k)? }),
            _ => return None,
        })
    }

    pub fn v_ls(m: &ls::Message) -> V {
        use ls::Message::*;
        match m {
            Acquire(p) => n("acquire", vec![vopt(p.as_ref(), v_point)]),
            Failure(ls::AcquireFailure::PointTooOld) => n("failure", vec![n("pointTooOld", vec![])]),
            Failure(ls::AcquireFailure::PointNotOnChain) => n("failure", vec![n("pointNotOnChain", vec![])]),
            Acquired => n("acquired", vec![]),
            Query(q) => n("query", vec![hx(q.raw_bytes())]),
            Result(r) => n("result", vec![hx(r.raw_bytes())]),
            ReAcquire(p) => n("reAcquire", vec![vopt(p.as_ref(), v_point)]),
            Release => n("release", vec![]),
            Done => n("done", vec![]),
        }
    }
    pub fn ls_msg(v: &V) -> Option<ls::Message> {
        use ls::Message::*;
        Some(match v.node()? {
            ("acquire", [p]) => Acquire(opt(p, point)?),
            ("failure", [f]) => match f.node()? { ("pointTooOld", []) => Failure(ls::AcquireFailure::PointTooOld), ("pointNotOnChain", []) => Failure(ls::AcquireFailure::PointNotOnChain), _ => return None },
            ("acquired", []) => Acquired,
            ("query", [q]) => Query(AnyCbor::from_raw_bytes(h(q)?)),
            ("result", [r]) => Result(AnyCbor::from_raw_bytes(h(r)?)),
            ("reAcquire", [p]) => ReAcquire(opt(p, point)?),
            ("release", []) => Release,
            ("done", []) => Done,
            _ => return None,
        })
    }

    /// Opaque reject reason for the node-to-client instance `Message<EraTx, _>`: raw CBOR kept
    /// verbatim (`AnyCbor`) plus the `From<String>` the generic decoder demands.
    #[derive(Debug, Clone, PartialEq)]
    pub enum OpaqueReject { Cbor(AnyCbor), Text(String) }
    impl From<String> for OpaqueReject { fn from(s: String) -> Self { OpaqueReject::Text(s) } }
    impl Encode<()> for OpaqueReject {
        fn encode<W: encode::Write>(&self, e: &mut Encoder<W>, ctx: &mut ()) -> Result<(), encode::Error<W::Error>> {
            match self { OpaqueReject::Cbor(a) => a.encode(e, ctx), OpaqueReject::Text(s) => { e.str(s)?; Ok(()) } }
        }
    }
    impl<'b> Decode<'b, ()> for OpaqueReject {
        fn decode(d: &mut Decoder<'b>, ctx: &mut ()) -> Result<Self, decode::Error> { Ok(OpaqueReject::Cbor(AnyCbor::decode(d, ctx)?)) }
    }
    fn v_opaque(r: &OpaqueReject) -> V {
        match r { OpaqueReject::Cbor(a) => n("cbor", vec![hx(a.raw_bytes())]), OpaqueReject::Text(s) => n("text", vec![hx(s.as_bytes())]) }
    }
    fn opaque(v: &V) -> Option<OpaqueReject> {
        match v.node()? { ("cbor", [x]) => Some(OpaqueReject::Cbor(AnyCbor::from_raw_bytes(h(x)?))), ("text", [x]) => Some(OpaqueReject::Text(txt(x)?)), _ => None }
    }
    fn v_eratx(t: &ltx::EraTx) -> V { n("tx", vec![nat(t.0), hx(&t.1)]) }
    fn eratx(v: &V) -> Option<ltx::EraTx> { match v.node()? { ("tx", [e, i]) => Some(ltx::EraTx(u(e)?, h(i)?)), _ => None } }
    pub fn v_ltx<T, R>(m: &ltx::Message<T, R>, f: impl Fn(&T) -> V, g: impl Fn(&R) -> V) -> V {
        use ltx::Message::*;
        match m { SubmitTx(t) => n("submitTx", vec![f(t)]), AcceptTx => n("acceptTx", vec![]), RejectTx(r) => n("rejectTx", vec![g(r)]), Done => n("done", vec![]) }
    }
    pub fn ltx_msg<T, R>(v: &V, f: impl Fn(&V) -> Option<T>, g: impl Fn(&V) -> Option<R>) -> Option<ltx::Message<T, R>> {
        use ltx::Message::*;
        Some(match v.node()? {
            ("submitTx", [t]) => SubmitTx(f(t)?),
            ("acceptTx", []) => AcceptTx,
            ("rejectTx", [r]) => RejectTx(g(r)?),
            ("done", []) => Done,
            _ => return None,
        })
    }

    fn v_dmq(m: &dm::DmqMsg) -> V {
        n("dmq", vec![hx(&m.msg_id), hx(&m.msg_payload.msg_body), nat(m.msg_payload.kes_period), nat(m.msg_payload.expires_at), hx(&m.kes_signature),
            hx(&m.operational_certificate.kes_vk), nat(m.operational_certificate.issue_number), nat(m.operational_certificate.start_kes_period),
            hx(&m.operational_certificate.cert_sig), hx(&m.cold_verification_key)])
    }
    fn dmq(v: &V) -> Option<dm::DmqMsg> {
        match v.node()? {
            ("dmq", [id, body, kp, ex, sg, vk, iss, st, cs, cold]) => Some(dm::DmqMsg {
                msg_id: h(id)?,
                msg_payload: dm::DmqMsgPayload { msg_body: h(body)?, kes_period: u(kp)?, expires_at: u(ex)? },
                kes_signature: h(sg)?,
                operational_certificate: dm::DmqMsgOperationalCertificate { kes_vk: h(vk)?, issue_number: u(iss)?, start_kes_period: u(st)?, cert_sig: h(cs)? },
                cold_verification_key: h(cold)?,
            }),
            _ => None,
        }
    }
    fn v_dmq_rej(r: &dm::DmqMsgValidationError) -> V {
        use dm::DmqMsgRejectReason::*;
        match &r.0 { Invalid(s) => n("invalid", vec![hx(s.as_bytes())]), AlreadyReceived => n("alreadyReceived", vec![]), Expired => n("expired", vec![]), Other(s) => n("other", vec![hx(s.as_bytes())]) }
    }
    fn dmq_rej(v: &V) -> Option<dm::DmqMsgValidationError> {
        use dm::DmqMsgRejectReason::*;
        Some(dm::DmqMsgValidationError(match v.node()? {
            ("invalid", [s]) => Invalid(txt(s)?),
            ("alreadyReceived", []) => AlreadyReceived,
            ("expired", []) => Expired,
            ("other", [s]) => Other(txt(s)?),
            _ => return None,
        }))
    }
    pub fn v_dn(m: &dn::Message) -> V {
        use dn::Message::*;
        match m {
            RequestMessagesNonBlocking => n("requestNonBlocking", vec![]),
            ReplyMessagesNonBlocking(ms, more) => n("replyNonBlocking", vec![vlist(ms, v_dmq), vb(*more)]),
            RequestMessagesBlocking => n("requestBlocking", vec![]),
            ReplyMessagesBlocking(ms) => n("replyBlocking", vec![vlist(ms, v_dmq)]),
            ClientDone => n("clientDone", vec![]),
        }
    }
    pub fn dn_msg(v: &V) -> Option<dn::Message> {
        use dn::Message::*;
        Some(match v.node()? {
            ("requestNonBlocking", []) => RequestMessagesNonBlocking,
            ("replyNonBlocking", [ms, more]) => ReplyMessagesNonBlocking(list(ms, dmq)?, b(more)?),
            ("requestBlocking", []) => RequestMessagesBlocking,
            ("replyBlocking", [ms]) => ReplyMessagesBlocking(list(ms, dmq)?),
            ("clientDone", []) => ClientDone,
            _ => return None,
        })
    }

    pub fn codec(p: &str) -> Option<Codec> {
        Some(match p {
            "bf" => Codec { enc: |v| bf_msg(v).map(|m| enc_any(&m)), dec: |bs| dec_any::<bf::Message>(bs, v_bf) },
            "txs" => Codec { enc: |v| ts_msg(v).map(|m| enc_any(&m)), dec: |bs| dec_any::<TsMsg>(bs, v_ts) },
            "ps" => Codec { enc: |v| ps_msg(v).map(|m| enc_any(&m)), dec: |bs| dec_any::<ps::Message>(bs, v_ps) },
            "txm" => Codec { enc: |v| tm_msg(v).map(|m| enc_any(&m)), dec: |bs| dec_any::<tm::Message>(bs, v_tm) },
            "ls" => Codec { enc: |v| ls_msg(v).map(|m| enc_any(&m)), dec: |bs| dec_any::<ls::Message>(bs, v_ls) },
            "ltx" => Codec { enc: |v| ltx_msg(v, eratx, opaque).map(|m| enc_any(&m)), dec: |bs| dec_any::<ltx::Message<ltx::EraTx, OpaqueReject>>(bs, |m| v_ltx(m, v_eratx, v_opaque)) },
            "dmqs" => Codec { enc: |v| ltx_msg(v, dmq, dmq_rej).map(|m| enc_any(&m)), dec: |bs| dec_any::<ltx::Message<dm::DmqMsg, dm::DmqMsgValidationError>>(bs, |m| v_ltx(m, v_dmq, v_dmq_rej)) },
            "dmqn" => Codec { enc: |v| dn_msg(v).map(|m| enc_any(&m)), dec: |bs| dec_any::<dn::Message>(bs, v_dn) },
            _ => return c1::codec(p),
        })
    }
}

// ------------------------------------------------------------------------------------------------
// pallas-network2 only / shapes that differ
mod s2 {
    use super::*;
    use super::c2::*;
    use pallas_network2::protocol::{blockfetch as bf, leiosfetch as lf, leiosnotify as lno, peersharing as ps, txsubmission as ts};

    pub fn v_bf(m: &bf::Message) -> V {
        use bf::Message::*;
        match m {
            RequestRange(range) => n("requestRange", vec![v_point(&range.0), v_point(&range.1)]),
            ClientDone => n("clientDone", vec![]),
            StartBatch => n("startBatch", vec![]),
            NoBlocks => n("noBlocks", vec![]),
            Block(body) => n("block", vec![hx(body)]),
            BatchDone => n("batchDone", vec![]),
        }
    }
    pub fn bf_msg(v: &V) -> Option<bf::Message> {
        use bf::Message::*;
        Some(match v.node()? {
            ("requestRange", [a, bb]) => RequestRange((point(a)?, point(bb)?)),
            ("clientDone", []) => ClientDone,
            ("startBatch", []) => StartBatch,
            ("noBlocks", []) => NoBlocks,
            ("block", [x]) => Block(h(x)?),
            ("batchDone", []) => BatchDone,
            _ => return None,
        })
    }
    fn v_txid(t: &ts::EraTxId) -> V { n("txid", vec![nat(t.0), hx(&t.1)]) }
    fn txid(v: &V) -> Option<ts::EraTxId> { match v.node()? { ("txid", [e, i]) => Some(ts::EraTxId(u(e)?, h(i)?)), _ => None } }
    fn v_body(t: &ts::EraTxBody) -> V { n("tx", vec![nat(t.0), hx(&t.1)]) }
    fn body(v: &V) -> Option<ts::EraTxBody> { match v.node()? { ("tx", [e, i]) => Some(ts::EraTxBody(u(e)?, h(i)?)), _ => None } }
    pub fn v_ts(m: &ts::Message) -> V {
        use ts::Message::*;
        match m {
            Init => n("init", vec![]),
            RequestTxIds(bl, a, r) => n("requestTxIds", vec![vb(*bl), nat(*a), nat(*r)]),
            ReplyTxIds(ids) => n("replyTxIds", vec![vlist(ids, |x| n("ids", vec![v_txid(&x.0), nat(x.1)]))]),
            RequestTxs(ids) => n("requestTxs", vec![vlist(ids, v_txid)]),
            ReplyTxs(txs) => n("replyTxs", vec![vlist(txs, v_body)]),
            Done => n("done", vec![]),
        }
    }
    pub fn ts_msg(v: &V) -> Option<ts::Message> {
        use ts::Message::*;
        Some(match v.node()? {
            ("init", []) => Init,
            ("requestTxIds", [bl, a, r]) => RequestTxIds(b(bl)?, u(a)?, u(r)?),
            ("replyTxIds", [l]) => ReplyTxIds(list(l, |x| match x.node()? { ("ids", [i, s]) => Some(ts::TxIdAndSize(txid(i)?, u(s)?)), _ => None })?),
            ("requestTxs", [l]) => RequestTxs(list(l, txid)?),
            ("replyTxs", [l]) => ReplyTxs(list(l, body)?),
            ("done", []) => Done,
            _ => return None,
        })
    }
    fn v_peer(p: &ps::PeerAddress) -> V {
        match p {
            ps::PeerAddress::V4(a, port) => n("v4", vec![nat(a.to_bits()), nat(*port)]),
            ps::PeerAddress::V6(a, port) => n("v6", vec![nat(a.to_bits()), nat(*port)]),
        }
    }
    fn peer(v: &V) -> Option<ps::PeerAddress> {
        match v.node()? {
            ("v4", [a, p]) => Some(ps::PeerAddress::V4(Ipv4Addr::from_bits(u(a)?), u(p)?)),
            ("v6", [a, p]) => Some(ps::PeerAddress::V6(Ipv6Addr::from_bits(u(a)?), u(p)?)),
            _ => None,
        }
    }
    pub fn v_ps(m: &ps::Message) -> V {
        match m {
            ps::Message::ShareRequest(k) => n("shareRequest", vec![nat(*k)]),
            ps::Message::SharePeers(l) => n("sharePeers", vec![vlist(l, v_peer)]),
            ps::Message::Done => n("done", vec![]),
        }
    }
    pub fn ps_msg(v: &V) -> Option<ps::Message> {
        Some(match v.node()? {
            ("shareRequest", [k]) => ps::Message::ShareRequest(u(k)?),
            ("sharePeers", [l]) => ps::Message::SharePeers(list(l, peer)?),
            ("done", []) => ps::Message::Done,
            _ => return None,
        })
    }
    fn any(v: &V) -> Option<AnyCbor> { Some(AnyCbor::from_raw_bytes(h(v)?)) }
    fn v_any(a: &AnyCbor) -> V { hx(a.raw_bytes()) }
    pub fn v_ln(m: &lno::Message) -> V {
        use lno::Message::*;
        match m {
            RequestNext => n("requestNext", vec![]),
            BlockAnnouncement(x) => n("blockAnnouncement", vec![v_any(x)]),
            BlockOffer(p, s) => n("blockOffer", vec![v_point(p), nat(*s)]),
            BlockTxsOffer(p) => n("blockTxsOffer", vec![v_point(p)]),
            Votes(vs) => n("votes", vec![vlist(vs, v_any)]),
            Done => n("done", vec![]),
        }
    }
    pub fn ln_msg(v: &V) -> Option<lno::Message> {
        use lno::Message::*;
        Some(match v.node()? {
            ("requestNext", []) => RequestNext,
            ("blockAnnouncement", [x]) => BlockAnnouncement(any(x)?),
            ("blockOffer", [p, s]) => BlockOffer(point(p)?, u(s)?),
            ("blockTxsOffer", [p]) => BlockTxsOffer(point(p)?),
            ("votes", [l]) => Votes(list(l, any)?),
            ("done", []) => Done,
            _ => return None,
        })
    }
    fn v_bm(bm: &lf::Bitmaps) -> V { vlist(bm.0.iter(), |(k, x)| vpair(nat(*k), nat(*x))) }
    fn bm(v: &V) -> Option<lf::Bitmaps> {
        let ps = list(v, |x| pair(x, u::<u16>, u::<u64>))?;
        let mut m = BTreeMap::new();
        for (k, x) in ps { m.insert(k, x); }
        Some(lf::Bitmaps(m))
    }
    pub fn v_lf(m: &lf::Message) -> V {
        use lf::Message::*;
        match m {
            BlockRequest(p) => n("blockRequest", vec![v_point(p)]),
            Block(x) => n("block", vec![v_any(x)]),
            BlockTxsRequest(p, bmx) => n("blockTxsRequest", vec![v_point(p), v_bm(bmx)]),
            BlockTxs { point, bitmaps, txs } => n("blockTxs", vec![v_point(point), v_bm(bitmaps), vlist(txs, v_any)]),
            Done => n("done", vec![]),
        }
    }
    pub fn lf_msg(v: &V) -> Option<lf::Message> {
        use lf::Message::*;
        Some(match v.node()? {
            ("blockRequest", [p]) => BlockRequest(point(p)?),
            ("block", [x]) => Block(any(x)?),
            ("blockTxsRequest", [p, x]) => BlockTxsRequest(point(p)?, bm(x)?),
            ("blockTxs", [p, x, t]) => BlockTxs { point: point(p)?, bitmaps: bm(x)?, txs: list(t, any)? },
            ("done", []) => Done,
            _ => return None,
        })
    }
    pub fn codec(p: &str) -> Option<Codec> {
        Some(match p {
            "bf" => Codec { enc: |v| bf_msg(v).map(|m| enc_any(&m)), dec: |bs| dec_any::<bf::Message>(bs, v_bf) },
            "txs" => Codec { enc: |v| ts_msg(v).map(|m| enc_any(&m)), dec: |bs| dec_any::<ts::Message>(bs, v_ts) },
            "ps" => Codec { enc: |v| ps_msg(v).map(|m| enc_any(&m)), dec: |bs| dec_any::<ps::Message>(bs, v_ps) },
            "lnot" => Codec { enc: |v| ln_msg(v).map(|m| enc_any(&m)), dec: |bs| dec_any::<lno::Message>(bs, v_ln) },
            "lfet" => Codec { enc: |v| lf_msg(v).map(|m| enc_any(&m)), dec: |bs| dec_any::<lf::Message>(bs, v_lf) },
            _ => return c2::codec(p),
        })
    }
}

pub const N1_PROTOS: [&str; 14] = ["hsn", "hsc", "csh", "csb", "css", "bf", "txs", "ka", "ps", "ls", "ltx", "dmqs", "dmqn", "txm"];
pub const N2_PROTOS: [&str; 11] = ["hsn", "hsc", "csh", "csb", "css", "bf", "txs", "ka", "ps", "lnot", "lfet"];

pub fn all_protos() -> Vec<String> {
    N1_PROTOS.iter().map(|p| format!("n1.{p}")).chain(N2_PROTOS.iter().map(|p| format!("n2.{p}"))).collect()
}

pub fn codec(proto: &str) -> Option<Codec> {
    if let Some(p) = proto.strip_prefix("n1.") { s1::codec(p) } else if let Some(p) = proto.strip_prefix("n2.") { s2::codec(p) } else { None }
}

// ------------------------------------------------------------------------------------------------
/// Independent strict reader (RFC 8949 well-formedness, appendix C style): `Some(rest)` after
/// exactly one well-formed data item. Declared lengths must be honoured by the contents, breaks
/// only close indefinite containers, chunks of indefinite strings are definite strings of the same
/// major type, indefinite maps hold an even number of items. (Like the Lean `parseItem`, a two-byte
/// simple value below 32 is let through.)
pub fn strict_item(bs: &[u8], depth: usize) -> Option<&[u8]> {
    if depth > 2000 { return None; }
    let (&b0, rest) = bs.split_first()?;
    let (major, ai) = (b0 >> 5, b0 & 31);
    let (arg, rest): (Option<u64>, &[u8]) = match ai {
        0..=23 => (Some(ai as u64), rest),
        24..=27 => {
            let k = 1usize << (ai - 24);
            if rest.len() < k { return None; }
            let mut x = 0u64;
            for &y in &rest[..k] { x = (x << 8) | y as u64; }
            (Some(x), &rest[k..])
        }
        31 => (None, rest),
        _ => return None,
    };
    match (major, arg) {
        (0, Some(_)) | (1, Some(_)) | (7, Some(_)) => Some(rest),
        (0, None) | (1, None) | (6, None) | (7, None) => None,
        (2, Some(k)) | (3, Some(k)) => { if (rest.len() as u64) < k { None } else { Some(&rest[k as usize..]) } }
        (2, None) | (3, None) => {
            let mut r = rest;
            loop {
                let (&c, r2) = r.split_first()?;
                if c == 0xff { return Some(r2); }
                if c >> 5 != major || c & 31 == 31 { return None; }
                r = strict_item(r, depth + 1)?;
            }
        }
        (4, Some(k)) | (5, Some(k)) => {
            let cnt = if major == 4 { k as u128 } else { 2 * k as u128 };
            let mut r = rest;
            let mut i = 0u128;
            while i < cnt { r = strict_item(r, depth + 1)?; i += 1; }
            Some(r)
        }
        (4, None) | (5, None) => {
            let mut r = rest;
            let mut cnt = 0u64;
            loop {
                let (&c, r2) = r.split_first()?;
                if c == 0xff { return if major == 5 && cnt % 2 == 1 { None } else { Some(r2) }; }
                r = strict_item(r, depth + 1)?;
                cnt += 1;
            }
        }
        (6, Some(_)) => strict_item(rest, depth + 1),
        _ => None,
    }
}
pub fn is_single_item(bs: &[u8]) -> bool { matches!(strict_item(bs, 0), Some(r) if r.is_empty()) }

// ------------------------------------------------------------------------------------------------
// generators (values of the text form; only *representable* combinations, see DESIGN C22:
// header variant 0 <-> byron prefix present, n2n peer_sharing and query both or neither,
// opaque payloads = one well-formed item)
pub fn g_len(r: &mut Rng) -> usize {
    match r.below(12) { 0 => 0, 1 => 1, 2 => 23, 3 => 24, 4 => 28, 5 => 32, 6 => 255, 7 => 256, 8 => r.range(63, 65) as usize, _ => r.below(40) as usize }
}
pub fn g_bytes(r: &mut Rng) -> V { let k = g_len(r); V::Hex(r.bytes(k)) }
pub fn g_hash(r: &mut Rng) -> V { let k = if r.chance(3, 4) { 32 } else { g_len(r) }; V::Hex(r.bytes(k)) }
fn g_u(r: &mut Rng, max: u64) -> V {
    let x = r.u64_edgy();
    V::Nat((if max == u64::MAX { x } else if r.chance(1, 3) { max - (x % 3).min(max) } else { x % (max + 1) }) as u128)
}
fn g_u8(r: &mut Rng) -> V { g_u(r, 255) }
fn g_u16(r: &mut Rng) -> V { g_u(r, 65535) }
fn g_u32(r: &mut Rng) -> V { g_u(r, u32::MAX as u64) }
fn g_u64(r: &mut Rng) -> V { g_u(r, u64::MAX) }
fn g_bool(r: &mut Rng) -> V { vb(r.chance(1, 2)) }
pub fn g_text(r: &mut Rng) -> V {
    const CH: [&str; 12] = ["a", "Z", " ", "0", "\u{e9}", "\u{3bb}", "\u{20ac}", "\u{d7ff}", "\u{e000}", "\u{1f600}", "\u{10ffff}", "\u{7f}"];
    let k = match r.below(6) { 0 => 0, 1 => 23, 2 => 24, _ => r.below(30) };
    let mut s = String::new();
    for _ in 0..k { s.push_str(CH[r.below(CH.len() as u64) as usize]); }
    hx(s.as_bytes())
}
fn head(major: u8, x: u64, out: &mut Vec<u8>) {
    let m = major << 5;
    if x < 24 { out.push(m | x as u8) } else if x < 256 { out.push(m | 24); out.push(x as u8) }
    else if x < 65536 { out.push(m | 25); out.extend_from_slice(&(x as u16).to_be_bytes()) }
    else if x < (1 << 32) { out.push(m | 26); out.extend_from_slice(&(x as u32).to_be_bytes()) }
    else { out.push(m | 27); out.extend_from_slice(&x.to_be_bytes()) }
}
/// one random well-formed CBOR item (any width of head, definite / indefinite, nested)
pub fn g_item(r: &mut Rng, depth: u32, out: &mut Vec<u8>) {
    let wide_head = |r: &mut Rng, major: u8, x: u64, out: &mut Vec<u8>| {
        // sometimes a non-minimal head
        if r.chance(1, 5) {
            let m = major << 5;
            match r.below(3) {
                0 if x < 256 => { out.push(m | 24); out.push(x as u8) }
                1 if x < 65536 => { out.push(m | 25); out.extend_from_slice(&(x as u16).to_be_bytes()) }
                _ => { out.push(m | 27); out.extend_from_slice(&x.to_be_bytes()) }
            }
        } else { head(major, x, out) }
    };
    let k = if depth >= 4 { r.below(6) } else { r.below(12) };
    match k {
        0 => { let x = r.u64_edgy(); wide_head(r, 0, x, out) }
        1 => { let x = r.u64_edgy(); wide_head(r, 1, x, out) }
        2 => { let k = g_len(r) % 70; let bs = r.bytes(k); wide_head(r, 2, bs.len() as u64, out); out.extend_from_slice(&bs) }
        3 => { let V::Hex(t) = g_text(r) else { unreachable!() }; wide_head(r, 3, t.len() as u64, out); out.extend_from_slice(&t) }
        4 => out.push(*r.pick(&[0xf4u8, 0xf5, 0xf6, 0xf7, 0xe0, 0xf3])),
        5 => match r.below(4) {
            0 => { out.push(0xf9); out.extend_from_slice(&r.bytes(2)) }
            1 => { out.push(0xfa); out.extend_from_slice(&r.bytes(4)) }
            2 => { out.push(0xfb); out.extend_from_slice(&r.bytes(8)) }
            _ => { out.push(0xf8); out.push(r.range(32, 255) as u8) }
        },
        6 => { let cnt = r.below(4); wide_head(r, 4, cnt, out); for _ in 0..cnt { g_item(r, depth + 1, out) } }
        7 => { let cnt = r.below(4); out.push(0x9f); for _ in 0..cnt { g_item(r, depth + 1, out) } out.push(0xff) }
        8 => { let cnt = r.below(3); wide_head(r, 5, cnt, out); for _ in 0..2 * cnt { g_item(r, depth + 1, out) } }
        9 => { let cnt = r.below(3); out.push(0xbf); for _ in 0..2 * cnt { g_item(r, depth + 1, out) } out.push(0xff) }
        10 => { let t = r.u64_edgy(); wide_head(r, 6, t, out); g_item(r, depth + 1, out) }
        _ => {
            // indefinite byte / text string
            let text = r.chance(1, 2);
            out.push(if text { 0x7f } else { 0x5f });
            let chunks = r.below(3);
            for _ in 0..chunks {
                let bs = if text { let V::Hex(t) = g_text(r) else { unreachable!() }; t } else { let k = r.below(5) as usize; r.bytes(k) };
                head(if text { 3 } else { 2 }, bs.len() as u64, out);
                out.extend_from_slice(&bs);
            }
            out.push(0xff)
        }
    }
}
pub fn g_any(r: &mut Rng) -> V { let mut o = vec![]; g_item(r, 0, &mut o); V::Hex(o) }
pub fn g_point(r: &mut Rng) -> V { if r.chance(1, 5) { n("o", vec![]) } else { n("pt", vec![g_u64(r), g_hash(r)]) } }
pub fn g_tip(r: &mut Rng) -> V { n("tip", vec![g_point(r), g_u64(r)]) }
fn g_vec(r: &mut Rng, mut f: impl FnMut(&mut Rng) -> V) -> V {
    let k = match r.below(8) { 0 => 0, 1 => 1, 2 => 23, 3 => 24, 4 => 25, _ => r.below(6) };
    let mut v = vec![];
    for _ in 0..k { v.push(f(r)) }
    n("L", v)
}
fn g_header(r: &mut Rng) -> V {
    if r.chance(1, 3) { n("hdr", vec![nat(0u8), n("S", vec![vpair(g_u8(r), g_u64(r))]), g_bytes(r)]) }
    else { n("hdr", vec![V::Nat(r.range(1, 255) as u128), n("N", vec![]), g_bytes(r)]) }
}
fn g_n2n(r: &mut Rng) -> V {
    if r.chance(1, 2) { n("n2n", vec![g_u64(r), g_bool(r), n("S", vec![g_u8(r)]), n("S", vec![g_bool(r)])]) }
    else { n("n2n", vec![g_u64(r), g_bool(r), n("N", vec![]), n("N", vec![])]) }
}
fn g_n2c(r: &mut Rng) -> V { n("n2c", vec![g_u64(r), if r.chance(1, 2) { n("N", vec![]) } else { n("S", vec![g_bool(r)]) }]) }
fn g_table(r: &mut Rng, mut f: impl FnMut(&mut Rng) -> V) -> V {
    let k = match r.below(6) { 0 => 0, 1 => 24, _ => r.below(6) };
    let mut keys: Vec<u64> = (0..k).map(|_| match r.below(3) { 0 => r.range(1, 40), 1 => 32768 + r.below(40), _ => r.u64_edgy() }).collect();
    keys.sort();
    keys.dedup();
    n("L", keys.into_iter().map(|key| vpair(nat(key), f(r))).collect())
}
fn g_dmq(r: &mut Rng) -> V {
    n("dmq", vec![g_bytes(r), g_bytes(r), g_u64(r), g_u32(r), g_bytes(r), g_hash(r), g_u64(r), g_u64(r), g_bytes(r), g_hash(r)])
}
fn g_eratx(r: &mut Rng) -> V { n("tx", vec![g_u16(r), g_bytes(r)]) }
fn g_txid(r: &mut Rng) -> V { n("txid", vec![g_u16(r), g_hash(r)]) }
fn g_bitmaps(r: &mut Rng) -> V {
    let k = r.below(5);
    let mut keys: Vec<u64> = (0..k).map(|_| if r.chance(1, 2) { r.below(6) } else { r.u64_edgy() % 65536 }).collect();
    keys.sort();
    keys.dedup();
    n("L", keys.into_iter().map(|key| vpair(nat(key), g_u64(r))).collect())
}

/// number of message variants of a protocol (by short name)
pub fn variants(p: &str) -> u64 {
    match p { "hsn" | "hsc" => 6, "csh" | "csb" | "css" => 8, "bf" => 6, "txs" => 6, "ka" => 3, "ps" => 3, "ls" => 10, "ltx" | "dmqs" => 4,
        "dmqn" => 5, "txm" => 12, "lnot" => 6, "lfet" => 5, _ => 1 }
}

/// a random message of variant `k` (mod the number of variants) of protocol `proto` (`n1.x` / `n2.x`)
pub fn g_msg(r: &mut Rng, proto: &str, k: u64) -> V {
    let (stack, p) = proto.split_once('.').expect("proto");
    let k = k % variants(p);
    let e = |t: &str| n(t, vec![]);
    match p {
        "hsn" | "hsc" => {
            let mut d = |r: &mut Rng| if p == "hsn" { g_n2n(r) } else { g_n2c(r) };
            match k {
                0 => n("propose", vec![g_table(r, &mut d)]),
                1 => n("accept", vec![g_u64(r), d(r)]),
                2 => n("refuse", vec![n("versionMismatch", vec![g_vec(r, g_u64)])]),
                3 => n("refuse", vec![n("handshakeDecodeError", vec![g_u64(r), g_text(r)])]),
                4 => n("refuse", vec![n("refused", vec![g_u64(r), g_text(r)])]),
                _ => n("queryReply", vec![g_table(r, &mut d)]),
            }
        }
        "csh" | "csb" | "css" => {
            let c = |r: &mut Rng| match p { "csh" => g_header(r), "csb" => g_bytes(r), _ => e("skipped") };
            match k {
                0 => e("requestNext"), 1 => e("awaitReply"),
                2 => n("rollForward", vec![c(r), g_tip(r)]),
                3 => n("rollBackward", vec![g_point(r), g_tip(r)]),
                4 => n("findIntersect", vec![g_vec(r, g_point)]),
                5 => n("intersectFound", vec![g_point(r), g_tip(r)]),
                6 => n("intersectNotFound", vec![g_tip(r)]),
                _ => e("done"),
            }
        }
        "bf" => match k {
            0 => n("requestRange", vec![g_point(r), g_point(r)]), 1 => e("clientDone"), 2 => e("startBatch"), 3 => e("noBlocks"),
            4 => n("block", vec![g_bytes(r)]), _ => e("batchDone"),
        },
        "txs" => match k {
            0 => e("init"), 1 => n("requestTxIds", vec![g_bool(r), g_u16(r), g_u16(r)]),
            2 => n("replyTxIds", vec![g_vec(r, |r| n("ids", vec![g_txid(r), g_u32(r)]))]),
            3 => n("requestTxs", vec![g_vec(r, g_txid)]),
            4 => n("replyTxs", vec![g_vec(r, g_eratx)]),
            _ => e("done"),
        },
        "ka" => match k { 0 => n("keepAlive", vec![g_u16(r)]), 1 => n("responseKeepAlive", vec![g_u16(r)]), _ => e("done") },
        "ps" => match k {
            0 => n("shareRequest", vec![g_u8(r)]),
            1 => n("sharePeers", vec![g_vec(r, |r| {
                let port = if stack == "n1" { g_u32(r) } else { g_u16(r) };
                if r.chance(1, 2) { n("v4", vec![g_u32(r), port]) }
                else {
                    let bits = match r.below(4) { 0 => 0u128, 1 => u128::MAX, 2 => 0x20010db8_00000000_00000000_00000001u128, _ => ((r.next() as u128) << 64) | r.next() as u128 };
                    n("v6", vec![V::Nat(bits), port])
                }
            })]),
            _ => e("done"),
        },
        "ls" => match k {
            0 => n("acquire", vec![n("S", vec![g_point(r)])]), 1 => n("acquire", vec![e("N")]), 2 => e("acquired"),
            3 => n("failure", vec![e(if r.chance(1, 2) { "pointTooOld" } else { "pointNotOnChain" })]),
            4 => n("query", vec![g_any(r)]), 5 => n("result", vec![g_any(r)]),
            6 => n("reAcquire", vec![n("S", vec![g_point(r)])]), 7 => n("reAcquire", vec![e("N")]), 8 => e("release"), _ => e("done"),
        },
        "ltx" => match k { 0 => n("submitTx", vec![g_eratx(r)]), 1 => e("acceptTx"), 2 => n("rejectTx", vec![n("cbor", vec![g_any(r)])]), _ => e("done") },
        "dmqs" => match k {
            0 => n("submitTx", vec![g_dmq(r)]), 1 => e("acceptTx"),
            2 => n("rejectTx", vec![match r.below(4) { 0 => n("invalid", vec![g_text(r)]), 1 => e("alreadyReceived"), 2 => e("expired"), _ => n("other", vec![g_text(r)]) }]),
            _ => e("done"),
        },
        "dmqn" => match k {
            0 => e("requestNonBlocking"), 1 => n("replyNonBlocking", vec![g_vec(r, g_dmq), g_bool(r)]), 2 => e("requestBlocking"),
            3 => n("replyBlocking", vec![g_vec(r, g_dmq)]), _ => e("clientDone"),
        },
        "txm" => match k {
            0 => e("done"), 1 => e("acquire"), 2 => n("acquired", vec![g_u64(r)]), 3 => e("release"), 4 => e("awaitAcquire"), 5 => e("requestNextTx"),
            6 => n("responseNextTx", vec![e("N")]), 7 => n("responseNextTx", vec![n("S", vec![vpair(g_u8(r), g_bytes(r))])]),
            8 => n("requestHasTx", vec![g_text(r)]), 9 => n("responseHasTx", vec![g_bool(r)]), 10 => e("requestSizeAndCapacity"),
            _ => n("responseSizeAndCapacity", vec![g_u32(r), g_u32(r), g_u32(r)]),
        },
        "lnot" => match k {
            0 => e("requestNext"), 1 => n("blockAnnouncement", vec![g_any(r)]), 2 => n("blockOffer", vec![g_point(r), g_u32(r)]),
            3 => n("blockTxsOffer", vec![g_point(r)]), 4 => n("votes", vec![g_vec(r, g_any)]), _ => e("done"),
        },
        "lfet" => match k {
            0 => n("blockRequest", vec![g_point(r)]), 1 => n("block", vec![g_any(r)]), 2 => n("blockTxsRequest", vec![g_point(r), g_bitmaps(r)]),
            3 => n("blockTxs", vec![g_point(r), g_bitmaps(r), g_vec(r, g_any)]), _ => e("done"),
        },
        _ => e("done"),
    }
}
