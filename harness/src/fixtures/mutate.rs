//! Structure-aware byte mutations (C09): every edit is `r <pos> <len> <hex|->` = replace `len` bytes
//! at `pos` by the given bytes (positions clamped to the current length), so an edit script is
//! replayable without the generator. The generator knows where the CBOR heads are.
use crate::fw::*;

#[derive(Clone, Debug)]
pub struct Edit { pub pos: usize, pub len: usize, pub with: Vec<u8> }

pub fn apply(bytes: &mut Vec<u8>, e: &Edit) {
    let pos = e.pos.min(bytes.len());
    let end = pos.saturating_add(e.len).min(bytes.len());
    bytes.splice(pos..end, e.with.iter().cloned());
}
pub fn show(e: &Edit) -> String { format!("r {} {} {}", e.pos, e.len, hex(&e.with)) }
/// parses `r pos len hex` groups out of a token slice
pub fn parse(toks: &[String]) -> Option<Vec<Edit>> {
    let mut res = vec![];
    let mut i = 0;
    while i < toks.len() {
        if toks[i] != "r" || toks.len() < i + 4 { return None; }
        res.push(Edit { pos: toks[i + 1].parse().ok()?, len: toks[i + 2].parse().ok()?, with: unhex(&toks[i + 3])? });
        i += 4;
    }
    Some(res)
}

#[derive(Clone, Copy, Debug)]
pub struct HeadAt { pub pos: usize, pub major: u8, pub ai: u8, pub arglen: usize, pub val: u64 }

/// linear walk over the heads of a CBOR byte string (string payloads are stepped over); stops at
/// the first thing that does not parse
pub fn heads(bs: &[u8]) -> Vec<HeadAt> {
    let mut res = vec![];
    let mut i = 0usize;
    while i < bs.len() && res.len() < 200_000 {
        let b = bs[i];
        let (major, ai) = (b >> 5, b & 31);
        let arglen = match ai { 0..=23 => 0, 24 => 1, 25 => 2, 26 => 4, 27 => 8, 31 => 0, _ => break };
        if i + 1 + arglen > bs.len() { break; }
        let mut val = ai as u64;
        if arglen > 0 { val = 0; for &y in &bs[i + 1..i + 1 + arglen] { val = (val << 8) | y as u64; } }
        res.push(HeadAt { pos: i, major, ai, arglen, val });
        i += 1 + arglen;
        if (major == 2 || major == 3) && ai != 31 {
            let k = val.min((bs.len() - i) as u64) as usize;
            i += k;
        }
    }
    res
}

pub fn enc_head(major: u8, val: u64, width: u8) -> Vec<u8> {
    let m = major << 5;
    match width {
        0 if val < 24 => vec![m | val as u8],
        1 => vec![m | 24, val as u8],
        2 => { let mut v = vec![m | 25]; v.extend_from_slice(&(val as u16).to_be_bytes()); v }
        4 => { let mut v = vec![m | 26]; v.extend_from_slice(&(val as u32).to_be_bytes()); v }
        _ => { let mut v = vec![m | 27]; v.extend_from_slice(&val.to_be_bytes()); v }
    }
}

/// one random edit of `bs`; `hs` = `heads(bs)`
pub fn gen_edit(r: &mut Rng, bs: &[u8], hs: &[HeadAt]) -> Edit {
    let n = bs.len();
    let anypos = |r: &mut Rng| if n == 0 { 0 } else { r.below(n as u64) as usize };
    let pick_head = |r: &mut Rng, pred: &dyn Fn(&HeadAt) -> bool| -> Option<HeadAt> {
        let c: Vec<&HeadAt> = hs.iter().filter(|h| pred(h)).collect();
        if c.is_empty() { None } else { Some(*c[r.below(c.len() as u64) as usize]) }
    };
    match r.below(14) {
        0 | 1 => { let p = anypos(r); let b = if n == 0 { 0 } else { bs[p] ^ (1u8 << r.below(8)) }; Edit { pos: p, len: 1, with: vec![b] } } // bit flip
        2 => { let p = anypos(r); Edit { pos: p, len: 1, with: vec![r.next() as u8] } }                                   // byte set
        3 => { let p = anypos(r); Edit { pos: p, len: usize::MAX / 2, with: vec![] } }                                    // truncation
        4 => {                                                                                                             // truncation right after a head
            match pick_head(r, &|_| true) { Some(h) => Edit { pos: h.pos + 1 + if r.chance(1, 2) { h.arglen } else { 0 }, len: usize::MAX / 2, with: vec![] }, None => Edit { pos: 0, len: usize::MAX / 2, with: vec![] } }
        }
        5 | 6 | 7 => {                                                                                                     // length-field corruption
            match pick_head(r, &|h| (2..=5).contains(&h.major) && h.ai != 31) {
                Some(h) => {
                    let cands = [0u64, h.val.wrapping_add(1), h.val.wrapping_sub(1), 23, 24, 255, 256, 65535, 65536, u32::MAX as u64, 1 << 32, (1 << 63) - 1, 1 << 63, u64::MAX, h.val.wrapping_mul(2)];
                    let v = *r.pick(&cands);
                    let w = match r.below(4) { 0 => h.arglen as u8, 1 => 0, 2 => 8, _ => *r.pick(&[1u8, 2, 4]) };
                    Edit { pos: h.pos, len: 1 + h.arglen, with: enc_head(h.major, v, w) }
                }
                None => { let p = anypos(r); Edit { pos: p, len: 1, with: vec![r.next() as u8] } }
            }
        }
        8 => {                                                                                                             // integer / tag argument corruption
            match pick_head(r, &|h| matches!(h.major, 0 | 1 | 6) && h.ai != 31) {
                Some(h) => { let v = r.u64_edgy(); let w = *r.pick(&[0u8, 1, 2, 4, 8]); Edit { pos: h.pos, len: 1 + h.arglen, with: enc_head(h.major, v, w) } }
                None => Edit { pos: anypos(r), len: 0, with: vec![0xff] }
            }
        }
        9 => {                                                                                                             // major-type corruption, argument kept
            match pick_head(r, &|_| true) { Some(h) => Edit { pos: h.pos, len: 1, with: vec![((r.below(8) as u8) << 5) | h.ai] }, None => Edit { pos: 0, len: 0, with: vec![0x9f] } }
        }
        10 => {                                                                                                            // make a container / string indefinite, or plant a break
            match pick_head(r, &|h| (2..=5).contains(&h.major)) {
                Some(h) if r.chance(1, 2) => Edit { pos: h.pos, len: 1 + h.arglen, with: vec![(h.major << 5) | 31] },
                _ => Edit { pos: anypos(r), len: 0, with: vec![0xff] },
            }
        }
        11 => {                                                                                                            // splice: copy a slice of the input over another place
            let from = anypos(r); let len = (r.below(40) as usize).min(n - from.min(n)); let to = anypos(r);
            Edit { pos: to, len: if r.chance(1, 2) { len } else { 0 }, with: bs[from.min(n)..(from + len).min(n)].to_vec() }
        }
        12 => { let p = anypos(r); Edit { pos: p, len: r.below(9) as usize, with: vec![] } }                               // delete a few bytes
        _ => { let p = anypos(r); let k = r.below(9) as usize; Edit { pos: p, len: 0, with: r.bytes(k) } }                 // insert random bytes
    }
}

// ------------------------------------------------------------------------------------------------
// structure-aware part: a lenient CBOR tree walk (it also descends into byte strings whose payload
// is itself exactly one CBOR item — `#6.24(bytes)` wrappers, inline datums, script refs) and edits
// that respect the nesting: an edit inside a wrapped payload re-writes the length heads of the
// enclosing byte strings, so the carrier stays intact and only the inner buffer changes.

#[derive(Clone, Copy, Debug)]
pub struct Wrap { pub head_pos: usize, pub head_len: usize, pub payload_len: usize }

#[derive(Clone, Debug)]
pub struct Node {
    pub start: usize, pub hlen: usize, pub end: usize, pub major: u8, pub ai: u8, pub val: u64,
    pub depth: usize, pub children: usize,
    /// enclosing byte-string wrappers, outermost first
    pub wraps: Vec<Wrap>,
    /// first item of a wrapped payload (the root of an inner decode buffer)
    pub wrap_root: bool,
}
impl Node { pub fn indef(&self) -> bool { self.ai == 31 && (2..=5).contains(&self.major) } }

fn head_at(bs: &[u8], pos: usize, limit: usize) -> Option<(u8, u8, usize, u64)> {
    if pos >= limit { return None; }
    let b = bs[pos];
    let (major, ai) = (b >> 5, b & 31);
    let arglen = match ai { 0..=23 => 0, 24 => 1, 25 => 2, 26 => 4, 27 => 8, 31 => 0, _ => return None };
    if pos + 1 + arglen > limit { return None; }
    let mut val = ai as u64;
    if arglen > 0 { val = 0; for &y in &bs[pos + 1..pos + 1 + arglen] { val = (val << 8) | y as u64; } }
    Some((major, ai, 1 + arglen, val))
}

fn walk(bs: &[u8], pos: usize, limit: usize, depth: usize, wraps: &[Wrap], root: bool, out: &mut Vec<Node>) -> Option<usize> {
    if depth > 256 || out.len() > 400_000 { return None; }
    let (major, ai, hlen, val) = head_at(bs, pos, limit)?;
    let idx = out.len();
    out.push(Node { start: pos, hlen, end: pos, major, ai, val, depth, children: 0, wraps: wraps.to_vec(), wrap_root: root });
    let mut children = 0usize;
    let end = match major {
        0 | 1 => { if ai == 31 { return None; } pos + hlen }
        7 => { if ai == 31 { return None; } pos + hlen }
        2 | 3 => {
            if ai == 31 {
                let mut p = pos + 1;
                loop {
                    if p >= limit { return None; }
                    if bs[p] == 0xff { break p + 1; }
                    p = walk(bs, p, limit, depth + 1, wraps, false, out)?;
                    children += 1;
                }
            } else {
                let e = (pos + hlen).checked_add(val as usize)?;
                if e > limit { return None; }
                if major == 2 && val >= 2 {
                    // a payload that is exactly one item: descend (keeps the nodes only on success)
                    let mut w = wraps.to_vec();
                    w.push(Wrap { head_pos: pos, head_len: hlen, payload_len: val as usize });
                    let mark = out.len();
                    match walk(bs, pos + hlen, e, depth + 1, &w, true, out) { Some(pe) if pe == e => children = 1, _ => out.truncate(mark) }
                }
                e
            }
        }
        4 | 5 => {
            let mut p = pos + hlen;
            if ai == 31 {
                loop {
                    if p >= limit { return None; }
                    if bs[p] == 0xff { break p + 1; }
                    p = walk(bs, p, limit, depth + 1, wraps, false, out)?;
                    children += 1;
                }
            } else {
                let cnt = if major == 4 { val } else { val.checked_mul(2)? };
                if cnt > (limit - p) as u64 { return None; }
                for _ in 0..cnt { p = walk(bs, p, limit, depth + 1, wraps, false, out)?; children += 1; }
                p
            }
        }
        _ => { if ai == 31 { return None; } children = 1; walk(bs, pos + hlen, limit, depth + 1, wraps, false, out)? }
    };
    out[idx].end = end;
    out[idx].children = children;
    Some(end)
}

/// every item of `bs` (as far as it parses), in pre-order
pub fn tree(bs: &[u8]) -> Vec<Node> {
    let mut out = vec![];
    let mut p = 0;
    while p < bs.len() {
        let mark = out.len();
        match walk(bs, p, bs.len(), 0, &[], false, &mut out) { Some(e) => p = e, None => { out.truncate(mark); break; } }
    }
    out
}

/// replace `len` bytes at `pos` (inside the innermost of `wraps`) and repair the enclosing length heads
pub fn nested_edit(wraps: &[Wrap], pos: usize, len: usize, with: Vec<u8>) -> Vec<Edit> {
    let mut delta = with.len() as i64 - len as i64;
    let mut edits = vec![Edit { pos, len, with }];
    for w in wraps.iter().rev() {
        let new_len = (w.payload_len as i64 + delta).max(0) as u64;
        let width = match w.head_len { 1 if new_len < 24 => 0u8, 1 | 2 if new_len < 256 => 1, 1..=3 if new_len < 65536 => 2, 1..=5 if new_len < (1 << 32) => 4, _ => 8 };
        let h = enc_head(2, new_len, width);
        delta += h.len() as i64 - w.head_len as i64;
        edits.push(Edit { pos: w.head_pos, len: w.head_len, with: h });
    }
    edits
}

/// minimal witnesses of the branches of the hand-written decoders (PlutusData: tag-102 / compact
/// constructors, bignums, bounded-bytes chunks, maps, arrays; utils.rs wrappers: Nullable,
/// MaybeIndefArray, Set tag 258, CborWrap), each also with its last byte cut off and with a break appended
pub fn witnesses() -> Vec<Vec<u8>> {
    let base: &[&str] = &[
        "d8668200" , "d866820080", "d866821903e89f01ff", "d8669f0080ff", "d8669f009f01ffff", "d8669f008000ff", "d86683008000", "d8668100", "d86680", "d8669f00ff",
        "d87980", "d8799fff", "d87a9f0102ff", "d87f8101", "d905008100", "d9057980", "d87880", "d87981d8799fd8668200 80ffff",
        "c24101", "c249010000000000000000", "c34100", "c25f41014102ff", "c240", "c200", "c35f4100ff",
        "4100", "5f58400000000000000000000000000000000000000000000000000000000000000000000000000000000000000000000000000000000000000000000000000000000000004100ff", "5fff", "5f5fffff", "5f4101",
        "1bffffffffffffffff", "3bffffffffffffffff", "a10102", "bf0102ff", "bf01ff", "a1d8668200 8080",
        "80", "9fff", "9f01", "9f9f9fffffff",
        "f6", "f7", "d9010280", "d90102810000", "d901029f00ff", "d818430102ff",
    ];
    let mut out = vec![];
    for h in base.iter() {
        let b = hex::decode(h.replace(' ', "")).expect("witness hex");
        out.push(b.clone());
        if b.len() > 1 { out.push(b[..b.len() - 1].to_vec()); }
        let mut c = b.clone(); c.push(0xff); out.push(c);
    }
    out
}

/// 1–2 structure-aware edits of `bs` (already expanded with their length repairs), or none if the
/// tree offers no site for the drawn mutation
pub fn gen_struct_edits(r: &mut Rng, bs: &[u8], t: &[Node], wit: &[Vec<u8>]) -> Vec<Edit> {
    if t.is_empty() { return vec![]; }
    // prefer deep / wrapped nodes: they are the ones flat mutations rarely hit cleanly
    let pick = |r: &mut Rng, pred: &dyn Fn(&Node) -> bool| -> Option<Node> {
        let c: Vec<&Node> = t.iter().filter(|n| pred(n)).collect();
        if c.is_empty() { return None; }
        let wrapped: Vec<&&Node> = c.iter().filter(|n| !n.wraps.is_empty()).collect();
        if !wrapped.is_empty() && r.chance(2, 3) { return Some((**wrapped[r.below(wrapped.len() as u64) as usize]).clone()); }
        Some(c[r.below(c.len() as u64) as usize].clone())
    };
    let buf_end = |n: &Node| -> usize { match n.wraps.last() { Some(w) => w.head_pos + w.head_len + w.payload_len, None => bs.len() } };
    match r.below(9) {
        0 => match pick(r, &|n| n.indef()) {                                   // drop the break of an indefinite item
            Some(n) => nested_edit(&n.wraps, n.end - 1, 1, vec![]), None => vec![] },
        1 => match pick(r, &|_| true) {                                        // plant a break at an item boundary
            Some(n) => { let p = if r.chance(1, 2) { n.end } else { n.start }; nested_edit(&n.wraps, p, 0, vec![0xff]) } None => vec![] },
        2 | 3 => match pick(r, &|_| true) {                                    // cut the (inner) buffer at an item boundary
            Some(n) => {
                let at = match r.below(4) { 0 => n.start, 1 => n.start + n.hlen, 2 => n.end.saturating_sub(1), _ => n.end };
                let e = buf_end(&n);
                if at >= e { vec![] } else { nested_edit(&n.wraps, at, e - at, vec![]) }
            } None => vec![] },
        4 => match pick(r, &|n| (4..=5).contains(&n.major) && !n.indef()) {    // definite -> indefinite at one site
            Some(n) => { let mut body = vec![(n.major << 5) | 31]; body.extend_from_slice(&bs[n.start + n.hlen..n.end]); body.push(0xff);
                nested_edit(&n.wraps, n.start, n.end - n.start, body) } None => vec![] },
        5 => match pick(r, &|n| (4..=5).contains(&n.major) && n.indef()) {     // indefinite -> definite at one site
            Some(n) => { let cnt = if n.major == 4 { n.children as u64 } else { (n.children / 2) as u64 };
                let mut body = enc_head(n.major, cnt, 0); if cnt >= 24 { body = enc_head(n.major, cnt, 1); }
                body.extend_from_slice(&bs[n.start + 1..n.end - 1]);
                nested_edit(&n.wraps, n.start, n.end - n.start, body) } None => vec![] },
        6 => match pick(r, &|n| n.major == 2 && !n.indef() && n.val > 0) {     // bytes -> chunked bytes
            Some(n) => { let mut body = vec![0x5f]; body.extend_from_slice(&bs[n.start..n.end]); body.push(0xff);
                nested_edit(&n.wraps, n.start, n.end - n.start, body) } None => vec![] },
        _ => match pick(r, &|n| n.wrap_root || n.major == 6 || n.depth >= 2) { // splice a decoder-branch witness over an item
            Some(n) => { let w = wit[r.below(wit.len() as u64) as usize].clone(); nested_edit(&n.wraps, n.start, n.end - n.start, w) } None => vec![] },
    }
}
