//! Structure-aware byte mutations (C09): every edit is `r <pos> <len> <hex|->` = replace `len` bytes
//! at `pos` by the given bytes (positions clamped to the current length), so an edit script is
//! replayable without the generator. The generator knows where the CBOR heads are.
use crate::fw::*;

#[derive(Clone, Debug)]
pub struct Edit { pub pos: usize, pub len: usize, pub with: Vec<u8> }

pub fn apply(bytes: &mut Vec<u8>, e: &Edit) {
    let pos = e.pos.min(bytes.len());
    let end = pos.saturating_add(e.len).min(bytes.len());
    bytes.splice(pos..end, e.with.iter().cloned());
}
pub fn show(e: &Edit) -> String { format!("r {} {} {}", e.pos, e.len, hex(&e.with)) }
/// parses `r pos len hex` groups out of a token slice
pub fn parse(toks: &[String]) -> Option<Vec<Edit>> {
    let mut res = vec![];
    let mut i = 0;
    while i < toks.len() {
        if toks[i] != "r" || toks.len() < i + 4 { return None; }
        res.push(Edit { pos: toks[i + 1].parse().ok()?, len: toks[i + 2].parse().ok()?, with: unhex(&toks[i + 3])? });
        i += 4;
    }
    Some(res)
}

#[derive(Clone, Copy, Debug)]
pub struct HeadAt { pub pos: usize, pub major: u8, pub ai: u8, pub arglen: usize, pub val: u64 }

/// linear walk over the heads of a CBOR byte string (string payloads are stepped over); stops at
/// the first thing that does not parse
pub fn heads(bs: &[u8]) -> Vec<HeadAt> {
    let mut res = vec![];
    let mut i = 0usize;
    while i < bs.len() && res.len() < 200_000 {
        let b = bs[i];
        let (major, ai) = (b >> 5, b & 31);
        let arglen = match ai { 0..=23 => 0, 24 => 1, 25 => 2, 26 => 4, 27 => 8, 31 => 0, _ => break };
        if i + 1 + arglen > bs.len() { break; }
        let mut val = ai as u64;
        if arglen > 0 { val = 0; for &y in &bs[i + 1..i + 1 + arglen] { val = (val << 8) | y as u64; } }
        res.push(HeadAt { pos: i, major, ai, arglen, val });
        i += 1 + arglen;
        if (major == 2 || major == 3) && ai != 31 {
            let k = val.min((bs.len() - i) as u64) as usize;
            i += k;
        }
    }
    res
}

pub fn enc_head(major: u8, val: u64, width: u8) -> Vec<u8> {
    let m = major << 5;
    match width {
        0 if val < 24 => vec![m | val as u8],
        1 => vec![m | 24, val as u8],
        2 => { let mut v = vec![m | 25]; v.extend_from_slice(&(val as u16).to_be_bytes()); v }
        4 => { let mut v = vec![m | 26]; v.extend_from_slice(&(val as u32).to_be_bytes()); v }
        _ => { let mut v = vec![m | 27]; v.extend_from_slice(&val.to_be_bytes()); v }
    }
}

/// one random edit of `bs`; `hs` = `heads(bs)`
pub fn gen_edit(r: &mut Rng, bs: &[u8], hs: &[HeadAt]) -> Edit {
    let n = bs.len();
    let anypos = |r: &mut Rng| if n == 0 { 0 } else { r.below(n as u64) as usize };
    let pick_head = |r: &mut Rng, pred: &dyn Fn(&HeadAt) -> bool| -> Option<HeadAt> {
        let c: Vec<&HeadAt> = hs.iter().filter(|h| pred(h)).collect();
        if c.is_empty() { None } else { Some(*c[r.below(c.len() as u64) as usize]) }
    };
    match r.below(14) {
        0 | 1 => { let p = anypos(r); let b = if n == 0 { 0 } else { bs[p] ^ (1u8 << r.below(8)) }; Edit { pos: p, len: 1, with: vec![b] } } // bit flip
        2 => { let p = anypos(r); Edit { pos: p, len: 1, with: vec![r.next() as u8] } }                                   // byte set
        3 => { let p = anypos(r); Edit { pos: p, len: usize::MAX / 2, with: vec![] } }                                    // truncation
        4 => {                                                                                                             // truncation right after a head
            match pick_head(r, &|_| true) { Some(h) => Edit { pos: h.pos + 1 + if r.chance(1, 2) { h.arglen } else { 0 }, len: usize::MAX / 2, with: vec![] }, None => Edit { pos: 0, len: usize::MAX / 2, with: vec![] } }
        }
        5 | 6 | 7 => {                                                                                                     // length-field corruption
            match pick_head(r, &|h| (2..=5).contains(&h.major) && h.ai != 31) {
                Some(h) => {
                    let cands = [0u64, h.val.wrapping_add(1), h.val.wrapping_sub(1), 23, 24, 255, 256, 65535, 65536, u32::MAX as u64, 1 << 32, (1 << 63) - 1, 1 << 63, u64::MAX, h.val.wrapping_mul(2)];
                    let v = *r.pick(&cands);
                    let w = match r.below(4) { 0 => h.arglen as u8, 1 => 0, 2 => 8, _ => *r.pick(&[1u8, 2, 4]) };
                    Edit { pos: h.pos, len: 1 + h.arglen, with: enc_head(h.major, v, w) }
                }
                None => { let p = anypos(r); Edit { pos: p, len: 1, with: vec![r.next() as u8] } }
            }
        }
        8 => {                                                                                                             // integer / tag argument corruption
            match pick_head(r, &|h| matches!(h.major, 0 | 1 | 6) && h.ai != 31) {
                Some(h) => { let v = r.u64_edgy(); let w = *r.pick(&[0u8, 1, 2, 4, 8]); Edit { pos: h.pos, len: 1 + h.arglen, with: enc_head(h.major, v, w) } }
                None => Edit { pos: anypos(r), len: 0, with: vec![0xff] }
            }
        }
        9 => {                                                                                                             // major-type corruption, argument kept
            match pick_head(r, &|_| true) { Some(h) => Edit { pos: h.pos, len: 1, with: vec![((r.below(8) as u8) << 5) | h.ai] }, None => Edit { pos: 0, len: 0, with: vec![0x9f] } }
        }
        10 => {                                                                                                            // make a container / string indefinite, or plant a break
            match pick_head(r, &|h| (2..=5).contains(&h.major)) {
                Some(h) if r.chance(1, 2) => Edit { pos: h.pos, len: 1 + h.arglen, with: vec![(h.major << 5) | 31] },
                _ => Edit { pos: anypos(r), len: 0, with: vec![0xff] },
            }
        }
        11 => {                                                                                                            // splice: copy a slice of the input over another place
            let from = anypos(r); let len = (r.below(40) as usize).min(n - from.min(n)); let to = anypos(r);
            Edit { pos: to, len: if r.chance(1, 2) { len } else { 0 }, with: bs[from.min(n)..(from + len).min(n)].to_vec() }
        }
        12 => { let p = anypos(r); Edit { pos: p, len: r.below(9) as usize, with: vec![] } }                               // delete a few bytes
        _ => { let p = anypos(r); let k = r.below(9) as usize; Edit { pos: p, len: 0, with: r.bytes(k) } }                 // insert random bytes
    }
}
