//! Positive fixtures and protocol-parameter builders ported from pallas-validate/tests/babbage.rs
//! by /var/tmp one-off extraction (function bodies are verbatim up to the `validate_txs` call).
#![allow(unused, clippy::all)]

use super::common::*;
use pallas_primitives::MaybeIndefArray;
use pallas_addresses::{Address, Network, ShelleyAddress, ShelleyPaymentPart};
use pallas_codec::minicbor::{
        decode,
        decode::{Decode, Decoder},
        encode, to_vec,
    };
use pallas_codec::utils::{Bytes, CborWrap, KeepRaw};
use pallas_primitives::babbage::{
        CostModels, DatumOption, ExUnitPrices, ExUnits, NetworkId, Nonce, NonceVariant, PlutusData,
        PlutusScript, PostAlonzoTransactionOutput, RationalNumber, Redeemer, RedeemerTag,
        ScriptRef, TransactionBody, TransactionOutput, Tx, Value, WitnessSet,
    };
use pallas_traverse::{MultiEraInput, MultiEraOutput, MultiEraTx};
use pallas_validate::{
        phase1::validate_txs,
        utils::{
            AccountState, BabbageProtParams, CertState, Environment, MultiEraProtocolParameters,
            PostAlonzoError, UTxOs, ValidationError::*, values_are_equal,
        },
    };
use std::borrow::Cow;
use std::ops::Deref;
use super::Fixture;

    /// ported from pallas-validate/tests/babbage.rs `successful_mainnet_tx`
    pub fn successful_mainnet_tx() -> Fixture {
        let cbor_bytes: Vec<u8> = cbor_to_bytes(include_str!("data/babbage3.tx"));
        let mtx: Tx = babbage_minted_tx_from_cbor(&cbor_bytes);
        let metx: MultiEraTx = MultiEraTx::from_babbage(&mtx);
        let tx_outs_info: &[BabbageTxOutInfo] = &[(
            String::from(
                "011be1f490912af2fc39f8e3637a2bade2ecbebefe63e8bfef10989cd6f593309a155b0ebb45ff830747e61f98e5b77feaf7529ce9df351382",
            ),
            Value::Coin(103324335),
            None,
            None,
        )];
        let utxos: UTxOs = mk_utxo_for_babbage_tx(&mtx.transaction_body, tx_outs_info);
        let acnt = AccountState {
            treasury: 261_254_564_000_000,
            reserves: 0,
        };

        let env: Environment = Environment {
            prot_params: MultiEraProtocolParameters::Babbage(mk_mainnet_params_epoch_365()),
            prot_magic: 764824073,
            block_slot: 72316896,
            network_id: 1,
            acnt: Some(acnt),
        };
        let mut cert_state: CertState = CertState::default();
        let tx_cbor: Vec<u8> = cbor_bytes.clone();
        Fixture::from_parts("babbage.successful_mainnet_tx", pallas_traverse::Era::Babbage, tx_cbor, &utxos, env, cert_state)
    }

    /// ported from pallas-validate/tests/babbage.rs `successful_mainnet_tx_with_plutus_v1_script`
    pub fn successful_mainnet_tx_with_plutus_v1_script() -> Fixture {
        let cbor_bytes: Vec<u8> = cbor_to_bytes(include_str!("data/babbage4.tx"));
        let mtx: Tx = babbage_minted_tx_from_cbor(&cbor_bytes);
        let metx: MultiEraTx = MultiEraTx::from_babbage(&mtx);
        let tx_outs_info: &[BabbageTxOutInfo] = &[
            (
                String::from(
                    "11a55f409501bf65805bb0dc76f6f9ae90b61e19ed870bc0025681360881728e7ed4cf324e1323135e7e6d931f01e30792d9cdf17129cb806d",
                ),
                Value::Coin(25000000),
                Some(DatumOption::Hash(
                    hex::decode("3e8c4b1d396bb8132e5097f5a2f012d97900cbc496a3745db4226cea4cb66465")
                        .unwrap()
                        .as_slice()
                        .into(),
                )),
                None,
            ),
            (
                String::from(
                    "01f1e126304308006938d2e8571842ff87302fff95a037b3fd838451b8b3c9396d0680d912487139cb7fc85aa279ea70e8cdacee4c6cae40fd",
                ),
                Value::Multiasset(
                    1795660,
                    [(
                        "787f0c946b98153500edc0a753e65457250544da8486b17c85708135"
                            .parse()
                            .unwrap(),
                        [(
                            Bytes::from(
                                hex::decode("506572666563744c6567656e64617279446572705365616c")
                                    .unwrap(),
                            ),
                            1,
                        )]
                        .into(),
                    )]
                    .into(),
                ),
                None,
                None,
            ),
        ];
        let mut utxos: UTxOs = mk_utxo_for_babbage_tx(&mtx.transaction_body, tx_outs_info);
        let collateral_info: &[BabbageCollateralInfo] = &[(
            String::from(
                "01f1e126304308006938d2e8571842ff87302fff95a037b3fd838451b8b3c9396d0680d912487139cb7fc85aa279ea70e8cdacee4c6cae40fd",
            ),
            Value::Coin(5000000),
            None,
            None,
        )];
        add_collateral_babbage(&mtx.transaction_body, &mut utxos, collateral_info);
        let acnt = AccountState {
            treasury: 261_254_564_000_000,
            reserves: 0,
        };

        let env: Environment = Environment {
            prot_params: MultiEraProtocolParameters::Babbage(mk_mainnet_params_epoch_365()),
            prot_magic: 764824073,
            block_slot: 72317003,
            network_id: 1,
            acnt: Some(acnt),
        };
        let mut cert_state: CertState = CertState::default();
        let tx_cbor: Vec<u8> = cbor_bytes.clone();
        Fixture::from_parts("babbage.successful_mainnet_tx_with_plutus_v1_script", pallas_traverse::Era::Babbage, tx_cbor, &utxos, env, cert_state)
    }

    /// ported from pallas-validate/tests/babbage.rs `successful_mainnet_tx_with_plutus_v2_script`
    pub fn successful_mainnet_tx_with_plutus_v2_script() -> Fixture {
        let cbor_bytes: Vec<u8> = cbor_to_bytes(include_str!("data/babbage7.tx"));
        let mtx: Tx = babbage_minted_tx_from_cbor(&cbor_bytes);
        let metx: MultiEraTx = MultiEraTx::from_babbage(&mtx);
        let tx_outs_info: &[BabbageTxOutInfo] = &[
            (
                String::from(
                    "119068A7A3F008803EDAC87AF1619860F2CDCDE40C26987325ACE138AD81728E7ED4CF324E1323135E7E6D931F01E30792D9CDF17129CB806D",
                ),
                Value::Multiasset(
                    1318860,
                    [(
                        "95ab9a125c900c14cf7d39093e3577b0c8e39c9f7548a8301a28ee2d"
                            .parse()
                            .unwrap(),
                        [(
                            Bytes::from(hex::decode("4164614964696f7431313235").unwrap()),
                            1,
                        )]
                        .into(),
                    )]
                    .into(),
                ),
                Some(DatumOption::Hash(
                    hex::decode("d75ad82787a8d45b85c156c97736d2c6525d6b3a09b5d6297d1b45c6a63bccd3")
                        .unwrap()
                        .as_slice()
                        .into(),
                )),
                None,
            ),
            (
                String::from(
                    "01A7D37F1D43D1197A994D95B3CE15D9AF3B4697CC7CDF9BCD1F81688D3499AC08066B36BC6C2D86A21243B940E84DBE5CAC3FAB5F76AB9229",
                ),
                Value::Coin(231630402),
                None,
                None,
            ),
        ];
        let mut utxos: UTxOs = mk_utxo_for_babbage_tx(&mtx.transaction_body, tx_outs_info);
        let collateral_info: &[BabbageCollateralInfo] = &[(
            String::from(
                "01a7d37f1d43d1197a994d95b3ce15d9af3b4697cc7cdf9bcd1f81688d3499ac08066b36bc6c2d86a21243b940e84dbe5cac3fab5f76ab9229",
            ),
            Value::Coin(5000000),
            None,
            None,
        )];
        add_collateral_babbage(&mtx.transaction_body, &mut utxos, collateral_info);
        let ref_input_info: &[BabbageRefInputInfo] = &[(
            String::from("119068a7a3f008803edac87af1619860f2cdcde40c26987325ace138ad81728e7ed4cf324e1323135e7e6d931f01e30792d9cdf17129cb806d"),
            Value::Coin(40000000),
            None,
            Some(CborWrap(ScriptRef::PlutusV2Script(PlutusScript::<2>(Bytes::from(hex::decode("5909fe010000323232323232323232323232323232323232323232323232323232323232323232323232323232323232323232323232222323232533535533357346064606a0062646464642466002008004a666ae68c0d8c0e00044c848c004008c078d5d0981b8008191baa357426ae88c0d80154ccd5cd1819981b0008991919191919191919191919191919191919191919190919999999999980080b80a8098088078068058048038028018011aba135744004666068eb88004d5d08009aba2002357420026ae88008cc0c9d71aba1001357440046ae84004d5d10011aba1001357440046ae84004d5d10011aba1001357440046ae84004d5d10011981300f1aba1001357440046ae84004d5d1181b001198111192999ab9a30353038001132321233001003002301d357426ae88c0e0008c078d5d0981b8008191baa00135742606a0020606ea8d5d0981a001817911a8011111111111111a80691919299aa99a998149aa99a80109815a481035054380022100203d00303903a03a1533501213302549101350033302330340362350012232333027303803a235001223500122533533302b0440040062153353333026303e040223500222533500321533533303104a0030062153353302b0010031303f3305722533500104c221350022253353305100200a100313304d33047002001300600300215335330370010031303f333302d04b0043370200200600409209008e60720020044266060920102313000333573466e20ccd54c0fc104c0a8cc0f1c024000400266aa608008246a00209600200809208e266ae712410231310004813357389201023132000470023335530360393501b0403501b04233355303603922533535002222253353302200800413038003042213303d001002100103f010333301c303403622350022253353303c00b002100313333020303803a235001222533533302a0210030012133330260220043355303e03f235001223303d002333500120012235002223500322330433370000800466aa608e09046a002446608c004666a0024002e008004ccc0c013400c0048004ccc09c11000c0040084cccc09408400c00800400c0040f140044cc0952410134003330233034036235001223303b00a0025001153353355303403523500122350012222302c533350021303104821001213304e2253350011303404a221350022253353304800200710011300600300c0011302a49010136002213355303603723500122350012222302e533350021303304a2100121330502253350011303604c221350022253353304a00200710011300600300e0033335530310342253353353530283500203f03d203f253353303c001330482253350011302e044221350022253353303000200a135302f001223350022303504b20011300600301003b1302c4901013300133037002001100103a00d1120011533573892010350543500165333573460640020502a666ae68c0c400409c0b8c0ccdd50019baa00133019223355301f020235001223301e002335530220232350012233021002333500137009000380233700002900000099aa980f81011a800911980f001199a800919aa981181211a8009119811001180880080091199806815001000919aa981181211a80091198110011809000800999804012801000812111919807198021a8018139a801013a99a9a80181490a99a8011099a801119a80111980400100091101711119a80210171112999ab9a3370e00c0062a666ae68cdc38028010998068020008158158120a99a80090120121a8008141119a801119a8011198128010009014119a801101411981280100091199ab9a3370e00400204604a44446666aa00866032444600660040024002006002004444466aa603803a46a0024466036004666a0024002052400266600a0080026603c66030006004046444666aa603003603866aa603403646a00244660320046010002666aa6030036446a00444a66a666aa603a03e60106603444a66a00404a200204e46a002446601400400a00c200626604000800604200266aa603403646a00244660320046605e44a66a002260160064426a00444a66a6601800401022444660040140082600c00600800446602644666a0060420040026a00204242444600600842444600200844604e44a66a0020364426a00444a66a6601000400e2602a0022600c0064466aa0046602000603600244a66a004200202e44a66a00202e266ae7000806c8c94ccd5cd180f9811000899190919800801801198079192999ab9a3022302500113232123300100300233301075c464a666ae68c094c0a00044c8cc0514cd4cc028005200110011300e4901022d330033301375c464a66a660180029000080089808249022d3200375a0026ae84d5d118140011bad35742604e0020446ea8004d5d09aba23025002300c35742604800203e6ea8004d5d09aba23022002375c6ae84c084004070dd500091199ab9a3371200400203202e46a002444400844a666ae68cdc79a80100b1a80080b0999ab9a3370e6a0040306a00203002a02e024464a666ae68c06cc0780044c8c8c8c8c8c8c8c848cccc00402401c00c008d5d09aba20045333573466e1d2004001132122230020043574260460042a666ae68c0880044c84888c004010dd71aba1302300215333573460420022244400603c60460026ea8d5d08009aba200233300a75c66014eb9d69aba100135744603c004600a6ae84c074004060dd50009299ab9c001162325333573460326038002264646424660020060046eb4d5d09aba2301d003533357346034603a00226eb8d5d0980e00080b9baa35742603600202c6ea80048c94ccd5cd180c180d80089919191909198008028012999ab9a301b00113232300953335734603c00226464646424466600200c0080066eb4d5d09aba2002375a6ae84004d5d118100019bad35742603e0042a666ae68c0740044c8488c00800cc020d5d0980f80100d180f8009baa35742603a0042a666ae68c070004044060c074004dd51aba135744603600460066ae84c068004054dd5000919192999ab9a30190011321223001003375c6ae84c06800854ccd5cd180c00089909118010019bae35742603400402a60340026ea80048488c00800c888cc06888cccd55cf800900911919807198041803980e8009803180e00098021aba2003357420040166eac0048848cc00400c00888cc05c88cccd55cf800900791980518029aba10023003357440040106eb0004c05088448894cd40044008884cc014008ccd54c01c028014010004c04c88448894cd40044d400c040884ccd4014040c010008ccd54c01c024014010004c0488844894cd4004024884cc020c010008cd54c01801c0100044800488488cc00401000cc03c8894cd40080108854cd4cc02000800c01c4cc01400400c4014400888ccd5cd19b8f0020010030051001220021001220011533573892010350543100164901022d31004901013700370e90001b874800955cf2ab9d2323001001223300330020020011").unwrap()))))),
        )];
        add_ref_input_babbage(&mtx.transaction_body, &mut utxos, ref_input_info);
        let acnt = AccountState {
            treasury: 261_254_564_000_000,
            reserves: 0,
        };

        let env: Environment = Environment {
            prot_params: MultiEraProtocolParameters::Babbage(mk_mainnet_params_epoch_380()),
            prot_magic: 764824073,
            block_slot: 78797255,
            network_id: 1,
            acnt: Some(acnt),
        };
        let mut cert_state: CertState = CertState::default();
        let tx_cbor: Vec<u8> = cbor_bytes.clone();
        Fixture::from_parts("babbage.successful_mainnet_tx_with_plutus_v2_script", pallas_traverse::Era::Babbage, tx_cbor, &utxos, env, cert_state)
    }

    /// ported from pallas-validate/tests/babbage.rs `successful_preview_tx_with_plutus_v2_script`
    pub fn successful_preview_tx_with_plutus_v2_script() -> Fixture {
        let cbor_bytes: Vec<u8> = cbor_to_bytes(include_str!("data/babbage12.tx"));
        let mtx: Tx = babbage_minted_tx_from_cbor(&cbor_bytes);
        let metx: MultiEraTx = MultiEraTx::from_babbage(&mtx);
        let tx_outs_info: &[BabbageTxOutInfo] = &[
            (
                String::from("60b5f82aaebdc942bb0c8774dc712338b82e5133fe69ebbc3b6312098e"),
                Value::Coin(20000000),
                None,
                None,
            ),
            (
                String::from("708D73F125395466F1D68570447E4F4B87CD633C6728F3802B2DCFCA20"),
                Value::Multiasset(
                    2000000,
                    [(
                        "7F5AC1926607F0D6C000E088CEA67A1EDFDF5CB21F8B7F73412319B0"
                            .parse()
                            .unwrap(),
                        [(
                            Bytes::from(
                                hex::decode(
                                    "B5F82AAEBDC942BB0C8774DC712338B82E5133FE69EBBC3B6312098E",
                                )
                                .unwrap(),
                            ),
                            1,
                        )]
                        .into(),
                    )]
                    .into(),
                ),
                Some(DatumOption::Hash(
                    hex::decode("923918E403BF43C34B4EF6B48EB2EE04BABED17320D8D1B9FF9AD086E86F44EC")
                        .unwrap()
                        .as_slice()
                        .into(),
                )),
                None,
            ),
        ];
        let mut utxos: UTxOs = mk_utxo_for_babbage_tx(&mtx.transaction_body, tx_outs_info);
        let collateral_info: &[BabbageCollateralInfo] = &[(
            String::from("60b5f82aaebdc942bb0c8774dc712338b82e5133fe69ebbc3b6312098e"),
            Value::Coin(20000000),
            None,
            None,
        )];
        add_collateral_babbage(&mtx.transaction_body, &mut utxos, collateral_info);
        let acnt = AccountState {
            treasury: 261_254_564_000_000,
            reserves: 0,
        };

        let env: Environment = Environment {
            prot_params: MultiEraProtocolParameters::Babbage(mk_preview_params_epoch_30()),
            prot_magic: 2,
            block_slot: 2592005,
            network_id: 0,
            acnt: Some(acnt),
        };
        let mut cert_state: CertState = CertState::default();
        let tx_cbor: Vec<u8> = cbor_bytes.clone();
        Fixture::from_parts("babbage.successful_preview_tx_with_plutus_v2_script", pallas_traverse::Era::Babbage, tx_cbor, &utxos, env, cert_state)
    }

    /// ported from pallas-validate/tests/babbage.rs `successful_preprod_tx_with_plutus_v2_script`
    pub fn successful_preprod_tx_with_plutus_v2_script() -> Fixture {
        let cbor_bytes: Vec<u8> = cbor_to_bytes(include_str!("data/babbage13.tx"));
        let mtx: Tx = babbage_minted_tx_from_cbor(&cbor_bytes);
        let metx: MultiEraTx = MultiEraTx::from_babbage(&mtx);
        let plutus_data_cbor: Vec<u8> = hex::decode(
            "D8799FD8799F1A1DCD650019300BFF1B0000018B2B449D97581C28B3E2B8259FAABB566361635C4F8BBF31FE1388B15565F917C33C85FF"
        ).unwrap();
        let tx_outs_info: &[BabbageTxOutInfo] = &[
            (
                String::from(
                    "30DAB18165AE50399C5E477E0CFB38D0B35B32C75F7EB150EBC7874A5EDAB18165AE50399C5E477E0CFB38D0B35B32C75F7EB150EBC7874A5E",
                ),
                Value::Multiasset(
                    2000000,
                    [(
                        "CCFC2EFE9C1C360EF60D7D2E35CDD359FAD373A62A8905345F8A8BC4"
                            .parse()
                            .unwrap(),
                        [(
                            Bytes::from(hex::decode("4F7261636C65546872656164546F6B656E").unwrap()),
                            1,
                        )]
                        .into(),
                    )]
                    .into(),
                ),
                Some(DatumOption::Data(CborWrap(
                    KeepRaw::<PlutusData>::decode(&mut Decoder::new(&plutus_data_cbor), &mut ())
                        .unwrap(),
                ))),
                None,
            ),
            (
                String::from(
                    "0028B3E2B8259FAABB566361635C4F8BBF31FE1388B15565F917C33C85700D57DE08040F55793195E7ED87E693DBFCF4A62CF3597B1BC93567",
                ),
                Value::Coin(86112645),
                None,
                None,
            ),
        ];
        let mut utxos: UTxOs = mk_utxo_for_babbage_tx(&mtx.transaction_body, tx_outs_info);
        let collateral_info: &[BabbageCollateralInfo] = &[(
            String::from(
                "0028B3E2B8259FAABB566361635C4F8BBF31FE1388B15565F917C33C85700D57DE08040F55793195E7ED87E693DBFCF4A62CF3597B1BC93567",
            ),
            Value::Coin(70884589),
            None,
            None,
        )];
        add_collateral_babbage(&mtx.transaction_body, &mut utxos, collateral_info);
        let acnt = AccountState {
            treasury: 261_254_564_000_000,
            reserves: 0,
        };

        let env: Environment = Environment {
            prot_params: MultiEraProtocolParameters::Babbage(mk_preprod_params_epoch_100()),
            prot_magic: 1,
            block_slot: 41558438,
            network_id: 0,
            acnt: Some(acnt),
        };
        let mut cert_state: CertState = CertState::default();
        let tx_cbor: Vec<u8> = cbor_bytes.clone();
        Fixture::from_parts("babbage.successful_preprod_tx_with_plutus_v2_script", pallas_traverse::Era::Babbage, tx_cbor, &utxos, env, cert_state)
    }

    /// ported from pallas-validate/tests/babbage.rs `successful_mainnet_tx_with_minting`
    pub fn successful_mainnet_tx_with_minting() -> Fixture {
        let cbor_bytes: Vec<u8> = cbor_to_bytes(include_str!("data/babbage5.tx"));
        let mtx: Tx = babbage_minted_tx_from_cbor(&cbor_bytes);
        let metx: MultiEraTx = MultiEraTx::from_babbage(&mtx);
        let tx_outs_info: &[BabbageTxOutInfo] = &[
            (
                String::from("719b85d5e8611945505f078aeededcbed1d6ca11053f61e3f9d999fe44"),
                Value::Multiasset(
                    2034438,
                    [
                        (
                            "D195CA7DB29F0F13A00CAC7FCA70426FF60BAD4E1E87D3757FAE8484"
                                .parse()
                                .unwrap(),
                            [(
                                Bytes::from(
                                    hex::decode("323738333331333737")
                                        .unwrap(),
                                ),
                                1,
                            )].into(),
                        ),
                        (
                            "E4214B7CCE62AC6FBBA385D164DF48E157EAE5863521B4B67CA71D86"
                                .parse()
                                .unwrap(),
                            [(
                                Bytes::from(
                                    hex::decode("39B9B709AC8605FC82116A2EFC308181BA297C11950F0F350001E28F0E50868B")
                                        .unwrap(),
                                ),
                                42555569,
                            )].into(),
                        ),
                    ].into(),
                ),
                Some(DatumOption::Hash(
                    hex::decode("BB6F798DF7709327DB5BEB6C7A20BA5F170DE1841DDC38F98E192CD36E857B22")
                        .unwrap()
                        .as_slice()
                        .into(),
                )),
                None,
            ),
            (
                String::from("0121316dbc84420a5ee7461438483564c41fae876029319b3ee641fe4422339411d2df4c9c7c50b3d8f88db98d475e9d1bccd4244b412fbe5e"),
                Value::Multiasset(
                    197714998,
                    [(
                        "29D222CE763455E3D7A09A665CE554F00AC89D2E99A1A83D267170C6"
                            .parse()
                            .unwrap(),
                        [(
                            Bytes::from(
                                hex::decode("4D494E")
                                    .unwrap(),
                            ),
                            4913396066,
                        )].into(),
                    )].into(),
                ),
                None,
                None,
            ),
        ];
        let mut utxos: UTxOs = mk_utxo_for_babbage_tx(&mtx.transaction_body, tx_outs_info);
        let collateral_info: &[BabbageCollateralInfo] = &[(
            String::from(
                "0121316dbc84420a5ee7461438483564c41fae876029319b3ee641fe4422339411d2df4c9c7c50b3d8f88db98d475e9d1bccd4244b412fbe5e",
            ),
            Value::Coin(5000000),
            None,
            None,
        )];
        add_collateral_babbage(&mtx.transaction_body, &mut utxos, collateral_info);
        let acnt = AccountState {
            treasury: 261_254_564_000_000,
            reserves: 0,
        };

        let env: Environment = Environment {
            prot_params: MultiEraProtocolParameters::Babbage(mk_mainnet_params_epoch_365()),
            prot_magic: 764824073,
            block_slot: 72316896,
            network_id: 1,
            acnt: Some(acnt),
        };
        let mut cert_state: CertState = CertState::default();
        let tx_cbor: Vec<u8> = cbor_bytes.clone();
        Fixture::from_parts("babbage.successful_mainnet_tx_with_minting", pallas_traverse::Era::Babbage, tx_cbor, &utxos, env, cert_state)
    }

    /// ported from pallas-validate/tests/babbage.rs `successful_mainnet_tx_with_metadata`
    pub fn successful_mainnet_tx_with_metadata() -> Fixture {
        let cbor_bytes: Vec<u8> = cbor_to_bytes(include_str!("data/babbage6.tx"));
        let mtx: Tx = babbage_minted_tx_from_cbor(&cbor_bytes);
        let metx: MultiEraTx = MultiEraTx::from_babbage(&mtx);
        let tx_outs_info: &[BabbageTxOutInfo] = &[
            (
                String::from(
                    "11A55F409501BF65805BB0DC76F6F9AE90B61E19ED870BC0025681360881728E7ED4CF324E1323135E7E6D931F01E30792D9CDF17129CB806D",
                ),
                Value::Multiasset(
                    1689618,
                    [(
                        "dc8f23301b0e3d71af9ac5d1559a060271aa6cf56ac98bdaeea19e18"
                            .parse()
                            .unwrap(),
                        [(Bytes::from(hex::decode("303734").unwrap()), 1)].into(),
                    )]
                    .into(),
                ),
                Some(DatumOption::Hash(
                    hex::decode("d5b534d58e737861bac5135b5242297b3465c146cc0ddae0bd52547c52305ee7")
                        .unwrap()
                        .as_slice()
                        .into(),
                )),
                None,
            ),
            (
                String::from(
                    "01EDA33318624ADE03D53B7E954713D9E69440891F0D02E823267B610D6018DC6C7989A46EC26822425A3D2BAC60EEC2682A022740361ED957",
                ),
                Value::Coin(5000000),
                None,
                None,
            ),
        ];
        let mut utxos: UTxOs = mk_utxo_for_babbage_tx(&mtx.transaction_body, tx_outs_info);
        let collateral_info: &[BabbageCollateralInfo] = &[(
            String::from(
                "01eda33318624ade03d53b7e954713d9e69440891f0d02e823267b610d6018dc6c7989a46ec26822425a3d2bac60eec2682a022740361ed957",
            ),
            Value::Coin(5000000),
            None,
            None,
        )];
        add_collateral_babbage(&mtx.transaction_body, &mut utxos, collateral_info);
        let acnt = AccountState {
            treasury: 261_254_564_000_000,
            reserves: 0,
        };

        let env: Environment = Environment {
            prot_params: MultiEraProtocolParameters::Babbage(mk_mainnet_params_epoch_365()),
            prot_magic: 764824073,
            block_slot: 72316896,
            network_id: 1,
            acnt: Some(acnt),
        };
        let mut cert_state: CertState = CertState::default();
        let tx_cbor: Vec<u8> = cbor_bytes.clone();
        Fixture::from_parts("babbage.successful_mainnet_tx_with_metadata", pallas_traverse::Era::Babbage, tx_cbor, &utxos, env, cert_state)
    }

    pub fn mk_mainnet_params_epoch_365() -> BabbageProtParams {
        BabbageProtParams {
            system_start: "2017-09-23T21:44:51Z".parse().unwrap(),
            epoch_length: 432000,
            slot_length: 1,
            minfee_a: 44,
            minfee_b: 155381,
            max_block_body_size: 90112,
            max_transaction_size: 16384,
            max_block_header_size: 1100,
            key_deposit: 2000000,
            pool_deposit: 500000000,
            maximum_epoch: 18,
            desired_number_of_stake_pools: 500,
            pool_pledge_influence: RationalNumber {
                numerator: 3,
                denominator: 10,
            },
            expansion_rate: RationalNumber {
                numerator: 3,
                denominator: 1000,
            },
            treasury_growth_rate: RationalNumber {
                numerator: 2,
                denominator: 10,
            },
            decentralization_constant: RationalNumber {
                numerator: 0,
                denominator: 1,
            },
            extra_entropy: Nonce {
                variant: NonceVariant::NeutralNonce,
                hash: None,
            },
            protocol_version: (7, 0),
            min_pool_cost: 340000000,
            ada_per_utxo_byte: 4310,
            cost_models_for_script_languages: CostModels {
                plutus_v1: Some(vec![
                    197209, 0, 1, 1, 396231, 621, 0, 1, 150000, 1000, 0, 1, 150000, 32, 2477736,
                    29175, 4, 29773, 100, 29773, 100, 29773, 100, 29773, 100, 29773, 100, 29773,
                    100, 100, 100, 29773, 100, 150000, 32, 150000, 32, 150000, 32, 150000, 1000, 0,
                    1, 150000, 32, 150000, 1000, 0, 8, 148000, 425507, 118, 0, 1, 1, 150000, 1000,
                    0, 8, 150000, 112536, 247, 1, 150000, 10000, 1, 136542, 1326, 1, 1000, 150000,
                    1000, 1, 150000, 32, 150000, 32, 150000, 32, 1, 1, 150000, 1, 150000, 4,
                    103599, 248, 1, 103599, 248, 1, 145276, 1366, 1, 179690, 497, 1, 150000, 32,
                    150000, 32, 150000, 32, 150000, 32, 150000, 32, 150000, 32, 148000, 425507,
                    118, 0, 1, 1, 61516, 11218, 0, 1, 150000, 32, 148000, 425507, 118, 0, 1, 1,
                    148000, 425507, 118, 0, 1, 1, 2477736, 29175, 4, 0, 82363, 4, 150000, 5000, 0,
                    1, 150000, 32, 197209, 0, 1, 1, 150000, 32, 150000, 32, 150000, 32, 150000, 32,
                    150000, 32, 150000, 32, 150000, 32, 3345831, 1, 1,
                ]),

                plutus_v2: None,
            },
            execution_costs: ExUnitPrices {
                mem_price: RationalNumber {
                    numerator: 577,
                    denominator: 10000,
                },
                step_price: RationalNumber {
                    numerator: 721,
                    denominator: 10000000,
                },
            },
            max_tx_ex_units: ExUnits {
                mem: 14000000,
                steps: 10000000000,
            },
            max_block_ex_units: ExUnits {
                mem: 62000000,
                steps: 40000000000,
            },
            max_value_size: 5000,
            collateral_percentage: 150,
            max_collateral_inputs: 3,
        }
    }

    pub fn mk_mainnet_params_epoch_380() -> BabbageProtParams {
        BabbageProtParams {
            system_start: "2022-10-25T00:00:00Z".parse().unwrap(),
            epoch_length: 432000,
            slot_length: 1,
            minfee_a: 44,
            minfee_b: 155381,
            max_block_body_size: 90112,
            max_transaction_size: 16384,
            max_block_header_size: 1100,
            key_deposit: 2000000,
            pool_deposit: 500000000,
            maximum_epoch: 18,
            desired_number_of_stake_pools: 500,
            pool_pledge_influence: RationalNumber {
                numerator: 3,
                denominator: 10,
            },
            expansion_rate: RationalNumber {
                numerator: 3,
                denominator: 1000,
            },
            treasury_growth_rate: RationalNumber {
                numerator: 2,
                denominator: 10,
            },
            decentralization_constant: RationalNumber {
                numerator: 0,
                denominator: 1,
            },
            extra_entropy: Nonce {
                variant: NonceVariant::NeutralNonce,
                hash: None,
            },
            protocol_version: (7, 0),
            min_pool_cost: 340000000,
            ada_per_utxo_byte: 4310,
            cost_models_for_script_languages: CostModels {
                plutus_v1: Some(vec![
                    205665, 812, 1, 1, 1000, 571, 0, 1, 1000, 24177, 4, 1, 1000, 32, 117366, 10475,
                    4, 23000, 100, 23000, 100, 23000, 100, 23000, 100, 23000, 100, 23000, 100, 100,
                    100, 23000, 100, 19537, 32, 175354, 32, 46417, 4, 221973, 511, 0, 1, 89141, 32,
                    497525, 14068, 4, 2, 196500, 453240, 220, 0, 1, 1, 1000, 28662, 4, 2, 245000,
                    216773, 62, 1, 1060367, 12586, 1, 208512, 421, 1, 187000, 1000, 52998, 1,
                    80436, 32, 43249, 32, 1000, 32, 80556, 1, 57667, 4, 1000, 10, 197145, 156, 1,
                    197145, 156, 1, 204924, 473, 1, 208896, 511, 1, 52467, 32, 64832, 32, 65493,
                    32, 22558, 32, 16563, 32, 76511, 32, 196500, 453240, 220, 0, 1, 1, 69522,
                    11687, 0, 1, 60091, 32, 196500, 453240, 220, 0, 1, 1, 196500, 453240, 220, 0,
                    1, 1, 806990, 30482, 4, 1927926, 82523, 4, 265318, 0, 4, 0, 85931, 32, 205665,
                    812, 1, 1, 41182, 32, 212342, 32, 31220, 32, 32696, 32, 43357, 32, 32247, 32,
                    38314, 32, 9462713, 1021, 10,
                ]),

                plutus_v2: Some(vec![
                    205665,
                    812,
                    1,
                    1,
                    1000,
                    571,
                    0,
                    1,
                    1000,
                    24177,
                    4,
                    1,
                    1000,
                    32,
                    117366,
                    10475,
                    4,
                    23000,
                    100,
                    23000,
                    100,
                    23000,
                    100,
                    23000,
                    100,
                    23000,
                    100,
                    23000,
                    100,
                    100,
                    100,
                    23000,
                    100,
                    19537,
                    32,
                    175354,
                    32,
                    46417,
                    4,
                    221973,
                    511,
                    0,
                    1,
                    89141,
                    32,
                    497525,
                    14068,
                    4,
                    2,
                    196500,
                    453240,
                    220,
                    0,
                    1,
                    1,
                    1000,
                    28662,
                    4,
                    2,
                    245000,
                    216773,
                    62,
                    1,
                    1060367,
                    12586,
                    1,
                    208512,
                    421,
                    1,
                    187000,
                    1000,
                    52998,
                    1,
                    80436,
                    32,
                    43249,
                    32,
                    1000,
                    32,
                    80556,
                    1,
                    57667,
                    4,
                    1000,
                    10,
                    197145,
                    156,
                    1,
                    197145,
                    156,
                    1,
                    204924,
                    473,
                    1,
                    208896,
                    511,
                    1,
                    52467,
                    32,
                    64832,
                    32,
                    65493,
                    32,
                    22558,
                    32,
                    16563,
                    32,
                    76511,
                    32,
                    196500,
                    453240,
                    220,
                    0,
                    1,
                    1,
                    69522,
                    11687,
                    0,
                    1,
                    60091,
                    32,
                    196500,
                    453240,
                    220,
                    0,
                    1,
                    1,
                    196500,
                    453240,
                    220,
                    0,
                    1,
                    1,
                    1159724,
                    392670,
                    0,
                    2,
                    806990,
                    30482,
                    4,
                    1927926,
                    82523,
                    4,
                    265318,
                    0,
                    4,
                    0,
                    85931,
                    32,
                    205665,
                    812,
                    1,
                    1,
                    41182,
                    32,
                    212342,
                    32,
                    31220,
                    32,
                    32696,
                    32,
                    43357,
                    32,
                    32247,
                    32,
                    38314,
                    32,
                    20000000000,
                    20000000000,
                    9462713,
                    1021,
                    10,
                    20000000000,
                    0,
                    20000000000,
                ]),
            },
            execution_costs: ExUnitPrices {
                mem_price: RationalNumber {
                    numerator: 577,
                    denominator: 10000,
                },
                step_price: RationalNumber {
                    numerator: 721,
                    denominator: 10000000,
                },
            },
            max_tx_ex_units: ExUnits {
                mem: 14000000,
                steps: 10000000000,
            },
            max_block_ex_units: ExUnits {
                mem: 62000000,
                steps: 40000000000,
            },
            max_value_size: 5000,
            collateral_percentage: 150,
            max_collateral_inputs: 3,
        }
    }

    pub fn mk_preview_params_epoch_30() -> BabbageProtParams {
        BabbageProtParams {
            system_start: "2022-10-25T00:00:00Z".parse().unwrap(),
            epoch_length: 432000,
            slot_length: 1,
            minfee_a: 44,
            minfee_b: 155381,
            max_block_body_size: 90112,
            max_transaction_size: 16384,
            max_block_header_size: 1100,
            key_deposit: 2000000,
            pool_deposit: 500000000,
            maximum_epoch: 18,
            desired_number_of_stake_pools: 500,
            pool_pledge_influence: RationalNumber {
                numerator: 3,
                denominator: 10,
            },
            expansion_rate: RationalNumber {
                numerator: 3,
                denominator: 1000,
            },
            treasury_growth_rate: RationalNumber {
                numerator: 2,
                denominator: 10,
            },
            decentralization_constant: RationalNumber {
                numerator: 0,
                denominator: 1,
            },
            extra_entropy: Nonce {
                variant: NonceVariant::NeutralNonce,
                hash: None,
            },
            protocol_version: (8, 0),
            min_pool_cost: 340000000,
            ada_per_utxo_byte: 4310,
            cost_models_for_script_languages: CostModels {
                plutus_v1: Some(vec![
                    205665, 812, 1, 1, 1000, 571, 0, 1, 1000, 24177, 4, 1, 1000, 32, 117366, 10475,
                    4, 23000, 100, 23000, 100, 23000, 100, 23000, 100, 23000, 100, 23000, 100, 100,
                    100, 23000, 100, 19537, 32, 175354, 32, 46417, 4, 221973, 511, 0, 1, 89141, 32,
                    497525, 14068, 4, 2, 196500, 453240, 220, 0, 1, 1, 1000, 28662, 4, 2, 245000,
                    216773, 62, 1060367, 12586, 1, 208512, 421, 1, 187000, 1000, 52998, 1, 80436,
                    32, 43249, 32, 1000, 32, 80556, 1, 57667, 4, 1000, 10, 197145, 156, 1, 197145,
                    156, 1, 204924, 473, 1, 208896, 511, 1, 52467, 32, 64832, 32, 65493, 32, 22558,
                    32, 16563, 32, 76511, 32, 196500, 453240, 220, 0, 1, 1, 69522, 11687, 0, 1,
                    60091, 32, 196500, 453240, 220, 0, 1, 1, 196500, 453240, 220, 0, 1, 1, 806990,
                    30482, 4, 1927926, 82523, 4, 265318, 0, 4, 0, 85931, 32, 205665, 812, 1, 1,
                    41182, 32, 212342, 32, 31220, 32, 32696, 32, 43357, 32, 32247, 32, 38314, 32,
                    9462713, 1021, 10,
                ]),

                plutus_v2: Some(vec![
                    205665, 812, 1, 1, 1000, 571, 0, 1, 1000, 24177, 4, 1, 1000, 32, 117366, 10475,
                    4, 23000, 100, 23000, 100, 23000, 100, 23000, 100, 23000, 100, 23000, 100, 100,
                    100, 23000, 100, 19537, 32, 175354, 32, 46417, 4, 221973, 511, 0, 1, 89141, 32,
                    497525, 14068, 4, 2, 196500, 453240, 220, 0, 1, 1, 1000, 28662, 4, 2, 245000,
                    216773, 62, 1, 1060367, 12586, 1, 208512, 421, 1, 187000, 1000, 52998, 1,
                    80436, 32, 43249, 32, 1000, 32, 80556, 1, 57667, 4, 1000, 10, 197145, 156, 1,
                    197145, 156, 1, 204924, 473, 1, 208896, 511, 1, 52467, 32, 64832, 32, 65493,
                    32, 22558, 32, 16563, 32, 76511, 32, 196500, 453240, 220, 0, 1, 1, 69522,
                    11687, 0, 1, 60091, 32, 196500, 453240, 220, 0, 1, 1, 196500, 453240, 220, 0,
                    1, 1, 1159724, 392670, 0, 2, 806990, 30482, 4, 1927926, 82523, 4, 265318, 0, 4,
                    0, 85931, 32, 205665, 812, 1, 1, 41182, 32, 212342, 32, 31220, 32, 32696, 32,
                    43357, 32, 32247, 32, 38314, 32, 35892428, 10, 9462713, 1021, 10, 38887044,
                    32947, 10,
                ]),
            },
            execution_costs: ExUnitPrices {
                mem_price: RationalNumber {
                    numerator: 577,
                    denominator: 10000,
                },
                step_price: RationalNumber {
                    numerator: 721,
                    denominator: 10000000,
                },
            },
            max_tx_ex_units: ExUnits {
                mem: 14000000,
                steps: 10000000000,
            },
            max_block_ex_units: ExUnits {
                mem: 62000000,
                steps: 40000000000,
            },
            max_value_size: 5000,
            collateral_percentage: 150,
            max_collateral_inputs: 3,
        }
    }

    pub fn mk_preprod_params_epoch_100() -> BabbageProtParams {
        BabbageProtParams {
            system_start: "2017-09-23T21:44:51Z".parse().unwrap(),
            epoch_length: 432000,
            slot_length: 1,
            minfee_a: 44,
            minfee_b: 155381,
            max_block_body_size: 90112,
            max_transaction_size: 16384,
            max_block_header_size: 1100,
            key_deposit: 2000000,
            pool_deposit: 500000000,
            maximum_epoch: 18,
            desired_number_of_stake_pools: 500,
            pool_pledge_influence: RationalNumber {
                numerator: 3,
                denominator: 10,
            },
            expansion_rate: RationalNumber {
                numerator: 3,
                denominator: 1000,
            },
            treasury_growth_rate: RationalNumber {
                numerator: 2,
                denominator: 10,
            },
            decentralization_constant: RationalNumber {
                numerator: 0,
                denominator: 1,
            },
            extra_entropy: Nonce {
                variant: NonceVariant::NeutralNonce,
                hash: None,
            },
            protocol_version: (8, 0),
            min_pool_cost: 340000000,
            ada_per_utxo_byte: 4310,
            cost_models_for_script_languages: CostModels {
                plutus_v1: Some(vec![
                    205665, 812, 1, 1, 1000, 571, 0, 1, 1000, 24177, 4, 1, 1000, 32, 117366, 10475,
                    4, 23000, 100, 23000, 100, 23000, 100, 23000, 100, 23000, 100, 23000, 100, 100,
                    100, 23000, 100, 19537, 32, 175354, 32, 46417, 4, 221973, 511, 0, 1, 89141, 32,
                    497525, 14068, 4, 2, 196500, 453240, 220, 0, 1, 1, 1000, 28662, 4, 2, 245000,
                    216773, 62, 1, 1060367, 12586, 1, 208512, 421, 1, 187000, 1000, 52998, 1,
                    80436, 32, 43249, 32, 1000, 32, 80556, 1, 57667, 4, 1000, 10, 197145, 156, 1,
                    197145, 156, 1, 204924, 473, 1, 208896, 511, 1, 52467, 32, 64832, 32, 65493,
                    32, 22558, 32, 16563, 32, 76511, 32, 196500, 453240, 220, 0, 1, 1, 69522,
                    11687, 0, 1, 60091, 32, 196500, 453240, 220, 0, 1, 1, 196500, 453240, 220, 0,
                    1, 1, 806990, 30482, 4, 1927926, 82523, 4, 265318, 0, 4, 0, 85931, 32, 205665,
                    812, 1, 1, 41182, 32, 212342, 32, 31220, 32, 32696, 32, 43357, 32, 32247, 32,
                    38314, 32, 57996947, 18975, 10,
                ]),

                plutus_v2: Some(vec![
                    205665, 812, 1, 1, 1000, 571, 0, 1, 1000, 24177, 4, 1, 1000, 32, 117366, 10475,
                    4, 23000, 100, 23000, 100, 23000, 100, 23000, 100, 23000, 100, 23000, 100, 100,
                    100, 23000, 100, 19537, 32, 175354, 32, 46417, 4, 221973, 511, 0, 1, 89141, 32,
                    497525, 14068, 4, 2, 196500, 453240, 220, 0, 1, 1, 1000, 28662, 4, 2, 245000,
                    216773, 62, 1, 1060367, 12586, 1, 208512, 421, 1, 187000, 1000, 52998, 1,
                    80436, 32, 43249, 32, 1000, 32, 80556, 1, 57667, 4, 1000, 10, 197145, 156, 1,
                    197145, 156, 1, 204924, 473, 1, 208896, 511, 1, 52467, 32, 64832, 32, 65493,
                    32, 22558, 32, 16563, 32, 76511, 32, 196500, 453240, 220, 0, 1, 1, 69522,
                    11687, 0, 1, 60091, 32, 196500, 453240, 220, 0, 1, 1, 196500, 453240, 220, 0,
                    1, 1, 1159724, 392670, 0, 2, 806990, 30482, 4, 1927926, 82523, 4, 265318, 0, 4,
                    0, 85931, 32, 205665, 812, 1, 1, 41182, 32, 212342, 32, 31220, 32, 32696, 32,
                    43357, 32, 32247, 32, 38314, 32, 35892428, 10, 57996947, 18975, 10, 38887044,
                    32947, 10,
                ]),
            },
            execution_costs: ExUnitPrices {
                mem_price: RationalNumber {
                    numerator: 577,
                    denominator: 10000,
                },
                step_price: RationalNumber {
                    numerator: 721,
                    denominator: 10000000,
                },
            },
            max_tx_ex_units: ExUnits {
                mem: 14000000,
                steps: 10000000000,
            },
            max_block_ex_units: ExUnits {
                mem: 62000000,
                steps: 20000000000,
            },
            max_value_size: 5000,
            collateral_percentage: 150,
            max_collateral_inputs: 3,
        }
    }

    /// every positive fixture of this era
    pub fn all() -> Vec<Fixture> {
        vec![successful_mainnet_tx(), successful_mainnet_tx_with_plutus_v1_script(), successful_mainnet_tx_with_plutus_v2_script(), successful_preview_tx_with_plutus_v2_script(), successful_preprod_tx_with_plutus_v2_script(), successful_mainnet_tx_with_minting(), successful_mainnet_tx_with_metadata()]
    }
