//! Positive fixtures and protocol-parameter builders ported from pallas-validate/tests/shelley_ma.rs
//! by /var/tmp one-off extraction (function bodies are verbatim up to the `validate_txs` call).
#![allow(unused, clippy::all)]

use super::common::*;
use pallas_addresses::{Address, Network, ShelleyAddress};
use pallas_codec::{
        minicbor::{
            decode::{Decode, Decoder},
            encode,
        },
        utils::Bytes,
    };
use pallas_crypto::hash::Hash;
use pallas_primitives::alonzo::{
        Certificate, Nonce, NonceVariant, PoolKeyhash, PoolMetadata, RationalNumber, Relay,
        StakeCredential, TransactionBody, TransactionOutput, Tx, VKeyWitness, Value, WitnessSet,
    };
use pallas_traverse::{Era, MultiEraTx};
use pallas_validate::utils::PoolParam;
use pallas_validate::{
        phase1::validate_txs,
        utils::{
            AccountState, CertState, Environment, MultiEraProtocolParameters, ShelleyMAError,
            ShelleyProtParams, UTxOs, ValidationError::*,
        },
    };
use std::str::FromStr;
use super::Fixture;

    macro_rules! hardcoded_environment_values {
        ($($key:ident = $value:expr),*) => {
            {
                #[allow(unused_mut)]
                let mut pparams = ShelleyProtParams {
                    system_start: "2017-09-23T21:44:51Z".parse().unwrap(),
                    epoch_length: 432000,
                    slot_length: 1,
                    minfee_b: 155381,
                    minfee_a: 44,
                    max_block_body_size: 65536,
                    max_transaction_size: 4096,
                    max_block_header_size: 1100,
                    key_deposit: 2000000,
                    pool_deposit: 500000000,
                    maximum_epoch: 18,
                    desired_number_of_stake_pools: 150,
                    pool_pledge_influence: RationalNumber {
                        // FIX: this is a made-up value.
                        numerator: 1,
                        denominator: 1,
                    },
                    expansion_rate: RationalNumber {
                        // FIX: this is a made-up value.
                        numerator: 1,
                        denominator: 1,
                    },
                    treasury_growth_rate: RationalNumber {
                        // FIX: this is a made-up value.
                        numerator: 1,
                        denominator: 1,
                    },
                    decentralization_constant: RationalNumber {
                        numerator: 1,
                        denominator: 1,
                    },
                    extra_entropy: Nonce {
                        variant: NonceVariant::NeutralNonce,
                        hash: None,
                    },
                    protocol_version: (0, 2),
                    min_utxo_value: 1000000,
                    min_pool_cost: 340000000,
                };

                $(
                    pparams.$key = $value;
                )*

                Environment {
                    prot_params: MultiEraProtocolParameters::Shelley(pparams),
                    prot_magic: 764824073,
                    block_slot: 5281340,
                    network_id: 1,
                    acnt: Some(AccountState {
                        treasury: 261_254_564_000_000,
                        reserves: 0,
                    }),
                }
            }
        }
    }

    const MARY3_UTXO: &str = "014faace6b1de3b825da7c7f4308917822049cdedb5868f7623f892d4e39cf0461807b986a6477205e376dac280d7f150eb497025f67c49757";

    /// ported from pallas-validate/tests/shelley_ma.rs `successful_mainnet_shelley_tx`
    pub fn successful_mainnet_shelley_tx() -> Fixture {
        let cbor_bytes: Vec<u8> = cbor_to_bytes(include_str!("data/shelley1.tx"));
        let mtx: Tx = minted_tx_from_cbor(&cbor_bytes);
        let metx: MultiEraTx = MultiEraTx::from_alonzo_compatible(&mtx, Era::Shelley);
        let utxos: UTxOs = mk_utxo_for_alonzo_compatible_tx(
            &mtx.transaction_body,
            &[(
                String::from(
                    "0129bb156d52d014bb444a14138cbee36044c6faed37d0c2d49d2358315c465cbf8c5536970e8a29bb7adcda0d663b20007d481813694c64ef",
                ),
                Value::Coin(2332267427205),
                None,
            )],
        );

        let env: Environment = hardcoded_environment_values!();
        let mut cert_state: CertState = CertState::default();
        let tx_cbor: Vec<u8> = cbor_bytes.clone();
        Fixture::from_parts("shelley_ma.successful_mainnet_shelley_tx", pallas_traverse::Era::Shelley, tx_cbor, &utxos, env, cert_state)
    }

    /// ported from pallas-validate/tests/shelley_ma.rs `successful_mainnet_shelley_tx_with_script`
    pub fn successful_mainnet_shelley_tx_with_script() -> Fixture {
        let cbor_bytes: Vec<u8> = cbor_to_bytes(include_str!("data/shelley2.tx"));
        let mtx: Tx = minted_tx_from_cbor(&cbor_bytes);
        let metx: MultiEraTx = MultiEraTx::from_alonzo_compatible(&mtx, Era::Shelley);
        let utxos: UTxOs = mk_utxo_for_alonzo_compatible_tx(
            &mtx.transaction_body,
            &[(
                String::from("7165c197d565e88a20885e535f93755682444d3c02fd44dd70883fe89e"),
                Value::Coin(2000000),
                None,
            )],
        );

        let env: Environment = hardcoded_environment_values!();
        let mut cert_state: CertState = CertState::default();
        let tx_cbor: Vec<u8> = cbor_bytes.clone();
        Fixture::from_parts("shelley_ma.successful_mainnet_shelley_tx_with_script", pallas_traverse::Era::Shelley, tx_cbor, &utxos, env, cert_state)
    }

    /// ported from pallas-validate/tests/shelley_ma.rs `successful_mainnet_shelley_tx_with_changed_script`
    pub fn successful_mainnet_shelley_tx_with_changed_script() -> Fixture {
        let cbor_bytes: Vec<u8> = cbor_to_bytes(include_str!("data/shelley4.tx"));
        let mut mtx: Tx = minted_tx_from_cbor(&cbor_bytes);
        // Delete one VKey witness.
        let mut tx_wits: WitnessSet = mtx.transaction_witness_set.unwrap().clone();
        let wit: VKeyWitness = tx_wits.vkeywitness.unwrap().remove(1);
        tx_wits.vkeywitness = Some(Vec::from([wit]));
        let mut tx_buf: Vec<u8> = Vec::new();
        match encode(tx_wits, &mut tx_buf) {
            Ok(_) => (),
            Err(err) => panic!("Unable to encode Tx ({err:?})"),
        };
        mtx.transaction_witness_set =
            Decode::decode(&mut Decoder::new(tx_buf.as_slice()), &mut ()).unwrap();
        let metx: MultiEraTx = MultiEraTx::from_alonzo_compatible(&mtx, Era::Shelley);
        let utxos: UTxOs = mk_utxo_for_alonzo_compatible_tx(
            &mtx.transaction_body,
            &[(
                String::from("711245ed0e86bc58578e4b06958d5b0ef856ed42e5ee8fa811e0745aba"),
                Value::Coin(2000000),
                None,
            )],
        );

        let env: Environment = hardcoded_environment_values!();
        let mut cert_state: CertState = CertState::default();
        let tx_cbor: Vec<u8> = pallas_codec::minicbor::to_vec(&mtx).unwrap();
        Fixture::from_parts("shelley_ma.successful_mainnet_shelley_tx_with_changed_script", pallas_traverse::Era::Shelley, tx_cbor, &utxos, env, cert_state)
    }

    /// ported from pallas-validate/tests/shelley_ma.rs `successful_mainnet_shelley_tx_with_metadata`
    pub fn successful_mainnet_shelley_tx_with_metadata() -> Fixture {
        let cbor_bytes: Vec<u8> = cbor_to_bytes(include_str!("data/shelley3.tx"));
        let mtx: Tx = minted_tx_from_cbor(&cbor_bytes);
        let metx: MultiEraTx = MultiEraTx::from_alonzo_compatible(&mtx, Era::Shelley);
        let utxos: UTxOs = mk_utxo_for_alonzo_compatible_tx(
            &mtx.transaction_body,
            &[(
                String::from("61c96001f4a4e10567ac18be3c47663a00a858f51c56779e94993d30ef"),
                Value::Coin(10000000),
                None,
            )],
        );

        let env: Environment = hardcoded_environment_values!();
        let mut cert_state: CertState = CertState::default();
        let tx_cbor: Vec<u8> = cbor_bytes.clone();
        Fixture::from_parts("shelley_ma.successful_mainnet_shelley_tx_with_metadata", pallas_traverse::Era::Shelley, tx_cbor, &utxos, env, cert_state)
    }

    /// ported from pallas-validate/tests/shelley_ma.rs `successful_mainnet_mary_tx_with_minting`
    pub fn successful_mainnet_mary_tx_with_minting() -> Fixture {
        let cbor_bytes: Vec<u8> = cbor_to_bytes(include_str!("data/mary1.tx"));
        let mtx: Tx = minted_tx_from_cbor(&cbor_bytes);
        let metx: MultiEraTx = MultiEraTx::from_alonzo_compatible(&mtx, Era::Mary);
        let utxos: UTxOs = mk_utxo_for_alonzo_compatible_tx(
            &mtx.transaction_body,
            &[(
                String::from("611489ac0c22c04abc9c6de7f95d71e1ba2c95c9b4e2f6f2900f682285"),
                Value::Coin(3500000),
                None,
            )],
        );

        let env: Environment = hardcoded_environment_values!();
        let mut cert_state: CertState = CertState::default();
        let tx_cbor: Vec<u8> = cbor_bytes.clone();
        Fixture::from_parts("shelley_ma.successful_mainnet_mary_tx_with_minting", pallas_traverse::Era::Mary, tx_cbor, &utxos, env, cert_state)
    }

    /// ported from pallas-validate/tests/shelley_ma.rs `successful_mainnet_mary_tx_with_pool_reg`
    pub fn successful_mainnet_mary_tx_with_pool_reg() -> Fixture {
        let cbor_bytes: Vec<u8> = cbor_to_bytes(include_str!("data/mary2.tx"));
        let mtx: Tx = minted_tx_from_cbor(&cbor_bytes);
        let metx: MultiEraTx = MultiEraTx::from_alonzo_compatible(&mtx, Era::Mary);
        let utxos: UTxOs = mk_utxo_for_alonzo_compatible_tx(
            &mtx.transaction_body,
            &[(
                String::from(
                    "018e8f7a7073b8a95a4c1f1cf412b1042fca4945b89eb11754b3481b29fb2b631db76384f64dd94b47f97fc8c2a206764c17a1de7da2f70e83",
                ),
                Value::Coin(1_507_817_955),
                None,
            )],
        );

        let env: Environment = hardcoded_environment_values!();
        let mut cert_state: CertState = CertState::default();
        let hash =
            Hash::from_str("FB2B631DB76384F64DD94B47F97FC8C2A206764C17A1DE7DA2F70E83").unwrap();
        cert_state
            .dstate
            .rewards
            .insert(StakeCredential::AddrKeyhash(hash), 0);
        let tx_cbor: Vec<u8> = cbor_bytes.clone();
        Fixture::from_parts("shelley_ma.successful_mainnet_mary_tx_with_pool_reg", pallas_traverse::Era::Mary, tx_cbor, &utxos, env, cert_state)
    }

    /// ported from pallas-validate/tests/shelley_ma.rs `successful_mainnet_mary_tx_with_stk_deleg`
    pub fn successful_mainnet_mary_tx_with_stk_deleg() -> Fixture {
        let cbor_bytes: Vec<u8> = cbor_to_bytes(include_str!("data/mary3.tx"));
        let mtx: Tx = minted_tx_from_cbor(&cbor_bytes);
        let metx: MultiEraTx = MultiEraTx::from_alonzo_compatible(&mtx, Era::Mary);
        let utxos: UTxOs = mk_utxo_for_alonzo_compatible_tx(
            &mtx.transaction_body,
            &[(String::from(MARY3_UTXO), Value::Coin(627_760_000), None)],
        );

        let mut cert_state: CertState = CertState::default();
        cert_state
            .pstate
            .pool_params
            .insert(mary2_pool_operator(), mary2_pool_param());
        let env: pallas_validate::utils::Environment = mary3_env();
        let tx_cbor: Vec<u8> = cbor_bytes.clone();
        Fixture::from_parts("shelley_ma.successful_mainnet_mary_tx_with_stk_deleg", pallas_traverse::Era::Mary, tx_cbor, &utxos, env, cert_state)
    }

    pub fn mary2_pool_operator() -> PoolKeyhash {
        Hash::from_str("59EBE72AE96462018FBE04633100F90B3066688D85F00F3BD254707F").unwrap()
    }

    pub fn mary2_pool_param() -> PoolParam {
        PoolParam {
            vrf_keyhash: Hash::from_str(
                "1EFB798F239B9B02DEB4636A3AB1962AF43512595FCB82276E11971E684E49B7",
            )
            .unwrap(),
            pledge: 1000000000,
            cost: 340000000,
            margin: RationalNumber {
                numerator: 3,
                denominator: 100,
            },
            reward_account: hex::decode(
                "E1FB2B631DB76384F64DD94B47F97FC8C2A206764C17A1DE7DA2F70E83",
            )
            .unwrap()
            .into(),
            pool_owners: Vec::from([Hash::from_str(
                "FB2B631DB76384F64DD94B47F97FC8C2A206764C17A1DE7DA2F70E83",
            )
            .unwrap()]),
            relays: [Relay::SingleHostAddr(
                Some(3001),
                Some(hex::decode("C22614BB").unwrap().into()),
                None,
            )]
            .to_vec(),
            pool_metadata: Some(PoolMetadata {
                url: "https://cardapool.com/a.json".to_string(),
                hash: "01F708549816C9A075FF96E9682C11A5F5C7F4E147862A663BDEECE0716AB76E"
                    .to_string()
                    .try_into()
                    .unwrap(),
            }),
        }
    }

    pub fn mary3_env() -> Environment {
        let acnt = AccountState {
            treasury: 374_930_989_230_000,
            reserves: 12_618_536_190_580_000,
        };

        Environment {
            prot_params: MultiEraProtocolParameters::Shelley(ShelleyProtParams {
                system_start: "2017-09-23T21:44:51Z".parse().unwrap(),
                epoch_length: 432000,
                slot_length: 1,
                minfee_b: 155381,
                minfee_a: 44,
                max_block_body_size: 65536,
                max_transaction_size: 16384,
                max_block_header_size: 1100,
                key_deposit: 2_000_000,
                pool_deposit: 500_000_000,
                maximum_epoch: 18,
                desired_number_of_stake_pools: 500,
                pool_pledge_influence: RationalNumber {
                    numerator: 3,
                    denominator: 10,
                },
                expansion_rate: RationalNumber {
                    numerator: 3,
                    denominator: 1000,
                },
                treasury_growth_rate: RationalNumber {
                    numerator: 2,
                    denominator: 10,
                },
                decentralization_constant: RationalNumber {
                    numerator: 0,
                    denominator: 1,
                },
                extra_entropy: Nonce {
                    variant: NonceVariant::NeutralNonce,
                    hash: None,
                },
                protocol_version: (4, 0),
                min_utxo_value: 1_000_000,
                min_pool_cost: 340_000_000,
            }),
            prot_magic: 764824073,
            block_slot: 29_035_358,
            network_id: 1,
            acnt: Some(acnt),
        }
    }

    /// ported from pallas-validate/tests/shelley_ma.rs `successful_mainnet_allegra_tx_with_mir`
    pub fn successful_mainnet_allegra_tx_with_mir() -> Fixture {
        let cbor_bytes: Vec<u8> = cbor_to_bytes(include_str!("data/allegra1.tx"));
        let mtx: Tx = minted_tx_from_cbor(&cbor_bytes);
        let metx: MultiEraTx = MultiEraTx::from_alonzo_compatible(&mtx, Era::Mary);
        let utxos: UTxOs = mk_utxo_for_alonzo_compatible_tx(
            &mtx.transaction_body,
            &[(
                String::from("61b651c2062463499961b9cd594da399a5ec910fceb5c63f9eb55a224a"),
                Value::Coin(96_400_000),
                None,
            )],
        );

        let mut env: Environment = hardcoded_environment_values!(max_transaction_size = 16384);
        env.block_slot = 19282133;

        let mut cert_state: CertState = CertState::default();
        let tx_cbor: Vec<u8> = cbor_bytes.clone();
        Fixture::from_parts("shelley_ma.successful_mainnet_allegra_tx_with_mir", pallas_traverse::Era::Mary, tx_cbor, &utxos, env, cert_state)
    }

    /// every positive fixture of this era
    pub fn all() -> Vec<Fixture> {
        vec![successful_mainnet_shelley_tx(), successful_mainnet_shelley_tx_with_script(), successful_mainnet_shelley_tx_with_changed_script(), successful_mainnet_shelley_tx_with_metadata(), successful_mainnet_mary_tx_with_minting(), successful_mainnet_mary_tx_with_pool_reg(), successful_mainnet_mary_tx_with_stk_deleg(), successful_mainnet_allegra_tx_with_mir()]
    }
