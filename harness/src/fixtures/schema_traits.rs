//! Value text (`Show`) and generators (`Arb`) for the leaf / wrapper types of the era codecs
//! (pallas-codec, pallas-crypto, minicbor, std) and for the handful of types whose codec is written
//! by hand. The per-item impls for derived types are generated (schema_gen.rs).
//!
//! Value text = space separated tokens:
//!   n<dec> nat | i<dec> int | b<hex> bytes | t<hex> text | T / F | U unit | [ .. ] list / tuple / struct
//!   N none | S <v> some | v<pos> [ fields ] enum | r<hex|-> <v> KeepRaw(raw, inner) | a<hex> opaque item
use crate::fw::Rng;
use pallas_codec::minicbor;
use pallas_codec::utils::*;
use pallas_crypto::hash::Hash;
use pallas_primitives::{BigInt, BoundedBytes, Constr, PlutusData, RationalNumber};
use std::collections::BTreeMap;

pub trait Show { fn show(&self, o: &mut Vec<String>); }
pub trait Arb: Sized { fn arb(g: &mut Rng, d: u32) -> Self; }

pub fn show_text<T: Show>(v: &T) -> String { let mut o = vec![]; v.show(&mut o); o.join(" ") }
pub const MAXD: u32 = 7;

fn hx(b: &[u8]) -> String { hex::encode(b) }
fn len_small(g: &mut Rng, d: u32) -> usize {
    if d >= MAXD { return 0; }
    if d <= 1 && g.chance(1, 40) { return *g.pick(&[23usize, 24, 25]); }
    if d >= 4 { return g.below(2) as usize; }
    g.below(4) as usize
}

macro_rules! show_uint { ($($t:ty)*) => { $( impl Show for $t { fn show(&self, o: &mut Vec<String>) { o.push(format!("n{}", self)); } } )* } }
show_uint!(u8 u16 u32 u64 usize);
macro_rules! show_sint { ($($t:ty)*) => { $( impl Show for $t { fn show(&self, o: &mut Vec<String>) { o.push(format!("i{}", self)); } } )* } }
show_sint!(i8 i16 i32 i64 i128);
impl Arb for u8 { fn arb(g: &mut Rng, _: u32) -> Self { match g.below(3) { 0 => *g.pick(&[0u8, 1, 23, 24, 25, 127, 128, 255]), _ => g.next() as u8 } } }
impl Arb for u16 { fn arb(g: &mut Rng, _: u32) -> Self { match g.below(3) { 0 => *g.pick(&[0u16, 23, 24, 255, 256, 65535]), 1 => g.below(300) as u16, _ => g.next() as u16 } } }
impl Arb for u32 { fn arb(g: &mut Rng, _: u32) -> Self { match g.below(3) { 0 => *g.pick(&[0u32, 23, 24, 255, 256, 65535, 65536, u32::MAX, u32::MAX - 1]), 1 => g.below(300) as u32, _ => g.next() as u32 } } }
impl Arb for u64 { fn arb(g: &mut Rng, _: u32) -> Self { g.u64_edgy() } }
impl Arb for i64 { fn arb(g: &mut Rng, _: u32) -> Self {
    match g.below(4) { 0 => *g.pick(&[0i64, -1, 1, -24, -25, 23, 24, -256, -257, 255, 256, i64::MAX, i64::MIN, i64::MIN + 1, -65536, -65537, -(1 << 32), -(1 << 32) - 1]),
        1 => g.below(600) as i64 - 300, _ => g.u64_edgy() as i64 } } }
impl Arb for i32 { fn arb(g: &mut Rng, d: u32) -> Self { i64::arb(g, d) as i32 } }
impl Show for bool { fn show(&self, o: &mut Vec<String>) { o.push(if *self { "T" } else { "F" }.into()); } }
impl Arb for bool { fn arb(g: &mut Rng, _: u32) -> Self { g.chance(1, 2) } }
impl Show for String { fn show(&self, o: &mut Vec<String>) { o.push(format!("t{}", hx(self.as_bytes()))); } }
impl Arb for String { fn arb(g: &mut Rng, _: u32) -> Self {
    const S: [&str; 9] = ["", "a", "relay.example.com", "https://pool.io/meta.json", "ünïcödé ✓ 𝄞", "\u{7ff}\u{800}\u{ffff}\u{10000}\u{10ffff}", "é", "\u{d7ff}\u{e000}", "x"];
    match g.below(4) { 0 => "y".repeat(*g.pick(&[23usize, 24, 64, 255, 256])), _ => g.pick(&S).to_string() } } }

impl<T: Show> Show for Vec<T> { fn show(&self, o: &mut Vec<String>) { o.push("[".into()); for x in self { x.show(o); } o.push("]".into()); } }
impl<T: Arb> Arb for Vec<T> { fn arb(g: &mut Rng, d: u32) -> Self { let n = len_small(g, d); (0..n).map(|_| T::arb(g, d + 1)).collect() } }
impl<T: Show> Show for Box<T> { fn show(&self, o: &mut Vec<String>) { (**self).show(o) } }
impl<T: Arb> Arb for Box<T> { fn arb(g: &mut Rng, d: u32) -> Self { Box::new(T::arb(g, d)) } }
impl<T: Show> Show for Option<T> { fn show(&self, o: &mut Vec<String>) { match self { None => o.push("N".into()), Some(x) => { o.push("S".into()); x.show(o); } } } }
impl<T: Arb> Arb for Option<T> { fn arb(g: &mut Rng, d: u32) -> Self { if d >= MAXD || g.chance(2, 5) { None } else { Some(T::arb(g, d + 1)) } } }
macro_rules! tuples { ($( ($($n:tt $T:ident),+) )*) => { $(
    impl<$($T: Show),+> Show for ($($T,)+) { fn show(&self, o: &mut Vec<String>) { o.push("[".into()); $( self.$n.show(o); )+ o.push("]".into()); } }
    impl<$($T: Arb),+> Arb for ($($T,)+) { fn arb(g: &mut Rng, d: u32) -> Self { ($( <$T as Arb>::arb(g, d + 1), )+) } }
)* } }
tuples!((0 A) (0 A, 1 B) (0 A, 1 B, 2 C) (0 A, 1 B, 2 C, 3 D));
impl<K: Show, V: Show> Show for BTreeMap<K, V> { fn show(&self, o: &mut Vec<String>) {
    o.push("[".into()); for (k, v) in self { o.push("[".into()); k.show(o); v.show(o); o.push("]".into()); } o.push("]".into()); } }
impl<K: Arb + Ord, V: Arb> Arb for BTreeMap<K, V> { fn arb(g: &mut Rng, d: u32) -> Self {
    // empty and singleton maps are boundary shapes of their own (a present-but-empty bundle, `{ policy => {} }`)
    let n = match g.below(6) { 0 => 0, 1 => 1.min(len_small(g, d).max(if d >= MAXD { 0 } else { 1 })), _ => len_small(g, d) };
    (0..n).map(|_| (K::arb(g, d + 1), V::arb(g, d + 1))).collect() } }

impl Show for Bytes { fn show(&self, o: &mut Vec<String>) { o.push(format!("b{}", hx(self))); } }
fn arb_bytes(g: &mut Rng) -> Vec<u8> { let n = match g.below(5) { 0 => *g.pick(&[0usize, 23, 24, 28, 32, 64, 255, 256]), _ => g.below(40) as usize }; g.bytes(n) }
impl Arb for Bytes { fn arb(g: &mut Rng, _: u32) -> Self { Bytes::from(arb_bytes(g)) } }
impl Show for minicbor::bytes::ByteVec { fn show(&self, o: &mut Vec<String>) { o.push(format!("b{}", hx(self))); } }
impl Arb for minicbor::bytes::ByteVec { fn arb(g: &mut Rng, _: u32) -> Self { arb_bytes(g).into() } }
impl<const N: usize> Show for Hash<N> { fn show(&self, o: &mut Vec<String>) { o.push(format!("b{}", hx(self.as_ref()))); } }
impl<const N: usize> Arb for Hash<N> { fn arb(g: &mut Rng, _: u32) -> Self { let b = g.bytes(N); Hash::from(&b[..]) } }
impl Show for Int { fn show(&self, o: &mut Vec<String>) { o.push(format!("i{}", i128::from(*self))); } }
impl Arb for Int { fn arb(g: &mut Rng, _: u32) -> Self {
    // the whole CBOR integer range: -2^64 ..= 2^64-1
    let mag = g.u64_edgy() as i128;
    let v = if g.chance(1, 2) { mag } else { -1 - mag };
    Int::try_from(v).unwrap() } }
impl Show for PositiveCoin { fn show(&self, o: &mut Vec<String>) { o.push(format!("n{}", u64::from(*self))); } }
impl Arb for PositiveCoin { fn arb(g: &mut Rng, _: u32) -> Self { PositiveCoin::try_from(g.u64_edgy().max(1)).unwrap() } }
impl Show for NonZeroInt { fn show(&self, o: &mut Vec<String>) { o.push(format!("i{}", i64::from(*self))); } }
impl Arb for NonZeroInt { fn arb(g: &mut Rng, d: u32) -> Self { let v = i64::arb(g, d); NonZeroInt::try_from(if v == 0 { -1 } else { v }).unwrap() } }
impl Show for EmptyMap { fn show(&self, o: &mut Vec<String>) { o.push("U".into()); } }
impl Arb for EmptyMap { fn arb(_: &mut Rng, _: u32) -> Self { EmptyMap } }

impl<'b, T: Show> Show for KeepRaw<'b, T> { fn show(&self, o: &mut Vec<String>) {
    o.push(if self.raw_cbor().is_empty() { "r-".into() } else { format!("r{}", hx(self.raw_cbor())) }); (**self).show(o); } }
impl<'b, T: Arb> Arb for KeepRaw<'b, T> { fn arb(g: &mut Rng, d: u32) -> Self { KeepRaw::from(T::arb(g, d)) } }
impl<T: Show + Clone> Show for Nullable<T> { fn show(&self, o: &mut Vec<String>) { match self {
    Nullable::Some(x) => { o.push("v0".into()); o.push("[".into()); x.show(o); o.push("]".into()); }
    Nullable::Null => { o.push("v1".into()); o.push("[".into()); o.push("]".into()); }
    Nullable::Undefined => { o.push("v2".into()); o.push("[".into()); o.push("]".into()); } } } }
impl<T: Arb + Clone> Arb for Nullable<T> { fn arb(g: &mut Rng, d: u32) -> Self { match g.below(4) { 0 => Nullable::Null, 1 => Nullable::Undefined, _ => Nullable::Some(T::arb(g, d + 1)) } } }
impl<T: Show> Show for Set<T> { fn show(&self, o: &mut Vec<String>) { o.push("[".into()); for x in self.iter() { x.show(o); } o.push("]".into()); } }
impl<T: Arb> Arb for Set<T> { fn arb(g: &mut Rng, d: u32) -> Self { Set::from(Vec::<T>::arb(g, d)) } }
impl<T: Show> Show for NonEmptySet<T> { fn show(&self, o: &mut Vec<String>) { o.push("[".into()); for x in self.iter() { x.show(o); } o.push("]".into()); } }
impl<T: Arb> Arb for NonEmptySet<T> { fn arb(g: &mut Rng, d: u32) -> Self { let mut v = Vec::<T>::arb(g, d); if v.is_empty() { v.push(T::arb(g, d + 1)); } NonEmptySet::from_vec(v).unwrap() } }
impl<T: Show> Show for MaybeIndefArray<T> { fn show(&self, o: &mut Vec<String>) {
    let (p, v) = match self { MaybeIndefArray::Def(v) => (0, v), MaybeIndefArray::Indef(v) => (1, v) };
    o.push(format!("v{p}")); o.push("[".into()); v.show(o); o.push("]".into()); } }
impl<T: Arb> Arb for MaybeIndefArray<T> { fn arb(g: &mut Rng, d: u32) -> Self { let v = Vec::<T>::arb(g, d); if g.chance(1, 2) { MaybeIndefArray::Def(v) } else { MaybeIndefArray::Indef(v) } } }
fn show_pairs<K: Show, V: Show>(v: &[(K, V)], o: &mut Vec<String>) { o.push("[".into()); for (k, x) in v { o.push("[".into()); k.show(o); x.show(o); o.push("]".into()); } o.push("]".into()); }
impl<K: Show + Clone, V: Show + Clone> Show for KeyValuePairs<K, V> { fn show(&self, o: &mut Vec<String>) {
    let (p, v) = match self { KeyValuePairs::Def(v) => (0, v), KeyValuePairs::Indef(v) => (1, v) };
    o.push(format!("v{p}")); o.push("[".into()); show_pairs(v, o); o.push("]".into()); } }
impl<K: Arb + Clone, V: Arb + Clone> Arb for KeyValuePairs<K, V> { fn arb(g: &mut Rng, d: u32) -> Self {
    let n = len_small(g, d); let v: Vec<(K, V)> = (0..n).map(|_| (K::arb(g, d + 1), V::arb(g, d + 1))).collect();
    if g.chance(1, 2) { KeyValuePairs::Def(v) } else { KeyValuePairs::Indef(v) } } }
impl<T: Show> Show for CborWrap<T> { fn show(&self, o: &mut Vec<String>) { self.0.show(o) } }
impl<T: Arb> Arb for CborWrap<T> { fn arb(g: &mut Rng, d: u32) -> Self { CborWrap(T::arb(g, d)) } }
impl<T: Show, const N: u64> Show for TagWrap<T, N> { fn show(&self, o: &mut Vec<String>) { self.0.show(o) } }
impl<T: Arb, const N: u64> Arb for TagWrap<T, N> { fn arb(g: &mut Rng, d: u32) -> Self { TagWrap(T::arb(g, d)) } }
impl<T: Show> Show for ZeroOrOneArray<T> { fn show(&self, o: &mut Vec<String>) { (**self).show(o) } }
impl<T: Arb + minicbor::Encode<()> + for<'x> minicbor::Decode<'x, ()>> Arb for ZeroOrOneArray<T> { fn arb(g: &mut Rng, d: u32) -> Self {
    // the field is private: build it through its own decoder
    let bytes = match Option::<T>::arb(g, d) { None => vec![0x80], Some(x) => { let mut b = vec![0x81]; b.extend(minicbor::to_vec(&x).unwrap()); b } };
    minicbor::decode(&bytes).unwrap() } }

// ---- hand-written codecs of pallas-primitives
impl Show for RationalNumber { fn show(&self, o: &mut Vec<String>) { o.push("[".into()); self.numerator.show(o); self.denominator.show(o); o.push("]".into()); } }
impl Arb for RationalNumber { fn arb(g: &mut Rng, d: u32) -> Self { RationalNumber { numerator: u64::arb(g, d), denominator: u64::arb(g, d) } } }
impl Show for pallas_primitives::conway::CostModels { fn show(&self, o: &mut Vec<String>) {
    o.push("[".into()); self.plutus_v1.show(o); self.plutus_v2.show(o); self.plutus_v3.show(o); self.unknown.show(o); o.push("]".into()); } }
impl Arb for pallas_primitives::conway::CostModels { fn arb(g: &mut Rng, d: u32) -> Self {
    // language ids without a dedicated field, right next to the known ones and at the width boundaries
    const UNKNOWN: [u64; 9] = [3, 4, 5, 23, 24, 255, 256, 1 << 32, u64::MAX];
    let mut unknown = BTreeMap::new();
    if g.chance(1, 2) { for _ in 0..g.range(1, 3) { unknown.insert(*g.pick(&UNKNOWN), Vec::<i64>::arb(g, d + 2)); } }
    pallas_primitives::conway::CostModels { plutus_v1: Arb::arb(g, d + 1), plutus_v2: Arb::arb(g, d + 1), plutus_v3: Arb::arb(g, d + 1), unknown } } }

// ---- PlutusData is carried as an opaque item here (its codec is C07's subject)
impl Show for PlutusData { fn show(&self, o: &mut Vec<String>) { o.push(format!("a{}", hx(&minicbor::to_vec(self).unwrap()))); } }
impl Arb for PlutusData { fn arb(g: &mut Rng, d: u32) -> Self {
    let leaf = d >= 4 || g.chance(1, 2);
    if leaf {
        if g.chance(1, 2) { PlutusData::BigInt(BigInt::Int(Int::from(i64::arb(g, d)))) }
        else { let n = *g.pick(&[0usize, 1, 32, 63, 64, 65, 129]); PlutusData::BoundedBytes(BoundedBytes::from(g.bytes(n))) }
    } else {
        match g.below(3) {
            0 => PlutusData::Constr(Constr { tag: g.range(121, 127), any_constructor: None, fields: Arb::arb(g, d + 2) }),
            1 => PlutusData::Array(Arb::arb(g, d + 2)),
            _ => PlutusData::Map(Arb::arb(g, d + 2)),
        }
    } } }
