//! Transactions synthesized from scratch with keys the harness owns, so that any part of the *body* can be
//! varied and the result is still correctly signed: key-locked inputs (enterprise addresses of own keys),
//! outputs, fee, optional mint under native-script policies `ScriptPubkey(key)` (witnessed), optional
//! required signers. Built as raw CBOR in the concrete syntax of the target era and returned as a
//! [`Fixture`] whose environment is the era's base fixture with the fee / min-ada / size rules relaxed
//! (`params::relax`), so the verdict of `validate_txs` is decided by the rule under test.
use super::{params, Fixture, InputRef, UtxoEntry};
use pallas_codec::minicbor::{data::Tag, Encoder};
use pallas_crypto::hash::{Hash, Hasher};
use pallas_crypto::key::ed25519::SecretKey;
use pallas_primitives::alonzo::TransactionInput;
use pallas_traverse::Era;

pub struct Key {
    pub sk: SecretKey,
    pub pk: Vec<u8>,
    pub hash: Hash<28>,
}

/// deterministic key number `seed`
pub fn key(seed: u8) -> Key {
    let mut b = [seed; 32];
    b[0] = 0x5a;
    b[31] = seed.wrapping_mul(31).wrapping_add(7);
    let sk = SecretKey::from(b);
    let pk = sk.public_key().as_ref().to_vec();
    let hash = Hasher::<224>::hash(&pk);
    Key { sk, pk, hash }
}

/// enterprise address (key payment part, no stake part) on `network` (0 = testnet, 1 = mainnet)
pub fn key_address(network: u8, k: &Key) -> Vec<u8> {
    let mut a = vec![0x60 | (network & 0x0f)];
    a.extend_from_slice(k.hash.as_ref());
    a
}

/// native script `ScriptPubkey(key hash)` = `[0, h]`
pub fn native_script(k: &Key) -> Vec<u8> {
    let mut e = Encoder::new(Vec::new());
    e.array(2).unwrap().u8(0).unwrap().bytes(k.hash.as_ref()).unwrap();
    e.into_writer()
}

/// the minting policy of `native_script(k)`: Blake2b-224 of `00 ‖ script`
pub fn policy_id(k: &Key) -> Hash<28> {
    let mut p = vec![0u8];
    p.extend(native_script(k));
    Hasher::<224>::hash(&p)
}

/// quantities per (policy key seed, asset name)
pub type Groups = Vec<(u8, Vec<(Vec<u8>, i128)>)>;

#[derive(Clone, Debug)]
pub struct SValue {
    /// `Multiasset` variant (even with no groups) vs `Coin`
    pub multi: bool,
    pub coin: u64,
    pub groups: Groups,
}

pub struct SynthTx {
    pub era: Era,
    /// (seed of the key that locks the input, value held)
    pub inputs: Vec<(u8, SValue)>,
    pub outputs: Vec<SValue>,
    pub fee: u64,
    pub mint: Option<Groups>,
    /// key seeds (Alonzo and later)
    pub required_signers: Option<Vec<u8>>,
    /// stake-key certificates (Shelley-MA): registration / deregistration of the stake credential of a key
    pub certs: Vec<SCert>,
    /// `None`: every input key, every minting-policy key and every required signer signs once;
    /// `Some(list)`: exactly these `(vkey, signature)` pairs, whatever they are
    pub witnesses: Option<Vec<(Vec<u8>, Vec<u8>)>>,
}

#[derive(Clone, Copy, Debug, PartialEq, Eq)]
pub enum SCert {
    /// `stake_registration = (0, [0, keyhash])`
    Reg(u8),
    /// `stake_deregistration = (1, [0, keyhash])`
    Dereg(u8),
}

fn put_groups(e: &mut Encoder<Vec<u8>>, g: &Groups) {
    e.map(g.len() as u64).unwrap();
    for (p, assets) in g {
        e.bytes(policy_id(&key(*p)).as_ref()).unwrap();
        e.map(assets.len() as u64).unwrap();
        for (n, v) in assets {
            e.bytes(n).unwrap();
            if *v >= 0 { e.u64(*v as u64).unwrap(); } else { e.i64(*v as i64).unwrap(); }
        }
    }
}

pub fn put_value(e: &mut Encoder<Vec<u8>>, v: &SValue) {
    if v.multi { e.array(2).unwrap().u64(v.coin).unwrap(); put_groups(e, &v.groups); } else { e.u64(v.coin).unwrap(); }
}

fn put_output(e: &mut Encoder<Vec<u8>>, addr: &[u8], v: &SValue, post_alonzo: bool) {
    if post_alonzo { e.map(2).unwrap().u8(0).unwrap().bytes(addr).unwrap().u8(1).unwrap(); put_value(e, v); }
    else { e.array(2).unwrap().bytes(addr).unwrap(); put_value(e, v); }
}

pub fn base_fixture_name(era: Era) -> &'static str {
    match era {
        Era::Shelley | Era::Allegra | Era::Mary => "shelley_ma.successful_mainnet_shelley_tx",
        Era::Alonzo => "alonzo.successful_mainnet_tx",
        Era::Babbage => "babbage.successful_mainnet_tx",
        _ => "conway.successful_mainnet_tx",
    }
}

pub fn input_ref(i: usize) -> TransactionInput {
    TransactionInput { transaction_id: [i as u8 + 1; 32].into(), index: 0 }
}

/// body bytes in the era's concrete syntax
pub fn body(t: &SynthTx, network: u8) -> Vec<u8> {
    let conway = t.era == Era::Conway;
    let post = matches!(t.era, Era::Babbage | Era::Conway);
    let mut e = Encoder::new(Vec::new());
    e.map(4 + t.mint.is_some() as u64 + t.required_signers.is_some() as u64 + !t.certs.is_empty() as u64).unwrap();
    e.u8(0).unwrap();
    if conway { e.tag(Tag::new(258)).unwrap(); }
    e.array(t.inputs.len() as u64).unwrap();
    for i in 0..t.inputs.len() { e.array(2).unwrap().bytes(&[i as u8 + 1; 32]).unwrap().u8(0).unwrap(); }
    let out_addr = key_address(network, &key(200));
    e.u8(1).unwrap().array(t.outputs.len() as u64).unwrap();
    for o in &t.outputs { put_output(&mut e, &out_addr, o, post); }
    e.u8(2).unwrap().u64(t.fee).unwrap();
    e.u8(3).unwrap().u64(u64::MAX).unwrap();
    if !t.certs.is_empty() {
        e.u8(4).unwrap().array(t.certs.len() as u64).unwrap();
        for c in &t.certs {
            let (tag, seed) = match c { SCert::Reg(s) => (0u8, *s), SCert::Dereg(s) => (1, *s) };
            e.array(2).unwrap().u8(tag).unwrap().array(2).unwrap().u8(0).unwrap().bytes(key(seed).hash.as_ref()).unwrap();
        }
    }
    if let Some(m) = &t.mint { e.u8(9).unwrap(); put_groups(&mut e, m); }
    if let Some(r) = &t.required_signers {
        e.u8(14).unwrap();
        if conway { e.tag(Tag::new(258)).unwrap(); }
        e.array(r.len() as u64).unwrap();
        for s in r { e.bytes(key(*s).hash.as_ref()).unwrap(); }
    }
    e.into_writer()
}

/// the keys that have to sign a well-formed transaction, each once, in a fixed order
pub fn default_signers(t: &SynthTx) -> Vec<u8> {
    let mut seeds: Vec<u8> = t.inputs.iter().map(|(k, _)| *k).collect();
    seeds.extend(t.mint.iter().flatten().map(|(p, _)| *p));
    seeds.extend(t.required_signers.iter().flatten());
    let mut out = vec![];
    for s in seeds { if !out.contains(&s) { out.push(s); } }
    out
}

pub fn build(t: &SynthTx) -> Fixture {
    let base = super::by_name(base_fixture_name(t.era)).expect("base fixture");
    let mut env = super::clone_env(&base.env);
    params::relax(&mut env);
    let network = env.network_id;
    let conway = t.era == Era::Conway;
    let post = matches!(t.era, Era::Babbage | Era::Conway);
    let body = body(t, network);
    let txid = Hasher::<256>::hash(&body);
    let wits: Vec<(Vec<u8>, Vec<u8>)> = match &t.witnesses {
        Some(w) => w.clone(),
        None => default_signers(t).iter().map(|s| { let k = key(*s); (k.pk.clone(), k.sk.sign(txid.as_ref()).as_ref().to_vec()) }).collect(),
    };
    let mut policies: Vec<u8> = t.mint.iter().flatten().map(|(p, _)| *p).collect();
    policies.dedup();
    let mut w = Encoder::new(Vec::new());
    let skip_vkeys = conway && wits.is_empty();
    w.map(!skip_vkeys as u64 + !policies.is_empty() as u64).unwrap();
    if !skip_vkeys {
        w.u8(0).unwrap();
        w.array(wits.len() as u64).unwrap();
        for (k, s) in &wits { w.array(2).unwrap().bytes(k).unwrap().bytes(s).unwrap(); }
    }
    let mut wbytes = w.into_writer();
    if !policies.is_empty() {
        let mut s = Encoder::new(Vec::new());
        s.u8(1).unwrap();
        s.array(policies.len() as u64).unwrap();
        wbytes.extend(s.into_writer());
        for p in &policies { wbytes.extend(native_script(&key(*p))); }
    }
    let mut tx = vec![0x84u8];
    tx.extend_from_slice(&body);
    tx.extend_from_slice(&wbytes);
    tx.push(0xf5);
    tx.push(0xf6);
    let utxo = t.inputs.iter().enumerate().map(|(i, (k, v))| {
        let mut oe = Encoder::new(Vec::new());
        put_output(&mut oe, &key_address(network, &key(*k)), v, post);
        let era = if post { t.era } else { Era::Alonzo };
        UtxoEntry { input: InputRef::Post(input_ref(i)), era, cbor: oe.into_writer() }
    }).collect();
    Fixture { name: "synth", era: t.era, tx_cbor: tx, utxo, env, cert_state: Default::default() }
}

/// transaction id of the synthesized transaction
pub fn tx_id(t: &SynthTx) -> Vec<u8> {
    let base = super::by_name(base_fixture_name(t.era)).expect("base fixture");
    Hasher::<256>::hash(&body(t, base.env.network_id)).as_ref().to_vec()
}
