//! Concrete-syntax CBOR tree (keeps widths, definite/indefinite, chunking) + structural mutator
//! used by the `idhash` generator: def<->indef containers, wider heads, swapped map entries,
//! chunked strings, dropped set tags. Generator-side only (never used to judge pallas).
use crate::fw::Rng;

#[derive(Clone, Debug)]
pub enum Node {
    Atom { major: u8, ai: u8, arg: Vec<u8> },
    Str { major: u8, ai: u8, arg: Vec<u8>, payload: Vec<u8> },
    StrIndef { major: u8, chunks: Vec<(u8, Vec<u8>, Vec<u8>)> },
    Seq { major: u8, ai: u8, arg: Vec<u8>, items: Vec<Node> },
    SeqIndef { major: u8, items: Vec<Node> },
    Tag { ai: u8, arg: Vec<u8>, inner: Box<Node> },
}

fn arg_len(ai: u8) -> Option<usize> { match ai { 0..=23 => Some(0), 24 => Some(1), 25 => Some(2), 26 => Some(4), 27 => Some(8), 31 => Some(0), _ => None } }
fn val(ai: u8, arg: &[u8]) -> u64 { if ai < 24 { ai as u64 } else { arg.iter().fold(0u64, |a, b| (a << 8) | *b as u64) } }

pub fn parse(b: &[u8], pos: usize, depth: usize) -> Option<(Node, usize)> {
    if depth > 200 { return None; }
    let ib = *b.get(pos)?;
    let (major, ai) = (ib >> 5, ib & 31);
    let n = arg_len(ai)?;
    let arg = b.get(pos + 1..pos + 1 + n)?.to_vec();
    let mut p = pos + 1 + n;
    match major {
        0 | 1 | 7 => { if ai == 31 { return None; } Some((Node::Atom { major, ai, arg }, p)) }
        2 | 3 => {
            if ai == 31 {
                let mut chunks = vec![];
                loop {
                    let cb = *b.get(p)?;
                    if cb == 0xff { p += 1; break; }
                    let (cm, cai) = (cb >> 5, cb & 31);
                    if cm != major || cai == 31 { return None; }
                    let cn = arg_len(cai)?;
                    let carg = b.get(p + 1..p + 1 + cn)?.to_vec();
                    let l = val(cai, &carg) as usize;
                    let pl = b.get(p + 1 + cn..p + 1 + cn + l)?.to_vec();
                    p += 1 + cn + l;
                    chunks.push((cai, carg, pl));
                }
                Some((Node::StrIndef { major, chunks }, p))
            } else {
                let l = val(ai, &arg) as usize;
                let payload = b.get(p..p.checked_add(l)?)?.to_vec();
                Some((Node::Str { major, ai, arg, payload }, p + l))
            }
        }
        4 | 5 => {
            let mut items = vec![];
            if ai == 31 {
                loop {
                    if *b.get(p)? == 0xff { p += 1; break; }
                    let (x, q) = parse(b, p, depth + 1)?;
                    items.push(x); p = q;
                }
                if major == 5 && items.len() % 2 != 0 { return None; }
                Some((Node::SeqIndef { major, items }, p))
            } else {
                let cnt = val(ai, &arg).checked_mul(if major == 5 { 2 } else { 1 })?;
                if cnt > b.len() as u64 { return None; }
                for _ in 0..cnt { let (x, q) = parse(b, p, depth + 1)?; items.push(x); p = q; }
                Some((Node::Seq { major, ai, arg, items }, p))
            }
        }
        _ => {
            if ai == 31 { return None; }
            let (x, q) = parse(b, p, depth + 1)?;
            Some((Node::Tag { ai, arg, inner: Box::new(x) }, q))
        }
    }
}

pub fn min_head(n: u64) -> (u8, Vec<u8>) {
    if n < 24 { (n as u8, vec![]) } else if n < 256 { (24, vec![n as u8]) } else if n < 65536 { (25, (n as u16).to_be_bytes().to_vec()) }
    else if n < (1 << 32) { (26, (n as u32).to_be_bytes().to_vec()) } else { (27, n.to_be_bytes().to_vec()) }
}

pub fn encode(n: &Node, out: &mut Vec<u8>) {
    match n {
        Node::Atom { major, ai, arg } => { out.push(major << 5 | ai); out.extend_from_slice(arg); }
        Node::Str { major, ai, arg, payload } => { out.push(major << 5 | ai); out.extend_from_slice(arg); out.extend_from_slice(payload); }
        Node::StrIndef { major, chunks } => {
            out.push(major << 5 | 31);
            for (ai, arg, pl) in chunks { out.push(major << 5 | ai); out.extend_from_slice(arg); out.extend_from_slice(pl); }
            out.push(0xff);
        }
        Node::Seq { major, ai, arg, items } => { out.push(major << 5 | ai); out.extend_from_slice(arg); for i in items { encode(i, out); } }
        Node::SeqIndef { major, items } => { out.push(major << 5 | 31); for i in items { encode(i, out); } out.push(0xff); }
        Node::Tag { ai, arg, inner } => { out.push(6 << 5 | ai); out.extend_from_slice(arg); encode(inner, out); }
    }
}

pub const KINDS: [&str; 8] = ["to-indef", "to-def", "widen-head", "swap-map-entries", "chunk-string", "untag-258", "inside-cbor-wrap", "head-8-bytes"];

fn widen(ai: u8, arg: &[u8]) -> Option<(u8, Vec<u8>)> {
    let v = val(ai, arg);
    match ai {
        0..=23 => Some((24, vec![v as u8])),
        24 => Some((25, (v as u16).to_be_bytes().to_vec())),
        25 => Some((26, (v as u32).to_be_bytes().to_vec())),
        26 => Some((27, v.to_be_bytes().to_vec())),
        _ => None,
    }
}

fn eligible(n: &Node, kind: usize) -> bool {
    match (kind, n) {
        (0, Node::Seq { .. }) => true,
        (1, Node::SeqIndef { .. }) => true,
        (2, Node::Atom { major, ai, .. }) => *major != 7 && *ai < 27,
        (2, Node::Str { ai, .. }) | (2, Node::Seq { ai, .. }) | (2, Node::Tag { ai, .. }) => *ai < 27,
        (3, Node::Seq { major: 5, items, .. }) | (3, Node::SeqIndef { major: 5, items }) => items.len() >= 4,
        (4, Node::Str { major: 2, .. }) => true,
        (4, Node::Str { major: 3, payload, .. }) => payload.iter().all(|b| *b < 0x80),
        (7, Node::Atom { major, ai, .. }) => *major != 7 && *ai < 27,
        (7, Node::Str { ai, .. }) | (7, Node::Seq { ai, .. }) | (7, Node::Tag { ai, .. }) => *ai < 27,
        (5, Node::Tag { ai, arg, .. }) => val(*ai, arg) == 258,
        (6, Node::Tag { ai, arg, inner }) => val(*ai, arg) == 24 && match &**inner {
            Node::Str { major: 2, payload, .. } => matches!(parse(payload, 0, 0), Some((_, e)) if e == payload.len()),
            _ => false,
        },
        _ => false,
    }
}

fn count(n: &Node, kind: usize) -> usize {
    let own = eligible(n, kind) as usize;
    own + match n {
        Node::Seq { items, .. } | Node::SeqIndef { items, .. } => items.iter().map(|i| count(i, kind)).sum(),
        Node::Tag { inner, .. } => count(inner, kind),
        _ => 0,
    }
}

fn apply(n: &mut Node, kind: usize, rng: &mut Rng) {
    let new = match (kind, &*n) {
        (0, Node::Seq { major, items, .. }) => Some(Node::SeqIndef { major: *major, items: items.clone() }),
        (1, Node::SeqIndef { major, items }) => {
            let (ai, arg) = min_head((items.len() / if *major == 5 { 2 } else { 1 }) as u64);
            Some(Node::Seq { major: *major, ai, arg, items: items.clone() })
        }
        (2, Node::Atom { major, ai, arg }) => widen(*ai, arg).map(|(a, g)| Node::Atom { major: *major, ai: a, arg: g }),
        (2, Node::Str { major, ai, arg, payload }) => widen(*ai, arg).map(|(a, g)| Node::Str { major: *major, ai: a, arg: g, payload: payload.clone() }),
        (2, Node::Seq { major, ai, arg, items }) => widen(*ai, arg).map(|(a, g)| Node::Seq { major: *major, ai: a, arg: g, items: items.clone() }),
        (2, Node::Tag { ai, arg, inner }) => widen(*ai, arg).map(|(a, g)| Node::Tag { ai: a, arg: g, inner: inner.clone() }),
        (3, Node::Seq { major, ai, arg, items }) => { let mut it = items.clone(); swap_entries(&mut it, rng); Some(Node::Seq { major: *major, ai: *ai, arg: arg.clone(), items: it }) }
        (3, Node::SeqIndef { major, items }) => { let mut it = items.clone(); swap_entries(&mut it, rng); Some(Node::SeqIndef { major: *major, items: it }) }
        (7, Node::Atom { major, ai, arg }) => Some(Node::Atom { major: *major, ai: 27, arg: val(*ai, arg).to_be_bytes().to_vec() }),
        (7, Node::Str { major, ai, arg, payload }) => Some(Node::Str { major: *major, ai: 27, arg: val(*ai, arg).to_be_bytes().to_vec(), payload: payload.clone() }),
        (7, Node::Seq { major, ai, arg, items }) => Some(Node::Seq { major: *major, ai: 27, arg: val(*ai, arg).to_be_bytes().to_vec(), items: items.clone() }),
        (7, Node::Tag { ai, arg, inner }) => Some(Node::Tag { ai: 27, arg: val(*ai, arg).to_be_bytes().to_vec(), inner: inner.clone() }),
        (4, Node::Str { major, payload, .. }) if payload.is_empty() && rng.chance(1, 2) => Some(Node::StrIndef { major: *major, chunks: vec![] }),
        (4, Node::Str { major, payload, .. }) => {
            let k = 1 + rng.below(3) as usize;
            let mut chunks = vec![];
            let mut rest: &[u8] = payload;
            for c in 0..k {
                let take = if c + 1 == k { rest.len() } else { rng.below(rest.len() as u64 + 1) as usize };
                let (a, b) = rest.split_at(take);
                let (ai, arg) = min_head(a.len() as u64);
                chunks.push((ai, arg, a.to_vec()));
                rest = b;
            }
            Some(Node::StrIndef { major: *major, chunks })
        }
        (5, Node::Tag { inner, .. }) => Some((**inner).clone()),
        (6, Node::Tag { ai, arg, inner }) => match &**inner {
            Node::Str { major: 2, payload, .. } => {
                // mutate the item wrapped in the byte string, keep the wrapping
                let mut res = None;
                if let Some((mut t, _)) = parse(payload, 0, 0) {
                    for _ in 0..8 {
                        let k = rng.below(6) as usize;
                        if mutate(&mut t, k, rng) { break; }
                    }
                    let mut np = vec![];
                    encode(&t, &mut np);
                    if np != *payload {
                        let (hai, harg) = min_head(np.len() as u64);
                        res = Some(Node::Tag { ai: *ai, arg: arg.clone(), inner: Box::new(Node::Str { major: 2, ai: hai, arg: harg, payload: np }) });
                    }
                }
                res
            }
            _ => None,
        },
        _ => None,
    };
    if let Some(x) = new { *n = x; }
}

fn swap_entries(items: &mut Vec<Node>, rng: &mut Rng) {
    let n = items.len() / 2;
    let a = rng.below(n as u64) as usize;
    let mut b = rng.below(n as u64) as usize;
    if a == b { b = (a + 1) % n; }
    items.swap(2 * a, 2 * b);
    items.swap(2 * a + 1, 2 * b + 1);
}

fn apply_at(n: &mut Node, kind: usize, target: &mut isize, rng: &mut Rng) {
    if *target < 0 { return; }
    if eligible(n, kind) {
        if *target == 0 { *target = -1; apply(n, kind, rng); return; }
        *target -= 1;
    }
    match n {
        Node::Seq { items, .. } | Node::SeqIndef { items, .. } => for i in items.iter_mut() { apply_at(i, kind, target, rng); if *target < 0 { return; } },
        Node::Tag { inner, .. } => apply_at(inner, kind, target, rng),
        _ => {}
    }
}

/// one random structural mutation of the given kind somewhere in the tree; false if not applicable
pub fn mutate(n: &mut Node, kind: usize, rng: &mut Rng) -> bool {
    let c = count(n, kind);
    if c == 0 { return false; }
    let mut t = rng.below(c as u64) as isize;
    apply_at(n, kind, &mut t, rng);
    true
}

/// bytes -> mutated bytes (1..=3 mutations), with the list of kinds applied
pub fn mutant(bytes: &[u8], rng: &mut Rng) -> Option<(Vec<u8>, Vec<&'static str>)> {
    let (mut tree, end) = parse(bytes, 0, 0)?;
    if end != bytes.len() { return None; }
    let mut kinds = vec![];
    let n = 1 + rng.below(3);
    for _ in 0..n {
        let k = rng.below(KINDS.len() as u64) as usize;
        if mutate(&mut tree, k, rng) { kinds.push(KINDS[k]); }
    }
    if kinds.is_empty() { return None; }
    let mut out = vec![];
    encode(&tree, &mut out);
    if out == bytes { return None; }
    Some((out, kinds))
}

/// single-site mutants of `kind`: every eligible site (pre-order) when there are at most `limit`,
/// otherwise `limit` sites spread evenly and always including the first and the LAST site (the
/// last container / head of a value is where an under-consuming decoder goes unnoticed)
pub fn single_site_mutants(bytes: &[u8], kind: usize, limit: usize, rng: &mut Rng) -> Vec<Vec<u8>> {
    let Some((tree, end)) = parse(bytes, 0, 0) else { return vec![] };
    if end != bytes.len() { return vec![]; }
    let c = count(&tree, kind);
    if c == 0 || limit == 0 { return vec![]; }
    let sites: Vec<usize> = if c <= limit { (0..c).collect() } else {
        let mut v: Vec<usize> = (0..limit).map(|i| if limit == 1 { c - 1 } else { i * (c - 1) / (limit - 1) }).collect();
        v.dedup();
        v
    };
    let mut res = vec![];
    for site in sites {
        let mut t = tree.clone();
        let mut target = site as isize;
        apply_at(&mut t, kind, &mut target, rng);
        let mut out = vec![];
        encode(&t, &mut out);
        if out != bytes { res.push(out); }
    }
    res
}

fn replace_at(n: &mut Node, target: &mut isize, payload: &[u8]) {
    if *target < 0 { return; }
    if eligible(n, 6) {
        if *target == 0 {
            *target = -1;
            if let Node::Tag { inner, .. } = n {
                let (ai, arg) = min_head(payload.len() as u64);
                **inner = Node::Str { major: 2, ai, arg, payload: payload.to_vec() };
            }
            return;
        }
        *target -= 1;
    }
    match n {
        Node::Seq { items, .. } | Node::SeqIndef { items, .. } => for i in items.iter_mut() { replace_at(i, target, payload); if *target < 0 { return; } },
        Node::Tag { inner, .. } => replace_at(inner, target, payload),
        _ => {}
    }
}

/// number of `#6.24(bytes .cbor item)` sites
pub fn wrap_sites(bytes: &[u8]) -> usize {
    match parse(bytes, 0, 0) { Some((t, e)) if e == bytes.len() => count(&t, 6), _ => 0 }
}

/// replace the item wrapped at the `site`-th `#6.24(bytes)` by `payload`
pub fn splice_wrapped(bytes: &[u8], site: usize, payload: &[u8]) -> Option<Vec<u8>> {
    let (mut t, e) = parse(bytes, 0, 0)?;
    if e != bytes.len() { return None; }
    let mut target = site as isize;
    replace_at(&mut t, &mut target, payload);
    if target >= 0 { return None; }
    let mut out = vec![];
    encode(&t, &mut out);
    Some(out)
}
