//! Shared helpers of the traversal streams (utxo / traverse / idhash): test_data access,
//! byte-level CBOR slicing (minicbor's `skip`, no pallas type involved) and small CBOR writers.
use pallas_codec::minicbor::{self, data::Type, Decoder, Encoder};

pub fn repo_dir() -> String { std::env::var("PV_REPO").unwrap_or_else(|_| "/repo".into()) }

/// (file name, bytes) of every hex file in test_data with the given extension, sorted by name
/// corpus files that pallas (unchanged tree) refuses to decode — negative fixtures of its own tests
pub const UNDECODABLE: [&str; 1] = ["conway8.block"];

pub fn hex_files(ext: &str) -> Vec<(String, Vec<u8>)> {
    let dir = format!("{}/test_data", repo_dir());
    let mut res = vec![];
    if let Ok(rd) = std::fs::read_dir(&dir) {
        for e in rd.flatten() {
            let p = e.path();
            if p.extension().and_then(|x| x.to_str()) != Some(ext) { continue; }
            let name = p.file_name().unwrap().to_string_lossy().to_string();
            if UNDECODABLE.contains(&name.as_str()) { continue; }
            if let Ok(txt) = std::fs::read_to_string(&p) {
                if let Ok(b) = hex::decode(txt.trim()) { res.push((name, b)); }
            }
        }
    }
    res.sort();
    res
}

/// spans `(start, end)` of the children of the array / map whose head starts at `at`
/// (map children alternate key, value); `None` when the item is not a container or is malformed
pub fn children(bytes: &[u8], at: usize) -> Option<Vec<(usize, usize)>> {
    let mut d = Decoder::new(bytes);
    d.set_position(at);
    let (n, _is_map) = match d.datatype().ok()? {
        Type::Array => (d.array().ok()?, false),
        Type::ArrayIndef => (d.array().ok()?, false),
        Type::Map => (d.map().ok()?.map(|n| n * 2), true),
        Type::MapIndef => (d.map().ok()?, true),
        _ => return None,
    };
    let mut res = vec![];
    match n {
        Some(n) => {
            for _ in 0..n {
                let s = d.position();
                d.skip().ok()?;
                res.push((s, d.position()));
            }
        }
        None => loop {
            if d.datatype().ok()? == Type::Break { break; }
            let s = d.position();
            d.skip().ok()?;
            res.push((s, d.position()));
        },
    }
    Some(res)
}

/// end offset of the item starting at `at`
pub fn item_end(bytes: &[u8], at: usize) -> Option<usize> {
    let mut d = Decoder::new(bytes);
    d.set_position(at);
    d.skip().ok()?;
    Some(d.position())
}

/// unsigned integer at `at` (any width)
pub fn uint_at(bytes: &[u8], at: usize) -> Option<u64> {
    let mut d = Decoder::new(bytes);
    d.set_position(at);
    d.u64().ok()
}

/// blocks of the immutable-db chunk files in test_data (concatenated CBOR items), every `step`-th
pub fn chunk_blocks(step: usize) -> Vec<Vec<u8>> {
    let mut res = vec![];
    for f in ["01285.chunk", "01836.chunk", "02019.chunk"] {
        if let Ok(data) = std::fs::read(format!("{}/test_data/{}", repo_dir(), f)) {
            let (mut at, mut k) = (0usize, 0usize);
            while at < data.len() {
                let Some(e) = item_end(&data, at) else { break };
                if e <= at { break; }
                if k % step.max(1) == 0 { res.push(data[at..e].to_vec()); }
                at = e; k += 1;
            }
        }
    }
    res
}

/// a small epoch-boundary block `[0, [header, [], extra]]` built at the byte level from the
/// header and extra spans of test_data/genesis.block (whose 650 kB body is a list of stakeholder ids)
pub fn small_ebb() -> Option<Vec<u8>> {
    let txt = std::fs::read_to_string(format!("{}/test_data/genesis.block", repo_dir())).ok()?;
    let b = hex::decode(txt.trim()).ok()?;
    let top = children(&b, 0)?;
    if uint_at(&b, top.first()?.0)? != 0 { return None; }
    let inner = children(&b, top.get(1)?.0)?;
    if inner.len() != 3 { return None; }
    let mut out = vec![0x82, 0x00, 0x83];
    out.extend_from_slice(&b[inner[0].0..inner[0].1]);
    out.push(0x80);
    out.extend_from_slice(&b[inner[2].0..inner[2].1]);
    Some(out)
}

pub struct RawBlock {
    pub tag: u64,
    /// span of the header item (element 0 of the inner array)
    pub header: (usize, usize),
    /// post-Byron: spans of bodies / witness sets; aux entries (index, span); invalid list
    pub bodies: Vec<(usize, usize)>,
    pub wits: Vec<(usize, usize)>,
    pub aux: Vec<(u64, (usize, usize))>,
    pub invalid: Option<Vec<u64>>,
    /// Byron main blocks: spans of the `[tx, witnesses]` payload items
    pub byron_payloads: Vec<(usize, usize)>,
}

/// split `[tag, [header, ...]]` by byte offsets only
pub fn split_block(bytes: &[u8]) -> Option<RawBlock> {
    let top = children(bytes, 0)?;
    if top.len() != 2 { return None; }
    let tag = uint_at(bytes, top[0].0)?;
    let inner = children(bytes, top[1].0)?;
    let mut rb = RawBlock { tag, header: *inner.first()?, bodies: vec![], wits: vec![], aux: vec![], invalid: None, byron_payloads: vec![] };
    match tag {
        0 => {}
        1 => {
            // [header, body = [tx_payload, ssc, dlg, upd], extra]
            let body = children(bytes, inner.get(1)?.0)?;
            rb.byron_payloads = children(bytes, body.first()?.0)?;
        }
        _ => {
            rb.bodies = children(bytes, inner.get(1)?.0)?;
            rb.wits = children(bytes, inner.get(2)?.0)?;
            let aux = children(bytes, inner.get(3)?.0)?;
            for kv in aux.chunks(2) {
                if kv.len() == 2 { rb.aux.push((uint_at(bytes, kv[0].0)?, kv[1])); }
            }
            if let Some(inv) = inner.get(4) {
                let xs = children(bytes, inv.0)?;
                rb.invalid = Some(xs.iter().filter_map(|s| uint_at(bytes, s.0)).collect());
            }
        }
    }
    Some(rb)
}

/// stand-alone post-Byron transaction `[body, wits, flag, aux / null]` from block parts
pub fn standalone_tx(bytes: &[u8], rb: &RawBlock, i: usize, valid: bool) -> Option<Vec<u8>> {
    let b = rb.bodies.get(i)?;
    let w = rb.wits.get(i)?;
    let mut out = vec![0x84];
    out.extend_from_slice(&bytes[b.0..b.1]);
    out.extend_from_slice(&bytes[w.0..w.1]);
    out.push(if valid { 0xf5 } else { 0xf4 });
    // last entry wins (BTreeMap insert semantics of the decoder)
    match rb.aux.iter().rev().find(|(k, _)| *k == i as u64) {
        Some((_, s)) => out.extend_from_slice(&bytes[s.0..s.1]),
        None => out.push(0xf6),
    }
    Some(out)
}

/// set the validity flag (element 2) of a stand-alone post-Byron transaction at the byte level
pub fn with_flag(tx: &[u8], valid: bool) -> Option<Vec<u8>> {
    let ch = children(tx, 0)?;
    if ch.len() != 4 { return None; }
    let (s, e) = ch[2];
    if e != s + 1 || (tx[s] != 0xf4 && tx[s] != 0xf5) { return None; }
    let mut out = tx.to_vec();
    out[s] = if valid { 0xf5 } else { 0xf4 };
    Some(out)
}

pub fn era_kind_of_tag(tag: u64) -> &'static str {
    match tag { 0 | 1 => "byron", 2..=5 => "alonzo", 6 => "babbage", _ => "conway" }
}

pub fn era_kind_of_name(name: &str) -> Option<&'static str> {
    for (p, k) in [("byron", "byron"), ("shelley", "alonzo"), ("allegra", "alonzo"), ("mary", "alonzo"), ("alonzo", "alonzo"),
                   ("babbage", "babbage"), ("conway", "conway"), ("duplicateinput", "alonzo"), ("scriptwit", "babbage")] {
        if name.starts_with(p) { return Some(k); }
    }
    None
}

pub fn enc() -> Encoder<Vec<u8>> { Encoder::new(Vec::new()) }
