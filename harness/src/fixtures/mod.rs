//! Phase-1 validation fixtures, shared by every stream that drives `pallas_validate`.
//!
//! The positive fixtures of `pallas-validate/tests/*.rs` (transaction CBOR from `test_data`, the UTxO
//! entries, protocol parameters, environment and initial certificate state each test builds) live in
//! `#[cfg(test)]` modules and cannot be linked. They are ported once into the per-era files of this
//! directory (`byron`, `shelley_ma`, `alonzo`, `babbage`, `conway`; bodies verbatim up to the
//! `validate_txs` call, `common.rs` is a verbatim copy of `tests/common.rs`, `data/*.tx` are copies of
//! `test_data/*.tx`). They are test *data*, not code under verification.
//!
//! A [`Fixture`] owns everything (`tx_cbor`, UTxO entries as `(input, era, output CBOR)`, `Environment`,
//! `CertState`), so streams can mutate any part and re-decode:
//!
//! ```ignore
//! let f = fixtures::by_name("conway.successful_mainnet_tx").unwrap();
//! let tx = f.tx();                 // MultiEraTx borrowing f.tx_cbor
//! let utxos = f.utxos();           // UTxOs borrowing f.utxo
//! let mut cs = f.cert_state.clone();
//! validate_txs(&[tx], &f.env, &utxos, &mut cs)
//! ```
#![allow(unused, clippy::all)]
pub mod alonzo;
pub mod babbage;
pub mod byron;
pub mod common;
pub mod conway;
pub mod params;
pub mod shelley_ma;
pub mod synth;
pub mod txparts;

use pallas_codec::minicbor;
use pallas_primitives::{alonzo::TransactionInput, byron::TxIn};
use pallas_traverse::{Era, MultiEraInput, MultiEraOutput, MultiEraTx};
use pallas_validate::phase1::validate_txs;
use pallas_validate::utils::{AccountState, CertState, Environment, UTxOs, ValidationResult};
use std::borrow::Cow;

/// An owned transaction input (key of the UTxO map).
#[derive(Clone, Debug, PartialEq, Eq)]
pub enum InputRef {
    Byron(TxIn),
    /// Shelley .. Conway
    Post(TransactionInput),
}

impl InputRef {
    pub fn as_multi_era(&self) -> MultiEraInput<'_> {
        match self {
            InputRef::Byron(i) => MultiEraInput::Byron(Box::new(Cow::Borrowed(i))),
            InputRef::Post(i) => MultiEraInput::AlonzoCompatible(Box::new(Cow::Borrowed(i))),
        }
    }
    /// canonical text `txhash#index` (Byron variants are rendered through their CBOR)
    pub fn show(&self) -> String {
        match self {
            InputRef::Post(i) => format!("{}#{}", hex::encode(i.transaction_id.as_ref()), i.index),
            InputRef::Byron(i) => format!("byron:{}", hex::encode(minicbor::to_vec(i).unwrap_or_default())),
        }
    }
}

/// One UTxO entry: the output is kept as `(era, CBOR)` exactly as `MultiEraOutput::decode` wants it.
#[derive(Clone, Debug)]
pub struct UtxoEntry {
    pub input: InputRef,
    pub era: Era,
    pub cbor: Vec<u8>,
}

/// A validation scenario that `validate_txs` accepts on the unchanged tree.
pub struct Fixture {
    /// `<era module>.<test name>`, e.g. `conway.successful_mainnet_tx`
    pub name: &'static str,
    /// era the transaction is decoded for (`MultiEraTx::decode_for_era`)
    pub era: Era,
    pub tx_cbor: Vec<u8>,
    /// sorted by input text, so iteration order is deterministic
    pub utxo: Vec<UtxoEntry>,
    pub env: Environment,
    pub cert_state: CertState,
}

pub fn clone_env(e: &Environment) -> Environment {
    Environment {
        prot_params: e.prot_params.clone(),
        prot_magic: e.prot_magic,
        block_slot: e.block_slot,
        network_id: e.network_id,
        acnt: e.acnt.as_ref().map(|a| AccountState { treasury: a.treasury, reserves: a.reserves }),
    }
}

/// Build a `UTxOs` map borrowing from owned entries.
pub fn utxos_of(entries: &[UtxoEntry]) -> UTxOs<'_> {
    let mut m = UTxOs::new();
    for e in entries {
        let out = MultiEraOutput::decode(e.era, &e.cbor).expect("fixture utxo output decodes");
        m.insert(e.input.as_multi_era(), out);
    }
    m
}

impl Fixture {
    /// Used by the ported test bodies: turns the borrowed `UTxOs` the test built into owned entries.
    pub fn from_parts(name: &'static str, era: Era, tx_cbor: Vec<u8>, utxos: &UTxOs, env: Environment, cert_state: CertState) -> Fixture {
        let mut utxo: Vec<UtxoEntry> = utxos
            .iter()
            .map(|(i, o)| {
                let input = match i {
                    MultiEraInput::Byron(x) => InputRef::Byron((***x).clone()),
                    MultiEraInput::AlonzoCompatible(x) => InputRef::Post((***x).clone()),
                    _ => panic!("unknown input variant"),
                };
                UtxoEntry { input, era: o.era(), cbor: o.encode() }
            })
            .collect();
        utxo.sort_by_key(|e| e.input.show());
        Fixture { name, era, tx_cbor, utxo, env, cert_state }
    }

    pub fn clone_fixture(&self) -> Fixture {
        Fixture {
            name: self.name,
            era: self.era,
            tx_cbor: self.tx_cbor.clone(),
            utxo: self.utxo.clone(),
            env: clone_env(&self.env),
            cert_state: self.cert_state.clone(),
        }
    }

    pub fn tx(&self) -> MultiEraTx<'_> {
        MultiEraTx::decode_for_era(self.era, &self.tx_cbor).expect("fixture tx decodes")
    }

    pub fn utxos(&self) -> UTxOs<'_> {
        utxos_of(&self.utxo)
    }

    /// `validate_txs` of this single transaction on a copy of the initial certificate state.
    pub fn validate(&self) -> ValidationResult {
        let tx = self.tx();
        let utxos = self.utxos();
        let mut cs = self.cert_state.clone();
        validate_txs(&[tx], &self.env, &utxos, &mut cs)
    }

    pub fn era_name(&self) -> &'static str {
        self.name.split('.').next().unwrap_or("")
    }
}

/// Every ported positive fixture, in a fixed order.
pub fn all() -> Vec<Fixture> {
    let mut v = vec![];
    v.extend(byron::all());
    v.extend(shelley_ma::all());
    v.extend(alonzo::all());
    v.extend(babbage::all());
    v.extend(conway::all());
    v
}

pub fn by_name(name: &str) -> Option<Fixture> {
    all().into_iter().find(|f| f.name == name)
}

/// Fixtures of the post-Byron eras only.
pub fn post_byron() -> Vec<Fixture> {
    all().into_iter().filter(|f| f.era != Era::Byron).collect()
}

/// Sanity of the port itself: every fixture must be accepted. Returns the names that are not.
pub fn rejected() -> Vec<(String, String)> {
    all().iter().filter_map(|f| f.validate().err().map(|e| (f.name.to_string(), format!("{e:?}")))).collect()
}
