//! Positive fixtures and protocol-parameter builders ported from pallas-validate/tests/conway.rs
//! by /var/tmp one-off extraction (function bodies are verbatim up to the `validate_txs` call).
#![allow(unused, clippy::all)]

use super::common::*;
use pallas_codec::minicbor;
use pallas_codec::minicbor::{
    decode::{Decode, Decoder},
    encode,
};
use pallas_codec::utils::{Bytes, CborWrap, KeepRaw};
use pallas_primitives::conway::{
    CostModels, DatumOption, ExUnits, NetworkId, PlutusScript, RationalNumber, ScriptRef,
    TransactionBody, Tx, Value,
};
use pallas_primitives::{
    Set,
    conway::{DRepVotingThresholds, PoolVotingThresholds, TransactionOutput},
};
use pallas_traverse::MultiEraTx;
use pallas_validate::{
    phase1::validate_txs,
    utils::{
        AccountState, CertState, ConwayProtParams, Environment, MultiEraProtocolParameters,
        PostAlonzoError, UTxOs, ValidationError::*, conway_values_are_equal,
    },
};
use std::{borrow::Cow, collections::BTreeMap};
use pallas_addresses::{Address, ShelleyAddress, ShelleyPaymentPart};
use pallas_primitives::{PositiveCoin, conway::PostAlonzoTransactionOutput};
use pallas_traverse::{MultiEraInput, MultiEraOutput};
use super::Fixture;

    /// ported from pallas-validate/tests/conway.rs `successful_mainnet_tx`
    pub fn successful_mainnet_tx() -> Fixture {
        let cbor_bytes: Vec<u8> = cbor_to_bytes(include_str!("data/conway3.tx"));
        let mtx: Tx = conway_minted_tx_from_cbor(&cbor_bytes);
        let metx: MultiEraTx = MultiEraTx::from_conway(&mtx);
        let tx_outs_info: &[ConwayTxOutInfo] = &[(
            String::from(
                "015c5c318d01f729e205c95eb1b02d623dd10e78ea58f72d0c13f892b2e8904edc699e2f0ce7b72be7cec991df651a222e2ae9244eb5975cba",
            ),
            Value::Coin(20000000),
            None,
            None,
        )];
        let utxos: UTxOs = mk_utxo_for_conway_tx(&mtx.transaction_body, tx_outs_info);
        let acnt = AccountState {
            treasury: 261_254_564_000_000,
            reserves: 0,
        };

        let env: Environment = Environment {
            prot_params: MultiEraProtocolParameters::Conway(mk_mainnet_params_epoch_365()),
            prot_magic: 764824073,
            block_slot: 137806612,
            network_id: 1,
            acnt: Some(acnt),
        };
        let mut cert_state: CertState = CertState::default();
        let tx_cbor: Vec<u8> = cbor_bytes.clone();
        Fixture::from_parts("conway.successful_mainnet_tx", pallas_traverse::Era::Conway, tx_cbor, &utxos, env, cert_state)
    }

    /// ported from pallas-validate/tests/conway.rs `successful_preview_tx_with_plutus_v3_script`
    pub fn successful_preview_tx_with_plutus_v3_script() -> Fixture {
        let cbor_bytes: Vec<u8> = cbor_to_bytes(include_str!("data/conway4.tx"));
        let mtx: Tx = conway_minted_tx_from_cbor(&cbor_bytes);
        let metx: MultiEraTx = MultiEraTx::from_conway(&mtx);
        let datum_bytes = cbor_to_bytes("d8799f4568656c6c6fff");
        let datum_option = DatumOption::Data(CborWrap(minicbor::decode(&datum_bytes).unwrap()));
        let datum_option = minicbor::to_vec(datum_option).unwrap();
        let datum_option: KeepRaw<'_, DatumOption> = minicbor::decode(&datum_option).unwrap();

        let mut tx_outs_info: Vec<ConwayTxOutInfoMut> = vec![
            (
                String::from(
                    "005c5c318d01f729e205c95eb1b02d623dd10e78ea58f72d0c13f892b2e8904edc699e2f0ce7b72be7cec991df651a222e2ae9244eb5975cba",
                ),
                Value::Coin(2554710123),
                None,
                None,
                Vec::new(),
            ),
            (
                String::from("70faae60072c45d121b6e58ae35c624693ee3dad9ea8ed765eb6f76f9f"),
                Value::Coin(100270605),
                Some(datum_option),
                None,
                Vec::new(),
            ),
        ];

        let mut utxos: UTxOs =
            mk_codec_safe_utxo_for_conway_tx(&mtx.transaction_body, &mut tx_outs_info);

        let mut ref_info: Vec<ConwayRefInputInfoMut> = vec![
            (
                String::from("70faae60072c45d121b6e58ae35c624693ee3dad9ea8ed765eb6f76f9f"),
                Value::Coin(1624870),
                None,
                Some(CborWrap(ScriptRef::PlutusV3Script(PlutusScript::<3>(Bytes::from(hex::decode("58a701010032323232323225333002323232323253330073370e900118041baa0011323322533300a3370e900018059baa00513232533300f30110021533300c3370e900018069baa00313371e6eb8c040c038dd50039bae3010300e37546020601c6ea800c5858dd7180780098061baa00516300c001300c300d001300937540022c6014601600660120046010004601000260086ea8004526136565734aae7555cf2ab9f5742ae89").unwrap()))))),
            Vec::new(),
            ),
        ];

        add_codec_safe_ref_input_conway(&mtx.transaction_body, &mut utxos, &mut ref_info);

        let mut collateral_info: Vec<ConwayCollateralInfoMut> = vec![(
            String::from(
                "005c5c318d01f729e205c95eb1b02d623dd10e78ea58f72d0c13f892b2e8904edc699e2f0ce7b72be7cec991df651a222e2ae9244eb5975cba",
            ),
            Value::Coin(2554439518),
            None,
            None,
            Vec::new(),
        )];
        add_codec_safe_collateral_conway(&mtx.transaction_body, &mut utxos, &mut collateral_info);
        let acnt = AccountState {
            treasury: 261_254_564_000_000,
            reserves: 0,
        };

        let env: Environment = Environment {
            prot_params: MultiEraProtocolParameters::Conway(mk_preview_params_epoch_380()),
            prot_magic: 2,
            block_slot: 74735000,
            network_id: 0,
            acnt: Some(acnt),
        };
        let mut cert_state: CertState = CertState::default();
        let tx_cbor: Vec<u8> = cbor_bytes.clone();
        Fixture::from_parts("conway.successful_preview_tx_with_plutus_v3_script", pallas_traverse::Era::Conway, tx_cbor, &utxos, env, cert_state)
    }

    /// ported from pallas-validate/tests/conway.rs `successful_mainnet_tx_with_plutus_v3_script`
    pub fn successful_mainnet_tx_with_plutus_v3_script() -> Fixture {
        let cbor_bytes: Vec<u8> = cbor_to_bytes(include_str!("data/conway5.tx"));
        let mtx: Tx = conway_minted_tx_from_cbor(&cbor_bytes);
        let metx: MultiEraTx = MultiEraTx::from_conway(&mtx);
        let datum_bytes = cbor_to_bytes("d8799f4568656c6c6fff");
        let datum_option = DatumOption::Data(CborWrap(minicbor::decode(&datum_bytes).unwrap()));
        let datum_option = minicbor::to_vec(datum_option).unwrap();
        let datum_option: KeepRaw<'_, DatumOption> = minicbor::decode(&datum_option).unwrap();

        let mut tx_outs_info: Vec<ConwayTxOutInfoMut> = vec![(
            String::from("71faae60072c45d121b6e58ae35c624693ee3dad9ea8ed765eb6f76f9f"),
            Value::Coin(2000000),
            Some(datum_option),
            None,
            Vec::new(),
        )];

        let mut utxos: UTxOs =
            mk_codec_safe_utxo_for_conway_tx(&mtx.transaction_body, &mut tx_outs_info);

        let mut ref_info: Vec<ConwayRefInputInfoMut> = vec![
            (
                String::from("71faae60072c45d121b6e58ae35c624693ee3dad9ea8ed765eb6f76f9f"),
                Value::Coin(1624870),
                None,
                Some(CborWrap(ScriptRef::PlutusV3Script(PlutusScript::<3>(Bytes::from(hex::decode("58a701010032323232323225333002323232323253330073370e900118041baa0011323322533300a3370e900018059baa00513232533300f30110021533300c3370e900018069baa00313371e6eb8c040c038dd50039bae3010300e37546020601c6ea800c5858dd7180780098061baa00516300c001300c300d001300937540022c6014601600660120046010004601000260086ea8004526136565734aae7555cf2ab9f5742ae89").unwrap()))))),
                Vec::new(),
            ),
        ];

        add_codec_safe_ref_input_conway(&mtx.transaction_body, &mut utxos, &mut ref_info);

        let mut collateral_info: Vec<ConwayCollateralInfoMut> = vec![(
            String::from(
                "015c5c318d01f729e205c95eb1b02d623dd10e78ea58f72d0c13f892b2e8904edc699e2f0ce7b72be7cec991df651a222e2ae9244eb5975cba",
            ),
            Value::Coin(49731771),
            None,
            None,
            Vec::new(),
        )];
        add_codec_safe_collateral_conway(&mtx.transaction_body, &mut utxos, &mut collateral_info);

        let acnt = AccountState {
            treasury: 261_254_564_000_000,
            reserves: 0,
        };

        let env: Environment = Environment {
            prot_params: MultiEraProtocolParameters::Conway(mk_mainnet_params_epoch_380()),
            prot_magic: 764824073,
            block_slot: 149807950,
            network_id: 1,
            acnt: Some(acnt),
        };
        let mut cert_state: CertState = CertState::default();
        let tx_cbor: Vec<u8> = cbor_bytes.clone();
        Fixture::from_parts("conway.successful_mainnet_tx_with_plutus_v3_script", pallas_traverse::Era::Conway, tx_cbor, &utxos, env, cert_state)
    }

    pub fn mk_mainnet_params_epoch_365() -> ConwayProtParams {
        ConwayProtParams {
            system_start: "2017-09-23T21:44:51Z".parse().unwrap(),
            epoch_length: 432000,
            slot_length: 1,
            minfee_a: 44,
            minfee_b: 155381,
            max_block_body_size: 90112,
            max_transaction_size: 16384,
            max_block_header_size: 1100,
            key_deposit: 2000000,
            pool_deposit: 500000000,
            maximum_epoch: 18,
            desired_number_of_stake_pools: 500,
            pool_pledge_influence: RationalNumber {
                numerator: 3,
                denominator: 10,
            },
            expansion_rate: RationalNumber {
                numerator: 3,
                denominator: 1000,
            },
            treasury_growth_rate: RationalNumber {
                numerator: 2,
                denominator: 10,
            },
            protocol_version: (7, 0),
            min_pool_cost: 340000000,
            ada_per_utxo_byte: 4310,
            cost_models_for_script_languages: CostModels {
                plutus_v1: Some(vec![
                    197209, 0, 1, 1, 396231, 621, 0, 1, 150000, 1000, 0, 1, 150000, 32, 2477736,
                    29175, 4, 29773, 100, 29773, 100, 29773, 100, 29773, 100, 29773, 100, 29773,
                    100, 100, 100, 29773, 100, 150000, 32, 150000, 32, 150000, 32, 150000, 1000, 0,
                    1, 150000, 32, 150000, 1000, 0, 8, 148000, 425507, 118, 0, 1, 1, 150000, 1000,
                    0, 8, 150000, 112536, 247, 1, 150000, 10000, 1, 136542, 1326, 1, 1000, 150000,
                    1000, 1, 150000, 32, 150000, 32, 150000, 32, 1, 1, 150000, 1, 150000, 4,
                    103599, 248, 1, 103599, 248, 1, 145276, 1366, 1, 179690, 497, 1, 150000, 32,
                    150000, 32, 150000, 32, 150000, 32, 150000, 32, 150000, 32, 148000, 425507,
                    118, 0, 1, 1, 61516, 11218, 0, 1, 150000, 32, 148000, 425507, 118, 0, 1, 1,
                    148000, 425507, 118, 0, 1, 1, 2477736, 29175, 4, 0, 82363, 4, 150000, 5000, 0,
                    1, 150000, 32, 197209, 0, 1, 1, 150000, 32, 150000, 32, 150000, 32, 150000, 32,
                    150000, 32, 150000, 32, 150000, 32, 3345831, 1, 1,
                ]),

                plutus_v2: None,
                plutus_v3: None,
                unknown: BTreeMap::default(),
            },
            execution_costs: pallas_primitives::ExUnitPrices {
                mem_price: RationalNumber {
                    numerator: 577,
                    denominator: 10000,
                },
                step_price: RationalNumber {
                    numerator: 721,
                    denominator: 10000000,
                },
            },
            max_tx_ex_units: ExUnits {
                mem: 14000000,
                steps: 10000000000,
            },
            max_block_ex_units: ExUnits {
                mem: 62000000,
                steps: 40000000000,
            },
            max_value_size: 5000,
            collateral_percentage: 150,
            max_collateral_inputs: 3,
            pool_voting_thresholds: PoolVotingThresholds {
                motion_no_confidence: RationalNumber {
                    numerator: 50,
                    denominator: 100,
                },
                committee_normal: RationalNumber {
                    numerator: 60,
                    denominator: 100,
                },
                committee_no_confidence: RationalNumber {
                    numerator: 40,
                    denominator: 100,
                },
                hard_fork_initiation: RationalNumber {
                    numerator: 75,
                    denominator: 100,
                },
                security_voting_threshold: RationalNumber {
                    numerator: 80,
                    denominator: 100,
                },
            },
            drep_voting_thresholds: DRepVotingThresholds {
                motion_no_confidence: RationalNumber {
                    numerator: 10,
                    denominator: 100,
                },
                committee_normal: RationalNumber {
                    numerator: 25,
                    denominator: 100,
                },
                committee_no_confidence: RationalNumber {
                    numerator: 15,
                    denominator: 100,
                },
                update_constitution: RationalNumber {
                    numerator: 50,
                    denominator: 100,
                },
                hard_fork_initiation: RationalNumber {
                    numerator: 60,
                    denominator: 100,
                },
                pp_network_group: RationalNumber {
                    numerator: 55,
                    denominator: 100,
                },
                pp_economic_group: RationalNumber {
                    numerator: 65,
                    denominator: 100,
                },
                pp_technical_group: RationalNumber {
                    numerator: 70,
                    denominator: 100,
                },
                pp_governance_group: RationalNumber {
                    numerator: 85,
                    denominator: 100,
                },
                treasury_withdrawal: RationalNumber {
                    numerator: 90,
                    denominator: 100,
                },
            },
            min_committee_size: 10,
            committee_term_limit: 5,
            governance_action_validity_period: 3600, // in seconds
            governance_action_deposit: 1000,         // arbitrary value
            drep_deposit: 2000,                      // arbitrary value
            drep_inactivity_period: 60,              // in seconds
            minfee_refscript_cost_per_byte: RationalNumber {
                numerator: 10,
                denominator: 100,
            },
        }
    }

    pub fn mk_mainnet_params_epoch_380() -> ConwayProtParams {
        ConwayProtParams {
            system_start: "2022-10-25T00:00:00Z".parse().unwrap(),
            epoch_length: 432000,
            slot_length: 1,
            minfee_a: 44,
            minfee_b: 155381,
            max_block_body_size: 90112,
            max_transaction_size: 16384,
            max_block_header_size: 1100,
            key_deposit: 2000000,
            pool_deposit: 500000000,
            maximum_epoch: 18,
            desired_number_of_stake_pools: 500,
            pool_pledge_influence: RationalNumber {
                numerator: 3,
                denominator: 10,
            },
            expansion_rate: RationalNumber {
                numerator: 3,
                denominator: 1000,
            },
            treasury_growth_rate: RationalNumber {
                numerator: 2,
                denominator: 10,
            },
            protocol_version: (7, 0),
            min_pool_cost: 340000000,
            ada_per_utxo_byte: 4310,
            cost_models_for_script_languages: CostModels {
                plutus_v1: Some(vec![
                    205665, 812, 1, 1, 1000, 571, 0, 1, 1000, 24177, 4, 1, 1000, 32, 117366, 10475,
                    4, 23000, 100, 23000, 100, 23000, 100, 23000, 100, 23000, 100, 23000, 100, 100,
                    100, 23000, 100, 19537, 32, 175354, 32, 46417, 4, 221973, 511, 0, 1, 89141, 32,
                    497525, 14068, 4, 2, 196500, 453240, 220, 0, 1, 1, 1000, 28662, 4, 2, 245000,
                    216773, 62, 1, 1060367, 12586, 1, 208512, 421, 1, 187000, 1000, 52998, 1,
                    80436, 32, 43249, 32, 1000, 32, 80556, 1, 57667, 4, 1000, 10, 197145, 156, 1,
                    197145, 156, 1, 204924, 473, 1, 208896, 511, 1, 52467, 32, 64832, 32, 65493,
                    32, 22558, 32, 16563, 32, 76511, 32, 196500, 453240, 220, 0, 1, 1, 69522,
                    11687, 0, 1, 60091, 32, 196500, 453240, 220, 0, 1, 1, 196500, 453240, 220, 0,
                    1, 1, 806990, 30482, 4, 1927926, 82523, 4, 265318, 0, 4, 0, 85931, 32, 205665,
                    812, 1, 1, 41182, 32, 212342, 32, 31220, 32, 32696, 32, 43357, 32, 32247, 32,
                    38314, 32, 9462713, 1021, 10,
                ]),

                plutus_v2: Some(vec![
                    205665,
                    812,
                    1,
                    1,
                    1000,
                    571,
                    0,
                    1,
                    1000,
                    24177,
                    4,
                    1,
                    1000,
                    32,
                    117366,
                    10475,
                    4,
                    23000,
                    100,
                    23000,
                    100,
                    23000,
                    100,
                    23000,
                    100,
                    23000,
                    100,
                    23000,
                    100,
                    100,
                    100,
                    23000,
                    100,
                    19537,
                    32,
                    175354,
                    32,
                    46417,
                    4,
                    221973,
                    511,
                    0,
                    1,
                    89141,
                    32,
                    497525,
                    14068,
                    4,
                    2,
                    196500,
                    453240,
                    220,
                    0,
                    1,
                    1,
                    1000,
                    28662,
                    4,
                    2,
                    245000,
                    216773,
                    62,
                    1,
                    1060367,
                    12586,
                    1,
                    208512,
                    421,
                    1,
                    187000,
                    1000,
                    52998,
                    1,
                    80436,
                    32,
                    43249,
                    32,
                    1000,
                    32,
                    80556,
                    1,
                    57667,
                    4,
                    1000,
                    10,
                    197145,
                    156,
                    1,
                    197145,
                    156,
                    1,
                    204924,
                    473,
                    1,
                    208896,
                    511,
                    1,
                    52467,
                    32,
                    64832,
                    32,
                    65493,
                    32,
                    22558,
                    32,
                    16563,
                    32,
                    76511,
                    32,
                    196500,
                    453240,
                    220,
                    0,
                    1,
                    1,
                    69522,
                    11687,
                    0,
                    1,
                    60091,
                    32,
                    196500,
                    453240,
                    220,
                    0,
                    1,
                    1,
                    196500,
                    453240,
                    220,
                    0,
                    1,
                    1,
                    1159724,
                    392670,
                    0,
                    2,
                    806990,
                    30482,
                    4,
                    1927926,
                    82523,
                    4,
                    265318,
                    0,
                    4,
                    0,
                    85931,
                    32,
                    205665,
                    812,
                    1,
                    1,
                    41182,
                    32,
                    212342,
                    32,
                    31220,
                    32,
                    32696,
                    32,
                    43357,
                    32,
                    32247,
                    32,
                    38314,
                    32,
                    20000000000,
                    20000000000,
                    9462713,
                    1021,
                    10,
                    20000000000,
                    0,
                    20000000000,
                ]),
                plutus_v3: Some(vec![
                    100788, 420, 1, 1, 1000, 173, 0, 1, 1000, 59957, 4, 1, 11183, 32, 201305, 8356,
                    4, 16000, 100, 16000, 100, 16000, 100, 16000, 100, 16000, 100, 16000, 100, 100,
                    100, 16000, 100, 94375, 32, 132994, 32, 61462, 4, 72010, 178, 0, 1, 22151, 32,
                    91189, 769, 4, 2, 85848, 123203, 7305, -900, 1716, 549, 57, 85848, 0, 1, 1,
                    1000, 42921, 4, 2, 24548, 29498, 38, 1, 898148, 27279, 1, 51775, 558, 1, 39184,
                    1000, 60594, 1, 141895, 32, 83150, 32, 15299, 32, 76049, 1, 13169, 4, 22100,
                    10, 28999, 74, 1, 28999, 74, 1, 43285, 552, 1, 44749, 541, 1, 33852, 32, 68246,
                    32, 72362, 32, 7243, 32, 7391, 32, 11546, 32, 85848, 123203, 7305, -900, 1716,
                    549, 57, 85848, 0, 1, 90434, 519, 0, 1, 74433, 32, 85848, 123203, 7305, -900,
                    1716, 549, 57, 85848, 0, 1, 1, 85848, 123203, 7305, -900, 1716, 549, 57, 85848,
                    0, 1, 955506, 213312, 0, 2, 270652, 22588, 4, 1457325, 64566, 4, 20467, 1, 4,
                    0, 141992, 32, 100788, 420, 1, 1, 81663, 32, 59498, 32, 20142, 32, 24588, 32,
                    20744, 32, 25933, 32, 24623, 32, 43053543, 10, 53384111, 14333, 10, 43574283,
                    26308, 10, 16000, 100, 16000, 100, 962335, 18, 2780678, 6, 442008, 1, 52538055,
                    3756, 18, 267929, 18, 76433006, 8868, 18, 52948122, 18, 1995836, 36, 3227919,
                    12, 901022, 1, 166917843, 4307, 36, 284546, 36, 158221314, 26549, 36, 74698472,
                    36, 333849714, 1, 254006273, 72, 2174038, 72, 2261318, 64571, 4, 207616, 8310,
                    4, 1293828, 28716, 63, 0, 1, 1006041, 43623, 251, 0, 1, 100181, 726, 719, 0, 1,
                    100181, 726, 719, 0, 1, 100181, 726, 719, 0, 1, 107878, 680, 0, 1, 95336, 1,
                    281145, 18848, 0, 1, 180194, 159, 1, 1, 158519, 8942, 0, 1, 159378, 8813, 0, 1,
                    107490, 3298, 1, 106057, 655, 1, 1964219, 24520, 3,
                ]),
                unknown: BTreeMap::default(),
            },
            execution_costs: pallas_primitives::ExUnitPrices {
                mem_price: RationalNumber {
                    numerator: 577,
                    denominator: 10000,
                },
                step_price: RationalNumber {
                    numerator: 721,
                    denominator: 10000000,
                },
            },
            max_tx_ex_units: ExUnits {
                mem: 14000000,
                steps: 10000000000,
            },
            max_block_ex_units: ExUnits {
                mem: 62000000,
                steps: 40000000000,
            },
            max_value_size: 5000,
            collateral_percentage: 150,
            max_collateral_inputs: 3,
            pool_voting_thresholds: PoolVotingThresholds {
                motion_no_confidence: RationalNumber {
                    numerator: 0,
                    denominator: 1,
                },
                committee_normal: RationalNumber {
                    numerator: 0,
                    denominator: 1,
                },
                committee_no_confidence: RationalNumber {
                    numerator: 0,
                    denominator: 1,
                },
                hard_fork_initiation: RationalNumber {
                    numerator: 0,
                    denominator: 1,
                },
                security_voting_threshold: RationalNumber {
                    numerator: 0,
                    denominator: 1,
                },
            },
            drep_voting_thresholds: DRepVotingThresholds {
                motion_no_confidence: RationalNumber {
                    numerator: 0,
                    denominator: 1,
                },
                committee_normal: RationalNumber {
                    numerator: 0,
                    denominator: 1,
                },
                committee_no_confidence: RationalNumber {
                    numerator: 0,
                    denominator: 1,
                },
                update_constitution: RationalNumber {
                    numerator: 0,
                    denominator: 1,
                },
                hard_fork_initiation: RationalNumber {
                    numerator: 0,
                    denominator: 1,
                },
                pp_network_group: RationalNumber {
                    numerator: 0,
                    denominator: 1,
                },
                pp_economic_group: RationalNumber {
                    numerator: 0,
                    denominator: 1,
                },
                pp_technical_group: RationalNumber {
                    numerator: 0,
                    denominator: 1,
                },
                pp_governance_group: RationalNumber {
                    numerator: 0,
                    denominator: 1,
                },
                treasury_withdrawal: RationalNumber {
                    numerator: 0,
                    denominator: 1,
                },
            },
            min_committee_size: 0,
            committee_term_limit: 0,
            governance_action_validity_period: 0,
            governance_action_deposit: 0,
            drep_deposit: 0,
            drep_inactivity_period: 0,
            minfee_refscript_cost_per_byte: RationalNumber {
                numerator: 0,
                denominator: 1,
            },
        }
    }

    pub fn mk_preview_params_epoch_380() -> ConwayProtParams {
        ConwayProtParams {
            system_start: "2022-10-25T00:00:00Z".parse().unwrap(),
            epoch_length: 432000,
            slot_length: 1,
            minfee_a: 44,
            minfee_b: 155381,
            max_block_body_size: 90112,
            max_transaction_size: 16384,
            max_block_header_size: 1100,
            key_deposit: 2000000,
            pool_deposit: 500000000,
            maximum_epoch: 18,
            desired_number_of_stake_pools: 500,
            pool_pledge_influence: RationalNumber {
                numerator: 3,
                denominator: 10,
            },
            expansion_rate: RationalNumber {
                numerator: 3,
                denominator: 1000,
            },
            treasury_growth_rate: RationalNumber {
                numerator: 2,
                denominator: 10,
            },
            protocol_version: (8, 0),
            min_pool_cost: 340000000,
            ada_per_utxo_byte: 4310,
            cost_models_for_script_languages: CostModels {
                plutus_v1: Some(vec![
                    205665, 812, 1, 1, 1000, 571, 0, 1, 1000, 24177, 4, 1, 1000, 32, 117366, 10475,
                    4, 23000, 100, 23000, 100, 23000, 100, 23000, 100, 23000, 100, 23000, 100, 100,
                    100, 23000, 100, 19537, 32, 175354, 32, 46417, 4, 221973, 511, 0, 1, 89141, 32,
                    497525, 14068, 4, 2, 196500, 453240, 220, 0, 1, 1, 1000, 28662, 4, 2, 245000,
                    216773, 62, 1060367, 12586, 1, 208512, 421, 1, 187000, 1000, 52998, 1, 80436,
                    32, 43249, 32, 1000, 32, 80556, 1, 57667, 4, 1000, 10, 197145, 156, 1, 197145,
                    156, 1, 204924, 473, 1, 208896, 511, 1, 52467, 32, 64832, 32, 65493, 32, 22558,
                    32, 16563, 32, 76511, 32, 196500, 453240, 220, 0, 1, 1, 69522, 11687, 0, 1,
                    60091, 32, 196500, 453240, 220, 0, 1, 1, 196500, 453240, 220, 0, 1, 1, 806990,
                    30482, 4, 1927926, 82523, 4, 265318, 0, 4, 0, 85931, 32, 205665, 812, 1, 1,
                    41182, 32, 212342, 32, 31220, 32, 32696, 32, 43357, 32, 32247, 32, 38314, 32,
                    9462713, 1021, 10,
                ]),

                plutus_v2: Some(vec![
                    205665, 812, 1, 1, 1000, 571, 0, 1, 1000, 24177, 4, 1, 1000, 32, 117366, 10475,
                    4, 23000, 100, 23000, 100, 23000, 100, 23000, 100, 23000, 100, 23000, 100, 100,
                    100, 23000, 100, 19537, 32, 175354, 32, 46417, 4, 221973, 511, 0, 1, 89141, 32,
                    497525, 14068, 4, 2, 196500, 453240, 220, 0, 1, 1, 1000, 28662, 4, 2, 245000,
                    216773, 62, 1, 1060367, 12586, 1, 208512, 421, 1, 187000, 1000, 52998, 1,
                    80436, 32, 43249, 32, 1000, 32, 80556, 1, 57667, 4, 1000, 10, 197145, 156, 1,
                    197145, 156, 1, 204924, 473, 1, 208896, 511, 1, 52467, 32, 64832, 32, 65493,
                    32, 22558, 32, 16563, 32, 76511, 32, 196500, 453240, 220, 0, 1, 1, 69522,
                    11687, 0, 1, 60091, 32, 196500, 453240, 220, 0, 1, 1, 196500, 453240, 220, 0,
                    1, 1, 1159724, 392670, 0, 2, 806990, 30482, 4, 1927926, 82523, 4, 265318, 0, 4,
                    0, 85931, 32, 205665, 812, 1, 1, 41182, 32, 212342, 32, 31220, 32, 32696, 32,
                    43357, 32, 32247, 32, 38314, 32, 35892428, 10, 9462713, 1021, 10, 38887044,
                    32947, 10,
                ]),
                plutus_v3: Some(vec![
                    100788, 420, 1, 1, 1000, 173, 0, 1, 1000, 59957, 4, 1, 11183, 32, 201305, 8356,
                    4, 16000, 100, 16000, 100, 16000, 100, 16000, 100, 16000, 100, 16000, 100, 100,
                    100, 16000, 100, 94375, 32, 132994, 32, 61462, 4, 72010, 178, 0, 1, 22151, 32,
                    91189, 769, 4, 2, 85848, 123203, 7305, -900, 1716, 549, 57, 85848, 0, 1, 1,
                    1000, 42921, 4, 2, 24548, 29498, 38, 1, 898148, 27279, 1, 51775, 558, 1, 39184,
                    1000, 60594, 1, 141895, 32, 83150, 32, 15299, 32, 76049, 1, 13169, 4, 22100,
                    10, 28999, 74, 1, 28999, 74, 1, 43285, 552, 1, 44749, 541, 1, 33852, 32, 68246,
                    32, 72362, 32, 7243, 32, 7391, 32, 11546, 32, 85848, 123203, 7305, -900, 1716,
                    549, 57, 85848, 0, 1, 90434, 519, 0, 1, 74433, 32, 85848, 123203, 7305, -900,
                    1716, 549, 57, 85848, 0, 1, 1, 85848, 123203, 7305, -900, 1716, 549, 57, 85848,
                    0, 1, 955506, 213312, 0, 2, 270652, 22588, 4, 1457325, 64566, 4, 20467, 1, 4,
                    0, 141992, 32, 100788, 420, 1, 1, 81663, 32, 59498, 32, 20142, 32, 24588, 32,
                    20744, 32, 25933, 32, 24623, 32, 43053543, 10, 53384111, 14333, 10, 43574283,
                    26308, 10, 16000, 100, 16000, 100, 962335, 18, 2780678, 6, 442008, 1, 52538055,
                    3756, 18, 267929, 18, 76433006, 8868, 18, 52948122, 18, 1995836, 36, 3227919,
                    12, 901022, 1, 166917843, 4307, 36, 284546, 36, 158221314, 26549, 36, 74698472,
                    36, 333849714, 1, 254006273, 72, 2174038, 72, 2261318, 64571, 4, 207616, 8310,
                    4, 1293828, 28716, 63, 0, 1, 1006041, 43623, 251, 0, 1, 100181, 726, 719, 0, 1,
                    100181, 726, 719, 0, 1, 100181, 726, 719, 0, 1, 107878, 680, 0, 1, 95336, 1,
                    281145, 18848, 0, 1, 180194, 159, 1, 1, 158519, 8942, 0, 1, 159378, 8813, 0, 1,
                    107490, 3298, 1, 106057, 655, 1, 1964219, 24520, 3,
                ]),
                unknown: BTreeMap::default(),
            },
            execution_costs: pallas_primitives::ExUnitPrices {
                mem_price: RationalNumber {
                    numerator: 577,
                    denominator: 10000,
                },
                step_price: RationalNumber {
                    numerator: 721,
                    denominator: 10000000,
                },
            },
            max_tx_ex_units: ExUnits {
                mem: 14000000,
                steps: 10000000000,
            },
            max_block_ex_units: ExUnits {
                mem: 62000000,
                steps: 40000000000,
            },
            max_value_size: 5000,
            collateral_percentage: 150,
            max_collateral_inputs: 3,
            pool_voting_thresholds: PoolVotingThresholds {
                motion_no_confidence: RationalNumber {
                    numerator: 0,
                    denominator: 1,
                },
                committee_normal: RationalNumber {
                    numerator: 0,
                    denominator: 1,
                },
                committee_no_confidence: RationalNumber {
                    numerator: 0,
                    denominator: 1,
                },
                hard_fork_initiation: RationalNumber {
                    numerator: 0,
                    denominator: 1,
                },
                security_voting_threshold: RationalNumber {
                    numerator: 0,
                    denominator: 1,
                },
            },
            drep_voting_thresholds: DRepVotingThresholds {
                motion_no_confidence: RationalNumber {
                    numerator: 0,
                    denominator: 1,
                },
                committee_normal: RationalNumber {
                    numerator: 0,
                    denominator: 1,
                },
                committee_no_confidence: RationalNumber {
                    numerator: 0,
                    denominator: 1,
                },
                update_constitution: RationalNumber {
                    numerator: 0,
                    denominator: 1,
                },
                hard_fork_initiation: RationalNumber {
                    numerator: 0,
                    denominator: 1,
                },
                pp_network_group: RationalNumber {
                    numerator: 0,
                    denominator: 1,
                },
                pp_economic_group: RationalNumber {
                    numerator: 0,
                    denominator: 1,
                },
                pp_technical_group: RationalNumber {
                    numerator: 0,
                    denominator: 1,
                },
                pp_governance_group: RationalNumber {
                    numerator: 0,
                    denominator: 1,
                },
                treasury_withdrawal: RationalNumber {
                    numerator: 0,
                    denominator: 1,
                },
            },
            min_committee_size: 0,
            committee_term_limit: 0,
            governance_action_validity_period: 0,
            governance_action_deposit: 0,
            drep_deposit: 0,
            drep_inactivity_period: 0,
            minfee_refscript_cost_per_byte: RationalNumber {
                numerator: 0,
                denominator: 1,
            },
        }
    }

    /// every positive fixture of this era
    pub fn all() -> Vec<Fixture> {
        vec![successful_mainnet_tx(), successful_preview_tx_with_plutus_v3_script(), successful_mainnet_tx_with_plutus_v3_script()]
    }
