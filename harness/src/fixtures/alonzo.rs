//! Positive fixtures and protocol-parameter builders ported from pallas-validate/tests/alonzo.rs
//! by /var/tmp one-off extraction (function bodies are verbatim up to the `validate_txs` call).
#![allow(unused, clippy::all)]

use pallas_primitives::MaybeIndefArray;
use super::common::*;
use pallas_addresses::{Address, Network, ShelleyAddress, ShelleyPaymentPart};
use pallas_codec::{
        minicbor::{
            decode::{Decode, Decoder},
            encode,
        },
        utils::{Bytes, KeepRaw},
    };
use pallas_primitives::alonzo::{
        AddrKeyhash, ExUnitPrices, ExUnits, Language, NativeScript, NetworkId, Nonce, NonceVariant,
        PlutusData, RationalNumber, Redeemer, RedeemerTag, TransactionBody, TransactionOutput, Tx,
        VKeyWitness, Value, WitnessSet,
    };
use pallas_traverse::{Era, MultiEraInput, MultiEraOutput, MultiEraTx};
use pallas_validate::{
        phase1::validate_txs,
        utils::{
            AccountState, AlonzoError, AlonzoProtParams, CertState, Environment,
            MultiEraProtocolParameters, UTxOs, ValidationError::*,
        },
    };
use std::borrow::Cow;
use super::Fixture;

    /// ported from pallas-validate/tests/alonzo.rs `successful_mainnet_tx`
    pub fn successful_mainnet_tx() -> Fixture {
        let cbor_bytes: Vec<u8> = cbor_to_bytes(include_str!("data/alonzo1.tx"));
        let mtx: Tx = minted_tx_from_cbor(&cbor_bytes);
        let metx: MultiEraTx = MultiEraTx::from_alonzo_compatible(&mtx, Era::Alonzo);
        let utxos: UTxOs = mk_utxo_for_alonzo_compatible_tx(
            &mtx.transaction_body,
            &[(
                String::from(
                    "018c9ae79bca586ac36dcfdbbf4d2826c685a6969411c338c14973cc7f7bdb37706cd03711fe64747f8cfcfd574c7445cc0378781e77a8cc00",
                ),
                Value::Coin(1549646822),
                None,
            )],
        );

        let acnt = AccountState {
            treasury: 261_254_564_000_000,
            reserves: 0,
        };

        let env: Environment = Environment {
            prot_params: MultiEraProtocolParameters::Alonzo(mk_params_epoch_334()),
            prot_magic: 764824073,
            block_slot: 44237276,
            network_id: 1,
            acnt: Some(acnt),
        };
        let mut cert_state: CertState = CertState::default();
        let tx_cbor: Vec<u8> = cbor_bytes.clone();
        Fixture::from_parts("alonzo.successful_mainnet_tx", pallas_traverse::Era::Alonzo, tx_cbor, &utxos, env, cert_state)
    }

    /// ported from pallas-validate/tests/alonzo.rs `successful_mainnet_tx_with_plutus_script`
    pub fn successful_mainnet_tx_with_plutus_script() -> Fixture {
        let cbor_bytes: Vec<u8> = cbor_to_bytes(include_str!("data/alonzo2.tx"));
        let mtx: Tx = minted_tx_from_cbor(&cbor_bytes);
        let metx: MultiEraTx = MultiEraTx::from_alonzo_compatible(&mtx, Era::Alonzo);
        let mut utxos: UTxOs = mk_utxo_for_alonzo_compatible_tx(
            &mtx.transaction_body,
            &[
                (
                    // (tx hash, tx output index):
                    // (117325a52d60be3a1e4072af39d9e630bf61ce59d315d6c1bf4c4d140f8066ea, 0)
                    String::from("714a59ebd93ea53d1bbf7f82232c7b012700a0cf4bb78d879dabb1a20a"),
                    Value::Multiasset(
                        1724100,
                        [(
                            "b001076b34a87e7d48ec46703a6f50f93289582ad9bdbeff7f1e3295"
                                .parse()
                                .unwrap(),
                            [(
                                Bytes::from(hex::decode("4879706562656173747332343233").unwrap()),
                                1,
                            )]
                            .into(),
                        )]
                        .into(),
                    ),
                    Some(
                        hex::decode(
                            "0C125EDC771B9E590D96B3C7B01CC24F906BD552CECE6D861BFA5F23281E0BBE",
                        )
                        .unwrap()
                        .as_slice()
                        .into(),
                    ),
                ),
                (
                    // (tx hash, tx output index):
                    // (d2f9764fa93ae5bcabbb65c7a2f97d1e31188064ae3d2ba1462114453928dd99, 0)
                    String::from(
                        "01c81ffcbc08ff49965d74f90c391541ff1cc2b043ffe41c81d840be8729f2ae5ed49a1734823ba37fd09923f5f7d494ae0efa23dd98ce02da",
                    ),
                    Value::Coin(20292207),
                    None,
                ),
                (
                    // (tx hash, tx output index):
                    // (9fab354c2825376a943e505d13a3861e4d9ad3e177028d7bb2bbabce5453fa11, 0)
                    String::from(
                        "01c81ffcbc08ff49965d74f90c391541ff1cc2b043ffe41c81d840be8729f2ae5ed49a1734823ba37fd09923f5f7d494ae0efa23dd98ce02da",
                    ),
                    Value::Coin(20292207),
                    None,
                ),
                (
                    // (tx hash, tx output index):
                    // (3077a999b1d22cb1a4e5ee485adbde6a4596704a96384fbc9727028b8b28ba47, 0)
                    String::from(
                        "01c81ffcbc08ff49965d74f90c391541ff1cc2b043ffe41c81d840be8729f2ae5ed49a1734823ba37fd09923f5f7d494ae0efa23dd98ce02da",
                    ),
                    Value::Coin(29792207),
                    None,
                ),
                (
                    // (tx hash, tx output index):
                    // (b231aca45a38add7378d2ed7a0822626fee3396821e8791a5af5926807db962d, 0)
                    String::from(
                        "01c81ffcbc08ff49965d74f90c391541ff1cc2b043ffe41c81d840be8729f2ae5ed49a1734823ba37fd09923f5f7d494ae0efa23dd98ce02da",
                    ),
                    Value::Coin(29792207),
                    None,
                ),
                (
                    // (tx hash, tx output index):
                    // (11579a841b3c7a64aa057c9adf993ef42520570450499b0a724c7ef706b2a435, 0)
                    String::from(
                        "01c81ffcbc08ff49965d74f90c391541ff1cc2b043ffe41c81d840be8729f2ae5ed49a1734823ba37fd09923f5f7d494ae0efa23dd98ce02da",
                    ),
                    Value::Coin(61233231),
                    None,
                ),
                (
                    // (tx hash, tx output index):
                    // (b857f98162b753d117464c499d53bbbfec5aa38b94bd624e295a7e3fddc77130, 0)
                    String::from(
                        "01c81ffcbc08ff49965d74f90c391541ff1cc2b043ffe41c81d840be8729f2ae5ed49a1734823ba37fd09923f5f7d494ae0efa23dd98ce02da",
                    ),
                    Value::Coin(20292207),
                    None,
                ),
            ],
        );
        add_collateral_alonzo(
            &mtx.transaction_body,
            &mut utxos,
            &[(
                String::from(
                    "01c81ffcbc08ff49965d74f90c391541ff1cc2b043ffe41c81d840be8729f2ae5ed49a1734823ba37fd09923f5f7d494ae0efa23dd98ce02da",
                ),
                Value::Coin(5000000),
                None,
            )],
        );

        let acnt = AccountState {
            treasury: 261_254_564_000_000,
            reserves: 0,
        };

        let env: Environment = Environment {
            prot_params: MultiEraProtocolParameters::Alonzo(mk_params_epoch_300()),
            prot_magic: 764824073,
            block_slot: 58924928,
            network_id: 1,
            acnt: Some(acnt),
        };
        let mut cert_state: CertState = CertState::default();
        let tx_cbor: Vec<u8> = cbor_bytes.clone();
        Fixture::from_parts("alonzo.successful_mainnet_tx_with_plutus_script", pallas_traverse::Era::Alonzo, tx_cbor, &utxos, env, cert_state)
    }

    /// ported from pallas-validate/tests/alonzo.rs `successful_mainnet_tx_with_minting`
    pub fn successful_mainnet_tx_with_minting() -> Fixture {
        let cbor_bytes: Vec<u8> = cbor_to_bytes(include_str!("data/alonzo3.tx"));
        let mtx: Tx = minted_tx_from_cbor(&cbor_bytes);
        let metx: MultiEraTx = MultiEraTx::from_alonzo_compatible(&mtx, Era::Alonzo);
        let utxos: UTxOs = mk_utxo_for_alonzo_compatible_tx(
            &mtx.transaction_body,
            &[(
                String::from("612e137a27a74aca6caff726fb9da65c371ad2d7f1cc8645648fcc11d1"),
                Value::Coin(100107582),
                None,
            )],
        );

        let acnt = AccountState {
            treasury: 261_254_564_000_000,
            reserves: 0,
        };

        let env: Environment = Environment {
            prot_params: MultiEraProtocolParameters::Alonzo(mk_params_epoch_300()),
            prot_magic: 764824073,
            block_slot: 6447035,
            network_id: 1,
            acnt: Some(acnt),
        };
        let mut cert_state: CertState = CertState::default();
        let tx_cbor: Vec<u8> = cbor_bytes.clone();
        Fixture::from_parts("alonzo.successful_mainnet_tx_with_minting", pallas_traverse::Era::Alonzo, tx_cbor, &utxos, env, cert_state)
    }

    /// ported from pallas-validate/tests/alonzo.rs `successful_mainnet_tx_with_metadata`
    pub fn successful_mainnet_tx_with_metadata() -> Fixture {
        let cbor_bytes: Vec<u8> = cbor_to_bytes(include_str!("data/alonzo4.tx"));
        let mtx: Tx = minted_tx_from_cbor(&cbor_bytes);
        let metx: MultiEraTx = MultiEraTx::from_alonzo_compatible(&mtx, Era::Alonzo);
        let utxos: UTxOs = mk_utxo_for_alonzo_compatible_tx(
            &mtx.transaction_body,
            &[(
                String::from(
                    "01f64b141bfa7761c00a48a137b15d433af02c9275dbf52ea95566b59cb4f05ecc9fd8c9066ef7fd907db854c76caf6462b132ce133dc7cc44",
                ),
                Value::Coin(3224834468),
                None,
            )],
        );

        let acnt = AccountState {
            treasury: 261_254_564_000_000,
            reserves: 0,
        };

        let env: Environment = Environment {
            prot_params: MultiEraProtocolParameters::Alonzo(mk_params_epoch_300()),
            prot_magic: 764824073,
            block_slot: 6447038,
            network_id: 1,
            acnt: Some(acnt),
        };
        let mut cert_state: CertState = CertState::default();
        let tx_cbor: Vec<u8> = cbor_bytes.clone();
        Fixture::from_parts("alonzo.successful_mainnet_tx_with_metadata", pallas_traverse::Era::Alonzo, tx_cbor, &utxos, env, cert_state)
    }

    pub fn mk_params_epoch_334() -> AlonzoProtParams {
        AlonzoProtParams {
            system_start: "2017-09-23T21:44:51Z".parse().unwrap(),
            epoch_length: 432000,
            slot_length: 1,
            minfee_a: 44,
            minfee_b: 155381,
            max_block_body_size: 65536,
            max_transaction_size: 16384,
            max_block_header_size: 1100,
            key_deposit: 2000000,
            pool_deposit: 500000000,
            maximum_epoch: 18,
            desired_number_of_stake_pools: 500,
            pool_pledge_influence: RationalNumber {
                numerator: 3,
                denominator: 10,
            },
            expansion_rate: RationalNumber {
                numerator: 3,
                denominator: 1000,
            },
            treasury_growth_rate: RationalNumber {
                numerator: 2,
                denominator: 10,
            },
            decentralization_constant: RationalNumber {
                numerator: 0,
                denominator: 1,
            },
            extra_entropy: Nonce {
                variant: NonceVariant::NeutralNonce,
                hash: None,
            },
            protocol_version: (6, 0),
            min_pool_cost: 340000000,
            ada_per_utxo_byte: 34482,
            cost_models_for_script_languages: [(
                Language::PlutusV1,
                vec![
                    197209, 0, 1, 1, 396231, 621, 0, 1, 150000, 1000, 0, 1, 150000, 32, 2477736,
                    29175, 4, 29773, 100, 29773, 100, 29773, 100, 29773, 100, 29773, 100, 29773,
                    100, 100, 100, 29773, 100, 150000, 32, 150000, 32, 150000, 32, 150000, 1000, 0,
                    1, 150000, 32, 150000, 1000, 0, 8, 148000, 425507, 118, 0, 1, 1, 150000, 1000,
                    0, 8, 150000, 112536, 247, 1, 150000, 10000, 1, 136542, 1326, 1, 1000, 150000,
                    1000, 1, 150000, 32, 150000, 32, 150000, 32, 1, 1, 150000, 1, 150000, 4,
                    103599, 248, 1, 103599, 248, 1, 145276, 1366, 1, 179690, 497, 1, 150000, 32,
                    150000, 32, 150000, 32, 150000, 32, 150000, 32, 150000, 32, 148000, 425507,
                    118, 0, 1, 1, 61516, 11218, 0, 1, 150000, 32, 148000, 425507, 118, 0, 1, 1,
                    148000, 425507, 118, 0, 1, 1, 2477736, 29175, 4, 0, 82363, 4, 150000, 5000, 0,
                    1, 150000, 32, 197209, 0, 1, 1, 150000, 32, 150000, 32, 150000, 32, 150000, 32,
                    150000, 32, 150000, 32, 150000, 32, 3345831, 1, 1,
                ],
            )]
            .into(),
            execution_costs: ExUnitPrices {
                mem_price: RationalNumber {
                    numerator: 577,
                    denominator: 10000,
                },
                step_price: RationalNumber {
                    numerator: 721,
                    denominator: 10000000,
                },
            },
            max_tx_ex_units: ExUnits {
                mem: 10000000,
                steps: 10000000000,
            },
            max_block_ex_units: ExUnits {
                mem: 50000000,
                steps: 40000000000,
            },
            max_value_size: 5000,
            collateral_percentage: 150,
            max_collateral_inputs: 3,
        }
    }

    pub fn mk_params_epoch_300() -> AlonzoProtParams {
        AlonzoProtParams {
            system_start: "2017-09-23T21:44:51Z".parse().unwrap(),
            epoch_length: 432000,
            slot_length: 1,
            minfee_a: 44,
            minfee_b: 155381,
            max_block_body_size: 81920,
            max_transaction_size: 16384,
            max_block_header_size: 1100,
            key_deposit: 2000000,
            pool_deposit: 500000000,
            maximum_epoch: 18,
            desired_number_of_stake_pools: 500,
            pool_pledge_influence: RationalNumber {
                numerator: 3,
                denominator: 10,
            },
            expansion_rate: RationalNumber {
                numerator: 3,
                denominator: 1000,
            },
            treasury_growth_rate: RationalNumber {
                numerator: 2,
                denominator: 10,
            },
            decentralization_constant: RationalNumber {
                numerator: 0,
                denominator: 1,
            },
            extra_entropy: Nonce {
                variant: NonceVariant::NeutralNonce,
                hash: None,
            },
            protocol_version: (6, 0),
            min_pool_cost: 340000000,
            ada_per_utxo_byte: 34482,
            cost_models_for_script_languages: [(
                Language::PlutusV1,
                vec![
                    197209, 0, 1, 1, 396231, 621, 0, 1, 150000, 1000, 0, 1, 150000, 32, 2477736,
                    29175, 4, 29773, 100, 29773, 100, 29773, 100, 29773, 100, 29773, 100, 29773,
                    100, 100, 100, 29773, 100, 150000, 32, 150000, 32, 150000, 32, 150000, 1000, 0,
                    1, 150000, 32, 150000, 1000, 0, 8, 148000, 425507, 118, 0, 1, 1, 150000, 1000,
                    0, 8, 150000, 112536, 247, 1, 150000, 10000, 1, 136542, 1326, 1, 1000, 150000,
                    1000, 1, 150000, 32, 150000, 32, 150000, 32, 1, 1, 150000, 1, 150000, 4,
                    103599, 248, 1, 103599, 248, 1, 145276, 1366, 1, 179690, 497, 1, 150000, 32,
                    150000, 32, 150000, 32, 150000, 32, 150000, 32, 150000, 32, 148000, 425507,
                    118, 0, 1, 1, 61516, 11218, 0, 1, 150000, 32, 148000, 425507, 118, 0, 1, 1,
                    148000, 425507, 118, 0, 1, 1, 2477736, 29175, 4, 0, 82363, 4, 150000, 5000, 0,
                    1, 150000, 32, 197209, 0, 1, 1, 150000, 32, 150000, 32, 150000, 32, 150000, 32,
                    150000, 32, 150000, 32, 150000, 32, 3345831, 1, 1,
                ],
            )]
            .into(),
            execution_costs: ExUnitPrices {
                mem_price: RationalNumber {
                    numerator: 577,
                    denominator: 10000,
                },
                step_price: RationalNumber {
                    numerator: 721,
                    denominator: 10000000,
                },
            },
            max_tx_ex_units: ExUnits {
                mem: 14000000,
                steps: 10000000000,
            },
            max_block_ex_units: ExUnits {
                mem: 62000000,
                steps: 40000000000,
            },
            max_value_size: 5000,
            collateral_percentage: 150,
            max_collateral_inputs: 3,
        }
    }

    /// every positive fixture of this era
    pub fn all() -> Vec<Fixture> {
        vec![successful_mainnet_tx(), successful_mainnet_tx_with_plutus_script(), successful_mainnet_tx_with_minting(), successful_mainnet_tx_with_metadata()]
    }
