//! Protocol specification tables used as the harness-side oracle of C23 / C24 (typed from DESIGN.md
//! Appendix A — Ouroboros network specification, CIP-164 — independently of the Lean tables and of
//! the code). `C`/`S`/`N` = who has agency in a state.
#![allow(dead_code)]
pub struct PSpec {
    pub name: &'static str,
    pub init: &'static str,
    /// state class, number of payload fields
    pub states: &'static [(&'static str, usize)],
    /// message class, number of payload fields
    pub msgs: &'static [(&'static str, usize)],
    /// (state, message, successor, carried message fields)
    pub trans: &'static [(&'static str, &'static str, &'static str, &'static [usize])],
}

/// DESIGN.md Appendix A (Ouroboros network spec, CIP-164), in the vocabulary of the Rust enums.
pub const SPEC_N2: &[PSpec] = &[
    PSpec { name: "handshake", init: "Propose",
        states: &[("Propose", 0), ("Confirm", 1), ("Done", 1)],
        msgs: &[("Propose", 1), ("Accept", 2), ("Refuse", 1), ("QueryReply", 1)],
        trans: &[("Propose", "Propose", "Confirm", &[0]), ("Confirm", "Accept", "Done", &[0, 1]),
                 ("Confirm", "Refuse", "Done", &[0]), ("Confirm", "QueryReply", "Done", &[0])] },
    PSpec { name: "chainsync", init: "Idle",
        states: &[("Idle", 1), ("CanAwait", 0), ("MustReply", 0), ("Intersect", 1), ("Done", 0)],
        msgs: &[("RequestNext", 0), ("AwaitReply", 0), ("RollForward", 2), ("RollBackward", 2), ("FindIntersect", 1),
                ("IntersectFound", 2), ("IntersectNotFound", 1), ("Done", 0)],
        trans: &[("Idle", "RequestNext", "CanAwait", &[]), ("Idle", "FindIntersect", "Intersect", &[0]), ("Idle", "Done", "Done", &[]),
                 ("CanAwait", "AwaitReply", "MustReply", &[]), ("CanAwait", "RollForward", "Idle", &[0, 1]),
                 ("CanAwait", "RollBackward", "Idle", &[0, 1]), ("MustReply", "RollForward", "Idle", &[0, 1]),
                 ("MustReply", "RollBackward", "Idle", &[0, 1]), ("Intersect", "IntersectFound", "Idle", &[0, 1]),
                 ("Intersect", "IntersectNotFound", "Idle", &[0])] },
    PSpec { name: "blockfetch", init: "Idle",
        states: &[("Idle", 0), ("Busy", 1), ("Streaming", 1), ("Done", 0)],
        msgs: &[("RequestRange", 1), ("ClientDone", 0), ("StartBatch", 0), ("NoBlocks", 0), ("Block", 1), ("BatchDone", 0)],
        trans: &[("Idle", "RequestRange", "Busy", &[0]), ("Idle", "ClientDone", "Done", &[]), ("Busy", "StartBatch", "Streaming", &[]),
                 ("Busy", "NoBlocks", "Idle", &[]), ("Streaming", "Block", "Streaming", &[0]), ("Streaming", "BatchDone", "Idle", &[])] },
    PSpec { name: "txsubmission", init: "Init",
        states: &[("Init", 0), ("Idle", 0), ("TxIdsNonBlocking", 0), ("TxIdsBlocking", 0), ("Txs", 1), ("Done", 0)],
        msgs: &[("Init", 0), ("RequestTxIds(true)", 3), ("RequestTxIds(false)", 3), ("ReplyTxIds", 1), ("RequestTxs", 1),
                ("ReplyTxs", 1), ("Done", 0)],
        trans: &[("Init", "Init", "Idle", &[]), ("Idle", "RequestTxIds(true)", "TxIdsBlocking", &[]),
                 ("Idle", "RequestTxIds(false)", "TxIdsNonBlocking", &[]), ("Idle", "RequestTxs", "Txs", &[]),
                 ("TxIdsBlocking", "ReplyTxIds", "Idle", &[]), ("TxIdsBlocking", "Done", "Done", &[]),
                 ("TxIdsNonBlocking", "ReplyTxIds", "Idle", &[]), ("Txs", "ReplyTxs", "Idle", &[])] },
    PSpec { name: "keepalive", init: "Client",
        states: &[("Client", 1), ("Server", 1), ("Done", 0)],
        msgs: &[("KeepAlive", 1), ("ResponseKeepAlive", 1), ("Done", 0)],
        trans: &[("Client", "KeepAlive", "Server", &[0]), ("Client", "Done", "Done", &[]), ("Server", "ResponseKeepAlive", "Client", &[0])] },
    PSpec { name: "peersharing", init: "Idle",
        states: &[("Idle", 1), ("Busy", 1), ("Done", 0)],
        msgs: &[("ShareRequest", 1), ("SharePeers", 1), ("Done", 0)],
        trans: &[("Idle", "ShareRequest", "Busy", &[0]), ("Idle", "Done", "Done", &[]), ("Busy", "SharePeers", "Idle", &[0])] },
    PSpec { name: "leiosnotify", init: "Idle",
        states: &[("Idle", 1), ("Busy", 0), ("Done", 0)],
        msgs: &[("RequestNext", 0), ("BlockAnnouncement", 1), ("BlockOffer", 2), ("BlockTxsOffer", 1), ("Votes", 1), ("Done", 0)],
        trans: &[("Idle", "RequestNext", "Busy", &[]), ("Idle", "Done", "Done", &[]), ("Busy", "BlockAnnouncement", "Idle", &[0]),
                 ("Busy", "BlockOffer", "Idle", &[0, 1]), ("Busy", "BlockTxsOffer", "Idle", &[0]), ("Busy", "Votes", "Idle", &[0])] },
    PSpec { name: "leiosfetch", init: "Idle",
        states: &[("Idle", 1), ("AwaitingBlock", 1), ("AwaitingBlockTxs", 2), ("Done", 0)],
        msgs: &[("BlockRequest", 1), ("Block", 1), ("BlockTxsRequest", 2), ("BlockTxs", 3), ("Done", 0)],
        trans: &[("Idle", "BlockRequest", "AwaitingBlock", &[0]), ("Idle", "BlockTxsRequest", "AwaitingBlockTxs", &[0, 1]),
                 ("Idle", "Done", "Done", &[]), ("AwaitingBlock", "Block", "Idle", &[0]), ("AwaitingBlockTxs", "BlockTxs", "Idle", &[2])] },
];

impl PSpec {
    pub fn step(&self, st: &str, msg: &str) -> Option<(&'static str, &'static [usize])> {
        self.trans.iter().find(|r| r.0 == st && r.1 == msg).map(|r| (r.2, r.3))
    }
}


/// agency per (protocol, state): 'C' client, 'S' server, 'N' nobody
pub fn agency(proto: &str, st: &str) -> char {
    match (proto, st) {
        (_, "Done") => 'N',
        ("handshake", "Propose") => 'C', ("handshake", "Confirm") => 'S',
        ("chainsync", "Idle") => 'C', ("chainsync", _) => 'S',
        ("blockfetch", "Idle") => 'C', ("blockfetch", _) => 'S',
        ("txsubmission", "Idle") => 'S', ("txsubmission", _) => 'C',
        ("keepalive", "Client") => 'C', ("keepalive", "Server") => 'S',
        ("peersharing", "Idle") => 'C', ("peersharing", "Busy") => 'S',
        ("leiosnotify", "Idle") => 'C', ("leiosnotify", "Busy") => 'S',
        ("leiosfetch", "Idle") => 'C', ("leiosfetch", _) => 'S',
        ("localstate", "Idle") | ("localstate", "Acquired") => 'C', ("localstate", _) => 'S',
        ("localtxsubmission", "Idle") => 'C', ("localtxsubmission", "Busy") => 'S',
        ("txmonitor", "Idle") | ("txmonitor", "Acquired") => 'C', ("txmonitor", _) => 'S',
        _ => '?',
    }
}

/// the three node-to-client protocols of the original stack (the other six share SPEC_N2's tables)
pub const SPEC_N1_LOCAL: &[PSpec] = &[
    PSpec { name: "localstate", init: "Idle",
        states: &[("Idle", 0), ("Acquiring", 0), ("Acquired", 0), ("Querying", 0), ("Done", 0)],
        msgs: &[("Acquire", 1), ("Failure", 1), ("Acquired", 0), ("Query", 1), ("Result", 1), ("ReAcquire", 1), ("Release", 0), ("Done", 0)],
        trans: &[("Idle", "Acquire", "Acquiring", &[]), ("Idle", "Done", "Done", &[]), ("Acquiring", "Acquired", "Acquired", &[]),
                 ("Acquiring", "Failure", "Idle", &[]), ("Acquired", "Query", "Querying", &[]), ("Acquired", "ReAcquire", "Acquiring", &[]),
                 ("Acquired", "Release", "Idle", &[]), ("Querying", "Result", "Acquired", &[])] },
    PSpec { name: "localtxsubmission", init: "Idle",
        states: &[("Idle", 0), ("Busy", 0), ("Done", 0)],
        msgs: &[("SubmitTx", 1), ("AcceptTx", 0), ("RejectTx", 1), ("Done", 0)],
        trans: &[("Idle", "SubmitTx", "Busy", &[]), ("Idle", "Done", "Done", &[]), ("Busy", "AcceptTx", "Idle", &[]), ("Busy", "RejectTx", "Idle", &[])] },
    // wire level: MsgAwaitAcquire = MsgAcquire (label 1); the Rust variant `AwaitAcquire` (label 4) is no message of the specification
    PSpec { name: "txmonitor", init: "Idle",
        states: &[("Idle", 0), ("Acquiring", 0), ("Acquired", 0), ("Busy", 0), ("Done", 0)],
        msgs: &[("Acquire", 0), ("AwaitAcquire", 0), ("Acquired", 1), ("RequestHasTx", 1), ("RequestNextTx", 0), ("RequestSizeAndCapacity", 0),
                ("ResponseHasTx", 1), ("ResponseNextTx", 1), ("ResponseSizeAndCapacity", 1), ("Release", 0), ("Done", 0)],
        trans: &[("Idle", "Acquire", "Acquiring", &[]), ("Idle", "Done", "Done", &[]), ("Acquiring", "Acquired", "Acquired", &[]),
                 ("Acquired", "Acquire", "Acquiring", &[]), ("Acquired", "RequestNextTx", "Busy", &[]), ("Acquired", "RequestHasTx", "Busy", &[]),
                 ("Acquired", "RequestSizeAndCapacity", "Busy", &[]), ("Acquired", "Release", "Idle", &[]),
                 ("Busy", "ResponseNextTx", "Acquired", &[]), ("Busy", "ResponseHasTx", "Acquired", &[]), ("Busy", "ResponseSizeAndCapacity", "Acquired", &[])] },
];

pub const N1_PROTOCOLS: &[&str] = &["handshake", "chainsync", "blockfetch", "txsubmission", "keepalive", "peersharing",
    "localstate", "localtxsubmission", "txmonitor"];

pub fn spec_n1(name: &str) -> Option<&'static PSpec> {
    if !N1_PROTOCOLS.contains(&name) { return None; }
    SPEC_N2.iter().chain(SPEC_N1_LOCAL.iter()).find(|s| s.name == name)
}
