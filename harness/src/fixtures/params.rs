//! Small accessors over `MultiEraProtocolParameters` so streams can re-price a fixture
//! (fee coefficients, size limit, execution-unit budget) without matching on the era each time.
use pallas_validate::utils::{Environment, MultiEraProtocolParameters as P};

/// `(minfee_a, minfee_b)` of the post-Byron eras (`None` for Byron).
pub fn minfee(env: &Environment) -> Option<(u32, u32)> {
    match &env.prot_params {
        P::Shelley(p) => Some((p.minfee_a, p.minfee_b)),
        P::Alonzo(p) => Some((p.minfee_a, p.minfee_b)),
        P::Babbage(p) => Some((p.minfee_a, p.minfee_b)),
        P::Conway(p) => Some((p.minfee_a, p.minfee_b)),
        _ => None,
    }
}

pub fn set_minfee(env: &mut Environment, a: u32, b: u32) {
    match &mut env.prot_params {
        P::Shelley(p) => { p.minfee_a = a; p.minfee_b = b; }
        P::Alonzo(p) => { p.minfee_a = a; p.minfee_b = b; }
        P::Babbage(p) => { p.minfee_a = a; p.minfee_b = b; }
        P::Conway(p) => { p.minfee_a = a; p.minfee_b = b; }
        _ => {}
    }
}

pub fn max_tx_size(env: &Environment) -> Option<u32> {
    match &env.prot_params {
        P::Shelley(p) => Some(p.max_transaction_size),
        P::Alonzo(p) => Some(p.max_transaction_size),
        P::Babbage(p) => Some(p.max_transaction_size),
        P::Conway(p) => Some(p.max_transaction_size),
        _ => None,
    }
}

pub fn set_max_tx_size(env: &mut Environment, n: u32) {
    match &mut env.prot_params {
        P::Shelley(p) => p.max_transaction_size = n,
        P::Alonzo(p) => p.max_transaction_size = n,
        P::Babbage(p) => p.max_transaction_size = n,
        P::Conway(p) => p.max_transaction_size = n,
        _ => {}
    }
}

/// `(mem, steps)` of `max_tx_ex_units` (Alonzo, Babbage, Conway).
pub fn max_tx_ex_units(env: &Environment) -> Option<(u64, u64)> {
    match &env.prot_params {
        P::Alonzo(p) => Some((p.max_tx_ex_units.mem, p.max_tx_ex_units.steps)),
        P::Babbage(p) => Some((p.max_tx_ex_units.mem, p.max_tx_ex_units.steps)),
        P::Conway(p) => Some((p.max_tx_ex_units.mem, p.max_tx_ex_units.steps)),
        _ => None,
    }
}

pub fn set_max_tx_ex_units(env: &mut Environment, mem: u64, steps: u64) {
    match &mut env.prot_params {
        P::Alonzo(p) => { p.max_tx_ex_units.mem = mem; p.max_tx_ex_units.steps = steps; }
        P::Babbage(p) => { p.max_tx_ex_units.mem = mem; p.max_tx_ex_units.steps = steps; }
        P::Conway(p) => { p.max_tx_ex_units.mem = mem; p.max_tx_ex_units.steps = steps; }
        _ => {}
    }
}

/// Lift the rules a synthesized transaction should not trip over: zero fee coefficients, no minimum
/// lovelace per output, no size / value-size limit.
pub fn relax(env: &mut Environment) {
    set_minfee(env, 0, 0);
    set_max_tx_size(env, u32::MAX);
    match &mut env.prot_params {
        P::Shelley(p) => p.min_utxo_value = 0,
        P::Alonzo(p) => { p.ada_per_utxo_byte = 0; p.max_value_size = u32::MAX; }
        P::Babbage(p) => { p.ada_per_utxo_byte = 0; p.max_value_size = u32::MAX; }
        P::Conway(p) => { p.ada_per_utxo_byte = 0; p.max_value_size = u32::MAX; }
        _ => {}
    }
}
