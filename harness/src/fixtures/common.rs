//! Verbatim copy of pallas-validate/tests/common.rs (test-data builders; not code under verification).
#![allow(unused, clippy::all)]
use pallas_codec::{
    minicbor::{self, bytes::ByteVec},
    utils::TagWrap,
};
use pallas_primitives::{
    alonzo::{TransactionBody, TransactionOutput, Tx as AlonzoTx, Value},
    babbage::Tx as BabbageTx,
    byron::{Address, Tx, TxOut, TxPayload},
    conway::Tx as ConwayTx,
};
use pallas_traverse::{Era, MultiEraInput, MultiEraOutput};
use pallas_validate::utils::UTxOs;
use pallas_validate::utils::{EraCbor, TxoRef, UtxoMap};
use std::{borrow::Cow, iter::zip, vec::Vec};

use pallas_codec::utils::{Bytes, CborWrap};
use pallas_crypto::hash::Hash;

// Type aliases to reduce complexity
pub type BabbageTxOutInfo<'a> = (
    String, // address in string format
    Value,
    Option<pallas_primitives::babbage::DatumOption<'a>>,
    Option<CborWrap<pallas_primitives::babbage::ScriptRef<'a>>>,
);

pub type ConwayTxOutInfo<'a> = (
    String, // address in string format
    pallas_primitives::conway::Value,
    Option<pallas_primitives::conway::DatumOption<'a>>,
    Option<CborWrap<pallas_primitives::conway::ScriptRef<'a>>>,
);

pub type ConwayTxOutInfoMut<'a> = (
    String, // address in string format
    pallas_primitives::conway::Value,
    Option<pallas_codec::utils::KeepRaw<'a, pallas_primitives::conway::DatumOption<'a>>>,
    Option<CborWrap<pallas_primitives::conway::ScriptRef<'a>>>,
    Vec<u8>, // Placeholder for CBOR data.
);

pub type AlonzoCollateralInfo = (
    String, // address in string format
    Value,
    Option<Hash<32>>,
);

pub type BabbageCollateralInfo<'a> = (
    String, // address in string format
    Value,
    Option<pallas_primitives::babbage::DatumOption<'a>>,
    Option<CborWrap<pallas_primitives::babbage::ScriptRef<'a>>>,
);

pub type ConwayCollateralInfo<'a> = (
    String, // address in string format
    pallas_primitives::conway::Value,
    Option<pallas_primitives::conway::DatumOption<'a>>,
    Option<CborWrap<pallas_primitives::conway::ScriptRef<'a>>>,
);

pub type ConwayCollateralInfoMut<'a> = (
    String, // address in string format
    pallas_primitives::conway::Value,
    Option<pallas_codec::utils::KeepRaw<'a, pallas_primitives::conway::DatumOption<'a>>>,
    Option<CborWrap<pallas_primitives::conway::ScriptRef<'a>>>,
    Vec<u8>, // Placeholder for CBOR data.
);

pub type BabbageRefInputInfo<'a> = (
    String, // address in string format
    Value,
    Option<pallas_primitives::babbage::DatumOption<'a>>,
    Option<CborWrap<pallas_primitives::babbage::ScriptRef<'a>>>,
);

pub type ConwayRefInputInfo<'a> = (
    String, // address in string format
    pallas_primitives::conway::Value,
    Option<pallas_primitives::conway::DatumOption<'a>>,
    Option<CborWrap<pallas_primitives::conway::ScriptRef<'a>>>,
);

pub type ConwayRefInputInfoMut<'a> = (
    String, // address in string format
    pallas_primitives::conway::Value,
    Option<pallas_codec::utils::KeepRaw<'a, pallas_primitives::conway::DatumOption<'a>>>,
    Option<CborWrap<pallas_primitives::conway::ScriptRef<'a>>>,
    Vec<u8>, // Placeholder for CBOR data.
);

pub fn cbor_to_bytes(input: &str) -> Vec<u8> {
    hex::decode(input).unwrap()
}

pub fn minted_tx_from_cbor(tx_cbor: &[u8]) -> AlonzoTx<'_> {
    pallas_codec::minicbor::decode::<AlonzoTx>(tx_cbor).unwrap()
}

pub fn babbage_minted_tx_from_cbor(tx_cbor: &[u8]) -> BabbageTx<'_> {
    pallas_codec::minicbor::decode::<BabbageTx>(tx_cbor).unwrap()
}

pub fn conway_minted_tx_from_cbor(tx_cbor: &[u8]) -> ConwayTx<'_> {
    pallas_codec::minicbor::decode::<ConwayTx>(tx_cbor).unwrap()
}

pub fn minted_tx_payload_from_cbor(tx_cbor: &[u8]) -> TxPayload<'_> {
    pallas_codec::minicbor::decode::<TxPayload>(tx_cbor).unwrap()
}

pub fn mk_utxo_for_byron_tx<'a>(tx: &Tx, tx_outs_info: &[(String, u64)]) -> UTxOs<'a> {
    let mut utxos: UTxOs = UTxOs::new();
    for (tx_in, (address_payload, amount)) in zip(tx.inputs.clone().to_vec(), tx_outs_info) {
        let input_tx_out_addr: Address = match hex::decode(address_payload) {
            Ok(addr_bytes) => Address {
                payload: TagWrap(ByteVec::from(addr_bytes)),
                crc: 3430631884,
            },
            _ => panic!("Unable to decode input address"),
        };
        let tx_out: TxOut = TxOut {
            address: input_tx_out_addr,
            amount: *amount,
        };
        let multi_era_in: MultiEraInput = MultiEraInput::Byron(Box::new(Cow::Owned(tx_in)));
        let multi_era_out: MultiEraOutput = MultiEraOutput::Byron(Box::new(Cow::Owned(tx_out)));
        utxos.insert(multi_era_in, multi_era_out);
    }
    utxos
}

pub fn mk_utxo_for_alonzo_compatible_tx<'a>(
    tx_body: &TransactionBody,
    tx_outs_info: &[(
        String, // address in string format
        Value,
        Option<Hash<32>>,
    )],
) -> UTxOs<'a> {
    let mut utxos: UTxOs = UTxOs::new();
    for (tx_in, (address, amount, datum_hash)) in zip(tx_body.inputs.clone(), tx_outs_info) {
        let multi_era_in: MultiEraInput =
            MultiEraInput::AlonzoCompatible(Box::new(Cow::Owned(tx_in)));
        let address_bytes: Bytes = match hex::decode(address) {
            Ok(bytes_vec) => Bytes::from(bytes_vec),
            _ => panic!("Unable to decode input address"),
        };
        let tx_out: TransactionOutput = TransactionOutput {
            address: address_bytes,
            amount: amount.clone(),
            datum_hash: *datum_hash,
        };
        let multi_era_out: MultiEraOutput =
            MultiEraOutput::AlonzoCompatible(Box::new(Cow::Owned(tx_out)), Era::Alonzo);
        utxos.insert(multi_era_in, multi_era_out);
    }
    utxos
}

pub fn mk_utxo_for_babbage_tx<'a>(
    tx_body: &pallas_primitives::babbage::TransactionBody,
    tx_outs_info: &'a [BabbageTxOutInfo<'a>],
) -> UTxOs<'a> {
    let mut utxos: UTxOs = UTxOs::new();
    for (tx_in, (addr, val, datum_opt, script_ref)) in zip(tx_body.inputs.clone(), tx_outs_info) {
        let multi_era_in: MultiEraInput =
            MultiEraInput::AlonzoCompatible(Box::new(Cow::Owned(tx_in)));
        let address_bytes: Bytes = match hex::decode(addr) {
            Ok(bytes_vec) => Bytes::from(bytes_vec),
            _ => panic!("Unable to decode input address"),
        };
        let tx_out: pallas_primitives::babbage::TransactionOutput =
            pallas_primitives::babbage::TransactionOutput::PostAlonzo(
                pallas_primitives::babbage::PostAlonzoTransactionOutput {
                    address: address_bytes,
                    value: val.clone(),
                    datum_option: datum_opt.clone().map(|x| x.into()),
                    script_ref: script_ref.clone(),
                }
                .into(),
            );
        let multi_era_out: MultiEraOutput = MultiEraOutput::Babbage(Box::new(Cow::Owned(tx_out)));
        utxos.insert(multi_era_in, multi_era_out);
    }
    utxos
}

pub fn mk_utxo_for_conway_tx<'a>(
    tx_body: &pallas_primitives::conway::TransactionBody,
    tx_outs_info: &'a [ConwayTxOutInfo<'a>],
) -> UTxOs<'a> {
    let mut utxos: UTxOs = UTxOs::new();

    for (tx_in, (addr, val, datum_opt, script_ref)) in
        zip(tx_body.inputs.clone().to_vec(), tx_outs_info)
    {
        let multi_era_in: MultiEraInput =
            MultiEraInput::AlonzoCompatible(Box::new(Cow::Owned(tx_in)));
        let address_bytes: Bytes = match hex::decode(addr) {
            Ok(bytes_vec) => Bytes::from(bytes_vec),
            _ => panic!("Unable to decode input address"),
        };
        let tx_out: pallas_primitives::conway::TransactionOutput =
            pallas_primitives::conway::TransactionOutput::PostAlonzo(
                pallas_primitives::conway::PostAlonzoTransactionOutput {
                    address: address_bytes,
                    value: val.clone(),
                    datum_option: datum_opt.clone().map(|x| x.into()),
                    script_ref: script_ref.clone(),
                }
                .into(),
            );
        let multi_era_out: MultiEraOutput = MultiEraOutput::Conway(Box::new(Cow::Owned(tx_out)));
        utxos.insert(multi_era_in, multi_era_out);
    }
    utxos
}

pub fn mk_codec_safe_utxo_for_conway_tx<'a>(
    tx_body: &pallas_primitives::conway::TransactionBody,
    tx_outs_info: &'a mut Vec<ConwayTxOutInfoMut<'a>>,
) -> UTxOs<'a> {
    let mut utxos: UTxOs = UTxOs::new();

    for (tx_in, (addr, val, datum_opt, script_ref, cbor)) in
        zip(tx_body.inputs.clone().to_vec(), tx_outs_info)
    {
        let multi_era_in: MultiEraInput =
            MultiEraInput::AlonzoCompatible(Box::new(Cow::Owned(tx_in)));
        let address_bytes: Bytes = match hex::decode(addr) {
            Ok(bytes_vec) => Bytes::from(bytes_vec),
            _ => panic!("Unable to decode input address"),
        };
        let post_alonzo = pallas_primitives::conway::PostAlonzoTransactionOutput {
            address: address_bytes,
            value: val.clone(),
            datum_option: datum_opt.clone(),
            script_ref: script_ref.clone(),
        };
        *cbor = minicbor::to_vec(post_alonzo).unwrap();
        let post_alonzo = minicbor::decode::<
            pallas_codec::utils::KeepRaw<
                'a,
                pallas_primitives::conway::PostAlonzoTransactionOutput,
            >,
        >(cbor)
        .unwrap();
        let tx_out = pallas_primitives::conway::TransactionOutput::PostAlonzo(post_alonzo);
        let multi_era_out: MultiEraOutput = MultiEraOutput::Conway(Box::new(Cow::Owned(tx_out)));
        utxos.insert(multi_era_in, multi_era_out);
    }
    utxos
}

pub fn mk_utxo_for_eval(utxos: UTxOs) -> UtxoMap {
    let mut eval_utxos: UtxoMap = UtxoMap::new();

    for (tx_in, tx_out) in utxos {
        eval_utxos.insert(TxoRef::from(&tx_in), EraCbor::from(tx_out));
    }
    eval_utxos
}

pub fn add_collateral_alonzo(
    tx_body: &TransactionBody,
    utxos: &mut UTxOs<'_>,
    collateral_info: &[AlonzoCollateralInfo],
) {
    match &tx_body.collateral {
        Some(collaterals) => {
            for (tx_in, (address, amount, datum_hash)) in zip(collaterals, collateral_info) {
                let address_bytes: Bytes = match hex::decode(address) {
                    Ok(bytes_vec) => Bytes::from(bytes_vec),
                    _ => panic!("Unable to decode input address"),
                };
                let tx_out: TransactionOutput = TransactionOutput {
                    address: address_bytes,
                    amount: amount.clone(),
                    datum_hash: *datum_hash,
                };
                let multi_era_in: MultiEraInput =
                    MultiEraInput::AlonzoCompatible(Box::new(Cow::Owned(tx_in.clone())));
                let multi_era_out: MultiEraOutput =
                    MultiEraOutput::AlonzoCompatible(Box::new(Cow::Owned(tx_out)), Era::Alonzo);
                utxos.insert(multi_era_in, multi_era_out);
            }
        }
        None => panic!("Adding collateral to UTxO failed due to an empty list of collaterals"),
    }
}

pub fn add_collateral_babbage<'a>(
    tx_body: &pallas_primitives::babbage::TransactionBody,
    utxos: &mut UTxOs<'a>,
    collateral_info: &'a [BabbageCollateralInfo<'a>],
) {
    match &tx_body.collateral {
        Some(collaterals) => {
            if collaterals.is_empty() {
                panic!("UTxO addition error - collateral input missing")
            } else {
                for (tx_in, (addr, val, datum_opt, script_ref)) in
                    zip(collaterals.clone(), collateral_info)
                {
                    let multi_era_in: MultiEraInput =
                        MultiEraInput::AlonzoCompatible(Box::new(Cow::Owned(tx_in)));
                    let address_bytes: Bytes = match hex::decode(addr) {
                        Ok(bytes_vec) => Bytes::from(bytes_vec),
                        _ => panic!("Unable to decode input address"),
                    };
                    let tx_out: pallas_primitives::babbage::TransactionOutput =
                        pallas_primitives::babbage::TransactionOutput::PostAlonzo(
                            pallas_primitives::babbage::PostAlonzoTransactionOutput {
                                address: address_bytes,
                                value: val.clone(),
                                datum_option: datum_opt.clone().map(|x| x.into()),
                                script_ref: script_ref.clone(),
                            }
                            .into(),
                        );
                    let multi_era_out: MultiEraOutput =
                        MultiEraOutput::Babbage(Box::new(Cow::Owned(tx_out)));
                    utxos.insert(multi_era_in, multi_era_out);
                }
            }
        }
        None => panic!("UTxO addition error - collateral input missing"),
    }
}

pub fn add_collateral_conway<'a>(
    tx_body: &pallas_primitives::conway::TransactionBody,
    utxos: &mut UTxOs<'a>,
    collateral_info: &'a [ConwayCollateralInfo<'a>],
) {
    match &tx_body.collateral {
        Some(collaterals) => {
            if collaterals.is_empty() {
                panic!("UTxO addition error - collateral input missing")
            } else {
                for (tx_in, (addr, val, datum_opt, script_ref)) in
                    zip(collaterals.clone().to_vec(), collateral_info)
                {
                    let multi_era_in: MultiEraInput =
                        MultiEraInput::AlonzoCompatible(Box::new(Cow::Owned(tx_in)));
                    let address_bytes: Bytes = match hex::decode(addr) {
                        Ok(bytes_vec) => Bytes::from(bytes_vec),
                        _ => panic!("Unable to decode input address"),
                    };
                    let tx_out: pallas_primitives::conway::TransactionOutput =
                        pallas_primitives::conway::TransactionOutput::PostAlonzo(
                            pallas_primitives::conway::PostAlonzoTransactionOutput {
                                address: address_bytes,
                                value: val.clone(),
                                datum_option: datum_opt.clone().map(|x| x.into()),
                                script_ref: script_ref.clone(),
                            }
                            .into(),
                        );
                    let multi_era_out: MultiEraOutput =
                        MultiEraOutput::Conway(Box::new(Cow::Owned(tx_out)));
                    utxos.insert(multi_era_in, multi_era_out);
                }
            }
        }
        None => panic!("UTxO addition error - collateral input missing"),
    }
}

pub fn add_codec_safe_collateral_conway<'a>(
    tx_body: &pallas_primitives::conway::TransactionBody,
    utxos: &mut UTxOs<'a>,
    collateral_info: &'a mut Vec<ConwayCollateralInfoMut<'a>>,
) {
    match &tx_body.collateral {
        Some(collaterals) => {
            if collaterals.is_empty() {
                panic!("UTxO addition error - collateral input missing")
            } else {
                for (tx_in, (addr, val, datum_opt, script_ref, cbor)) in
                    zip(collaterals.clone().to_vec(), collateral_info)
                {
                    let multi_era_in: MultiEraInput =
                        MultiEraInput::AlonzoCompatible(Box::new(Cow::Owned(tx_in)));
                    let address_bytes: Bytes = match hex::decode(addr) {
                        Ok(bytes_vec) => Bytes::from(bytes_vec),
                        _ => panic!("Unable to decode input address"),
                    };
                    let post_alonzo = pallas_primitives::conway::PostAlonzoTransactionOutput {
                        address: address_bytes,
                        value: val.clone(),
                        datum_option: datum_opt.clone(),
                        script_ref: script_ref.clone(),
                    };
                    *cbor = minicbor::to_vec(post_alonzo).unwrap();
                    let post_alonzo = minicbor::decode::<
                        pallas_codec::utils::KeepRaw<
                            'a,
                            pallas_primitives::conway::PostAlonzoTransactionOutput,
                        >,
                    >(cbor)
                    .unwrap();
                    let tx_out =
                        pallas_primitives::conway::TransactionOutput::PostAlonzo(post_alonzo);
                    let multi_era_out: MultiEraOutput =
                        MultiEraOutput::Conway(Box::new(Cow::Owned(tx_out)));
                    utxos.insert(multi_era_in, multi_era_out);
                }
            }
        }
        None => panic!("UTxO addition error - collateral input missing"),
    }
}

pub fn add_ref_input_babbage<'a>(
    tx_body: &pallas_primitives::babbage::TransactionBody,
    utxos: &mut UTxOs<'a>,
    ref_input_info: &'a [BabbageRefInputInfo<'a>],
) {
    match &tx_body.reference_inputs {
        Some(ref_inputs) => {
            if ref_inputs.is_empty() {
                panic!("UTxO addition error - reference input missing")
            } else {
                for (tx_in, (addr, val, datum_opt, script_ref)) in
                    zip(ref_inputs.clone(), ref_input_info)
                {
                    let multi_era_in: MultiEraInput =
                        MultiEraInput::AlonzoCompatible(Box::new(Cow::Owned(tx_in)));
                    let address_bytes: Bytes = match hex::decode(addr) {
                        Ok(bytes_vec) => Bytes::from(bytes_vec),
                        _ => panic!("Unable to decode input address"),
                    };
                    let tx_out: pallas_primitives::babbage::TransactionOutput =
                        pallas_primitives::babbage::TransactionOutput::PostAlonzo(
                            pallas_primitives::babbage::PostAlonzoTransactionOutput {
                                address: address_bytes,
                                value: val.clone(),
                                datum_option: datum_opt.clone().map(|x| x.into()),
                                script_ref: script_ref.clone(),
                            }
                            .into(),
                        );
                    let multi_era_out: MultiEraOutput =
                        MultiEraOutput::Babbage(Box::new(Cow::Owned(tx_out)));
                    utxos.insert(multi_era_in, multi_era_out);
                }
            }
        }
        None => panic!("UTxO addition error - reference input missing"),
    }
}

pub fn add_ref_input_conway<'a>(
    tx_body: &pallas_primitives::conway::TransactionBody,
    utxos: &mut UTxOs<'a>,
    ref_input_info: &'a [ConwayRefInputInfo<'a>],
) {
    match &tx_body.reference_inputs {
        Some(ref_inputs) => {
            if ref_inputs.is_empty() {
                panic!("UTxO addition error - reference input missing")
            } else {
                for (tx_in, (addr, val, datum_opt, script_ref)) in
                    zip(ref_inputs.clone().to_vec(), ref_input_info)
                {
                    let multi_era_in: MultiEraInput =
                        MultiEraInput::AlonzoCompatible(Box::new(Cow::Owned(tx_in)));
                    let address_bytes: Bytes = match hex::decode(addr) {
                        Ok(bytes_vec) => Bytes::from(bytes_vec),
                        _ => panic!("Unable to decode input address"),
                    };
                    let tx_out: pallas_primitives::conway::TransactionOutput =
                        pallas_primitives::conway::TransactionOutput::PostAlonzo(
                            pallas_primitives::conway::PostAlonzoTransactionOutput {
                                address: address_bytes,
                                value: val.clone(),
                                datum_option: datum_opt.clone().map(|x| x.into()),
                                script_ref: script_ref.clone(),
                            }
                            .into(),
                        );
                    let multi_era_out: MultiEraOutput =
                        MultiEraOutput::Conway(Box::new(Cow::Owned(tx_out)));
                    utxos.insert(multi_era_in, multi_era_out);
                }
            }
        }
        None => panic!("UTxO addition error - reference input missing"),
    }
}

pub fn add_codec_safe_ref_input_conway<'a>(
    tx_body: &pallas_primitives::conway::TransactionBody,
    utxos: &mut UTxOs<'a>,
    ref_input_info: &'a mut Vec<ConwayRefInputInfoMut<'a>>,
) {
    match &tx_body.reference_inputs {
        Some(ref_inputs) => {
            if ref_inputs.is_empty() {
                panic!("UTxO addition error - reference input missing")
            } else {
                for (tx_in, (addr, val, datum_opt, script_ref, cbor)) in
                    zip(ref_inputs.clone().to_vec(), ref_input_info)
                {
                    let multi_era_in: MultiEraInput =
                        MultiEraInput::AlonzoCompatible(Box::new(Cow::Owned(tx_in)));
                    let address_bytes: Bytes = match hex::decode(addr) {
                        Ok(bytes_vec) => Bytes::from(bytes_vec),
                        _ => panic!("Unable to decode input address"),
                    };
                    let post_alonzo = pallas_primitives::conway::PostAlonzoTransactionOutput {
                        address: address_bytes,
                        value: val.clone(),
                        datum_option: datum_opt.clone(),
                        script_ref: script_ref.clone(),
                    };
                    *cbor = minicbor::to_vec(post_alonzo).unwrap();
                    let post_alonzo = minicbor::decode::<
                        pallas_codec::utils::KeepRaw<
                            'a,
                            pallas_primitives::conway::PostAlonzoTransactionOutput,
                        >,
                    >(cbor)
                    .unwrap();
                    let tx_out =
                        pallas_primitives::conway::TransactionOutput::PostAlonzo(post_alonzo);
                    let multi_era_out: MultiEraOutput =
                        MultiEraOutput::Conway(Box::new(Cow::Owned(tx_out)));
                    utxos.insert(multi_era_in, multi_era_out);
                }
            }
        }
        None => panic!("UTxO addition error - reference input missing"),
    }
}
