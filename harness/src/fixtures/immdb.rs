//! Shared fixture for the immutable-DB streams (C42 `immdb`, C43 `immcorrupt`): the pool of real
//! blocks of `<repo>/test_data/*.chunk` and a writer of chunk / primary / secondary files.
use std::collections::HashMap;
use std::path::{Path, PathBuf};
use std::sync::OnceLock;

pub struct PoolBlock { pub slot: u64, pub hash: [u8; 32], pub bytes: Vec<u8>, pub chunk: &'static str }
pub struct Pool { pub blocks: Vec<PoolBlock>, pub by_hash: HashMap<[u8; 32], usize> }

pub const REAL_CHUNKS: [&str; 3] = ["01285", "01836", "02019"];

pub fn repo() -> PathBuf { PathBuf::from(std::env::var("PV_REPO").unwrap_or_else(|_| "/repo".into())) }
pub fn test_data() -> PathBuf { repo().join("test_data") }

fn load(chunks: &[&'static str], limit: usize) -> Pool {
        let mut blocks = vec![];
        for name in chunks.iter().copied() {
            let rd = pallas_hardano::storage::immutable::chunk::read_blocks(&test_data(), name).expect("test_data chunk");
            for b in rd.take(limit) {
                let bytes = b.expect("intact test_data");
                let blk = pallas_traverse::MultiEraBlock::decode(&bytes).expect("test_data block decodes");
                let mut hash = [0u8; 32];
                hash.copy_from_slice(blk.hash().as_ref());
                let slot = blk.slot();
                drop(blk);
                blocks.push(PoolBlock { slot, hash, bytes, chunk: name });
            }
        }
        let by_hash = blocks.iter().enumerate().map(|(i, b)| (b.hash, i)).collect();
        Pool { blocks, by_hash }
}

/// every block of the three real chunk files, in chain order
pub fn pool() -> &'static Pool {
    static P: OnceLock<Pool> = OnceLock::new();
    P.get_or_init(|| load(&REAL_CHUNKS, usize::MAX))
}

/// the first blocks of the oldest real chunk file only (cheap to load in a per-case child process)
pub fn small_pool() -> &'static Pool {
    static P: OnceLock<Pool> = OnceLock::new();
    P.get_or_init(|| load(&REAL_CHUNKS[..1], 24))
}

pub fn scratch_root() -> PathBuf {
    match std::env::var("PV_SCRATCH") {
        Ok(s) => PathBuf::from(s),
        Err(_) => PathBuf::from(env!("CARGO_MANIFEST_DIR")).join("target").join("scratch"),
    }
}

/// a fresh empty directory for one case; removed by `Drop`
pub struct CaseDir(pub PathBuf);
impl CaseDir {
    pub fn new(tag: &str, case: u64) -> Self {
        let d = scratch_root().join(format!("{}-{}-{}", tag, std::process::id(), case));
        let _ = std::fs::remove_dir_all(&d);
        std::fs::create_dir_all(&d).expect("scratch dir");
        CaseDir(d)
    }
    pub fn path(&self) -> &Path { &self.0 }
}
impl Drop for CaseDir { fn drop(&mut self) { let _ = std::fs::remove_dir_all(&self.0); } }

/// secondary-index entry of a block at `offset` (only `block_offset` is read by pallas)
pub fn secondary_entry(offset: u64, hash: &[u8; 32], slot: u64) -> Vec<u8> {
    let mut e = vec![];
    e.extend(offset.to_be_bytes());
    e.extend([0u8; 2]); e.extend([0u8; 2]); e.extend([0u8; 4]);
    e.extend(hash);
    e.extend(slot.to_be_bytes());
    e
}

/// primary index for `n` blocks: version byte, then one u32 offset per relative slot boundary;
/// `gaps[i]` empty relative slots are put before block `i`
pub fn primary_index(n: usize, gaps: &[usize]) -> Vec<u8> {
    let mut p = vec![1u8];
    let mut off: u32 = 0;
    p.extend(off.to_be_bytes());
    for i in 0..n {
        for _ in 0..gaps.get(i).copied().unwrap_or(0) { p.extend(off.to_be_bytes()); }
        off += 56;
        p.extend(off.to_be_bytes());
    }
    p
}

/// write `<name>.chunk/.primary/.secondary` for the given pool blocks
pub fn write_chunk(pool: &Pool, dir: &Path, name: &str, blocks: &[usize], gaps: &[usize]) {
    let (mut chunk, mut sec) = (vec![], vec![]);
    for &i in blocks {
        let b = &pool.blocks[i];
        sec.extend(secondary_entry(chunk.len() as u64, &b.hash, b.slot));
        chunk.extend(&b.bytes);
    }
    std::fs::write(dir.join(format!("{name}.chunk")), chunk).unwrap();
    std::fs::write(dir.join(format!("{name}.secondary")), sec).unwrap();
    std::fs::write(dir.join(format!("{name}.primary")), primary_index(blocks.len(), gaps)).unwrap();
}

pub fn copy_real_chunk(dir: &Path, name: &str) {
    for ext in ["chunk", "primary", "secondary"] {
        std::fs::copy(test_data().join(format!("{name}.{ext}")), dir.join(format!("{name}.{ext}"))).expect("copy test_data chunk");
    }
}
