//! Shared by the streams `kes` (C12) and `kesfs` (C13): drives every SumNKes / SumNCompactKes
//! (N = 1..7) of pallas_crypto::kes through its public API on a caller-owned buffer.
//! `Mode::Sign` runs the C12 oracle (period, public key, own-period / other-period verification,
//! signature byte round trip, end of life); `Mode::Erase` runs the C13 oracle (after every update the
//! key buffer is scanned, at every byte offset, for the seed of any tree node that derives the leaf
//! of an earlier period; seeds are recomputed here with the independent BLAKE2b of blake2b_ref.rs).
use crate::fw::*;
use pallas_crypto::kes::common::PublicKey;
use pallas_crypto::kes::summed_kes::*;
use pallas_crypto::kes::traits::{KesCompactSig, KesSig, KesSk};

#[path = "blake2b_ref.rs"]
mod blake2b_ref;
use blake2b_ref::blake2b as ref_blake2b;

#[derive(Clone, Copy, PartialEq)]
pub enum Mode { Sign, Erase }

/// expands `$body` once per KES type with `K` = key type, `S` = signature type
macro_rules! with_kes {
    ($compact:expr, $depth:expr, $K:ident, $S:ident, $body:block, $else:block) => {
        match ($compact, $depth) {
            (false, 1) => { type $K<'a> = Sum1Kes<'a>; type $S = Sum1KesSig; $body }
            (false, 2) => { type $K<'a> = Sum2Kes<'a>; type $S = Sum2KesSig; $body }
            (false, 3) => { type $K<'a> = Sum3Kes<'a>; type $S = Sum3KesSig; $body }
            (false, 4) => { type $K<'a> = Sum4Kes<'a>; type $S = Sum4KesSig; $body }
            (false, 5) => { type $K<'a> = Sum5Kes<'a>; type $S = Sum5KesSig; $body }
            (false, 6) => { type $K<'a> = Sum6Kes<'a>; type $S = Sum6KesSig; $body }
            (false, 7) => { type $K<'a> = Sum7Kes<'a>; type $S = Sum7KesSig; $body }
            (true, 1) => { type $K<'a> = Sum1CompactKes<'a>; type $S = Sum1CompactKesSig; $body }
            (true, 2) => { type $K<'a> = Sum2CompactKes<'a>; type $S = Sum2CompactKesSig; $body }
            (true, 3) => { type $K<'a> = Sum3CompactKes<'a>; type $S = Sum3CompactKesSig; $body }
            (true, 4) => { type $K<'a> = Sum4CompactKes<'a>; type $S = Sum4CompactKesSig; $body }
            (true, 5) => { type $K<'a> = Sum5CompactKes<'a>; type $S = Sum5CompactKesSig; $body }
            (true, 6) => { type $K<'a> = Sum6CompactKes<'a>; type $S = Sum6CompactKesSig; $body }
            (true, 7) => { type $K<'a> = Sum7CompactKes<'a>; type $S = Sum7CompactKesSig; $body }
            _ => $else,
        }
    };
}

fn keygen(compact: bool, depth: u32, seed: &[u8]) -> Option<(Vec<u8>, Vec<u8>, Vec<u8>)> {
    with_kes!(compact, depth, K, S, {
        let mut buf = vec![0u8; K::SIZE + 4];
        let mut seed = seed.to_vec();
        let (sk, pk) = K::keygen(&mut buf, &mut seed);
        let bytes = sk.as_bytes().to_vec();
        drop(sk);
        Some((pk.as_bytes().to_vec(), bytes, seed))
    }, { None })
}

/// (update succeeded, buffer afterwards, reported period afterwards, buffer wiped when the key object was dropped)
fn update(compact: bool, depth: u32, buf: &[u8]) -> Option<(bool, Vec<u8>, u32, bool)> {
    with_kes!(compact, depth, K, S, {
        let mut tmp = buf.to_vec();
        let mut sk = K::from_bytes(&mut tmp).ok()?;
        let r = sk.update();
        let out = sk.as_bytes().to_vec();
        let p = sk.get_period();
        drop(sk);
        let wiped = tmp.iter().all(|b| *b == 0);
        Some((r.is_ok(), out, p, wiped))
    }, { None })
}

fn period(compact: bool, depth: u32, buf: &[u8]) -> Option<u32> {
    with_kes!(compact, depth, K, S, {
        let mut tmp = buf.to_vec();
        let sk = K::from_bytes(&mut tmp).ok()?;
        Some(sk.get_period())
    }, { None })
}

fn to_pk(compact: bool, depth: u32, buf: &[u8]) -> Option<Vec<u8>> {
    with_kes!(compact, depth, K, S, {
        let mut tmp = buf.to_vec();
        let sk = K::from_bytes(&mut tmp).ok()?;
        Some(sk.to_pk().as_bytes().to_vec())
    }, { None })
}

fn sign(compact: bool, depth: u32, buf: &[u8], msg: &[u8]) -> Option<Vec<u8>> {
    with_kes!(compact, depth, K, S, {
        let mut tmp = buf.to_vec();
        let sk = K::from_bytes(&mut tmp).ok()?;
        Some(sk.sign(msg).to_bytes().to_vec())
    }, { None })
}

/// None = from_bytes rejected the signature bytes
fn verify(compact: bool, depth: u32, t: u32, pk: &[u8], msg: &[u8], sig: &[u8]) -> Option<Option<bool>> {
    with_kes!(compact, depth, K, S, {
        let Ok(s) = S::from_bytes(sig) else { return Some(None) };
        let pk = PublicKey::from_bytes(pk).ok()?;
        Some(Some(s.verify(t, &pk, msg).is_ok()))
    }, { None })
}

fn sig_roundtrip(compact: bool, depth: u32, sig: &[u8]) -> Option<Option<Vec<u8>>> {
    with_kes!(compact, depth, K, S, {
        let Ok(s) = S::from_bytes(sig) else { return Some(None) };
        Some(Some(s.to_bytes().to_vec()))
    }, { None })
}

fn sizes(compact: bool, depth: u32) -> (usize, usize) {
    (32 + 96 * depth as usize + 4, if compact { 64 + 32 * (depth as usize + 1) } else { 64 + 64 * depth as usize })
}

// ------------------------------------------------------------------ generator

pub fn generate(g: &mut Gen, mode: Mode) {
    for i in 0..g.cases {
        let r = &mut g.rng;
        let compact = i % 2 == 1;
        // depths 1..4: every period; 5..7: every period is *reached*, signing/verification sampled
        let depth = if g.tier == "thorough" { 1 + (i / 2) % 7 } else { [1, 2, 3, 4, 5, 6, 7, 2, 3, 4, 1, 2, 3, 4][(i / 2) % 14] } as u32;
        let total = 1u32 << depth;
        // (an all-zero seed is indistinguishable from a zeroed slot, so the erasure stream does not use it)
        let seed = match r.below(12) { 0 if mode == Mode::Sign => vec![0u8; 32], 1 => vec![0xff; 32], _ => r.bytes(32) };
        let mut ops = vec![format!("keygen {} {} {}", if compact { "compact" } else { "sum" }, depth, hex(&seed))];
        // the generator runs the real keygen only to learn the public key it must quote in `verify` ops
        let pk = keygen(compact, depth, &seed).map(|x| x.0).unwrap_or(vec![0; 32]);
        let exhaustive = depth <= 4 || g.tier == "thorough" && depth <= 5;
        let stop_early = mode == Mode::Sign && !exhaustive && r.chance(1, 2);
        let last = if stop_early { r.below(total as u64) as u32 } else { total - 1 };
        for t in 0..=last {
            let sample = exhaustive || t == 0 || t == last || t + 1 == total / 2 || t == total / 2 || r.chance(1, 12);
            if mode == Mode::Sign && sample {
                let mlen = *r.pick(&[0usize, 1, 5, 32, 33, 100]);
                let msg = r.bytes(mlen);
                ops.push("period".into());
                ops.push("topk".into());
                ops.push(format!("sign {}", hex(&msg)));
                // the signature is only known at run time: `verify`/`sigrt` with `@` use the last signature
                ops.push("sigrt @".into());
                ops.push(format!("verify {} {} {} @", t, hex(&pk), hex(&msg)));
                let others: Vec<u32> = if exhaustive { (0..total).filter(|p| *p != t).collect() }
                    else { let mut v: Vec<u32> = vec![t ^ 1, t ^ (total / 2), (t + 1) % total, total - 1 - t, r.below(total as u64) as u32, r.below(total as u64) as u32]; v.retain(|p| *p != t); v.sort(); v.dedup(); v };
                for p in others { ops.push(format!("verify {} {} {} @", p, hex(&pk), hex(&msg))); }
                if r.chance(1, 3) { ops.push(format!("verify {} {} {} @", total + *r.pick(&[0u32, 1, t, total, 1000]), hex(&pk), hex(&msg))); } // out of range: model/code comparison only
                // wrong message, wrong key, tampered signature byte, truncated signature
                match r.below(4) {
                    0 => { let mut m2 = msg.clone(); m2.push(1); ops.push(format!("verify {} {} {} @", t, hex(&pk), hex(&m2))); }
                    1 => { let mut p2 = pk.clone(); p2[r.below(32) as usize] ^= 1 << r.below(8); ops.push(format!("verify {} {} {} @", t, hex(&p2), hex(&msg))); }
                    2 => { ops.push(format!("verify {} {} {} @flip{}", t, hex(&pk), hex(&msg), r.below(1 << 20))); }
                    _ => { ops.push(format!("sigrt @cut{}", r.below(1 << 20))); }
                }
            } else if mode == Mode::Erase && (t == 0 || r.chance(1, 8)) {
                ops.push("period".into());
            }
            ops.push("update".into());
        }
        if !stop_early { ops.push("update".into()); ops.push("period".into()); }
        g.case(ops);
    }
}

// ------------------------------------------------------------------ run + oracles

/// seeds of all nodes of the depth-`d` tree rooted at `seed`: (first leaf, number of leaves, seed)
fn node_seeds(seed: &[u8], depth: u32, first: u32, out: &mut Vec<(u32, u32, Vec<u8>)>) {
    out.push((first, 1 << depth, seed.to_vec()));
    if depth == 0 { return; }
    let mut l = vec![1u8]; l.extend(seed);
    let mut r = vec![2u8]; r.extend(seed);
    node_seeds(&ref_blake2b(32, &l), depth - 1, first, out);
    node_seeds(&ref_blake2b(32, &r), depth - 1, first + (1 << (depth - 1)), out);
}

fn find(hay: &[u8], needle: &[u8]) -> Option<usize> { hay.windows(needle.len()).position(|w| w == needle) }

pub fn run_case(case: &Case, out: &mut Out, mode: Mode) {
    let (mut compact, mut depth) = (false, 0u32);
    let mut buf: Vec<u8> = vec![];
    let mut pk0: Vec<u8> = vec![];
    let mut nodes: Vec<(u32, u32, Vec<u8>)> = vec![];
    let mut updates = 0u32;          // successful updates so far = the period the key must report
    let mut last_sig: Vec<u8> = vec![];
    let mut last_msg: Vec<u8> = vec![];
    let (mut own_ok, mut other_rejected, mut crossed_half) = (false, false, false);
    for op in &case.ops {
        let a = |i: usize| op.get(i).map(|s| s.as_str()).unwrap_or("");
        // `@` = last signature, `@flipN` = one bit flipped, `@cutN` = truncated
        let sig_arg = |s: &str| -> Option<Vec<u8>> {
            if s == "@" { Some(last_sig.clone()) }
            else if let Some(n) = s.strip_prefix("@flip") { let n: usize = n.parse().ok()?; let mut v = last_sig.clone(); if v.is_empty() { return Some(v); } let k = n % (v.len() * 8); v[k / 8] ^= 1 << (k % 8); Some(v) }
            else if let Some(n) = s.strip_prefix("@cut") { let n: usize = n.parse().ok()?; let mut v = last_sig.clone(); let k = n % (v.len() + 1); v.truncate(k); Some(v) }
            else { unhex(s) }
        };
        let tag = |c: bool, d: u32| format!("{}{}", if c { "compact" } else { "sum" }, d);
        match a(0) {
            "keygen" => {
                let (v, Some(d), Some(seed)) = (a(1), a(2).parse::<u32>().ok(), unhex(a(3))) else { out.reply("bad-op".into()); continue };
                let c = v == "compact";
                let s2 = seed.clone();
                match guard(move || keygen(c, d, &s2)) {
                    Some(Some((pk, bytes, seed_after))) => {
                        compact = c; depth = d; buf = bytes.clone(); pk0 = pk.clone(); updates = 0;
                        nodes.clear(); node_seeds(&seed, d, 0, &mut nodes);
                        if bytes.len() != sizes(c, d).0 { out.viol(format!("key-size {}", tag(c, d)), format!("{} bytes", bytes.len())); }
                        if mode == Mode::Erase && seed_after.iter().any(|b| *b != 0) { out.viol(format!("caller-seed-not-zeroed {}", tag(c, d)), "keygen left the caller's seed buffer intact"); }
                        out.cov(format!("depth-{d}"));
                        out.ok(format!("{} {}", hex(&pk), hex(&bytes)));
                    }
                    Some(None) => out.reply("bad-op".into()),
                    None => out.panic(),
                }
            }
            "update" => {
                let b2 = buf.clone();
                match guard(move || update(compact, depth, &b2)) {
                    Some(Some((ok, after, p, wiped))) => {
                        let total = 1u32 << depth;
                        if mode == Mode::Erase && !wiped { out.viol(format!("drop-leaves-key-material {}", tag(compact, depth)), "buffer not zeroed when the key object is dropped"); }
                        if mode == Mode::Sign {
                            // evolution fails exactly when the key is at its last period
                            if ok != (updates + 1 < total) { out.viol(format!("update-end-of-life {} period={}", tag(compact, depth), updates), format!("update ok={ok}")); }
                            if ok && p != updates + 1 { out.viol(format!("period-after-update {}", tag(compact, depth)), format!("after {} updates get_period() = {}", updates + 1, p)); }
                            if !ok && after != buf { out.viol(format!("failed-update-changed-key {}", tag(compact, depth)), "buffer differs after Err"); }
                        }
                        if ok {
                            updates += 1; buf = after.clone();
                            if updates == total / 2 { crossed_half = true; }
                            if mode == Mode::Erase {
                                // forward security: nothing that derives an earlier leaf may be left
                                for (first, n, seed) in &nodes {
                                    if *first < updates && seed.iter().any(|b| *b != 0) {
                                        if let Some(off) = find(&buf, seed) {
                                            out.viol(format!("past-seed-in-buffer {} period={}", tag(compact, depth), updates),
                                                format!("seed of the subtree covering periods {}..{} found at offset {} of the key buffer", first, first + n - 1, off));
                                            break;
                                        }
                                    }
                                }
                                // and the key must still be able to sign: the current leaf seed is there
                                let cur = nodes.iter().find(|(f, n, _)| *n == 1 && *f == updates).map(|x| x.2.clone()).unwrap_or_default();
                                if find(&buf, &cur) != Some(0) { out.viol(format!("current-leaf-missing {} period={}", tag(compact, depth), updates), "buffer does not start with the current leaf's signing key"); }
                            }
                            out.ok(hex(&after));
                        } else { out.err("nomore"); }
                    }
                    Some(None) => out.reply("bad-op".into()),
                    None => out.panic(),
                }
            }
            "period" => match period(compact, depth, &buf) {
                Some(p) => { if p != updates { out.viol(format!("period {}", tag(compact, depth)), format!("after {} updates get_period() = {}", updates, p)); } out.ok(p.to_string()) }
                None => out.reply("bad-op".into()),
            },
            "topk" => match to_pk(compact, depth, &buf) {
                Some(pk) => { if pk != pk0 { out.viol(format!("public-key-changed {} period={}", tag(compact, depth), updates), format!("{} was {}", hex(&pk), hex(&pk0))); } out.ok(hex(&pk)) }
                None => out.reply("bad-op".into()),
            },
            "sign" => {
                let Some(msg) = unhex(a(1)) else { out.reply("bad-op".into()); continue };
                let (b2, m2) = (buf.clone(), msg.clone());
                match guard(move || sign(compact, depth, &b2, &m2)) {
                    Some(Some(sig)) => {
                        if sig.len() != sizes(compact, depth).1 { out.viol(format!("sig-size {}", tag(compact, depth)), format!("{} bytes", sig.len())); }
                        last_sig = sig.clone(); last_msg = msg;
                        out.ok(hex(&sig));
                    }
                    Some(None) => out.reply("bad-op".into()),
                    None => out.panic(),
                }
            }
            "verify" => {
                let (Some(t), Some(pk), Some(msg), Some(sig)) = (a(1).parse::<u32>().ok(), unhex(a(2)), unhex(a(3)), sig_arg(a(4))) else { out.reply("bad-op".into()); continue };
                let (p2, m2, s2) = (pk.clone(), msg.clone(), sig.clone());
                match guard(move || verify(compact, depth, t, &p2, &m2, &s2)) {
                    Some(Some(Some(v))) => {
                        if mode == Mode::Sign {
                            let honest = a(4) == "@" && pk == pk0 && msg == last_msg;
                            if honest && t == updates { if v { own_ok = true; } else { out.viol(format!("own-period-rejected {} period={}", tag(compact, depth), t), format!("signature made at period {} does not verify at that period", updates)); } }
                            if honest && t != updates && t < (1 << depth) { if !v { other_rejected = true; } else { out.viol(format!("other-period-accepted {} signed={} verified={}", tag(compact, depth), updates, t), "signature verifies at a period it was not made for"); } }
                            if !honest && a(4) == "@" && v { out.viol(format!("wrong-input-accepted {}", tag(compact, depth)), format!("verify accepted with {}", if pk != pk0 { "a different public key" } else { "a different message" })); }
                            if a(4).starts_with("@flip") && v { out.viol(format!("tampered-signature-accepted {}", tag(compact, depth)), a(4)); }
                        }
                        out.ok(v.to_string());
                    }
                    Some(Some(None)) => out.err("sigbytes"),
                    Some(None) => out.reply("bad-op".into()),
                    None => out.panic(),
                }
            }
            "sigrt" => {
                let Some(sig) = sig_arg(a(1)) else { out.reply("bad-op".into()); continue };
                let s2 = sig.clone();
                match guard(move || sig_roundtrip(compact, depth, &s2)) {
                    Some(Some(Some(b))) => { if mode == Mode::Sign && b != sig { out.viol(format!("sig-bytes-roundtrip {}", tag(compact, depth)), format!("{} -> {}", hex(&sig), hex(&b))); } out.ok(hex(&b)) }
                    Some(Some(None)) => { if mode == Mode::Sign && a(1) == "@" { out.viol(format!("own-sig-bytes-rejected {}", tag(compact, depth)), hex(&sig)); } out.err("sigbytes") }
                    Some(None) => out.reply("bad-op".into()),
                    None => out.panic(),
                }
            }
            _ => out.reply("bad-op".into()),
        }
    }
    match mode {
        Mode::Sign => if own_ok && other_rejected { out.nontrivial(); },
        Mode::Erase => if crossed_half { out.nontrivial(); },
    }
}
