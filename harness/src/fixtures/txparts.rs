//! Raw-CBOR surgery on fixture transactions: split `[body, witness_set, is_valid, aux|null]`
//! into its original byte ranges and re-assemble it with replaced parts. The body bytes (and so
//! the transaction id) stay untouched unless the caller replaces them.
use super::Fixture;
use pallas_codec::minicbor::{self, Encoder};
use pallas_traverse::{Era, MultiEraTx};

pub struct TxParts {
    pub body: Vec<u8>,
    pub wits: Vec<u8>,
    /// `None` = the `null` placeholder
    pub aux: Option<Vec<u8>>,
    pub valid: bool,
}

/// Original byte ranges of a post-Byron transaction.
pub fn split(era: Era, tx_cbor: &[u8]) -> Option<TxParts> {
    match MultiEraTx::decode_for_era(era, tx_cbor).ok()? {
        MultiEraTx::AlonzoCompatible(x, _) => Some(TxParts {
            body: x.transaction_body.raw_cbor().to_vec(),
            wits: x.transaction_witness_set.raw_cbor().to_vec(),
            aux: Option::from(x.auxiliary_data.as_ref().map(|a| a.raw_cbor().to_vec())),
            valid: x.success,
        }),
        MultiEraTx::Babbage(x) => Some(TxParts {
            body: x.transaction_body.raw_cbor().to_vec(),
            wits: x.transaction_witness_set.raw_cbor().to_vec(),
            aux: Option::from(x.auxiliary_data.as_ref().map(|a| a.raw_cbor().to_vec())),
            valid: x.success,
        }),
        MultiEraTx::Conway(x) => Some(TxParts {
            body: x.transaction_body.raw_cbor().to_vec(),
            wits: x.transaction_witness_set.raw_cbor().to_vec(),
            aux: Option::from(x.auxiliary_data.as_ref().map(|a| a.raw_cbor().to_vec())),
            valid: x.success,
        }),
        _ => None,
    }
}

pub fn split_fixture(f: &Fixture) -> TxParts {
    split(f.era, &f.tx_cbor).expect("post-Byron fixture")
}

/// `84 body wits f5|f4 aux|f6`
pub fn assemble(p: &TxParts) -> Vec<u8> {
    let mut v = vec![0x84u8];
    v.extend_from_slice(&p.body);
    v.extend_from_slice(&p.wits);
    v.push(if p.valid { 0xf5 } else { 0xf4 });
    match &p.aux {
        Some(a) => v.extend_from_slice(a),
        None => v.push(0xf6),
    }
    v
}

pub fn enc() -> Encoder<Vec<u8>> {
    Encoder::new(Vec::new())
}
