//! stream `witness` — C35: verification-key witness checks of Shelley-MA, Alonzo, Babbage, Conway.
//!
//!   vk <era> <fixture> <mode> W <n|none> (<vkey> <sig> <keyhash> <0|1>)^n I <n> <view>^n R <n|none> <hash>^n N <0|1>
//!   sy <era> <nin> <req seeds csv|-> W <n|none> (..)^n I <n> <view>^n R <n|none> <hash>^n N 1     (synthesized, own keys)
//!   rq <era> W <n|none> (<vkey> <sig> <keyhash> <0|1>)^n R <n|none> <hash>^n <msg>
//!
//! `vk`: the fixture transaction with its verification-key witnesses replaced by the listed ones (body, and so
//! the transaction id, untouched). `<mode>` = `rule` (the era's `check_witness_set` / Shelley `check_witnesses`
//! through `verif_hooks`) or `whole` (`validate_txs`, fee coefficients zeroed and size limit lifted so that adding
//! witnesses cannot trip the fee/size rules); suffix `-legacy` re-encodes every plain key-locked UTxO entry as an
//! Alonzo-era output (what a Babbage/Conway transaction spending an older output sees).
//! `<keyhash>`, the validity bit, the input views, required signers and the native-script verdict are what the
//! Lean model's parameters (`hash`, `verify`, `InputView`) are instantiated with; `run_case` recomputes all of
//! them from the scenario for its own oracle and does not read them from the op.
//! `sy`: a transaction built by `fixtures::synth` (inputs locked by own keys, required signers in the *body*, everything
//! signed with own keys, then the witness list mutated) through `validate_txs` — required signers at whole-transaction level.
//! `rq`: `check_required_signers` alone on arbitrary required signers (Alonzo, Babbage, Conway).
//! replies: ok | err wit-missing|wrong-sig|req-missing|req-wrong-sig|input-decoding|input-not-in-utxo|script-wit-missing|script-denial|other | panic
use crate::fixtures::{self, params, synth, txparts, Fixture, InputRef, UtxoEntry};
use crate::fw::*;
use pallas_addresses::{Address, ShelleyPaymentPart};
use pallas_codec::minicbor::{self, Decoder, Encoder};
use pallas_codec::utils::{Bytes, NonEmptySet};
use pallas_crypto::hash::{Hash, Hasher};
use pallas_crypto::key::ed25519::{PublicKey, SecretKey, Signature};
use pallas_primitives::alonzo::VKeyWitness;
use pallas_traverse::{Era, MultiEraOutput, MultiEraTx};
use pallas_validate::phase1::{alonzo, babbage, conway, shelley_ma};
use pallas_validate::utils::{AlonzoError as A, PostAlonzoError as PA, ShelleyMAError as S, ValidationError as VE};

pub const NAME: &str = "witness";

type W = (Vec<u8>, Vec<u8>);

pub(crate) fn era_tok(f: &Fixture) -> &'static str {
    match f.era { Era::Shelley | Era::Allegra | Era::Mary => "shelley", Era::Alonzo => "alonzo", Era::Babbage => "babbage", _ => "conway" }
}

/// independent Ed25519 verdict (pallas-crypto's wrapper of cryptoxide, not pallas-validate's `verify_signature`)
pub(crate) fn sig_ok(vkey: &[u8], sig: &[u8], msg: &[u8]) -> bool {
    let (Ok(k), Ok(s)) = (<[u8; 32]>::try_from(vkey), <[u8; 64]>::try_from(sig)) else { return false };
    PublicKey::from(k).verify(msg, &Signature::from(s))
}
pub(crate) fn key_hash(vkey: &[u8]) -> String { hex::encode(Hasher::<224>::hash(vkey).as_ref()) }

/// witness set with map entry 0 replaced (or removed); every other entry keeps its original bytes
fn replace_vkeys(wits_raw: &[u8], new: &Option<Vec<W>>, conway: bool) -> Vec<u8> {
    let mut d = Decoder::new(wits_raw);
    let n = d.map().expect("witness set is a map");
    let mut entries: Vec<(u64, Vec<u8>)> = vec![];
    let mut i = 0u64;
    loop {
        if let Some(n) = n { if i >= n { break; } } else if d.datatype().ok() == Some(minicbor::data::Type::Break) { break; }
        let k = d.u64().expect("key");
        let a = d.position();
        d.skip().expect("value");
        entries.push((k, wits_raw[a..d.position()].to_vec()));
        i += 1;
    }
    entries.retain(|e| e.0 != 0);
    let write = match new { None => false, Some(v) => !(conway && v.is_empty()) };
    let mut e = Encoder::new(Vec::new());
    e.map(entries.len() as u64 + write as u64).unwrap();
    if write {
        let v = new.as_ref().unwrap();
        e.u8(0).unwrap().array(v.len() as u64).unwrap();
        for (k, s) in v { e.array(2).unwrap().bytes(k).unwrap().bytes(s).unwrap(); }
    }
    let mut out = e.into_writer();
    for (k, raw) in entries {
        let mut ke = Encoder::new(Vec::new());
        ke.u64(k).unwrap();
        out.extend(ke.into_writer());
        out.extend(raw);
    }
    out
}

/// re-encode plain key-locked Babbage/Conway-form UTxO entries as Alonzo-era `[address, value]`
fn legacy_retag(f: &mut Fixture) {
    for e in f.utxo.iter_mut() {
        if !matches!(e.era, Era::Babbage | Era::Conway) { continue; }
        let Ok(o) = MultiEraOutput::decode(e.era, &e.cbor) else { continue };
        if o.datum().is_some() || o.script_ref().is_some() { continue; }
        let Ok(Address::Shelley(sa)) = o.address() else { continue };
        if !matches!(sa.payment(), ShelleyPaymentPart::Key(_)) { continue; }
        if !o.non_ada_assets().is_empty() { continue; }
        let mut enc = Encoder::new(Vec::new());
        enc.array(2).unwrap().bytes(&sa.to_vec()).unwrap().u64(o.lovelace_amount()).unwrap();
        e.cbor = enc.into_writer();
        e.era = Era::Alonzo;
    }
}

fn scenario(name: &str, mode: &str, wits: &Option<Vec<W>>) -> Option<Fixture> {
    let mut f = fixtures::by_name(name)?;
    if f.era == Era::Byron { return None; }
    let mut parts = txparts::split_fixture(&f);
    parts.wits = replace_vkeys(&parts.wits, wits, f.era == Era::Conway);
    f.tx_cbor = txparts::assemble(&parts);
    if mode.ends_with("-legacy") { legacy_retag(&mut f); }
    params::set_minfee(&mut f.env, 0, 0);
    params::set_max_tx_size(&mut f.env, u32::MAX);
    Some(f)
}

pub(crate) fn tx_id(f: &Fixture) -> Vec<u8> { Hasher::<256>::hash(&txparts::split_fixture(f).body).as_ref().to_vec() }

pub(crate) fn base_wits(f: &Fixture) -> Option<Vec<W>> {
    let tx = f.tx();
    let has = match &tx {
        MultiEraTx::AlonzoCompatible(x, _) => x.transaction_witness_set.vkeywitness.is_some(),
        MultiEraTx::Babbage(x) => x.transaction_witness_set.vkeywitness.is_some(),
        MultiEraTx::Conway(x) => x.transaction_witness_set.vkeywitness.is_some(),
        _ => false,
    };
    if !has { return None; }
    Some(tx.vkey_witnesses().iter().map(|w| (w.vkey.to_vec(), w.signature.to_vec())).collect())
}

pub(crate) fn required_signers(f: &Fixture) -> Option<Vec<String>> {
    let tx = f.tx();
    match &tx {
        MultiEraTx::AlonzoCompatible(x, _) => x.transaction_body.required_signers.as_ref().map(|v| v.iter().map(|h| hex::encode(h.as_ref())).collect()),
        MultiEraTx::Babbage(x) => x.transaction_body.required_signers.as_ref().map(|v| v.iter().map(|h| hex::encode(h.as_ref())).collect()),
        MultiEraTx::Conway(x) => x.transaction_body.required_signers.as_ref().map(|v| v.iter().map(|h| hex::encode(h.as_ref())).collect()),
        _ => None,
    }
}

/// how the era's validator sees each input (+ collateral from Alonzo on), in the order it visits them;
/// second component: the payment key hash the *property* demands a witness for (independent of the era's view)
pub(crate) fn views(f: &Fixture) -> (Vec<String>, Vec<String>) {
    let tx = f.tx();
    let utxos = f.utxos();
    let era = era_tok(f);
    let mut ins = tx.inputs();
    if era != "shelley" { ins.extend(tx.collateral()); }
    let native_hashes: Vec<Hash<28>> = tx.native_scripts().iter().map(|s| { let mut p = vec![0u8]; p.extend_from_slice(s.raw_cbor()); Hasher::<224>::hash(&p) }).collect();
    let (mut vs, mut demanded) = (vec![], vec![]);
    for i in ins {
        let Some(o) = utxos.get(&i) else { vs.push("m".to_string()); continue };
        // the property's side: any Shelley key-locked output needs its payment key's signature
        let addr_bytes: Option<Vec<u8>> = match o {
            MultiEraOutput::AlonzoCompatible(x, _) => Some(x.address.to_vec()),
            MultiEraOutput::Babbage(x) => Some(match &***x { pallas_primitives::babbage::TransactionOutput::Legacy(l) => l.address.to_vec(), pallas_primitives::babbage::TransactionOutput::PostAlonzo(p) => p.address.to_vec() }),
            MultiEraOutput::Conway(x) => Some(match &***x { pallas_primitives::conway::TransactionOutput::Legacy(l) => l.address.to_vec(), pallas_primitives::conway::TransactionOutput::PostAlonzo(p) => p.address.to_vec() }),
            _ => None,
        };
        let part = addr_bytes.as_ref().and_then(|b| match Address::from_bytes(b) { Ok(Address::Shelley(sa)) => Some(sa.payment().clone()), _ => None });
        if let Some(ShelleyPaymentPart::Key(h)) = &part { demanded.push(hex::encode(h.as_ref())); }
        // the validator's side
        let looked_at = match (era, o) {
            ("shelley" | "alonzo", MultiEraOutput::AlonzoCompatible(..)) => true,
            ("babbage", MultiEraOutput::Babbage(..)) => true,
            ("babbage", MultiEraOutput::AlonzoCompatible(..)) => BABBAGE_LOOKS_AT_ALONZO_OUTPUTS,
            ("conway", MultiEraOutput::Byron(..)) => { vs.push("u".into()); continue }
            ("conway", _) => true,
            _ => false,
        };
        if !looked_at { vs.push("x".into()); continue; }
        vs.push(match part {
            None => "u".to_string(),
            Some(ShelleyPaymentPart::Key(h)) => format!("k:{}", hex::encode(h.as_ref())),
            Some(ShelleyPaymentPart::Script(h)) => format!("s:{}", native_hashes.iter().any(|n| n.as_ref() == h.as_ref()) as u8),
        });
    }
    (vs, demanded)
}
/// mirrors `check_vkey_input_wits` of babbage.rs (flipped by the `fix:` that made it read Alonzo-era outputs)
const BABBAGE_LOOKS_AT_ALONZO_OUTPUTS: bool = false;

pub(crate) fn native_ok(f: &Fixture) -> bool {
    if era_tok(f) != "shelley" { return true; }
    let tx = f.tx();
    let MultiEraTx::AlonzoCompatible(x, _) = &tx else { return true };
    let wits: Vec<VKeyWitness> = x.transaction_witness_set.vkeywitness.clone().unwrap_or_default();
    let scripts: Vec<_> = x.transaction_witness_set.native_script.iter().flatten().map(|s| s.clone().unwrap()).collect();
    shelley_ma::verif_hooks::native_scripts_ok(&wits, &scripts, &x.transaction_body.validity_interval_start, &x.transaction_body.ttl)
}

fn synth_tx(era: &str, nin: usize, req: &Option<Vec<u8>>, wits: Option<Vec<W>>) -> synth::SynthTx {
    let e = match era { "shelley" => Era::Shelley, "mary" => Era::Mary, "alonzo" => Era::Alonzo, "babbage" => Era::Babbage, _ => Era::Conway };
    let coin = |c: u64| synth::SValue { multi: false, coin: c, groups: vec![] };
    synth::SynthTx {
        era: e,
        inputs: (0..nin).map(|i| (100 + i as u8, coin(5_000_000))).collect(),
        outputs: vec![coin(5_000_000 * nin as u64 - 200_000)],
        fee: 200_000,
        mint: None,
        required_signers: req.clone(),
        certs: vec![],
        witnesses: wits,
    }
}

pub(crate) fn wits_text(w: &Option<Vec<W>>, msg: &[u8]) -> String {
    match w {
        None => "W none".into(),
        Some(v) => format!("W {}{}", v.len(), v.iter().map(|(k, s)| format!(" {} {} {} {}", hex(k), hex(s), key_hash(k), sig_ok(k, s, msg) as u8)).collect::<String>()),
    }
}
pub(crate) fn req_text(r: &Option<Vec<String>>) -> String {
    match r { None => "R none".into(), Some(v) => format!("R {}{}", v.len(), v.iter().map(|h| format!(" {h}")).collect::<String>()) }
}

fn own_key(g: &mut Gen) -> SecretKey { let b: [u8; 32] = g.rng.bytes(32).try_into().unwrap(); SecretKey::from(b) }

fn mutate(g: &mut Gen, w: &mut Option<Vec<W>>, msg: &[u8], tags: &mut Vec<&'static str>) {
    if w.is_none() { if g.rng.chance(1, 2) { *w = Some(vec![]); tags.push("some-empty"); } else { return; } }
    let v = w.as_mut().unwrap();
    match g.rng.below(12) {
        0 | 1 => { let sk = own_key(g); let pos = g.rng.below(v.len() as u64 + 1) as usize; v.insert(pos, (sk.public_key().as_ref().to_vec(), sk.sign(msg).as_ref().to_vec())); tags.push("add-valid"); }
        2 | 3 => { let pos = g.rng.below(v.len() as u64 + 1) as usize; v.insert(pos, (g.rng.bytes(32), g.rng.bytes(64))); tags.push("add-garbage"); }
        4 if !v.is_empty() => { let i = g.rng.below(v.len() as u64) as usize; let pos = g.rng.below(v.len() as u64 + 1) as usize; let c = v[i].clone(); v.insert(pos, c); tags.push("duplicate"); }
        5 | 6 if !v.is_empty() => { let i = g.rng.below(v.len() as u64) as usize; let b = g.rng.below(v[i].1.len().max(1) as u64) as usize; if let Some(x) = v[i].1.get_mut(b) { *x ^= 1 << g.rng.below(8); } tags.push("corrupt-sig"); }
        7 if !v.is_empty() => { let i = g.rng.below(v.len() as u64) as usize; let b = g.rng.below(v[i].0.len().max(1) as u64) as usize; if let Some(x) = v[i].0.get_mut(b) { *x ^= 1 << g.rng.below(8); } tags.push("corrupt-key"); }
        8 if !v.is_empty() => { let i = g.rng.below(v.len() as u64) as usize; v.remove(i); tags.push("drop"); }
        9 if v.len() > 1 => { let i = g.rng.below(v.len() as u64) as usize; let j = g.rng.below(v.len() as u64) as usize; v.swap(i, j); tags.push("reorder"); }
        10 => { let sk = own_key(g); let other = g.rng.bytes(32); v.push((sk.public_key().as_ref().to_vec(), sk.sign(&other).as_ref().to_vec())); tags.push("add-sig-of-other-msg"); }
        11 if g.rng.chance(1, 4) => { *w = None; tags.push("none"); }
        11 if !v.is_empty() && g.rng.chance(1, 3) => { let i = g.rng.below(v.len() as u64) as usize; if g.rng.chance(1, 2) { v[i].0.pop(); } else { v[i].1.push(0); } tags.push("bad-length"); }
        _ => {}
    }
}

pub fn generate(g: &mut Gen) {
    let fx = fixtures::post_byron();
    for i in 0..g.cases {
        let mut ops = vec![];
        let f = &fx[(i + g.rng.below(3) as usize) % fx.len()];
        let msg = tx_id(f);
        for _ in 0..g.rng.range(1, 3) {
            let mut w = base_wits(f);
            let mut tags = vec![];
            for _ in 0..[0u64, 1, 1, 2, 2, 3, 5][g.rng.below(7) as usize] { mutate(g, &mut w, &msg, &mut tags); }
            // Babbage rejects any transaction spending a pre-Babbage output in check_datums (InputNotInUTxO), before the
            // witness rules are reached, so the re-tagged scenario only makes sense for Conway
            let legacy = f.era == Era::Conway && g.rng.chance(1, 3);
            let mode = format!("{}{}", if g.rng.chance(1, 2) { "rule" } else { "whole" }, if legacy { "-legacy" } else { "" });
            let Some(s) = scenario(f.name, &mode, &w) else { continue };
            let (vs, _) = views(&s);
            ops.push(format!("vk {} {} {} {} I {} {} {} N {}", era_tok(f), f.name, mode, wits_text(&w, &msg), vs.len(), vs.join(" "), req_text(&required_signers(&s)), native_ok(&s) as u8));
        }
        // synthesized transactions: required signers in the body, own keys, whole validate_txs
        for _ in 0..g.rng.range(0, 2) {
            let era = *g.rng.pick(&["shelley", "mary", "alonzo", "babbage", "conway"]);
            let nin = g.rng.range(1, 3) as usize;
            let req: Option<Vec<u8>> = if matches!(era, "shelley" | "mary") || g.rng.chance(1, 4) { None } else {
                let mut r: Vec<u8> = [100u8, 101, 110, 111].iter().filter(|_| g.rng.chance(1, 2)).cloned().collect();
                if era == "conway" && r.is_empty() { r.push(110); }
                Some(r)
            };
            let t = synth_tx(era, nin, &req, None);
            let msg = synth::tx_id(&t);
            let mut w: Option<Vec<W>> = Some(synth::default_signers(&t).iter().map(|s| { let k = synth::key(*s); (k.pk.clone(), k.sk.sign(&msg).as_ref().to_vec()) }).collect());
            let mut tags = vec![];
            for _ in 0..[0u64, 0, 1, 1, 2, 3][g.rng.below(6) as usize] { mutate(g, &mut w, &msg, &mut tags); }
            if w.is_none() { w = Some(vec![]); }   // the synthesized witness set always has the field
            let f = synth::build(&synth_tx(era, nin, &req, w.clone()));
            let (vs, _) = views(&f);
            ops.push(format!("sy {era} {nin} {} {} I {} {} {} N {}", req.as_ref().map(|r| if r.is_empty() { "e".to_string() } else { r.iter().map(|x| x.to_string()).collect::<Vec<_>>().join(",") }).unwrap_or("-".into()),
                wits_text(&w, &msg), vs.len(), vs.join(" "), req_text(&required_signers(&f)), native_ok(&f) as u8));
        }
        // required signers alone: arbitrary signer lists against arbitrary witness lists
        for _ in 0..g.rng.range(0, 2) {
            let era = *g.rng.pick(&["alonzo", "babbage", "conway"]);
            let msg = g.rng.bytes(32);
            let mut v: Vec<W> = vec![];
            let mut pool: Vec<String> = vec![];
            for _ in 0..g.rng.below(5) {
                let sk = own_key(g);
                let mut sig = sk.sign(&msg).as_ref().to_vec();
                if g.rng.chance(1, 4) { sig[g.rng.below(64) as usize] ^= 4; }
                pool.push(key_hash(sk.public_key().as_ref()));
                if g.rng.chance(4, 5) { v.push((sk.public_key().as_ref().to_vec(), sig)); }
            }
            if g.rng.chance(1, 4) && !v.is_empty() { let c = v[0].clone(); v.push(c); }
            let w = if g.rng.chance(1, 8) { None } else { Some(v) };
            let mut req: Vec<String> = pool.iter().filter(|_| g.rng.chance(1, 2)).cloned().collect();
            if g.rng.chance(1, 5) { req.push(hex::encode(g.rng.bytes(28))); }
            let req = if req.is_empty() && (era == "conway" || g.rng.chance(1, 2)) { None } else { Some(req) };
            ops.push(format!("rq {era} {} {} {}", wits_text(&w, &msg), req_text(&req), hex(&msg)));
        }
        g.case(ops);
    }
}

fn class_of(e: &VE) -> &'static str {
    match e {
        VE::Alonzo(A::VKWitnessMissing) | VE::PostAlonzo(PA::VKWitnessMissing) | VE::ShelleyMA(S::MissingVKWitness) => "wit-missing",
        VE::Alonzo(A::VKWrongSignature) | VE::PostAlonzo(PA::VKWrongSignature) | VE::ShelleyMA(S::WrongSignature) => "wrong-sig",
        VE::Alonzo(A::ReqSignerMissing) | VE::PostAlonzo(PA::ReqSignerMissing) => "req-missing",
        VE::Alonzo(A::ReqSignerWrongSig) | VE::PostAlonzo(PA::ReqSignerWrongSig) => "req-wrong-sig",
        VE::Alonzo(A::InputDecoding) | VE::PostAlonzo(PA::InputDecoding) | VE::ShelleyMA(S::AddressDecoding) => "input-decoding",
        VE::Alonzo(A::InputNotInUTxO) | VE::PostAlonzo(PA::InputNotInUTxO) | VE::ShelleyMA(S::InputNotInUTxO) => "input-not-in-utxo",
        VE::ShelleyMA(S::MissingScriptWitness) => "script-wit-missing",
        VE::ShelleyMA(S::ScriptDenial) => "script-denial",
        _ => "other",
    }
}

/// `W <n|none> (vkey sig hash valid)^n` -> (witnesses, rest)
fn parse_wits(toks: &[String]) -> (Option<Vec<W>>, &[String]) {
    assert_eq!(toks[0], "W");
    if toks[1] == "none" { return (None, &toks[2..]); }
    let n: usize = toks[1].parse().unwrap();
    let v = (0..n).map(|i| (unhex(&toks[2 + 4 * i]).unwrap(), unhex(&toks[3 + 4 * i]).unwrap())).collect();
    (Some(v), &toks[2 + 4 * n..])
}

fn mk_wits(w: &Option<Vec<W>>) -> Option<Vec<VKeyWitness>> {
    w.as_ref().map(|v| v.iter().map(|(k, s)| VKeyWitness { vkey: Bytes::from(k.clone()), signature: Bytes::from(s.clone()) }).collect())
}

pub fn run_case(case: &Case, out: &mut Out) {
    let (mut acc, mut rej) = (false, false);
    for op in &case.ops {
        match op[0].as_str() {
            "vk" | "sy" => {
                let synthetic = op[0] == "sy";
                let mode = if synthetic { "whole" } else { op[3].as_str() };
                let (w, _) = parse_wits(&op[4..]);
                let f = if synthetic {
                    let req: Option<Vec<u8>> = match op[3].as_str() { "-" => None, "e" => Some(vec![]), s => Some(s.split(',').map(|x| x.parse().unwrap()).collect()) };
                    synth::build(&synth_tx(&op[1], op[2].parse().unwrap(), &req, w.clone()))
                } else {
                    let Some(f) = scenario(&op[2], mode, &w) else { out.reply("bad-op".into()); continue };
                    f
                };
                let era = era_tok(&f);
                let res = guard_mut(|| {
                    if mode.starts_with("whole") { return f.validate(); }
                    let tx = f.tx();
                    let utxos = f.utxos();
                    match &tx {
                        MultiEraTx::AlonzoCompatible(x, Era::Alonzo) => alonzo::verif_hooks::check_witness_set(x, &utxos),
                        MultiEraTx::AlonzoCompatible(x, _) => shelley_ma::verif_hooks::check_witnesses(&x.transaction_body, &x.transaction_witness_set, &utxos),
                        MultiEraTx::Babbage(x) => babbage::verif_hooks::check_witness_set(x, &utxos),
                        MultiEraTx::Conway(x) => conway::verif_hooks::check_witness_set(x, &utxos),
                        _ => panic!("byron"),
                    }
                });
                match res {
                    None => out.panic(),
                    Some(Err(e)) => { rej = true; out.err(class_of(&e)) }
                    Some(Ok(())) => {
                        acc = true;
                        // ---- the property, evaluated on what the accepted transaction really carries
                        let msg = tx_id(&f);
                        let tx = f.tx();
                        let carried: Vec<W> = tx.vkey_witnesses().iter().map(|w| (w.vkey.to_vec(), w.signature.to_vec())).collect();
                        for (i, (k, s)) in carried.iter().enumerate() {
                            if !sig_ok(k, s, &msg) { out.viol(format!("invalid-witness-accepted era={era}"), format!("{} {mode}: witness #{i} of {} does not verify", op[2], carried.len())); break; }
                        }
                        let signed = |h: &String| carried.iter().any(|(k, s)| &key_hash(k) == h && sig_ok(k, s, &msg));
                        let (_, demanded) = views(&f);
                        for h in &demanded {
                            if !signed(h) { out.viol(format!("key-locked-input-unsigned era={era}{}", if mode.ends_with("-legacy") { " legacy-output" } else { "" }), format!("{} {mode}: no valid witness for payment key {h}", op[2])); break; }
                        }
                        for h in required_signers(&f).unwrap_or_default() {
                            if !signed(&h) { out.viol(format!("required-signer-unsigned era={era}"), format!("{} {mode}: required signer {h}", op[2])); break; }
                        }
                        out.ok("");
                    }
                }
                out.cov(format!("{}:{era}:{mode}", op[0]));
            }
            "rq" => {
                let era = op[1].as_str();
                let (w, rest) = parse_wits(&op[2..]);
                assert_eq!(rest[0], "R");
                let req: Option<Vec<String>> = if rest[1] == "none" { None } else { let n: usize = rest[1].parse().unwrap(); Some(rest[2..2 + n].to_vec()) };
                let msg = unhex(rest.last().unwrap()).unwrap();
                let hashes: Option<Vec<Hash<28>>> = req.as_ref().map(|v| v.iter().map(|h| Hash::<28>::from(unhex(h).unwrap().as_slice())).collect());
                let wv = mk_wits(&w);
                let res = guard_mut(|| match era {
                    "alonzo" => alonzo::verif_hooks::check_required_signers(&hashes, &wv, &msg),
                    "babbage" => babbage::verif_hooks::check_required_signers(&hashes, &wv, &msg),
                    _ => conway::verif_hooks::check_required_signers(&hashes.clone().and_then(NonEmptySet::from_vec), &wv, &msg),
                });
                match res {
                    None => out.panic(),
                    Some(Err(e)) => { rej = true; out.err(class_of(&e)) }
                    Some(Ok(())) => {
                        acc = true;
                        let have = w.clone().unwrap_or_default();
                        for h in req.clone().unwrap_or_default() {
                            if !have.iter().any(|(k, s)| key_hash(k) == h && sig_ok(k, s, &msg)) { out.viol(format!("required-signer-unsigned era={era} rule"), format!("required signer {h} accepted without a valid witness")); break; }
                        }
                        out.ok("");
                    }
                }
                out.cov(format!("rq:{era}"));
            }
            _ => out.reply("bad-op".into()),
        }
    }
    if acc && rej { out.nontrivial(); }
}
