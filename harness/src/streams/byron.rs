//! stream `byron` — C19: Byron address construction and the parsing entry points.
//!   build <root28> <addrtype> <attr>*   AddressPayload -> from_decoded -> `ok <addr-bytes> <base58>`
//!        attr = d0:<stakeholder28> | d1 | p:<hex> | n:<hex>
//!   frombytes <hex>     ByronAddress::from_bytes      -> ok <payload> <crc> | err <class>
//!   addrbytes <hex>     Address::from_bytes           -> ok byron <payload> <crc> | ok other | err <class>
//!   addrhex <hex>       Address::from_hex             (same replies)
//!   frombase58 <str>    ByronAddress::from_base58     -> ok <payload> <crc> | err <class>
//!   fromstr <str>       Address::from_str             -> ok byron <payload> <crc> | not-byron
//!   corpus <hex>        as frombytes, for an address taken from the chain data in test_data (must be accepted)
//!   decode <hex>        ByronAddress::new(<hex>, 0).decode() -> ok <root28> <addrtype> <attr>* | err <class>
//!   crc <hex>           CRC-32/ISO-HDLC by the harness' bitwise reference (ties the Lean definition to it) -> ok <n>
//! Oracles: `crc-unchecked entry=<e>` = an entry point returned an address whose checksum does not match
//! its payload (checked with an independent bitwise CRC); `roundtrip <what>` = a built address does not
//! come back equal through CBOR / base58 / `decode()`.
use crate::fw::*;
use crate::streams::minicbor::err_class;
use pallas_addresses::byron::{AddrAttrProperty, AddrDistr, AddrType, AddressPayload, ByronAddress};
use pallas_addresses::{Address, Error};
use pallas_codec::minicbor::bytes::ByteVec;
use pallas_crypto::hash::Hash;
use std::str::FromStr;

pub const NAME: &str = "byron";

/// independent reference: CRC-32/ISO-HDLC, bit by bit (poly 0xEDB88320 reflected, init/xorout 0xFFFFFFFF)
pub fn crc32_ref(bs: &[u8]) -> u32 {
    let mut c: u32 = 0xffff_ffff;
    for b in bs { c ^= *b as u32; for _ in 0..8 { c = if c & 1 == 1 { (c >> 1) ^ 0xedb8_8320 } else { c >> 1 }; } }
    c ^ 0xffff_ffff
}
const B58: &[u8; 58] = b"123456789ABCDEFGHJKLMNPQRSTUVWXYZabcdefghijkmnopqrstuvwxyz";
/// independent base58 (bitcoin alphabet) encoder, used to produce inputs for the string entry points
pub fn b58enc(bs: &[u8]) -> String {
    let zeros = bs.iter().take_while(|b| **b == 0).count();
    let mut digits: Vec<u8> = vec![];
    for b in bs {
        let mut carry = *b as u32;
        for d in digits.iter_mut() { carry += (*d as u32) << 8; *d = (carry % 58) as u8; carry /= 58; }
        while carry > 0 { digits.push((carry % 58) as u8); carry /= 58; }
    }
    let mut s = String::new();
    for _ in 0..zeros { s.push('1'); }
    for d in digits.iter().rev() { s.push(B58[*d as usize] as char); }
    s
}

fn err_cls(e: &Error) -> String {
    match e {
        Error::InvalidByronCbor(m) => format!("cbor-{}", err_class(m)),
        Error::BadBase58(_) => "base58".into(),
        Error::BadHex => "hex".into(),
        Error::MissingHeader => "missing-header".into(),
        Error::InvalidHeader(_) => "invalid-header".into(),
        _ => "other".into(),
    }
}
fn show_addr(a: &ByronAddress) -> String { format!("{} {}", hex(a.payload.as_ref()), a.crc) }

/// independent base58 decoder (reference for the oracle: what bytes a string denotes)
pub fn b58dec_ref(s: &str) -> Option<Vec<u8>> {
    let zeros = s.bytes().take_while(|c| *c == b'1').count();
    let mut num: Vec<u8> = vec![]; // big-endian base-256
    for c in s.bytes().skip(zeros) {
        let mut carry = B58.iter().position(|x| *x == c)? as u32;
        for d in num.iter_mut().rev() { carry += (*d as u32) * 58; *d = carry as u8; carry >>= 8; }
        while carry > 0 { num.insert(0, carry as u8); carry >>= 8; }
    }
    let mut out = vec![0u8; zeros]; out.extend(num); Some(out)
}
/// independent reading of the address bytes as they are on the wire: `[#6.<any>(bytes), uint, ...]` with any head
/// widths -> (payload, checksum value as written, up to 64 bits)
pub fn wire_fields(b: &[u8]) -> Option<(Vec<u8>, u64)> {
    use crate::streams::cborwrap::read_head;
    let (m, ai, n, p) = read_head(b, 0)?;
    if m != 4 || (ai != 31 && n < 2) { return None; }
    let (m, ai, _, p) = read_head(b, p)?; if m != 6 || ai == 31 { return None; }
    let (m, ai, len, p) = read_head(b, p)?; if m != 2 || ai == 31 { return None; }
    let payload = b.get(p..p.checked_add(len as usize)?)?.to_vec();
    let (m, ai, c, _) = read_head(b, p + len as usize)?; if m != 0 || ai == 31 { return None; }
    Some((payload, c))
}
/// what the entry point was given, as bytes
fn input_bytes(op: &str, arg: &str) -> Option<Vec<u8>> {
    match op {
        "frombase58" => b58dec_ref(arg),
        "fromstr" => b58dec_ref(arg).filter(|b| wire_fields(b).is_some()).or_else(|| hex::decode(arg).ok()),
        _ => unhex(arg),
    }
}

/// the property on one accepted input: the checksum *as written in the input* (any head width, up to 64 bits) must be
/// the CRC-32 of the payload as written, and the returned address must carry exactly those two fields
fn check_crc(entry: &str, op: &str, arg: &str, a: &ByronAddress, out: &mut Out) {
    let want = crc32_ref(a.payload.as_ref());
    if want != a.crc { out.viol(format!("crc-unchecked entry={entry}"), format!("accepted payload {} with crc {} (payload checksum is {})", hex(a.payload.as_ref()), a.crc, want)); }
    if let Some((payload, wire_crc)) = input_bytes(op, arg).and_then(|b| wire_fields(&b)) {
        let wire_want = crc32_ref(&payload) as u64;
        if wire_crc != wire_want {
            out.viol(format!("crc-unchecked entry={entry} wire-checksum"), format!("input carries checksum {wire_crc:#x} for a payload whose CRC-32 is {wire_want:#x}, yet it was accepted (returned crc {:#x})", a.crc));
        }
        if payload[..] != a.payload.0[..] { out.viol(format!("parse-mismatch entry={entry}"), "returned payload differs from the payload bytes of the input"); }
    }
}

/// `[#6.24(payload), crc]` written with chosen head widths (0 = immediate, 1, 2, 4, 8 argument bytes; 31 = indefinite array)
pub fn style_addr(payload: &[u8], crc: u64, w_arr: u8, w_tag: u8, w_bytes: u8, w_crc: u8, extra: &[u8]) -> Vec<u8> {
    fn head(m: u8, v: u64, w: u8, out: &mut Vec<u8>) {
        match w {
            0 => out.push(m << 5 | v as u8),
            1 => { out.push(m << 5 | 24); out.push(v as u8); }
            2 => { out.push(m << 5 | 25); out.extend_from_slice(&(v as u16).to_be_bytes()); }
            4 => { out.push(m << 5 | 26); out.extend_from_slice(&(v as u32).to_be_bytes()); }
            _ => { out.push(m << 5 | 27); out.extend_from_slice(&v.to_be_bytes()); }
        }
    }
    let mut out = vec![];
    let n = 2 + if extra.is_empty() { 0 } else { 1 };
    if w_arr == 31 { out.push(0x9f); } else { head(4, n, w_arr, &mut out); }
    head(6, 24, w_tag.max(1), &mut out);
    let min_b = if payload.len() < 24 { 0 } else if payload.len() < 256 { 1 } else { 2 };
    head(2, payload.len() as u64, w_bytes.max(min_b), &mut out);
    out.extend_from_slice(payload);
    let min_c = if crc < 24 { 0 } else if crc < 256 { 1 } else if crc < 65536 { 2 } else if crc < (1 << 32) { 4 } else { 8 };
    head(0, crc, w_crc.max(min_c), &mut out);
    out.extend_from_slice(extra);
    if w_arr == 31 { out.push(0xff); }
    out
}

fn parse_payload(op: &[String]) -> Option<AddressPayload> {
    let root: [u8; 28] = unhex(op.get(1)?)?.try_into().ok()?;
    let ty = match op.get(2)?.parse::<u32>().ok()? { 0 => AddrType::PubKey, 1 => AddrType::Script, 2 => AddrType::Redeem, x => AddrType::Other(x) };
    let mut attrs = vec![];
    for t in &op[3..] {
        if t == "d1" { attrs.push(AddrAttrProperty::AddrDistr(AddrDistr::BootstrapEraDistribution)); }
        else if let Some(h) = t.strip_prefix("d0:") { let k: [u8; 28] = unhex(h)?.try_into().ok()?; attrs.push(AddrAttrProperty::AddrDistr(AddrDistr::SingleKeyDistribution(Hash::new(k)))); }
        else if let Some(h) = t.strip_prefix("p:") { attrs.push(AddrAttrProperty::DerivationPath(ByteVec::from(unhex(h)?))); }
        else if let Some(h) = t.strip_prefix("n:") { attrs.push(AddrAttrProperty::NetworkTag(ByteVec::from(unhex(h)?))); }
        else { return None; }
    }
    Some(AddressPayload { root: Hash::new(root), attributes: attrs.into(), addrtype: ty })
}

fn show_payload(p: &AddressPayload) -> String {
    let ty = match p.addrtype { AddrType::PubKey => 0, AddrType::Script => 1, AddrType::Redeem => 2, AddrType::Other(x) => x };
    let mut s = format!("{} {}", hex(p.root.as_ref()), ty);
    for a in p.attributes.iter() {
        match a {
            AddrAttrProperty::AddrDistr(AddrDistr::BootstrapEraDistribution) => s += " d1",
            AddrAttrProperty::AddrDistr(AddrDistr::SingleKeyDistribution(k)) => s += &format!(" d0:{}", hex(k.as_ref())),
            AddrAttrProperty::DerivationPath(b) => s += &format!(" p:{}", hex(b)),
            AddrAttrProperty::NetworkTag(b) => s += &format!(" n:{}", hex(b)),
        }
    }
    s
}

fn gen_build(rng: &mut Rng) -> String {
    let root = if rng.chance(1, 4) { vec![rng.below(3) as u8; 28] } else { rng.bytes(28) };
    let ty = *rng.pick(&[0u64, 0, 1, 2, 2, 3, 23, 24, 255, 256, 65536, u32::MAX as u64]);
    let mut s = format!("build {} {}", hex(&root), ty);
    // with / without attributes; repeated and out-of-order attributes are representable and kept
    let na = *rng.pick(&[0u64, 0, 1, 1, 2, 3]);
    for _ in 0..na {
        match rng.below(4) {
            0 => s += " d1",
            1 => s += &format!(" d0:{}", hex(&rng.bytes(28))),
            2 => { let l = *rng.pick(&[0usize, 1, 4, 23, 24, 30]); s += &format!(" p:{}", hex(&rng.bytes(l))); }
            _ => { let l = *rng.pick(&[0usize, 1, 4, 5]); s += &format!(" n:{}", hex(&rng.bytes(l))); }
        }
    }
    s
}
fn build_bytes(line: &str) -> Vec<u8> {
    let op: Vec<String> = line.split(' ').map(|s| s.to_string()).collect();
    ByronAddress::from_decoded(parse_payload(&op).expect("generated payload")).to_vec()
}

/// every Byron-type output address of the chain data in `$PV_REPO/test_data` (`*.block` hex files and the
/// immutable-db chunks), as raw address bytes, deduplicated and sorted
pub fn corpus_addresses() -> Vec<Vec<u8>> {
    use pallas_traverse::{MultiEraBlock, MultiEraOutput};
    use std::ops::Deref;
    let dir = std::path::PathBuf::from(std::env::var("PV_REPO").unwrap_or("/repo".into())).join("test_data");
    let mut blocks: Vec<Vec<u8>> = vec![];
    if let Ok(rd) = std::fs::read_dir(&dir) {
        let mut names: Vec<_> = rd.filter_map(|e| e.ok()).map(|e| e.path()).filter(|p| p.extension().map(|x| x == "block").unwrap_or(false)).collect();
        names.sort();
        for p in names { if let Ok(t) = std::fs::read_to_string(&p) { if let Ok(b) = hex::decode(t.trim()) { blocks.push(b); } } }
    }
    if let Ok(it) = pallas_hardano::storage::immutable::read_blocks(&dir) { for b in it.flatten() { blocks.push(b); } }
    let mut set = std::collections::BTreeSet::new();
    for b in &blocks {
        let Ok(blk) = MultiEraBlock::decode(b) else { continue };
        for tx in blk.txs() {
            for o in tx.outputs() {
                let raw: Vec<u8> = match &o {
                    MultiEraOutput::Byron(x) => ByronAddress::new(&x.address.payload.0, x.address.crc).to_vec(),
                    MultiEraOutput::AlonzoCompatible(x, _) => x.address.to_vec(),
                    MultiEraOutput::Babbage(x) => match x.deref().deref() {
                        pallas_primitives::babbage::TransactionOutput::Legacy(x) => x.address.to_vec(),
                        pallas_primitives::babbage::TransactionOutput::PostAlonzo(x) => x.address.to_vec(),
                    },
                    MultiEraOutput::Conway(x) => match x.deref().deref() {
                        pallas_primitives::conway::TransactionOutput::Legacy(x) => x.address.to_vec(),
                        pallas_primitives::conway::TransactionOutput::PostAlonzo(x) => x.address.to_vec(),
                    },
                    _ => continue,
                };
                if raw.first().map(|h| h & 0xf0 == 0x80).unwrap_or(false) { set.insert(raw); }
            }
        }
    }
    set.into_iter().collect()
}

const VECTORS: [&str; 3] = [
    "37btjrVyb4KDXBNC4haBVPCrro8AQPHwvCMp3RFhhSVWwfFmZ6wwzSK6JK1hY6wHNmtrpTf1kdbva8TCneM2YsiXT7mrzT21EacHnPpz5YyUdj64na",
    "DdzFFzCqrht7PQiAhzrn6rNNoADJieTWBt8KeK9BZdUsGyX9ooYD9NpMCTGjQoUKcHN47g8JMXhvKogsGpQHtiQ65fZwiypjrC6d3a4Q",
    "Ae2tdPwUPEZLs4HtbuNey7tK4hTKrwNwYtGqp7bDfCy2WdR3P6735W5Yfpe",
];

pub fn generate(g: &mut Gen) {
    // standard check value and the pinned mainnet vectors, every run
    g.case(vec!["crc 313233343536373839".to_string(), "crc -".into(), "crc 00".into(), "crc ff".into()]);
    // an intact address in wide heads, and the same with bit 63 / bit 32 of an 8-byte checksum field set (every entry point)
    {
        let payload = unhex("83581c2d1a843e05dad2df8182fae71e312ffd629b2f31784e4328aa4db500a001").unwrap();
        let crc = crc32_ref(&payload) as u64;
        let mut ops = vec![];
        for c in [crc, crc | 1 << 63, crc | 1 << 32, crc ^ 1] {
            let b = style_addr(&payload, c, 0, 1, 1, 8, &[]);
            ops.push(format!("frombytes {}", hex(&b))); ops.push(format!("addrbytes {}", hex(&b))); ops.push(format!("addrhex {}", hex(&b)));
            ops.push(format!("frombase58 {}", b58enc(&b))); ops.push(format!("fromstr {}", b58enc(&b)));
        }
        ops.push(format!("frombytes {}", hex(&style_addr(&payload, crc, 31, 8, 8, 4, &[]))));
        ops.push(format!("frombytes {}", hex(&style_addr(&payload, crc, 2, 2, 4, 8, &[0xf6]))));
        g.case(ops);
    }
    g.case(VECTORS.iter().flat_map(|v| vec![format!("frombase58 {v}"), format!("fromstr {v}")]).collect::<Vec<_>>());
    // the chain corpus: every Byron output address of test_data must still parse (they carry valid checksums)
    let corpus = corpus_addresses();
    let take = if g.tier == "thorough" { corpus.len() } else { corpus.len().min(400) };
    for chunk in corpus[..take].chunks(50) { g.case(chunk.iter().map(|a| format!("corpus {}", hex(a))).collect::<Vec<_>>()); }
    let n = g.cases.saturating_sub(2);
    for i in 0..n {
        let mut rng = g.rng.fork();
        let build = gen_build(&mut rng);
        let good = build_bytes(&build);
        let mut ops = vec![build.clone()];
        // where the payload and the checksum sit inside the address bytes: 82 d8 18 <bytes head> <payload> <crc>
        let (_, _, plen, pstart) = crate::streams::cborwrap::read_head(&good, 3).unwrap();
        let pend = pstart + plen as usize;
        // the same address in other legal encodings: every head width for the array / tag / byte-string / checksum heads
        // (non-minimal ones and the 8-byte checksum head included), indefinite and longer arrays; intact, and corrupted in the
        // payload, in the low and — only expressible with the 8-byte head — in the upper 32 bits of the checksum field
        {
            let payload = good[pstart..pend].to_vec();
            let crc = crc32_ref(&payload) as u64;
            let ws = [0u8, 1, 2, 4, 8];
            let rounds = if g.tier == "thorough" { 6 } else { 2 };
            for _ in 0..rounds {
                let w_arr = *rng.pick(&[0u8, 0, 1, 2, 4, 8, 31]);
                let (w_tag, w_bytes) = (*rng.pick(&ws), *rng.pick(&ws));
                let w_crc = *rng.pick(&[0u8, 4, 4, 8, 8, 8]);
                let extra: Vec<u8> = if rng.chance(1, 5) { vec![*rng.pick(&[0x00u8, 0xf6, 0x80])] } else { vec![] };
                let crc_v = match rng.below(6) {
                    0 | 1 => crc,                                              // intact
                    2 => crc ^ (1 << rng.below(32)),                           // low half corrupted
                    3 | 4 => crc | (1u64 << (32 + rng.below(32))),             // upper half corrupted (forces the 8-byte head)
                    _ => crc.wrapping_add(1 << 32),
                };
                let mut pl = payload.clone();
                if rng.chance(1, 6) && !pl.is_empty() { let k = rng.below(pl.len() as u64 * 8) as usize; pl[k / 8] ^= 1 << (k % 8); }
                let mut styled = style_addr(&pl, crc_v, w_arr, w_tag, w_bytes, w_crc, &extra);
                // the tag number is not compared by the decoder: other tag numbers in the one-byte form
                if w_tag <= 1 && rng.chance(1, 8) { let at = match w_arr { 0 | 31 => 1, 1 => 2, 2 => 3, 4 => 5, _ => 9 }; if styled.get(at) == Some(&0xd8) { styled[at + 1] = *rng.pick(&[0x19u8, 0x1e, 0xff]); } }
                let h = hex(&styled);
                match rng.below(5) { 0 => ops.push(format!("frombytes {h}")), 1 => ops.push(format!("addrbytes {h}")), 2 => ops.push(format!("addrhex {h}")),
                    3 => ops.push(format!("frombase58 {}", b58enc(&styled))), _ => ops.push(format!("fromstr {}", b58enc(&styled))) }
            }
        }
        match i % 4 {
            // valid address through every entry point
            0 => {}
            // every single-bit corruption (thorough) / a sample of them (quick) of payload or checksum
            1 | 2 => {
                let nbits = (good.len() - pstart) * 8;
                let picks: Vec<usize> = if g.tier == "thorough" && i % 8 == 1 { (0..nbits).collect() } else { (0..6).map(|_| rng.below(nbits as u64) as usize).collect() };
                for bit in picks {
                    let mut bad = good.clone();
                    let at = pstart + bit / 8;
                    // skip the checksum's head byte: flipping it changes the CBOR shape, not the checksum value
                    if at == pend { continue; }
                    bad[at] ^= 1 << (bit % 8);
                    let h = hex(&bad);
                    match rng.below(5) { 0 => ops.push(format!("frombytes {h}")), 1 => ops.push(format!("addrbytes {h}")), 2 => ops.push(format!("addrhex {h}")),
                        3 => ops.push(format!("frombase58 {}", b58enc(&bad))), _ => ops.push(format!("fromstr {}", b58enc(&bad))) }
                }
            }
            // malformed: truncated, trailing bytes, other CBOR shapes, random
            _ => {
                let mut bad = good.clone();
                match rng.below(5) {
                    0 => { let c = rng.below(bad.len() as u64) as usize; bad.truncate(c); }
                    1 => { let k = 1 + rng.below(3) as usize; bad.extend(rng.bytes(k)); }
                    2 => { bad[0] = *rng.pick(&[0x83u8, 0x81, 0x9f, 0x80, 0x98]); if bad[0] == 0x9f { bad.push(0xff); } if bad[0] == 0x98 { bad.insert(1, 2); } }
                    3 => { bad[2] = rng.next() as u8; }
                    _ => { let n = rng.below(12) as usize; bad = rng.bytes(n); if !bad.is_empty() { bad[0] = if rng.chance(1, 2) { 0x82 } else { 0x80 | (rng.next() as u8 & 0x0f) }; } }
                }
                let h = hex(&bad);
                ops.push(format!("frombytes {h}")); ops.push(format!("addrbytes {h}"));
                if rng.chance(1, 2) && !bad.is_empty() { ops.push(format!("fromstr {}", b58enc(&bad))); }
            }
        }
        // the payload structure back out of the address (`ByronAddress::decode`), intact and with one byte changed
        ops.push(format!("decode {}", hex(&good[pstart..pend])));
        if rng.chance(1, 3) && pend > pstart { let mut pl = good[pstart..pend].to_vec(); let k = rng.below(pl.len() as u64) as usize; pl[k] = rng.next() as u8; ops.push(format!("decode {}", hex(&pl))); }
        let h = hex(&good);
        ops.push(format!("frombytes {h}")); ops.push(format!("addrbytes {h}")); ops.push(format!("addrhex {h}"));
        ops.push(format!("frombase58 {}", b58enc(&good))); ops.push(format!("fromstr {}", b58enc(&good)));
        if rng.chance(1, 3) { let l = rng.below(40) as usize; ops.push(format!("crc {}", hex(&rng.bytes(l)))); }
        g.case(ops);
    }
}

pub fn run_case(case: &Case, out: &mut Out) {
    let (mut accepted, mut rejected_crc) = (false, false);
    for op in &case.ops {
        let arg = op.get(1).cloned().unwrap_or_default();
        match op[0].as_str() {
            "decode" => match unhex(&arg) {
                Some(b) => match guard(|| ByronAddress::new(&b, 0).decode()) {
                    None => out.panic(),
                    Some(Ok(p)) => out.ok(show_payload(&p)),
                    Some(Err(Error::InvalidByronCbor(e))) => out.err(err_class(&e)),
                    Some(Err(_)) => out.err("other"),
                },
                None => out.reply("bad-op".into()),
            },
            "crc" => match unhex(&arg) {
                // reference value; pallas' own checksum is compared through the address bytes of every `build`
                Some(b) => out.ok(crc32_ref(&b).to_string()),
                None => out.reply("bad-op".into()),
            },
            "build" => match parse_payload(op) {
                None => out.reply("bad-op".into()),
                Some(p) => match guard(|| { let a = ByronAddress::from_decoded(p.clone()); (a.to_vec(), a.to_base58(), a) }) {
                    None => out.panic(),
                    Some((bytes, b58, a)) => {
                        out.ok(format!("{} {}", hex(&bytes), b58));
                        check_crc("from_decoded", "frombytes", &hex(&bytes), &a, out);
                        if ByronAddress::from_bytes(&bytes).ok().as_ref() != Some(&a) { out.viol("roundtrip cbor", format!("from_bytes(to_vec(a)) != a for {}", hex(&bytes))); }
                        let long = if bytes.len() > 128 { " len>128" } else { "" };
                        if ByronAddress::from_base58(&b58).ok().as_ref() != Some(&a) { out.viol(format!("roundtrip base58{long}"), format!("from_base58(to_base58(a)) != a for {b58} ({} bytes)", bytes.len())); }
                        if b58 != b58enc(&bytes) { out.viol("roundtrip base58-text", format!("to_base58 gives {b58}, reference {}", b58enc(&bytes))); }
                        if a.decode().ok().as_ref() != Some(&p) { out.viol("roundtrip payload", format!("decode(from_decoded(p)) != p for {}", hex(&bytes))); }
                        if Address::from_bytes(&bytes).ok() != Some(Address::Byron(a.clone())) { out.viol("roundtrip address-bytes", format!("Address::from_bytes differs for {}", hex(&bytes))); }
                        if Address::from_str(&b58).ok() != Some(Address::Byron(a.clone())) { out.viol(format!("roundtrip address-str{long}"), format!("Address::from_str differs for {b58} ({} bytes)", bytes.len())); }
                        if Address::Byron(a.clone()).to_vec() != bytes { out.viol("roundtrip address-to-vec", "Address::to_vec differs"); }
                    }
                },
            },
            "frombytes" | "frombase58" | "corpus" => {
                let r = if op[0] != "frombase58" { match unhex(&arg) { Some(b) => guard(|| ByronAddress::from_bytes(&b)), None => { out.reply("bad-op".into()); continue; } } }
                        else { guard(|| ByronAddress::from_base58(&arg)) };
                match r {
                    None => out.panic(),
                    Some(Ok(a)) => { accepted = true; out.ok(show_addr(&a)); check_crc(if op[0] != "frombase58" { "ByronAddress::from_bytes" } else { "ByronAddress::from_base58" }, &op[0], &arg, &a, out); if op[0] == "corpus" { out.cov("corpus-address-accepted"); } }
                    Some(Err(e)) => {
                        let c = err_cls(&e); if c == "cbor-msg" { rejected_crc = true; }
                        if op[0] == "corpus" { out.viol("corpus-address-rejected", format!("on-chain address {} is rejected ({c})", arg)); }
                        out.err(c);
                    }
                }
            }
            "addrbytes" | "addrhex" => {
                let r = if op[0] == "addrbytes" { match unhex(&arg) { Some(b) => guard(|| Address::from_bytes(&b)), None => { out.reply("bad-op".into()); continue; } } }
                        else { let a = if arg == "-" { String::new() } else { arg.clone() }; guard(|| Address::from_hex(&a)) };
                match r {
                    None => out.panic(),
                    Some(Ok(Address::Byron(a))) => { accepted = true; out.ok(format!("byron {}", show_addr(&a))); check_crc(if op[0] == "addrbytes" { "Address::from_bytes" } else { "Address::from_hex" }, "frombytes", &arg, &a, out); }
                    Some(Ok(_)) => out.ok("other"),
                    Some(Err(e)) => { let c = err_cls(&e); if c == "cbor-msg" { rejected_crc = true; } out.err(c); }
                }
            }
            "fromstr" => match guard(|| Address::from_str(&arg)) {
                None => out.panic(),
                Some(Ok(Address::Byron(a))) => { accepted = true; out.ok(format!("byron {}", show_addr(&a))); check_crc("Address::from_str", "fromstr", &arg, &a, out); }
                Some(_) => out.reply("not-byron".into()),
            },
            _ => out.reply("bad-op".into()),
        }
    }
    if accepted { out.cov("some-accepted"); }
    if rejected_crc { out.cov("some-rejected-msg"); }
    // non-trivial: the case has a valid address accepted and a corrupted / malformed one rejected at the checksum or shape check
    if accepted && rejected_crc { out.nontrivial(); }
}

