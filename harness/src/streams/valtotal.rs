//! stream `valtotal` — C33: phase-1 validation never panics. Every op builds a validation scenario, decodes it (a
//! scenario whose transaction or UTxO entry no longer decodes is outside the property and answers `ok total` too) and
//! runs `validate_txs` under `catch_unwind` with a panic hook that records where the panic came from.
//!
//!   mt <fixture> T <k> (r <pos> <len> <hex|->)^k (U <idx> <k> (r <pos> <len> <hex|->)^k)* [P <name>=<value>]*
//!        the fixture's transaction bytes and/or UTxO entry number <idx> with the listed byte edits (replace <len> bytes at
//!        <pos>); `P` = protocol-parameter / environment override: a (minfee_a) b (minfee_b) slot (block_slot) cp (collateral %)
//!   sv <era> <legacy 0|1> I <n> <value>^n O <m> <value>^m F <fee> M <mint|-> [C <n> <value>^n R <value|-> T <total|->]
//!        a synthesized, correctly signed transaction (`fixtures::synth`), values in the notation of stream `value`;
//!        <legacy> = outputs and UTxO entries in the pre-Babbage array form; C/R/T = collateral inputs, collateral return,
//!        total collateral (Alonzo and later; a Plutus script is then put in the witness set so that the collateral rules run)
//!   fc <fixture> CI <value> R <value|-> T <total|->
//!        a fixture that has collateral inputs, with the value of every collateral UTxO entry replaced by <value> and the body's
//!        collateral return (key 16) / total collateral (key 17) replaced (`-` = field absent); through validate_txs
//!   ld <babbage|conway> <value> <value>
//!        `utils::lovelace_diff_or_fail` / `utils::conway_lovelace_diff_or_fail` on the two values, compared with
//!        Model/PhaseOneArith.lovelaceDiffOrFail: reply `ok <n>` | `err` | `panic`
//!   cb <alonzo|babbage|conway> <legacy 0|1> F <fee> P <percentage> C <n> <value>^n R <value|-> T <total|->
//!        `check_collaterals_assets` of the era alone (verif_hooks) on a synthesized body + UTxO set, compared with
//!        Model/PhaseOneArith.collateralAlonzo / collateralBalance: reply `ok` | `err <Error>` | `panic`
//!   ns <low|-> <upp|-> K <n> <key hash>^n S <m> <script>^m
//!        `check_native_scripts` of Shelley-MA alone (hook `native_scripts_ok`) with key witnesses of the listed key hashes and the
//!        validity bounds; scripts in prefix notation (`pk <hash>` `all <k> ..` `any <k> ..` `nk <n> <k> ..` `ib <slot>` `ih <slot>`);
//!        compared with Model/NativeScript.checkNativeScripts: reply `ok true` | `ok false` | `panic`
//!   nt <shelley|allegra|mary> <start|-> <ttl|-> S <m> <script>^m
//!        a correctly signed transaction (one key-locked input, signer = key 100) whose witness set carries the scripts; validate_txs
//!   bw <fixture> <kind>
//!        Byron witness / address corner: `script-addr` `other-addr` (UTxO address of type 1 / 7 with a witness present),
//!        `short-key` `long-key` `short-sig` `long-sig` (witness key / signature of another length), `txin-other`
//!
//! replies of mt / sv / fc / nt / bw: `ok total` | `panic`. The Lean side (Streams/ValTotal.lean) states the demanded class `ok total`; what is
//! *proved* about the modelled rules is in Props/C33.lean. `!viol` key = `panic <crate file> <message>`.
use crate::fixtures::{self, params, synth, txparts, Fixture, InputRef, UtxoEntry};
use crate::fw::*;
use pallas_codec::minicbor::{self, data::Tag, Encoder};
use pallas_traverse::{Era, MultiEraOutput, MultiEraTx};
use pallas_validate::utils::MultiEraProtocolParameters as P;
use std::cell::RefCell;
use std::panic;

#[path = "../fixtures/mutate.rs"]
mod mutate;

pub const NAME: &str = "valtotal";

thread_local! { static LAST_PANIC: RefCell<String> = RefCell::new(String::new()); }

/// run `f`; `Err(where)` if it panicked (`where` = `<path from the crate dir>:<line> <message>`)
fn catch<T>(f: impl FnOnce() -> T) -> Result<T, String> {
    let prev = panic::take_hook();
    panic::set_hook(Box::new(|info| {
        let loc = info.location().map(|l| format!("{}:{}", l.file(), l.line())).unwrap_or_default();
        let msg = info.payload().downcast_ref::<&str>().map(|s| s.to_string()).or_else(|| info.payload().downcast_ref::<String>().cloned()).unwrap_or_default();
        LAST_PANIC.with(|c| *c.borrow_mut() = format!("{loc} {msg}"));
    }));
    let r = panic::catch_unwind(panic::AssertUnwindSafe(f));
    panic::set_hook(prev);
    r.map_err(|_| LAST_PANIC.with(|c| c.borrow().clone()))
}

/// stable key: crate-relative file (no line) + message with digits squeezed
fn panic_key(w: &str) -> String {
    let (loc, msg) = w.split_once(' ').unwrap_or((w, ""));
    let file = loc.rsplit_once(':').map(|x| x.0).unwrap_or(loc);
    let file = match file.find("pallas-") { Some(i) => &file[i..], None => file.rsplit('/').take(3).collect::<Vec<_>>().into_iter().rev().collect::<Vec<_>>().join("/").leak() };
    let msg: String = msg.chars().map(|c| if c.is_ascii_digit() { '#' } else if c == ' ' { '_' } else { c }).collect();
    let mut squeezed = String::new();
    for c in msg.chars() { if !(c == '#' && squeezed.ends_with('#')) { squeezed.push(c); } }
    format!("panic {file} {}", &squeezed[..squeezed.len().min(60)])
}

fn apply_params(f: &mut Fixture, toks: &[String]) {
    for t in toks {
        let Some((k, v)) = t.split_once('=') else { continue };
        let Ok(v) = v.parse::<u64>() else { continue };
        match k {
            "a" => { let (_, b) = params::minfee(&f.env).unwrap_or((0, 0)); params::set_minfee(&mut f.env, v as u32, b); }
            "b" => { let (a, _) = params::minfee(&f.env).unwrap_or((0, 0)); params::set_minfee(&mut f.env, a, v as u32); }
            "slot" => f.env.block_slot = v,
            "cp" => match &mut f.env.prot_params { P::Alonzo(p) => p.collateral_percentage = v as u32, P::Babbage(p) => p.collateral_percentage = v as u32, P::Conway(p) => p.collateral_percentage = v as u32, _ => {} },
            "summand" => if let P::Byron(p) = &mut f.env.prot_params { p.summand = v },
            "multiplier" => if let P::Byron(p) = &mut f.env.prot_params { p.multiplier = v },
            _ => {}
        }
    }
}

/// decode everything, then validate; `Ok(None)` = the scenario does not decode
fn run_scenario(f: &Fixture) -> Result<Option<Result<(), String>>, String> {
    catch(|| {
        let Ok(tx) = MultiEraTx::decode_for_era(f.era, &f.tx_cbor) else { return None };
        let mut utxos = pallas_validate::utils::UTxOs::new();
        for e in &f.utxo {
            let Ok(o) = MultiEraOutput::decode(e.era, &e.cbor) else { return None };
            utxos.insert(e.input.as_multi_era(), o);
        }
        let mut cs = f.cert_state.clone();
        Some(pallas_validate::phase1::validate_txs(&[tx], &f.env, &utxos, &mut cs).map_err(|e| format!("{e:?}")))
    })
}

fn report(out: &mut Out, what: &str, r: Result<Option<Result<(), String>>, String>) {
    match r {
        Err(w) => { out.viol(panic_key(&w), format!("{what}: panicked at {w}")); out.panic(); }
        Ok(None) => { out.cov("undecodable"); out.ok("total"); }
        Ok(Some(Ok(()))) => { out.cov("accepted"); out.nontrivial(); out.ok("total"); }
        Ok(Some(Err(e))) => { let k: String = e.chars().take_while(|c| *c != '(' || true).filter(|c| c.is_ascii_alphanumeric() || *c == '(').collect(); out.cov(format!("rejected:{}", &k[..k.len().min(40)])); out.nontrivial(); out.ok("total"); }
    }
}

// ------------------------------------------------------------------------------------------------ targeted byte edits

/// quantity-like integers get boundary values; byte strings get their length changed together with the payload
fn gen_targeted(g: &mut Gen, bs: &[u8]) -> mutate::Edit {
    let hs = mutate::heads(bs);
    let ints: Vec<&mutate::HeadAt> = hs.iter().filter(|h| h.major <= 1 && h.ai != 31).collect();
    let strs: Vec<&mutate::HeadAt> = hs.iter().filter(|h| h.major == 2 && h.ai != 31 && h.val <= 64).collect();
    let seqs: Vec<&mutate::HeadAt> = hs.iter().filter(|h| (h.major == 4 || h.major == 5) && h.ai != 31).collect();
    match g.rng.below(10) {
        0..=4 if !ints.is_empty() => {
            let h = ints[g.rng.below(ints.len() as u64) as usize];
            let v = match g.rng.below(10) { 0 => 0, 1 => u64::MAX, 2 => 1 << 63, 3 => (1 << 63) - 1, 4 => u64::MAX - g.rng.below(4), 5 => (1 << 62) + g.rng.below(3), 6 => u32::MAX as u64, 7 => h.val.wrapping_add(1), 8 => h.val.wrapping_sub(1), _ => g.rng.u64_edgy() };
            let major = if g.rng.chance(1, 8) { 1 - h.major } else { h.major };
            mutate::Edit { pos: h.pos, len: 1 + h.arglen, with: mutate::enc_head(major, v, if v < 24 && g.rng.chance(1, 2) { 0 } else { 8 }) }
        }
        5 | 6 if !strs.is_empty() => {
            // shorter / longer / empty byte string (keys, signatures, hashes, asset names, addresses)
            let h = strs[g.rng.below(strs.len() as u64) as usize];
            let old = h.val as usize;
            let new = match g.rng.below(5) { 0 => 0, 1 => old.saturating_sub(1), 2 => old + 1, 3 => old / 2, _ => g.rng.below(70) as usize };
            let start = h.pos + 1 + h.arglen;
            let mut payload: Vec<u8> = bs.get(start..(start + old).min(bs.len())).unwrap_or(&[]).to_vec();
            payload.resize(new, 0x5a);
            let mut with = mutate::enc_head(2, new as u64, if new < 24 { 0 } else { 1 });
            with.extend(payload);
            mutate::Edit { pos: h.pos, len: 1 + h.arglen + old, with }
        }
        7 if !seqs.is_empty() => {
            // empty container in place of a non-empty one is only well-formed if the items go too; otherwise count - 1 / + 1
            let h = seqs[g.rng.below(seqs.len() as u64) as usize];
            let v = match g.rng.below(3) { 0 => h.val.saturating_sub(1), 1 => h.val.wrapping_add(1), _ => 0 };
            mutate::Edit { pos: h.pos, len: 1 + h.arglen, with: mutate::enc_head(h.major, v, h.arglen as u8) }
        }
        _ => mutate::gen_edit(&mut g.rng, bs, &hs),
    }
}

fn edits_text(es: &[mutate::Edit]) -> String { es.iter().map(|e| format!(" {}", mutate::show(e))).collect() }

// ------------------------------------------------------------------------------------------------ synthesized scenarios

#[derive(Clone, Debug)]
struct Val { multi: bool, coin: u64, groups: synth::Groups }

fn parse_groups(s: &str) -> synth::Groups {
    s.split(';').filter(|g| !g.is_empty()).map(|g| {
        let (p, rest) = g.split_once(':').expect("policy:assets");
        (u8::from_str_radix(p, 16).expect("policy"), rest.split(',').filter(|a| !a.is_empty()).map(|a| { let (n, v) = a.split_once('=').expect("name=amount"); (unhex(n).expect("name"), v.parse().expect("amount")) }).collect())
    }).collect()
}
fn parse_val(t: &str) -> Val {
    let (coin, rest) = match t[1..].split_once(';') { Some((c, r)) => (c, r), None => (&t[1..], "") };
    Val { multi: t.starts_with('m'), coin: coin.parse().expect("coin"), groups: parse_groups(rest) }
}
fn show_groups(g: &synth::Groups) -> String { g.iter().map(|(p, a)| format!(";{p:02x}:{}", a.iter().map(|(n, v)| format!("{}={v}", hex(n))).collect::<Vec<_>>().join(","))).collect() }
fn show_val(v: &Val) -> String { format!("{}{}{}", if v.multi { "m" } else { "c" }, v.coin, show_groups(&v.groups)) }
fn sval(v: &Val) -> synth::SValue { synth::SValue { multi: v.multi, coin: v.coin, groups: v.groups.clone() } }

fn era_of(s: &str) -> Era { match s { "shelley" => Era::Shelley, "allegra" => Era::Allegra, "mary" => Era::Mary, "alonzo" => Era::Alonzo, "babbage" => Era::Babbage, _ => Era::Conway } }

struct Coll { ins: Vec<Val>, ret: Option<Val>, total: Option<u64> }
/// validity interval start (`None` = no key 8), TTL (`Some(None)` = no key 3; default `u64::MAX`), extra native scripts of the witness set
#[derive(Default)]
struct Extra { start: Option<u64>, ttl: Option<Option<u64>>, scripts: Vec<Vec<u8>> }

/// the synthesized fixture, with legacy output forms and a collateral section spliced in where asked
fn build_sv(era: &str, legacy: bool, ins: &[Val], outs: &[Val], fee: u64, mint: &Option<synth::Groups>, coll: &Option<Coll>) -> Fixture { build_sv_x(era, legacy, ins, outs, fee, mint, coll, &Extra::default()) }
fn build_sv_x(era: &str, legacy: bool, ins: &[Val], outs: &[Val], fee: u64, mint: &Option<synth::Groups>, coll: &Option<Coll>, x: &Extra) -> Fixture {
    let e = era_of(era);
    let t = synth::SynthTx {
        era: e,
        inputs: ins.iter().enumerate().map(|(i, v)| (100 + i as u8, sval(v))).collect(),
        outputs: outs.iter().map(sval).collect(),
        fee,
        mint: mint.clone(),
        required_signers: None,
        certs: vec![],
        witnesses: None,
    };
    let mut f = synth::build(&t);
    let post = matches!(e, Era::Babbage | Era::Conway);
    let plain_x = x.start.is_none() && x.ttl.is_none() && x.scripts.is_empty();
    if !(legacy && post) && coll.is_none() && plain_x { return f; }
    // rebuild the body: same fields, outputs in the legacy array form and/or keys 13 (collateral), 16 (return), 17 (total)
    let network = f.env.network_id;
    let out_addr = synth::key_address(network, &synth::key(200));
    let put_out = |e: &mut Encoder<Vec<u8>>, addr: &[u8], v: &Val| {
        if post && !legacy { e.map(2).unwrap().u8(0).unwrap().bytes(addr).unwrap().u8(1).unwrap(); } else { e.array(2).unwrap().bytes(addr).unwrap(); }
        synth::put_value(e, &sval(v));
    };
    let ttl: Option<u64> = match x.ttl { None => Some(u64::MAX), Some(t) => t };
    let nfields = 3 + ttl.is_some() as u64 + x.start.is_some() as u64 + mint.is_some() as u64 + coll.as_ref().map(|c| 1 + c.ret.is_some() as u64 + c.total.is_some() as u64).unwrap_or(0);
    let mut b = Encoder::new(Vec::new());
    b.map(nfields).unwrap();
    b.u8(0).unwrap();
    if e == Era::Conway { b.tag(Tag::new(258)).unwrap(); }
    b.array(ins.len() as u64).unwrap();
    for i in 0..ins.len() { b.array(2).unwrap().bytes(&[i as u8 + 1; 32]).unwrap().u8(0).unwrap(); }
    b.u8(1).unwrap().array(outs.len() as u64).unwrap();
    for o in outs { put_out(&mut b, &out_addr, o); }
    b.u8(2).unwrap().u64(fee).unwrap();
    if let Some(t) = ttl { b.u8(3).unwrap().u64(t).unwrap(); }
    if let Some(st) = x.start { b.u8(8).unwrap().u64(st).unwrap(); }
    if let Some(m) = mint {
        b.u8(9).unwrap();
        let mv = synth::SValue { multi: true, coin: 0, groups: m.clone() };
        let mut tmp = Encoder::new(Vec::new());
        synth::put_value(&mut tmp, &mv);
        // `[0, groups]`: drop the 2-element array head and the coin
        b.writer_mut().extend_from_slice(&tmp.into_writer()[2..]);
    }
    if let Some(c) = coll {
        b.u8(13).unwrap();
        if e == Era::Conway { b.tag(Tag::new(258)).unwrap(); }
        b.array(c.ins.len() as u64).unwrap();
        for i in 0..c.ins.len() { b.array(2).unwrap().bytes(&[0xc0 + i as u8; 32]).unwrap().u8(0).unwrap(); }
        if let Some(r) = &c.ret { b.u8(16).unwrap(); put_out(&mut b, &out_addr, r); }
        if let Some(tc) = c.total { b.u8(17).unwrap().u64(tc).unwrap(); }
    }
    let body = b.into_writer();
    let txid = pallas_crypto::hash::Hasher::<256>::hash(&body);
    let signers = synth::default_signers(&t);
    let mut w = Encoder::new(Vec::new());
    let policies: Vec<u8> = { let mut p: Vec<u8> = mint.iter().flatten().map(|(p, _)| *p).collect(); p.dedup(); p };
    let nscripts = policies.len() + x.scripts.len();
    w.map(1 + (nscripts > 0) as u64 + coll.is_some() as u64).unwrap();
    w.u8(0).unwrap().array(signers.len() as u64).unwrap();
    for s in &signers { let k = synth::key(*s); w.array(2).unwrap().bytes(&k.pk).unwrap().bytes(k.sk.sign(txid.as_ref()).as_ref()).unwrap(); }
    if nscripts > 0 {
        w.u8(1).unwrap().array(nscripts as u64).unwrap();
        for p in &policies { w.writer_mut().extend_from_slice(&synth::native_script(&synth::key(*p))); }
        for sc in &x.scripts { w.writer_mut().extend_from_slice(sc); }
    }
    if coll.is_some() {
        // a Plutus v1 script in the witness set switches the collateral rules on (`presence_of_plutus_scripts`)
        w.u8(3).unwrap();
        if e == Era::Conway { w.tag(Tag::new(258)).unwrap(); }
        w.array(1).unwrap().bytes(&[0x46, 0x01, 0x00, 0x00, 0x22, 0x00, 0x11]).unwrap();
    }
    f.tx_cbor = txparts::assemble(&txparts::TxParts { body, wits: w.into_writer(), aux: None, valid: true });
    f.utxo = ins.iter().enumerate().map(|(i, v)| {
        let mut oe = Encoder::new(Vec::new());
        put_out(&mut oe, &synth::key_address(network, &synth::key(100 + i as u8)), v);
        UtxoEntry { input: InputRef::Post(synth::input_ref(i)), era: if post && !legacy { e } else { Era::Alonzo }, cbor: oe.into_writer() }
    }).collect();
    if let Some(c) = coll {
        for (i, v) in c.ins.iter().enumerate() {
            let mut oe = Encoder::new(Vec::new());
            put_out(&mut oe, &synth::key_address(network, &synth::key(100)), v);
            let mut inp = synth::input_ref(0);
            inp.transaction_id = [0xc0 + i as u8; 32].into();
            f.utxo.push(UtxoEntry { input: InputRef::Post(inp), era: if post && !legacy { e } else { Era::Alonzo }, cbor: oe.into_writer() });
        }
    }
    f
}

fn edgy_amount(g: &mut Gen) -> i128 {
    match g.rng.below(10) { 0 => 0, 1 => u64::MAX as i128, 2 => (1i128 << 63), 3 => (1i128 << 63) - 1, 4 => (1i128 << 62) + g.rng.below(3) as i128, 5 => (u64::MAX - g.rng.below(5)) as i128, _ => g.rng.range(1, 1000) as i128 }
}
fn edgy_val(g: &mut Gen) -> Val {
    let coin = match g.rng.below(8) { 0 => 0, 1 => u64::MAX, 2 => 1 << 63, 3 => g.rng.u64_edgy(), _ => g.rng.range(1_000_000, 50_000_000) };
    if g.rng.chance(1, 3) { return Val { multi: false, coin, groups: vec![] }; }
    let mut groups = vec![];
    for p in [0x11u8, 0x22] {
        if !g.rng.chance(2, 3) { continue; }
        let mut assets = vec![];
        for n in [vec![0x01u8], vec![0x01, 0x00]] { if g.rng.chance(2, 3) { assets.push((n, edgy_amount(g))); } }
        if !assets.is_empty() || g.rng.chance(1, 5) { groups.push((p, assets)); }
    }
    Val { multi: true, coin, groups }
}
fn edgy_mint(g: &mut Gen) -> synth::Groups {
    let mut m = vec![];
    for p in [0x11u8, 0x22, 0x33] {
        if !g.rng.chance(1, 2) { continue; }
        let mut assets = vec![];
        for n in [vec![0x01u8], vec![0x01, 0x00]] {
            if g.rng.chance(2, 3) { let a = edgy_amount(g).min(i64::MAX as i128); assets.push((n, match g.rng.below(4) { 0 => -a, 1 => i64::MIN as i128, _ => a })); }
        }
        assets.retain(|x| x.1 != 0);
        if !assets.is_empty() { m.push((p, assets)); }
    }
    m
}


// ------------------------------------------------------------------------------------------------ collateral scenarios

fn enc_val(v: &Val) -> Vec<u8> { let mut e = Encoder::new(Vec::new()); synth::put_value(&mut e, &sval(v)); e.into_writer() }
fn alonzo_value(v: &Val) -> Option<pallas_primitives::alonzo::Value> { minicbor::decode(&enc_val(v)).ok() }
fn conway_value(v: &Val) -> Option<pallas_primitives::conway::Value> { minicbor::decode(&enc_val(v)).ok() }

fn err_name(e: &pallas_validate::utils::ValidationError) -> String {
    let d = format!("{e:?}");
    d.split_once('(').map(|x| x.1.trim_end_matches(')').to_string()).unwrap_or(d)
}

/// `check_collaterals_assets` alone; `None` = the scenario does not decode
fn run_cb(era: &str, legacy: bool, fee: u64, pct: u32, coll: Coll) -> Result<Option<Result<(), String>>, String> {
    catch(|| {
        let one = Val { multi: false, coin: 10_000_000, groups: vec![] };
        let f = build_sv(era, legacy, &[one.clone()], &[Val { coin: 10_000_000u64.saturating_sub(fee), ..one }], fee, &None, &Some(coll));
        let Ok(tx) = MultiEraTx::decode_for_era(f.era, &f.tx_cbor) else { return None };
        let mut utxos = pallas_validate::utils::UTxOs::new();
        for e in &f.utxo {
            let Ok(o) = MultiEraOutput::decode(e.era, &e.cbor) else { return None };
            utxos.insert(e.input.as_multi_era(), o);
        }
        let r = match (&tx, &f.env.prot_params) {
            (MultiEraTx::AlonzoCompatible(t, _), P::Alonzo(p)) => { let mut p = p.clone(); p.collateral_percentage = pct; pallas_validate::phase1::alonzo::verif_hooks::check_collaterals_assets(&t.transaction_body, &utxos, &p) }
            (MultiEraTx::Babbage(t), P::Babbage(p)) => { let mut p = p.clone(); p.collateral_percentage = pct; pallas_validate::phase1::babbage::verif_hooks::check_collaterals_assets(&t.transaction_body, &utxos, &p) }
            (MultiEraTx::Conway(t), P::Conway(p)) => { let mut p = p.clone(); p.collateral_percentage = pct; pallas_validate::phase1::conway::verif_hooks::check_collaterals_assets(&t.transaction_body, &utxos, &p) }
            _ => return None,
        };
        Some(r.map_err(|e| err_name(&e)))
    })
}

/// top-level entries of a definite or indefinite CBOR map with unsigned keys
fn map_entries(raw: &[u8]) -> Option<Vec<(u64, Vec<u8>)>> {
    let mut d = minicbor::Decoder::new(raw);
    let n = d.map().ok()?;
    let mut entries = vec![];
    let mut i = 0u64;
    loop {
        if let Some(n) = n { if i >= n { break; } } else if d.datatype().ok() == Some(minicbor::data::Type::Break) { break; }
        let k = d.u64().ok()?;
        let a = d.position();
        d.skip().ok()?;
        entries.push((k, raw[a..d.position()].to_vec()));
        i += 1;
    }
    Some(entries)
}
fn map_from(entries: &[(u64, Vec<u8>)]) -> Vec<u8> {
    let mut e = Encoder::new(Vec::new());
    e.map(entries.len() as u64).unwrap();
    let mut out = e.into_writer();
    for (k, v) in entries { let mut ke = Encoder::new(Vec::new()); ke.u64(*k).unwrap(); out.extend(ke.into_writer()); out.extend(v); }
    out
}

/// output bytes with `addr` and `v` in the form of `era` (Alonzo and earlier: array, later: map)
fn output_bytes(era: Era, addr: &[u8], v: &Val) -> Vec<u8> {
    let mut e = Encoder::new(Vec::new());
    if matches!(era, Era::Babbage | Era::Conway) { e.map(2).unwrap().u8(0).unwrap().bytes(addr).unwrap().u8(1).unwrap(); } else { e.array(2).unwrap().bytes(addr).unwrap(); }
    synth::put_value(&mut e, &sval(v));
    e.into_writer()
}

/// the fixture with every collateral UTxO entry holding `ci` and the body's collateral return / total collateral replaced
fn fixture_collateral(name: &str, ci: &Val, ret: &Option<Val>, total: Option<u64>) -> Option<Fixture> {
    let mut f = fixtures::by_name(name)?;
    if f.era == Era::Byron { return None; }
    let cols: Vec<(Vec<u8>, u64)> = { let tx = MultiEraTx::decode_for_era(f.era, &f.tx_cbor).ok()?; tx.collateral().iter().map(|c| (c.hash().to_vec(), c.index())).collect() };
    if cols.is_empty() { return None; }
    let mut addr: Option<Vec<u8>> = None;
    for e in f.utxo.iter_mut() {
        let (h, i) = { let m = e.input.as_multi_era(); (m.hash().to_vec(), m.index()) };
        if !cols.iter().any(|c| c.0 == h && c.1 == i) { continue; }
        let a = MultiEraOutput::decode(e.era, &e.cbor).ok()?.address().ok()?.to_vec();
        e.cbor = output_bytes(e.era, &a, ci);
        addr.get_or_insert(a);
    }
    let addr = addr?;
    let mut parts = txparts::split(f.era, &f.tx_cbor)?;
    let mut entries = map_entries(&parts.body)?;
    entries.retain(|e| e.0 != 16 && e.0 != 17);
    if let Some(r) = ret { entries.push((16, output_bytes(f.era, &addr, r))); }
    if let Some(t) = total { let mut e = Encoder::new(Vec::new()); e.u64(t).unwrap(); entries.push((17, e.into_writer())); }
    entries.sort_by_key(|e| e.0);
    parts.body = map_from(&entries);
    f.tx_cbor = txparts::assemble(&parts);
    Some(f)
}

/// collateral input value(s), collateral return and total collateral around one another: return absent / lovelace only /
/// with the same / other assets, holding less, as much or more lovelace than the inputs; annotation exact, off by one, absent
fn gen_collateral(g: &mut Gen, conway: bool, fee: u64, n_ins: usize) -> (Vec<Val>, Option<Val>, Option<u64>) {
    let names: [Vec<u8>; 2] = [vec![0x01], vec![0x01, 0x00]];
    let mut assets: synth::Groups = vec![];
    if g.rng.chance(2, 3) {
        for p in [0x11u8, 0x22] { if g.rng.chance(2, 3) { let mut a: Vec<(Vec<u8>, i128)> = vec![]; for n in &names { if g.rng.chance(2, 3) { a.push((n.clone(), g.rng.range(1, 900) as i128)); } } if !a.is_empty() { assets.push((p, a)); } } }
    }
    let base = match g.rng.below(6) { 0 => fee.saturating_mul(3) / 2, 1 => g.rng.u64_edgy(), 2 => g.rng.range(0, 3), _ => fee.saturating_mul(2).saturating_add(g.rng.range(0, 5_000_000)) };
    let mut ins = vec![];
    for i in 0..n_ins {
        let coin = if i == 0 { base } else { g.rng.range(0, 3_000_000) };
        // the assets sit in the first input (or in every input: then the sum differs from the return's)
        let with = !assets.is_empty() && (i == 0 || g.rng.chance(1, 4));
        ins.push(if with || g.rng.chance(1, 3) { Val { multi: true, coin, groups: if with { assets.clone() } else { vec![] } } } else { Val { multi: false, coin, groups: vec![] } });
    }
    let sum: u128 = ins.iter().map(|v| v.coin as u128).sum();
    let sum64 = sum.min(u64::MAX as u128) as u64;
    let ret_coin = match g.rng.below(8) { 0 => sum64, 1 => sum64.saturating_add(1), 2 => sum64.saturating_add(g.rng.range(2, 9_000_000)), 3 => sum64.saturating_sub(1), 4 => 0, 5 => u64::MAX, _ => sum64.saturating_sub(fee.saturating_mul(3) / 2).saturating_sub(g.rng.below(3)) };
    let ret = match g.rng.below(8) {
        0 => None,
        1 | 2 => Some(Val { multi: false, coin: ret_coin, groups: vec![] }),
        3 => Some(Val { multi: true, coin: ret_coin, groups: vec![] }),
        4 => { let mut other = assets.clone(); match other.first_mut().and_then(|x| x.1.first_mut()) { Some(a) => a.1 += 1, None => other.push((0x33, vec![(vec![0x09], 4)])) } Some(Val { multi: true, coin: ret_coin, groups: other }) }
        5 if !conway => { let mut z = assets.clone(); z.push((0x33, vec![(vec![0x09], 0)])); Some(Val { multi: true, coin: ret_coin, groups: z }) }
        _ => Some(Val { multi: true, coin: ret_coin, groups: assets.clone() }),
    };
    let paid = sum64.saturating_sub(ret.as_ref().map(|r| r.coin).unwrap_or(0));
    let total = match g.rng.below(5) { 0 => None, 1 => Some(paid.wrapping_add(1)), 2 => Some(paid.wrapping_sub(1)), _ => Some(paid) };
    (ins, ret, total)
}

fn coll_text(c: &(Vec<Val>, Option<Val>, Option<u64>)) -> String {
    format!("C {} {} R {} T {}", c.0.len(), c.0.iter().map(show_val).collect::<Vec<_>>().join(" "), c.1.as_ref().map(show_val).unwrap_or("-".into()), c.2.map(|t| t.to_string()).unwrap_or("-".into()))
}

// ------------------------------------------------------------------------------------------------ native scripts

use pallas_primitives::alonzo::NativeScript as NS;

const NS_SEEDS: std::ops::RangeInclusive<u8> = 100..=107;
fn seed_hash(s: u8) -> String { hex(pallas_crypto::hash::Hasher::<224>::hash(&synth::key(s).pk).as_ref()) }

/// prefix notation -> script; `None` if malformed
fn parse_ns(t: &[String], i: &mut usize) -> Option<NS> {
    let tag = t.get(*i)?.clone();
    *i += 1;
    let mut num = |i: &mut usize| -> Option<u64> { let v = t.get(*i)?.parse().ok()?; *i += 1; Some(v) };
    Some(match tag.as_str() {
        "pk" => { let h = unhex(t.get(*i)?)?; *i += 1; NS::ScriptPubkey(<[u8; 28]>::try_from(h.as_slice()).ok()?.into()) }
        "ib" => NS::InvalidBefore(num(i)?),
        "ih" => NS::InvalidHereafter(num(i)?),
        "all" | "any" => { let k = num(i)?; let mut l = vec![]; for _ in 0..k { l.push(parse_ns(t, i)?); } if tag == "all" { NS::ScriptAll(l) } else { NS::ScriptAny(l) } }
        "nk" => { let n = num(i)?; let k = num(i)?; let mut l = vec![]; for _ in 0..k { l.push(parse_ns(t, i)?); } NS::ScriptNOfK(u32::try_from(n).ok()?, l) }
        _ => return None,
    })
}
fn parse_ns_list(t: &[String]) -> Option<Vec<NS>> {
    if t.first()? != "S" { return None; }
    let m: usize = t.get(1)?.parse().ok()?;
    let mut i = 2;
    let mut l = vec![];
    for _ in 0..m { l.push(parse_ns(t, &mut i)?); }
    if i == t.len() { Some(l) } else { None }
}

/// all six constructors; n-of-k with n = 0, n = k, n = k + 1, 1, anything; empty lists; time locks on, one before and one
/// after the validity bounds; key hashes of signing and of non-signing keys
fn gen_ns(g: &mut Gen, depth: u32, start: Option<u64>, ttl: Option<u64>, signers: &[u8]) -> String {
    let leaf = depth == 0 || g.rng.chance(2, 5);
    if leaf {
        return match g.rng.below(5) {
            0 | 1 => format!("pk {}", seed_hash(if g.rng.chance(2, 3) && !signers.is_empty() { *g.rng.pick(signers) } else { *g.rng.pick(&[104u8, 105, 106, 107]) })),
            2 => { let b = start.unwrap_or(g.rng.range(0, 1000)); format!("ib {}", match g.rng.below(5) { 0 => b.saturating_sub(1), 1 => b.saturating_add(1), 2 => 0, 3 => u64::MAX, _ => b }) }
            3 => { let b = ttl.unwrap_or(g.rng.range(0, 1000)); format!("ih {}", match g.rng.below(5) { 0 => b.saturating_sub(1), 1 => b.saturating_add(1), 2 => 0, 3 => u64::MAX, _ => b }) }
            _ => match g.rng.below(3) { 0 => "all 0".to_string(), 1 => "any 0".to_string(), _ => format!("nk {} 0", g.rng.below(2)) },
        };
    }
    let k = g.rng.range(1, 3);
    let subs: Vec<String> = (0..k).map(|_| gen_ns(g, depth - 1, start, ttl, signers)).collect();
    match g.rng.below(5) {
        0 => format!("all {k} {}", subs.join(" ")),
        1 => format!("any {k} {}", subs.join(" ")),
        _ => { let n = match g.rng.below(6) { 0 | 1 => 0, 2 => k, 3 => k + 1, 4 => 1, _ => *g.rng.pick(&[2u64, u32::MAX as u64, u32::MAX as u64 - 1]) }; format!("nk {n} {k} {}", subs.join(" ")) }
    }
}

pub fn generate(g: &mut Gen) {
    if let Err(w) = catch(|| generate_inner(g)) { eprintln!("valtotal generator panicked: {w}"); std::process::exit(101); }
}

fn generate_inner(g: &mut Gen) {
    let fx = fixtures::all();
    // the corners named in DESIGN §6 #20 / #31, once each
    let mut first = vec![];
    for k in ["script-addr", "other-addr", "short-key", "long-key", "short-sig", "long-sig", "txin-other"] { first.push(format!("bw byron.successful_mainnet_tx {k}")); first.push(format!("bw byron.successful_mainnet_tx_with_genesis_utxos {k}")); }
    g.case(first);
    let col_fixtures: Vec<String> = fx.iter().filter(|f| f.era != Era::Byron && MultiEraTx::decode_for_era(f.era, &f.tx_cbor).map(|t| !t.collateral().is_empty()).unwrap_or(false)).map(|f| f.name.to_string()).collect();
    for i in 0..g.cases {
        let mut ops = vec![];
        // mutated fixture
        for _ in 0..g.rng.range(1, 3) {
            let f = &fx[(i + g.rng.below(fx.len() as u64) as usize) % fx.len()];
            let mut line = format!("mt {}", f.name);
            let mut bytes = f.tx_cbor.clone();
            let k = [0u64, 1, 1, 1, 2, 2, 3][g.rng.below(7) as usize];
            let mut es = vec![];
            for _ in 0..k { let e = gen_targeted(g, &bytes); mutate::apply(&mut bytes, &e); es.push(e); }
            line += &format!(" T {}{}", es.len(), edits_text(&es));
            if !f.utxo.is_empty() && g.rng.chance(1, 2) {
                let idx = g.rng.below(f.utxo.len() as u64) as usize;
                let mut ub = f.utxo[idx].cbor.clone();
                let mut ues = vec![];
                for _ in 0..g.rng.range(1, 2) { let e = gen_targeted(g, &ub); mutate::apply(&mut ub, &e); ues.push(e); }
                line += &format!(" U {idx} {}{}", ues.len(), edits_text(&ues));
            }
            if g.rng.chance(1, 6) {
                line += &match g.rng.below(5) { 0 => format!(" P a={}", *g.rng.pick(&[u32::MAX as u64, 1 << 31, 1 << 24, 0])), 1 => format!(" P b={}", u32::MAX), 2 => format!(" P slot={}", *g.rng.pick(&[0u64, 1, 129599, 21600, u64::MAX, 1 << 40])), 3 => format!(" P cp={}", *g.rng.pick(&[0u64, u32::MAX as u64, 150])), _ => format!(" P summand={} P multiplier={}", g.rng.u64_edgy(), g.rng.u64_edgy()) };
            }
            ops.push(line);
        }
        // synthesized extremes
        for _ in 0..g.rng.range(1, 3) {
            let era = *g.rng.pick(&["shelley", "allegra", "mary", "alonzo", "babbage", "conway"]);
            let legacy = g.rng.chance(1, 2);
            let mut ins: Vec<Val> = (0..g.rng.range(1, 3)).map(|_| edgy_val(g)).collect();
            let mut outs: Vec<Val> = (0..g.rng.range(1, 3)).map(|_| edgy_val(g)).collect();
            let post = matches!(era, "babbage" | "conway");
            // PositiveCoin decoding rejects zero in the post-Alonzo map form: keep those scenarios decodable most of the time
            if era == "conway" && !legacy && g.rng.chance(9, 10) { for v in ins.iter_mut().chain(outs.iter_mut()) { for (_, a) in v.groups.iter_mut() { for x in a.iter_mut() { if x.1 == 0 { x.1 = 1; } } } v.groups.retain(|x| !x.1.is_empty()); } }
            if era == "shelley" && g.rng.chance(4, 5) { for v in ins.iter_mut().chain(outs.iter_mut()) { v.multi = false; v.groups.clear(); } }
            let fee = match g.rng.below(6) { 0 => 0, 1 => u64::MAX, 2 => g.rng.u64_edgy(), _ => g.rng.range(150_000, 900_000) };
            let mint = if era != "shelley" && g.rng.chance(1, 2) { let m = edgy_mint(g); if m.is_empty() { None } else { Some(m) } } else { None };
            let mut line = format!("sv {era} {} I {} {} O {} {} F {fee} M {}", legacy as u8, ins.len(), ins.iter().map(show_val).collect::<Vec<_>>().join(" "), outs.len(), outs.iter().map(show_val).collect::<Vec<_>>().join(" "),
                match &mint { None => "-".to_string(), Some(m) => show_groups(m) });
            if matches!(era, "alonzo" | "babbage" | "conway") && g.rng.chance(1, 2) {
                let cins: Vec<Val> = (0..g.rng.range(1, 3)).map(|_| if g.rng.chance(2, 3) { Val { multi: false, coin: g.rng.u64_edgy(), groups: vec![] } } else { edgy_val(g) }).collect();
                let ret = if post && g.rng.chance(1, 2) { Some(edgy_val(g)) } else { None };
                let total = if post && g.rng.chance(1, 2) { Some(g.rng.u64_edgy()) } else { None };
                line += &format!(" C {} {} R {} T {}", cins.len(), cins.iter().map(show_val).collect::<Vec<_>>().join(" "), ret.as_ref().map(show_val).unwrap_or("-".into()), total.map(|t| t.to_string()).unwrap_or("-".into()));
            }
            ops.push(line);
        }
        // collateral: the rule alone against its model, the two subtraction helpers, directed whole transactions, fixtures
        for _ in 0..g.rng.range(1, 2) {
            let era = *g.rng.pick(&["alonzo", "babbage", "conway", "conway"]);
            let conway = era == "conway";
            let legacy = g.rng.chance(1, 3);
            let fee = g.rng.range(200_000, 900_000);
            let n_ins = g.rng.range(1, 3) as usize;
            let c = gen_collateral(g, conway, fee, n_ins);
            let pct = *g.rng.pick(&[150u32, 150, 100, 0, 1000, u32::MAX]);
            // only scenarios whose transaction and UTxO entries decode are compared with the model
            if let Ok(Some(_)) = run_cb(era, legacy, fee, pct, Coll { ins: c.0.clone(), ret: c.1.clone(), total: c.2 }) {
                ops.push(format!("cb {era} {} F {fee} P {pct} {}", legacy as u8, coll_text(&c)));
            }
            if era != "alonzo" {
                let a = Val { multi: c.0[0].multi, coin: c.0.iter().map(|v| v.coin).fold(0u64, |x, y| x.saturating_add(y)), groups: c.0[0].groups.clone() };
                let b = c.1.clone().unwrap_or(Val { multi: false, coin: 0, groups: vec![] });
                let ok = if conway { conway_value(&a).is_some() && conway_value(&b).is_some() } else { alonzo_value(&a).is_some() && alonzo_value(&b).is_some() };
                if ok { ops.push(format!("ld {era} {} {}", show_val(&a), show_val(&b))); }
            }
            // the same collateral section in a whole, correctly signed transaction
            let one = Val { multi: false, coin: 10_000_000, groups: vec![] };
            ops.push(format!("sv {era} {} I 1 {} O 1 {} F {fee} M - {}", legacy as u8, show_val(&one), show_val(&Val { coin: 10_000_000 - fee, ..one.clone() }), coll_text(&c)));
        }
        // native scripts: the Shelley-MA rule alone against Model/NativeScript, and the same scripts in the witness set of a
        // correctly signed transaction that passes every earlier rule
        for _ in 0..g.rng.range(1, 2) {
            let era = *g.rng.pick(&["shelley", "allegra", "mary"]);
            let slot = fixtures::by_name(synth::base_fixture_name(era_of(era))).map(|f| f.env.block_slot).unwrap_or(1000);
            let start = if era != "shelley" && g.rng.chance(2, 3) { Some(slot - g.rng.below(3).min(slot)) } else { None };
            let ttl = if era == "shelley" || g.rng.chance(2, 3) { Some(slot + g.rng.below(3)) } else { None };
            let m = g.rng.range(1, 2);
            let signers = [100u8];
            let scripts: Vec<String> = (0..m).map(|_| gen_ns(g, 3, start, ttl, &signers)).collect();
            let opt = |o: Option<u64>| o.map(|v| v.to_string()).unwrap_or("-".into());
            ops.push(format!("ns {} {} K 1 {} S {m} {}", opt(start), opt(ttl), seed_hash(100), scripts.join(" ")));
            ops.push(format!("nt {era} {} {} S {m} {}", opt(start), opt(ttl), scripts.join(" ")));
        }
        if !col_fixtures.is_empty() && g.rng.chance(1, 2) {
            let name = &col_fixtures[(i + g.rng.below(col_fixtures.len() as u64) as usize) % col_fixtures.len()];
            let conway = name.starts_with("conway");
            let c = gen_collateral(g, conway, 400_000, 1);
            ops.push(format!("fc {name} CI {} R {} T {}", show_val(&c.0[0]), c.1.as_ref().map(show_val).unwrap_or("-".into()), c.2.map(|t| t.to_string()).unwrap_or("-".into())));
        }
        g.case(ops);
    }
}

// ------------------------------------------------------------------------------------------------ runner

fn byron_corner(name: &str, kind: &str) -> Option<Fixture> {
    let mut f = fixtures::by_name(name)?;
    let ftx = f.tx();
    let payload = ftx.as_byron()?;
    let mut tx = (*payload.transaction).clone();
    let mut wits: Vec<pallas_primitives::byron::Twit> = (*payload.witness).clone().to_vec();
    drop(ftx);
    match kind {
        "script-addr" | "other-addr" => {
            // re-type the UTxO address: payload = #6.24(bytes([root, attrs, type]))
            let e = f.utxo.first_mut()?;
            let mut out: pallas_primitives::byron::TxOut = minicbor::decode(&e.cbor).ok()?;
            let inner: Vec<u8> = out.address.payload.0.to_vec();
            let hs = mutate::heads(&inner);
            let last = hs.iter().rev().find(|h| h.major == 0)?;
            let mut inner2 = inner.clone();
            mutate::apply(&mut inner2, &mutate::Edit { pos: last.pos, len: 1 + last.arglen, with: vec![if kind == "script-addr" { 1 } else { 7 }] });
            out.address.payload = pallas_codec::utils::TagWrap(inner2.into());
            e.cbor = minicbor::to_vec(&out).ok()?;
        }
        "short-key" | "long-key" | "short-sig" | "long-sig" => {
            use pallas_primitives::byron::Twit;
            let w = wits.first_mut()?;
            let (mut pk, mut sig, redeem) = match w { Twit::PkWitness(c) => (c.0 .0.to_vec(), c.0 .1.to_vec(), false), Twit::RedeemWitness(c) => (c.0 .0.to_vec(), c.0 .1.to_vec(), true), _ => return None };
            match kind { "short-key" => pk.truncate(20), "long-key" => pk.push(7), "short-sig" => sig.truncate(63), _ => sig.push(7) }
            let pair = pallas_codec::utils::CborWrap((pk.into(), sig.into()));
            *w = if redeem { Twit::RedeemWitness(pair) } else { Twit::PkWitness(pair) };
        }
        "txin-other" => {
            let other = pallas_primitives::byron::TxIn::Other(9, vec![0x01u8, 0x02].into());
            let mut ins = tx.inputs.clone().to_vec();
            ins.push(other.clone());
            tx.inputs = pallas_codec::utils::MaybeIndefArray::Def(ins);
            let mut u = f.utxo.first()?.clone();
            u.input = InputRef::Byron(other);
            f.utxo.push(u);
        }
        _ => return None,
    }
    // re-assemble the payload `[tx, [witnesses]]`
    let mut e = Encoder::new(Vec::new());
    e.array(2).unwrap();
    e.encode(&tx).ok()?;
    e.encode(&wits).ok()?;
    f.tx_cbor = e.into_writer();
    Some(f)
}

pub fn run_case(case: &Case, out: &mut Out) {
    for op in &case.ops {
        match op[0].as_str() {
            "mt" => {
                let Some(mut f) = fixtures::by_name(&op[1]) else { out.reply("bad-op".into()); continue };
                let mut i = 2;
                let mut bad = false;
                while i < op.len() && !bad {
                    match op[i].as_str() {
                        "T" => { let k: usize = op[i + 1].parse().unwrap_or(0); match mutate::parse(&op[i + 2..i + 2 + 4 * k]) { Some(es) => for e in &es { mutate::apply(&mut f.tx_cbor, e); }, None => bad = true } i += 2 + 4 * k; }
                        "U" => { let idx: usize = op[i + 1].parse().unwrap_or(0); let k: usize = op[i + 2].parse().unwrap_or(0); match (mutate::parse(&op[i + 3..i + 3 + 4 * k]), f.utxo.get_mut(idx)) { (Some(es), Some(u)) => for e in &es { mutate::apply(&mut u.cbor, e); }, _ => bad = true } i += 3 + 4 * k; }
                        "P" => { apply_params(&mut f, &op[i + 1..i + 2]); i += 2; }
                        _ => bad = true,
                    }
                }
                if bad { out.reply("bad-op".into()); continue; }
                out.cov(format!("mt:{}", f.era_name()));
                report(out, &op.join(" "), run_scenario(&f));
            }
            "sv" => {
                let era = op[1].as_str();
                let legacy = op[2] == "1";
                let n: usize = op[4].parse().unwrap();
                let ins: Vec<Val> = op[5..5 + n].iter().map(|t| parse_val(t)).collect();
                let m: usize = op[6 + n].parse().unwrap();
                let outs: Vec<Val> = op[7 + n..7 + n + m].iter().map(|t| parse_val(t)).collect();
                let rest = &op[7 + n + m..];
                let fee: u64 = rest[1].parse().unwrap();
                let mint = if rest[3] == "-" { None } else { Some(parse_groups(&rest[3])) };
                let coll = if rest.len() > 4 && rest[4] == "C" {
                    let k: usize = rest[5].parse().unwrap();
                    let cins: Vec<Val> = rest[6..6 + k].iter().map(|t| parse_val(t)).collect();
                    let r = &rest[6 + k..];
                    Some(Coll { ins: cins, ret: if r[1] == "-" { None } else { Some(parse_val(&r[1])) }, total: if r[3] == "-" { None } else { r[3].parse().ok() } })
                } else { None };
                let built = catch(|| build_sv(era, legacy, &ins, &outs, fee, &mint, &coll));
                out.cov(format!("sv:{era}:{}{}", if legacy { "legacy" } else { "native" }, if coll.is_some() { ":collateral" } else { "" }));
                match built {
                    Err(w) => { out.reply(format!("bad-op harness-panic {}", w.replace(' ', "_"))); }
                    Ok(f) => report(out, &op.join(" "), run_scenario(&f)),
                }
            }
            "fc" => {
                let ci = parse_val(&op[3]);
                let ret = if op[5] == "-" { None } else { Some(parse_val(&op[5])) };
                let total = if op[7] == "-" { None } else { op[7].parse().ok() };
                let built = catch(|| fixture_collateral(&op[1], &ci, &ret, total));
                match built {
                    Err(w) => out.reply(format!("bad-op harness-panic {}", w.replace(' ', "_"))),
                    Ok(None) => out.reply("bad-op".into()),
                    Ok(Some(f)) => { out.cov(format!("fc:{}", f.era_name())); report(out, &op.join(" "), run_scenario(&f)) }
                }
            }
            "ld" => {
                let (a, b) = (parse_val(&op[2]), parse_val(&op[3]));
                let err = pallas_validate::utils::ValidationError::PostAlonzo(pallas_validate::utils::PostAlonzoError::NonLovelaceCollateral);
                let r = catch(|| match op[1].as_str() {
                    "conway" => match (conway_value(&a), conway_value(&b)) { (Some(x), Some(y)) => Some(pallas_validate::utils::conway_lovelace_diff_or_fail(&x, &y, &err)), _ => None },
                    _ => match (alonzo_value(&a), alonzo_value(&b)) { (Some(x), Some(y)) => Some(pallas_validate::utils::lovelace_diff_or_fail(&x, &y, &err)), _ => None },
                });
                out.cov(format!("ld:{}", op[1]));
                match r {
                    Err(w) => { out.viol(panic_key(&w), format!("{}: panicked at {w}", op.join(" "))); out.panic(); }
                    Ok(None) => out.reply("bad-op undecodable".into()),
                    Ok(Some(Ok(n))) => { out.nontrivial(); out.ok(&n.to_string()); }
                    Ok(Some(Err(_))) => { out.nontrivial(); out.reply("err".into()); }
                }
            }
            "cb" => {
                let era = op[1].as_str();
                let legacy = op[2] == "1";
                let (fee, pct): (u64, u32) = (op[4].parse().unwrap(), op[6].parse().unwrap());
                let k: usize = op[8].parse().unwrap();
                let cins: Vec<Val> = op[9..9 + k].iter().map(|t| parse_val(t)).collect();
                let r = &op[9 + k..];
                let coll = Coll { ins: cins, ret: if r[1] == "-" { None } else { Some(parse_val(&r[1])) }, total: if r[3] == "-" { None } else { r[3].parse().ok() } };
                out.cov(format!("cb:{era}:{}", if legacy { "legacy" } else { "native" }));
                match run_cb(era, legacy, fee, pct, coll) {
                    Err(w) => { out.viol(panic_key(&w), format!("{}: panicked at {w}", op.join(" "))); out.panic(); }
                    Ok(None) => out.reply("bad-op undecodable".into()),
                    Ok(Some(Ok(()))) => { out.cov("cb:accepted"); out.nontrivial(); out.ok(""); }
                    Ok(Some(Err(e))) => { out.cov(format!("cb:{e}")); out.nontrivial(); out.reply(format!("err {e}")); }
                }
            }
            "ns" => {
                let opt = |t: &str| if t == "-" { None } else { t.parse::<u64>().ok() };
                let (low, upp) = (opt(&op[1]), opt(&op[2]));
                let k: usize = op[4].parse().unwrap_or(0);
                let hashes = &op[5..5 + k];
                let keys: Vec<pallas_primitives::alonzo::VKeyWitness> = NS_SEEDS.filter(|s| hashes.contains(&seed_hash(*s))).map(|s| pallas_primitives::alonzo::VKeyWitness { vkey: synth::key(s).pk.clone().into(), signature: vec![0u8; 64].into() }).collect();
                let Some(scripts) = parse_ns_list(&op[5 + k..]) else { out.reply("bad-op".into()); continue };
                out.cov("ns");
                match catch(|| pallas_validate::phase1::shelley_ma::verif_hooks::native_scripts_ok(&keys, &scripts, &low, &upp)) {
                    Err(w) => { out.viol(panic_key(&w), format!("{}: panicked at {w}", op.join(" "))); out.panic(); }
                    Ok(b) => { out.cov(format!("ns:{b}")); out.nontrivial(); out.ok(if b { "true" } else { "false" }); }
                }
            }
            "nt" => {
                let opt = |t: &str| if t == "-" { None } else { t.parse::<u64>().ok() };
                let era = op[1].as_str();
                let Some(scripts) = parse_ns_list(&op[4..]) else { out.reply("bad-op".into()); continue };
                let x = Extra { start: opt(&op[2]), ttl: Some(opt(&op[3])), scripts: scripts.iter().map(|s| minicbor::to_vec(s).unwrap()).collect() };
                let one = Val { multi: false, coin: 10_000_000, groups: vec![] };
                let built = catch(|| build_sv_x(era, false, &[one.clone()], &[Val { coin: 9_600_000, ..one.clone() }], 400_000, &None, &None, &x));
                out.cov(format!("nt:{era}"));
                match built {
                    Err(w) => out.reply(format!("bad-op harness-panic {}", w.replace(' ', "_"))),
                    Ok(f) => report(out, &op.join(" "), run_scenario(&f)),
                }
            }
            "bw" => {
                let Some(f) = byron_corner(&op[1], &op[2]) else { out.reply("bad-op".into()); continue };
                out.cov(format!("bw:{}", op[2]));
                report(out, &op.join(" "), run_scenario(&f));
            }
            _ => out.reply("bad-op".into()),
        }
    }
}
