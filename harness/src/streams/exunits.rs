//! stream `exunits` — C37: `check_tx_ex_units` of Alonzo / Babbage / Conway, per rule (through
//! `verif_hooks`) on synthesized witness sets in both redeemer encodings, and through `validate_txs`
//! on the Plutus fixtures with the per-transaction budget re-scaled around the exact sums.
//!
//! ops
//!   fixtures                                                  -> ok all-accepted        (port sanity)
//!   unit  <era> <v1> <v2> <v3> <enc> <maxmem> <maxsteps> <mem:steps>*
//!   whole <fixture> <era> <v1> <v2> <v3> <enc> <maxmem> <maxsteps> <mem:steps>*
//! `<vN>` = number of Plutus vN scripts in the witness set, `-` = field absent; `<enc>` = none|list|map.
//! replies: ok | err exceeded | err redeemer-missing | err other | panic
use crate::fixtures::{self, params, txparts, Fixture};
use crate::fw::*;
use pallas_codec::minicbor::{self, data::Tag, Encoder};
use pallas_primitives::conway::Redeemers;
use pallas_traverse::{Era, MultiEraTx};
use pallas_validate::phase1::{alonzo, babbage, conway, validate_txs};
use pallas_validate::utils::{AlonzoError, MultiEraProtocolParameters as P, PostAlonzoError, ValidationError};

pub const NAME: &str = "exunits";

fn cnt(tok: &str) -> Option<u64> { if tok == "-" { None } else { tok.parse().ok() } }
pub(crate) fn show_cnt(c: Option<usize>) -> String { match c { None => "-".into(), Some(n) => n.to_string() } }

fn parse_units(toks: &[String]) -> Vec<(u64, u64)> {
    toks.iter().map(|t| { let (a, b) = t.split_once(':').expect("mem:steps"); (a.parse().unwrap(), b.parse().unwrap()) }).collect()
}

/// witness set `{3: [v1 scripts], 6: [v2], 7: [v3], 5: redeemers}` in the era's concrete syntax
fn build_wits(era: &str, v: [Option<u64>; 3], enc: &str, units: &[(u64, u64)]) -> Vec<u8> {
    let mut e = Encoder::new(Vec::new());
    let fields = v.iter().filter(|x| x.is_some()).count() + if enc != "none" { 1 } else { 0 };
    e.map(fields as u64).unwrap();
    let keys = [3u8, 6, 7];
    for (i, c) in v.iter().enumerate() {
        if let Some(n) = c { put_scripts(&mut e, era, keys[i], *n, i as u8); }
    }
    if enc != "none" {
        e.u8(5).unwrap();
        if enc == "map" {
            e.map(units.len() as u64).unwrap();
            for (i, (m, s)) in units.iter().enumerate() {
                e.array(2).unwrap().u8(0).unwrap().u32(i as u32).unwrap();
                e.array(2).unwrap().u8(0).unwrap();
                e.array(2).unwrap().u64(*m).unwrap().u64(*s).unwrap();
            }
        } else {
            e.array(units.len() as u64).unwrap();
            for (i, (m, s)) in units.iter().enumerate() {
                // duplicates of one pointer are legal CBOR for the list form
                e.array(4).unwrap().u8(0).unwrap().u32((i % 3) as u32).unwrap().u8(0).unwrap();
                e.array(2).unwrap().u64(*m).unwrap().u64(*s).unwrap();
            }
        }
    }
    e.into_writer()
}

fn put_scripts(e: &mut Encoder<Vec<u8>>, era: &str, key: u8, n: u64, lang: u8) {
    e.u8(key).unwrap();
    if era == "conway" { e.tag(Tag::new(258)).unwrap(); }
    e.array(n).unwrap();
    for i in 0..n { e.bytes(&[0x46, 0x01, 0x00, 0x00, lang, i as u8]).unwrap(); }
}

fn class_of(e: &ValidationError) -> &'static str {
    match e {
        ValidationError::Alonzo(AlonzoError::TxExUnitsExceeded) | ValidationError::PostAlonzo(PostAlonzoError::TxExUnitsExceeded) => "exceeded",
        ValidationError::Alonzo(AlonzoError::RedeemerMissing) | ValidationError::PostAlonzo(PostAlonzoError::RedeemerMissing) => "redeemer-missing",
        _ => "other",
    }
}

fn base_fixture(era: &str) -> Fixture {
    fixtures::by_name(match era {
        "alonzo" => "alonzo.successful_mainnet_tx",
        "babbage" => "babbage.successful_mainnet_tx",
        _ => "conway.successful_mainnet_tx",
    }).unwrap()
}

/// the per-rule check on a synthesized witness set; `None` = panic
fn run_unit(era: &str, wits: Vec<u8>, maxmem: u64, maxsteps: u64) -> Option<Result<(), ValidationError>> {
    let mut f = base_fixture(era);
    let mut parts = txparts::split_fixture(&f);
    parts.wits = wits;
    let bytes = txparts::assemble(&parts);
    params::set_max_tx_ex_units(&mut f.env, maxmem, maxsteps);
    guard_mut(|| match (&f.env.prot_params, era) {
        (P::Alonzo(pp), "alonzo") => { let tx: pallas_primitives::alonzo::Tx = minicbor::decode(&bytes).expect("alonzo tx"); alonzo::verif_hooks::check_tx_ex_units(&tx, pp) }
        (P::Babbage(pp), "babbage") => { let tx: pallas_primitives::babbage::Tx = minicbor::decode(&bytes).expect("babbage tx"); babbage::verif_hooks::check_tx_ex_units(&tx, pp) }
        (P::Conway(pp), "conway") => { let tx: pallas_primitives::conway::Tx = minicbor::decode(&bytes).expect("conway tx"); conway::verif_hooks::check_tx_ex_units(&tx, pp) }
        _ => panic!("era/params mismatch"),
    })
}

/// what the real transaction carries: (v1, v2, v3 witness-set script counts, encoding, budgets, plutus reference scripts)
pub(crate) struct View { pub v: [Option<usize>; 3], pub enc: &'static str, pub units: Vec<(u64, u64)>, pub ref_plutus: usize }

pub(crate) fn view(f: &Fixture) -> View {
    let tx = f.tx();
    let utxos = f.utxos();
    let ref_plutus = tx.reference_inputs().iter().filter(|i| {
        utxos.get(i).and_then(|o| o.script_ref()).map(|s| !matches!(s, pallas_primitives::conway::ScriptRef::NativeScript(_))).unwrap_or(false)
    }).count();
    match &tx {
        MultiEraTx::AlonzoCompatible(x, _) => {
            let w = &x.transaction_witness_set;
            View { v: [w.plutus_script.as_ref().map(|s| s.len()), None, None], enc: if w.redeemer.is_some() { "list" } else { "none" },
                units: w.redeemer.iter().flatten().map(|r| (r.ex_units.mem, r.ex_units.steps)).collect(), ref_plutus }
        }
        MultiEraTx::Babbage(x) => {
            let w = &x.transaction_witness_set;
            View { v: [w.plutus_v1_script.as_ref().map(|s| s.len()), w.plutus_v2_script.as_ref().map(|s| s.len()), None],
                enc: if w.redeemer.is_some() { "list" } else { "none" },
                units: w.redeemer.iter().flatten().map(|r| (r.ex_units.mem, r.ex_units.steps)).collect(), ref_plutus }
        }
        MultiEraTx::Conway(x) => {
            let w = &x.transaction_witness_set;
            let (enc, units) = match w.redeemer.as_ref().map(|r| (**r).clone()) {
                None => ("none", vec![]),
                Some(Redeemers::List(l)) => ("list", l.iter().map(|r| (r.ex_units.mem, r.ex_units.steps)).collect()),
                Some(Redeemers::Map(m)) => ("map", m.values().map(|r| (r.ex_units.mem, r.ex_units.steps)).collect()),
            };
            View { v: [w.plutus_v1_script.as_ref().map(|s| s.len()), w.plutus_v2_script.as_ref().map(|s| s.len()), w.plutus_v3_script.as_ref().map(|s| s.len())],
                enc, units, ref_plutus }
        }
        _ => View { v: [None, None, None], enc: "none", units: vec![], ref_plutus: 0 },
    }
}

fn edgy_units(g: &mut Gen, n: usize) -> Vec<(u64, u64)> {
    (0..n).map(|_| {
        let a = match g.rng.below(6) { 0 => g.rng.u64_edgy(), 1 => 0, _ => g.rng.below(20_000_000) };
        let b = match g.rng.below(6) { 0 => g.rng.u64_edgy(), 1 => 0, _ => g.rng.below(10_000_000_000) };
        (a, b)
    }).collect()
}

fn around(g: &mut Gen, sum: u128) -> u64 {
    let s = sum.min(u64::MAX as u128) as u64;
    match g.rng.below(8) {
        0 => s, 1 => s.saturating_sub(1), 2 => s.saturating_add(1), 3 => 0, 4 => 1, 5 => u64::MAX,
        6 => g.rng.below(s.saturating_add(2)), _ => s.saturating_add(g.rng.below(1000)),
    }
}

pub(crate) fn units_text(u: &[(u64, u64)]) -> String { u.iter().map(|(a, b)| format!(" {a}:{b}")).collect() }

pub fn generate(g: &mut Gen) {
    g.case(vec!["fixtures".to_string()]);
    // whole-transaction cases: every Alonzo/Babbage/Conway fixture, budget scaled around its exact sums
    let fx: Vec<Fixture> = fixtures::all().into_iter().filter(|f| matches!(f.era, Era::Alonzo | Era::Babbage | Era::Conway)).collect();
    let eras = ["alonzo", "babbage", "conway"];
    for i in 0..g.cases {
        let mut ops = vec![];
        for _ in 0..g.rng.range(1, 3) {
            let f = g.rng.pick(&fx);
            let v = view(f);
            let sm: u128 = v.units.iter().map(|u| u.0 as u128).sum();
            let ss: u128 = v.units.iter().map(|u| u.1 as u128).sum();
            let (mm, ms) = if g.rng.chance(1, 6) { params::max_tx_ex_units(&f.env).unwrap() } else { (around(g, sm), around(g, ss)) };
            ops.push(format!("whole {} {} {} {} {} {} {} {}{}", f.name, f.era_name(), show_cnt(v.v[0]), show_cnt(v.v[1]), show_cnt(v.v[2]), v.enc, mm, ms, units_text(&v.units)));
        }
        for _ in 0..g.rng.range(2, 6) {
            let era = eras[(i + ops.len()) % 3];
            let n = match g.rng.below(8) { 0 => 0, 1 => 1, 7 => g.rng.range(4, 12), _ => g.rng.range(1, 4) } as usize;
            let units = edgy_units(g, n);
            let sm: u128 = units.iter().map(|u| u.0 as u128).sum();
            let ss: u128 = units.iter().map(|u| u.1 as u128).sum();
            let enc = match (era, g.rng.below(10)) { (_, 0) => "none", ("conway", 1..=5) => "map", _ => "list" };
            let mut c = |g: &mut Gen, allowed: bool| -> String {
                if !allowed { return "-".into(); }
                match g.rng.below(5) { 0 | 1 => "-".into(), 2 if era != "conway" => "0".into(), 4 => "2".into(), _ => "1".into() }
            };
            let v1 = c(g, true);
            let v2 = c(g, era != "alonzo");
            let v3 = c(g, era == "conway");
            ops.push(format!("unit {era} {v1} {v2} {v3} {enc} {} {}{}", around(g, sm), around(g, ss), units_text(&units)));
        }
        g.case(ops);
    }
}

pub fn run_case(case: &Case, out: &mut Out) {
    let (mut acc, mut rej) = (false, false);
    for op in &case.ops {
        match op[0].as_str() {
            "fixtures" => {
                let bad = fixtures::rejected();
                if bad.is_empty() { out.ok("all-accepted") } else { out.err(format!("rejected {:?}", bad).replace(' ', "_")) }
            }
            "unit" => {
                let era = op[1].as_str();
                let v = [cnt(&op[2]), cnt(&op[3]), cnt(&op[4])];
                let enc = op[5].as_str();
                let (mm, ms): (u64, u64) = (op[6].parse().unwrap(), op[7].parse().unwrap());
                let units = parse_units(&op[8..]);
                let res = run_unit(era, build_wits(era, v, enc, &units), mm, ms);
                let sm: u128 = units.iter().map(|u| u.0 as u128).sum();
                let ss: u128 = units.iter().map(|u| u.1 as u128).sum();
                let has_plutus = v.iter().any(|c| c.unwrap_or(0) > 0);
                match res {
                    None => out.panic(),
                    Some(Ok(())) => {
                        acc = true;
                        // the property: accepted + Plutus scripts => exact sums within the budget
                        if has_plutus && enc != "none" && (sm > mm as u128 || ss > ms as u128) {
                            out.viol(format!("exunits-over-budget era={era} enc={enc} unit"), format!("sum mem {sm} steps {ss} accepted under max {mm}/{ms}"));
                        }
                        if has_plutus && enc == "none" { out.viol(format!("exunits-no-redeemers-accepted era={era}"), "plutus scripts without redeemers accepted"); }
                        out.ok("");
                    }
                    Some(Err(e)) => { rej = true; out.err(class_of(&e)) }
                }
                out.cov(format!("unit:{era}:{enc}"));
            }
            "whole" => {
                let Some(mut f) = fixtures::by_name(&op[1]) else { out.reply("bad-op".into()); continue };
                let (mm, ms): (u64, u64) = (op[7].parse().unwrap(), op[8].parse().unwrap());
                params::set_max_tx_ex_units(&mut f.env, mm, ms);
                let v = view(&f);
                let sm: u128 = v.units.iter().map(|u| u.0 as u128).sum();
                let ss: u128 = v.units.iter().map(|u| u.1 as u128).sum();
                let has_plutus = v.v.iter().any(|c| c.unwrap_or(0) > 0) || v.ref_plutus > 0;
                match guard_mut(|| f.validate()) {
                    None => out.panic(),
                    Some(Ok(())) => {
                        acc = true;
                        if has_plutus && (sm > mm as u128 || ss > ms as u128) {
                            let how = if v.v.iter().any(|c| c.unwrap_or(0) > 0) { "witness-scripts" } else { "reference-scripts-only" };
                            out.viol(format!("exunits-over-budget era={} enc={} whole {how}", f.era_name(), v.enc), format!("{}: sum mem {sm} steps {ss} accepted under max {mm}/{ms}", f.name));
                        }
                        out.ok("");
                    }
                    Some(Err(e)) => { rej = true; out.err(class_of(&e)) }
                }
                out.cov(format!("whole:{}:{}", f.era_name(), if has_plutus { "plutus" } else { "plain" }));
            }
            _ => out.reply("bad-op".into()),
        }
    }
    if acc && rej { out.nontrivial(); }
}
