//! stream `validatetxs` — C39: `validate_txs` either commits the in-order certificate state or leaves the
//! caller's state untouched.
//!
//!   seq <n> <s0> <k> (<pre_i> <post_i> <res_i>)^k | <env fixture> <slot|-> <init|-> <member>^n
//!
//! Scenario (right of `|`): environment of `<env fixture>` (max_transaction_size lifted to 16384, block slot
//! optionally replaced), initial certificate state = `-` (empty) or the union of the members' fixture states,
//! UTxO = union of the members' UTxOs, members = fixtures (Shelley-MA with and without certificates, Alonzo) or
//! `S.<id>.<certs>` = synthesized, own-key Mary transactions with stake-key registrations / deregistrations,
//! optionally invalidated: `~badsig` (one signature bit flipped: fails in the witness rule, *after* the certificates
//! were applied to the working state), `~nowits` (witnesses dropped), `~noutxo` (its inputs removed from the UTxO:
//! fails before the certificates). Left of `|`: what single `validate_tx` calls do along the path (digests of the
//! canonical `CertState` dump) — the `step` parameter of the Lean model.
//! replies: ok <digest after> | err <class> <digest after> | panic
use crate::fixtures::{self, params, synth, txparts, Fixture, UtxoEntry};
use crate::fw::*;
use pallas_crypto::hash::Hasher;
use pallas_traverse::{Era, MultiEraTx};
use pallas_validate::phase1::{validate_tx, validate_txs};
use pallas_validate::utils::{CertState, Environment, ValidationError};

pub const NAME: &str = "validatetxs";

/// canonical text of a `CertState` (every map sorted)
pub fn dump(cs: &CertState) -> String {
    fn sorted<I: Iterator<Item = String>>(it: I) -> String { let mut v: Vec<String> = it.collect(); v.sort(); v.join(",") }
    let p = &cs.pstate;
    let d = &cs.dstate;
    format!(
        "pools[{}] fut[{}] retiring[{}] rewards[{}] delegs[{}] ptrs[{}] futgen[{}] gen[{}] ir_res[{}] ir_tre[{}]",
        sorted(p.pool_params.iter().map(|(k, v)| format!("{k}={v:?}"))),
        sorted(p.fut_pool_params.iter().map(|(k, v)| format!("{k}={v:?}"))),
        sorted(p.retiring.iter().map(|(k, v)| format!("{k}={v}"))),
        sorted(d.rewards.iter().map(|(k, v)| format!("{k:?}={v}"))),
        sorted(d.delegations.iter().map(|(k, v)| format!("{k:?}={v}"))),
        sorted(d.ptrs.iter().map(|(k, v)| format!("{}/{}/{}={v:?}", k.slot, k.tx_ix, k.cert_ix))),
        sorted(d.fut_gen_delegs.iter().map(|(k, v)| format!("{}/{}={}/{}", k.0, k.1, v.0, v.1))),
        sorted(d.gen_delegs.iter().map(|(k, v)| format!("{k}={}/{}", v.0, v.1))),
        sorted(d.inst_rewards.0.iter().map(|(k, v)| format!("{k:?}={v}"))),
        sorted(d.inst_rewards.1.iter().map(|(k, v)| format!("{k:?}={v}"))),
    )
}
pub fn digest(cs: &CertState) -> String { hex::encode(&Hasher::<256>::hash(dump(cs).as_bytes()).as_ref()[..8]) }

fn err_class(e: &ValidationError) -> String {
    format!("{e:?}").chars().map(|c| if c.is_ascii_alphanumeric() { c } else { '-' }).collect::<String>().trim_matches('-').to_string()
}

struct Scenario { env: Environment, init: CertState, utxo: Vec<UtxoEntry>, txs: Vec<(Era, Vec<u8>)> }

fn merge_state(into: &mut CertState, from: &CertState) {
    into.pstate.pool_params.extend(from.pstate.pool_params.clone());
    into.pstate.fut_pool_params.extend(from.pstate.fut_pool_params.clone());
    into.pstate.retiring.extend(from.pstate.retiring.clone());
    into.dstate.rewards.extend(from.dstate.rewards.clone());
    into.dstate.delegations.extend(from.dstate.delegations.clone());
    into.dstate.ptrs.extend(from.dstate.ptrs.clone());
    into.dstate.gen_delegs.extend(from.dstate.gen_delegs.clone());
    into.dstate.fut_gen_delegs.extend(from.dstate.fut_gen_delegs.clone());
}

fn build(toks: &[String]) -> Option<Scenario> {
    let envf = fixtures::by_name(&toks[0])?;
    let mut env = fixtures::clone_env(&envf.env);
    if params::max_tx_size(&env).is_some() { params::set_max_tx_size(&mut env, 16384); }
    if toks[1] != "-" { env.block_slot = toks[1].parse().ok()?; }
    let mut init = CertState::default();
    let (mut utxo, mut txs, mut removed): (Vec<UtxoEntry>, _, Vec<String>) = (vec![], vec![], vec![]);
    for m in &toks[3..] {
        let (name, mutation) = m.split_once('~').unwrap_or((m.as_str(), ""));
        let f = if let Some(spec) = name.strip_prefix("S.") { synth_member(spec)? } else { fixtures::by_name(name)? };
        if toks[2] == "union" { merge_state(&mut init, &f.cert_state); }
        for e in &f.utxo { if !utxo.iter().any(|u: &UtxoEntry| u.input == e.input) { utxo.push(e.clone()); } }
        let mut cbor = f.tx_cbor.clone();
        match mutation {
            "badsig" | "nowits" => {
                let mut parts = txparts::split_fixture(&f);
                if mutation == "nowits" { parts.wits = vec![0xa0]; } else {
                    // the last 64 bytes of the first vkey witness sit right after the 0x58 0x40 head; flip a bit in the witness set tail
                    if let Some(pos) = parts.wits.windows(2).position(|w| w == [0x58, 0x40]) { parts.wits[pos + 5] ^= 0x10; }
                }
                cbor = txparts::assemble(&parts);
            }
            "noutxo" => { removed.extend(f.tx().inputs().iter().map(|i| format!("{}#{}", i.hash(), i.index()))); }
            _ => {}
        }
        txs.push((f.era, cbor));
    }
    utxo.retain(|u| !removed.contains(&u.input.show()));
    Some(Scenario { env, init, utxo, txs })
}

/// `S.<id>.<r|d><seed>...`: a Mary transaction built with own keys (input number `<id>` locked by key 100) carrying the
/// listed stake-key certificates (`r` = registration, `d` = deregistration of the credential of key `<seed>`), outputs
/// balanced against the 2 ADA key deposit / refund, fee 300000
fn synth_member(spec: &str) -> Option<Fixture> {
    let mut parts = spec.split('.');
    let id: usize = parts.next()?.parse().ok()?;
    let mut certs = vec![];
    for c in parts {
        let seed: u8 = c[1..].parse().ok()?;
        certs.push(match &c[..1] { "r" => synth::SCert::Reg(seed), "d" => synth::SCert::Dereg(seed), _ => return None });
    }
    let regs = certs.iter().filter(|c| matches!(c, synth::SCert::Reg(_))).count() as u64;
    let deregs = certs.len() as u64 - regs;
    let coin = |c: u64| synth::SValue { multi: false, coin: c, groups: vec![] };
    let t = synth::SynthTx {
        era: Era::Mary,
        inputs: vec![(100, coin(50_000_000))],
        outputs: vec![coin(50_000_000 - 300_000 - 2_000_000 * regs + 2_000_000 * deregs)],
        fee: 300_000,
        mint: None,
        required_signers: None,
        certs,
        witnesses: None,
    };
    let mut f = synth::build(&t);
    // distinct UTxO entry per member id: re-key the single input
    let parts = txparts::split_fixture(&f);
    let mut body = parts.body.clone();
    let pat = [1u8; 32];
    let pos = body.windows(32).position(|w| w == pat)?;
    for b in &mut body[pos..pos + 32] { *b = 0x80 + id as u8; }
    // the body changed: sign again
    let txid = pallas_crypto::hash::Hasher::<256>::hash(&body);
    let k = synth::key(100);
    let mut w = pallas_codec::minicbor::Encoder::new(Vec::new());
    w.map(1).unwrap().u8(0).unwrap().array(1).unwrap().array(2).unwrap().bytes(&k.pk).unwrap().bytes(k.sk.sign(txid.as_ref()).as_ref()).unwrap();
    f.tx_cbor = txparts::assemble(&txparts::TxParts { body, wits: w.into_writer(), aux: None, valid: true });
    if let fixtures::InputRef::Post(i) = &mut f.utxo[0].input { i.transaction_id = [0x80 + id as u8; 32].into(); }
    Some(f)
}

/// single `validate_tx` calls along the path: (table text, k)
fn table(s: &Scenario) -> (String, usize) {
    let utxos = fixtures::utxos_of(&s.utxo);
    let mut st = s.init.clone();
    let mut t = String::new();
    let mut k = 0;
    for (i, (era, cbor)) in s.txs.iter().enumerate() {
        let tx = MultiEraTx::decode_for_era(*era, cbor).expect("member decodes");
        let pre = digest(&st);
        let r = validate_tx(&tx, i as u32, &s.env, &utxos, &mut st);
        t += &format!(" {pre} {} {}", digest(&st), match &r { Ok(()) => "ok".to_string(), Err(e) => err_class(e) });
        k += 1;
        if r.is_err() { break; }
    }
    (t, k)
}

const SHELLEY: [&str; 8] = ["shelley_ma.successful_mainnet_shelley_tx", "shelley_ma.successful_mainnet_shelley_tx_with_script",
    "shelley_ma.successful_mainnet_shelley_tx_with_changed_script", "shelley_ma.successful_mainnet_shelley_tx_with_metadata",
    "shelley_ma.successful_mainnet_mary_tx_with_minting", "shelley_ma.successful_mainnet_mary_tx_with_pool_reg",
    "shelley_ma.successful_mainnet_mary_tx_with_stk_deleg", "shelley_ma.successful_mainnet_allegra_tx_with_mir"];
const CERTS: [&str; 3] = ["shelley_ma.successful_mainnet_mary_tx_with_pool_reg", "shelley_ma.successful_mainnet_mary_tx_with_stk_deleg",
    "shelley_ma.successful_mainnet_allegra_tx_with_mir"];
const ALONZO: [&str; 4] = ["alonzo.successful_mainnet_tx", "alonzo.successful_mainnet_tx_with_plutus_script",
    "alonzo.successful_mainnet_tx_with_minting", "alonzo.successful_mainnet_tx_with_metadata"];

pub fn generate(g: &mut Gen) {
    for _ in 0..g.cases {
        let mut ops = vec![];
        for _ in 0..g.rng.range(1, 2) {
            let n = match g.rng.below(10) { 0 => 0, 1 => 1, 9 => g.rng.range(6, 12), _ => g.rng.range(2, 5) } as usize;
            let alonzo_env = g.rng.chance(1, 16);
            let mut members: Vec<String> = vec![];
            let mut min_slot = u64::MAX;
            for _ in 0..n {
                let m = match g.rng.below(12) { 0 | 1 => "~badsig", 2 => "~nowits", 3 => "~noutxo", _ => "" };
                if g.rng.chance(1, 2) {
                    // synthesized stake-key certificate transaction over a small pool of credentials (repeats collide on purpose)
                    let certs: Vec<String> = (0..[1u64, 1, 1, 1, 2, 2, 3][g.rng.below(7) as usize]).map(|j| format!("{}{}", if j == 0 && g.rng.chance(5, 6) || g.rng.chance(1, 2) { "r" } else { "d" }, 1 + g.rng.below(6))).collect();
                    members.push(format!("S.{}.{}{m}", members.len(), certs.join(".")));
                    continue;
                }
                let name = if g.rng.chance(1, 20) || (alonzo_env && g.rng.chance(1, 2)) { *g.rng.pick(&ALONZO) } else if g.rng.chance(1, 2) { *g.rng.pick(&CERTS) } else { *g.rng.pick(&SHELLEY) };
                min_slot = min_slot.min(fixtures::by_name(name).map(|f| f.env.block_slot).unwrap_or(u64::MAX));
                members.push(format!("{name}{m}"));
            }
            let envf = if alonzo_env { *g.rng.pick(&ALONZO) } else if g.rng.chance(1, 2) { "shelley_ma.successful_mainnet_mary_tx_with_stk_deleg" } else { *g.rng.pick(&SHELLEY) };
            // a slot early enough for every member's ttl (the earliest member's own block slot), or the environment's own
            let slot = if n > 0 && g.rng.chance(3, 4) { min_slot.to_string() } else { "-".to_string() };
            let init = if g.rng.chance(2, 3) { "union" } else { "-" };
            let mut toks = vec![envf.to_string(), slot, init.to_string()];
            toks.extend(members);
            let Some(s) = build(&toks) else { continue };
            let (t, k) = table(&s);
            ops.push(format!("seq {} {} {k}{t} | {}", s.txs.len(), digest(&s.init), toks.join(" ")));
        }
        g.case(ops);
    }
}

pub fn run_case(case: &Case, out: &mut Out) {
    for op in &case.ops {
        if op[0] != "seq" { out.reply("bad-op".into()); continue; }
        let Some(bar) = op.iter().position(|t| t == "|") else { out.reply("bad-op".into()); continue };
        let Some(s) = build(&op[bar + 1..]) else { out.reply("bad-op".into()); continue };
        let utxos = fixtures::utxos_of(&s.utxo);
        let txs: Vec<MultiEraTx> = s.txs.iter().map(|(era, c)| MultiEraTx::decode_for_era(*era, c).expect("member decodes")).collect();
        // ---- the real thing
        let mut caller = s.init.clone();
        let before = dump(&caller);
        let res = guard_mut(|| validate_txs(&txs, &s.env, &utxos, &mut caller));
        let after = dump(&caller);
        // ---- the property, independently: in-order application with single validate_tx calls on a scratch state
        let mut scratch = s.init.clone();
        let mut seq_ok = true;
        let mut touched_before_failure = false;
        for (i, tx) in txs.iter().enumerate() {
            if validate_tx(tx, i as u32, &s.env, &utxos, &mut scratch).is_err() { seq_ok = false; touched_before_failure = dump(&scratch) != before; break; }
        }
        match &res {
            None => out.panic(),
            Some(Ok(())) => {
                if !seq_ok { out.viol("sequence-accepted-although-a-member-fails", format!("{:?}", &op[bar + 1..])); }
                else if after != dump(&scratch) { out.viol("cert-state-not-in-order-state-on-success", format!("{:?}: caller state differs from applying each transaction in order", &op[bar + 1..])); }
                out.ok(digest(&caller));
            }
            Some(Err(e)) => {
                if after != before { out.viol("cert-state-changed-on-failure", format!("{:?}: validate_txs failed with {} but the caller's CertState changed", &op[bar + 1..], err_class(e))); }
                if seq_ok { out.viol("sequence-rejected-although-every-member-passes", format!("{:?}", &op[bar + 1..])); }
                out.err(format!("{} {}", err_class(e), digest(&caller)));
            }
        }
        let changed = after != before;
        out.cov(format!("{}:{}", if matches!(res, Some(Ok(()))) { "ok" } else { "err" }, if changed { "state-changed" } else if touched_before_failure { "working-state-dirty-at-failure" } else { "state-same" }));
        if (matches!(res, Some(Ok(()))) && changed) || (matches!(res, Some(Err(_))) && touched_before_failure) { out.nontrivial(); }
    }
}
