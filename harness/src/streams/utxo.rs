//! stream `utxo` — C31: MultiEraTx::{consumes, produces, produces_at, inputs_sorted_set} on
//! corpus transactions under both validity flags (flag flipped at the byte level) and on
//! generated transactions with duplicate inputs / collateral, with and without collateral return.
use crate::fw::*;
use pallas_traverse::{Era, MultiEraInput, MultiEraOutput, MultiEraTx};
use std::ops::Deref;

#[path = "../fixtures/w12.rs"]
mod fx;
#[path = "../fixtures/w12_cst.rs"]
mod cst;

pub const NAME: &str = "utxo";

// ---------------------------------------------------------------- tiny CBOR writer (generator only)
fn head(out: &mut Vec<u8>, major: u8, n: u64) {
    let m = major << 5;
    if n < 24 { out.push(m | n as u8) }
    else if n < 256 { out.push(m | 24); out.push(n as u8) }
    else if n < 65536 { out.push(m | 25); out.extend_from_slice(&(n as u16).to_be_bytes()) }
    else if n < (1 << 32) { out.push(m | 26); out.extend_from_slice(&(n as u32).to_be_bytes()) }
    else { out.push(m | 27); out.extend_from_slice(&n.to_be_bytes()) }
}
fn bstr(out: &mut Vec<u8>, b: &[u8]) { head(out, 2, b.len() as u64); out.extend_from_slice(b); }
fn array(out: &mut Vec<u8>, items: &[Vec<u8>], indef: bool) {
    if indef { out.push(0x9f) } else { head(out, 4, items.len() as u64) }
    for i in items { out.extend_from_slice(i); }
    if indef { out.push(0xff) }
}

fn hash_alphabet(rng: &mut Rng) -> Vec<[u8; 32]> {
    let mut a = vec![[0u8; 32], [0u8; 32], [0u8; 32], [0xffu8; 32], [0u8; 32], [0x7fu8; 32]];
    a[1][31] = 1;
    a[2][0] = 1;
    a[4][16] = 0x80;
    a[5][31] = 0x80;
    let mut r = [0u8; 32];
    r.copy_from_slice(&rng.bytes(32));
    a.push(r);
    a
}

fn gen_inputs(rng: &mut Rng, alpha: &[[u8; 32]], max: u64) -> Vec<Vec<u8>> {
    let n = rng.below(max + 1);
    let k = 1 + rng.below(alpha.len() as u64) as usize;
    let idxs: Vec<u64> = (0..3).map(|_| rng.u64_edgy()).collect();
    (0..n).map(|_| {
        let mut o = vec![0x82];
        bstr(&mut o, &alpha[rng.below(k as u64) as usize]);
        head(&mut o, 0, if rng.chance(3, 4) { rng.below(3) } else { *rng.pick(&idxs) });
        o
    }).collect()
}

fn gen_output(rng: &mut Rng, era: &str, coin: u64) -> Vec<u8> {
    let mut addr = vec![0x61];
    addr.extend_from_slice(&rng.bytes(28));
    let mut value = vec![];
    if rng.chance(1, 4) {
        // [coin, { policy => { name => amount } }]
        value.push(0x82);
        head(&mut value, 0, coin);
        value.push(0xa1);
        bstr(&mut value, &rng.bytes(28));
        value.push(0xa1);
        let nl = rng.below(5) as usize;
        bstr(&mut value, &rng.bytes(nl));
        head(&mut value, 0, 1 + rng.below(1000));
    } else {
        head(&mut value, 0, coin);
    }
    let mut o = vec![];
    if era != "alonzo" && rng.chance(1, 2) {
        o.push(0xa2);
        o.push(0x00); bstr(&mut o, &addr);
        o.push(0x01); o.extend_from_slice(&value);
    } else if rng.chance(1, 4) {
        o.push(0x83); bstr(&mut o, &addr); o.extend_from_slice(&value); bstr(&mut o, &rng.bytes(32));
    } else {
        o.push(0x82); bstr(&mut o, &addr); o.extend_from_slice(&value);
    }
    o
}

fn gen_tx(rng: &mut Rng, era: &str) -> Vec<u8> {
    let alpha = hash_alphabet(rng);
    let conway = era == "conway";
    let mut entries: Vec<(u64, Vec<u8>)> = vec![];
    let set = |rng: &mut Rng, items: Vec<Vec<u8>>| {
        let mut o = vec![];
        if conway && rng.chance(1, 2) { o.extend_from_slice(&[0xd9, 0x01, 0x02]); }
        array(&mut o, &items, rng.chance(1, 5));
        o
    };
    let ins = gen_inputs(rng, &alpha, 8);
    entries.push((0, set(rng, ins)));
    let nout = rng.below(5);
    let base = rng.u64_edgy() / 2;
    let outs: Vec<Vec<u8>> = (0..nout).map(|i| gen_output(rng, era, base + i)).collect();
    let mut o = vec![];
    array(&mut o, &outs, rng.chance(1, 5));
    entries.push((1, o));
    let mut fee = vec![];
    head(&mut fee, 0, rng.u64_edgy());
    entries.push((2, fee));
    if rng.chance(3, 4) {
        let mut col = gen_inputs(rng, &alpha, 4);
        if conway && col.is_empty() { col = gen_inputs(rng, &alpha, 0); let mut one = vec![0x82]; bstr(&mut one, &alpha[0]); one.push(0); col.push(one); }
        entries.push((13, set(rng, col)));
    }
    if era != "alonzo" && rng.chance(1, 2) {
        let c = rng.u64_edgy();
        entries.push((16, gen_output(rng, era, c)));
    }
    let mut body = vec![];
    head(&mut body, 5, entries.len() as u64);
    for (k, v) in &entries { head(&mut body, 0, *k); body.extend_from_slice(v); }
    let mut tx = vec![0x84];
    tx.extend_from_slice(&body);
    tx.push(0xa0);
    tx.push(if rng.chance(1, 2) { 0xf5 } else { 0xf4 });
    tx.push(0xf6);
    tx
}

fn ops_for(era: &str, tx: &[u8], nout_hint: u64) -> Vec<String> {
    let mut ops = vec![format!("tx {} {}", era, hex(tx)), "consumes".into(), "produces".into()];
    let mut qs = vec![0, nout_hint, nout_hint + 1];
    if nout_hint > 0 { qs.push(nout_hint - 1); }
    qs.sort(); qs.dedup();
    for q in qs { ops.push(format!("produces_at {q}")); }
    ops.push("sorted".into());
    ops
}

fn count_outputs(tx: &[u8], era: &str) -> u64 {
    // element 0 -> body map -> key 1 -> array length (byte level); Byron: tx[0][1]
    (|| {
        let top = fx::children(tx, 0)?;
        if era == "byron" {
            let t = fx::children(tx, top.first()?.0)?;
            return Some(fx::children(tx, t.get(1)?.0)?.len() as u64);
        }
        let body = fx::children(tx, top.first()?.0)?;
        for kv in body.chunks(2) {
            if kv.len() == 2 && fx::uint_at(tx, kv[0].0) == Some(1) { return Some(fx::children(tx, kv[1].0)?.len() as u64); }
        }
        None
    })().unwrap_or(0)
}

pub fn generate(g: &mut Gen) {
    // 1. corpus: every *.tx, under both flags
    for (name, bytes) in fx::hex_files("tx") {
        let era = match fx::era_kind_of_name(&name) {
            Some(e) => e,
            None => {
                // files without an era in their name: first era (newest first) whose shape fits
                let mut found = None;
                for (e, k) in [(Era::Conway, "conway"), (Era::Babbage, "babbage"), (Era::Alonzo, "alonzo"), (Era::Byron, "byron")] {
                    if MultiEraTx::decode_for_era(e, &bytes).is_ok() { found = Some(k); break; }
                }
                match found { Some(k) => k, None => continue }
            }
        };
        let n = count_outputs(&bytes, era);
        if era == "byron" { g.case(ops_for(era, &bytes, n)); continue; }
        for flag in [true, false] {
            if let Some(t) = fx::with_flag(&bytes, flag) { g.case(ops_for(era, &t, n)); }
        }
    }
    // 2. corpus: transactions of every block (quick: the first 2 of each block)
    let mut all_blocks: Vec<Vec<u8>> = fx::hex_files("block").into_iter().map(|x| x.1).collect();
    all_blocks.extend(fx::chunk_blocks(if g.thorough() { 10 } else { 500 }));
    for bytes in all_blocks {
        if bytes.len() > 400_000 { continue; }
        let Some(rb) = fx::split_block(&bytes) else { continue };
        let era = fx::era_kind_of_tag(rb.tag);
        let lim = if g.thorough() { usize::MAX } else { 2 };
        for s in rb.byron_payloads.iter().take(lim) {
            let t = &bytes[s.0..s.1];
            g.case(ops_for("byron", t, count_outputs(t, "byron")));
        }
        for i in 0..rb.bodies.len().min(lim) {
            for flag in [true, false] {
                if let Some(t) = fx::standalone_tx(&bytes, &rb, i, flag) { let n = count_outputs(&t, era); g.case(ops_for(era, &t, n)); }
            }
        }
    }
    // 2b. systematic single-site encoding mutants (def<->indef incl. empty containers, head widths)
    //     of small corpus transactions that pallas still decodes
    {
        let mut rng = g.rng.fork();
        let mut n_tx = 0;
        for (name, bytes) in fx::hex_files("tx") {
            let Some(era) = fx::era_kind_of_name(&name) else { continue };
            if era == "byron" || bytes.len() > (if g.thorough() { 12_000 } else { 2_500 }) { continue; }
            n_tx += 1;
            if !g.thorough() && n_tx > 20 { break; }
            let e = era_of(era).unwrap();
            for kind in [0usize, 1, 2, 7] {
                for m in cst::single_site_mutants(&bytes, kind, if g.thorough() { 40 } else { 6 }, &mut rng) {
                    if MultiEraTx::decode_for_era(e, &m).is_ok() { let n = count_outputs(&m, era); g.case(ops_for(era, &m, n)); }
                }
            }
        }
    }
    // 3. generated
    for i in 0..g.cases {
        let era = ["alonzo", "babbage", "conway"][i % 3];
        let mut rng = g.rng.fork();
        let t = gen_tx(&mut rng, era);
        let n = count_outputs(&t, era);
        g.case(ops_for(era, &t, n));
    }
}

// ---------------------------------------------------------------- canonical printing
fn show_in(i: &MultiEraInput) -> String { format!("{}#{}", hex(i.hash().as_ref()), i.index()) }
fn show_ins(v: &[MultiEraInput]) -> String { format!("[{}]", v.iter().map(show_in).collect::<Vec<_>>().join(" ")) }
fn out_id(o: &MultiEraOutput) -> String {
    use pallas_primitives::{babbage, conway};
    let addr: Vec<u8> = match o {
        MultiEraOutput::Byron(_) => vec![],
        MultiEraOutput::AlonzoCompatible(x, _) => x.address.to_vec(),
        MultiEraOutput::Babbage(x) => match x.deref().deref() {
            babbage::TransactionOutput::Legacy(l) => l.address.to_vec(),
            babbage::TransactionOutput::PostAlonzo(p) => p.address.to_vec(),
        },
        MultiEraOutput::Conway(x) => match x.deref().deref() {
            conway::TransactionOutput::Legacy(l) => l.address.to_vec(),
            conway::TransactionOutput::PostAlonzo(p) => p.address.to_vec(),
        },
        _ => vec![0xee],
    };
    format!("{}:{}", hex(&addr), o.value().coin())
}
fn show_opt(o: Option<String>) -> String { match o { Some(s) => format!("some {s}"), None => "none".into() } }

fn era_of(k: &str) -> Option<Era> {
    Some(match k { "byron" => Era::Byron, "alonzo" => Era::Alonzo, "babbage" => Era::Babbage, "conway" => Era::Conway, _ => return None })
}

type Key = (Vec<u8>, u64);
fn key(i: &MultiEraInput) -> Key { (i.hash().to_vec(), i.index()) }

pub fn run_case(case: &Case, out: &mut Out) {
    let mut bytes: Vec<u8> = vec![];
    let mut era = Era::Conway;
    let mut loaded = false;
    for op in &case.ops {
        if op[0] == "tx" {
            let (Some(e), Some(b)) = (op.get(1).and_then(|s| era_of(s)), op.get(2).and_then(|s| unhex(s))) else { out.reply("bad-op".into()); continue };
            era = e; bytes = b;
            let r = guard(|| MultiEraTx::decode_for_era(era, &bytes).ok().map(|tx| {
                format!("valid={} in={} out=[{}] col={} cr={}", tx.is_valid(), show_ins(&tx.inputs()),
                    tx.outputs().iter().map(out_id).collect::<Vec<_>>().join(" "), show_ins(&tx.collateral()),
                    show_opt(tx.collateral_return().as_ref().map(out_id)))
            }));
            match r { Some(Some(s)) => { loaded = true; out.ok(s) } Some(None) => { loaded = false; out.err("decode") } None => { loaded = false; out.panic() } }
            continue;
        }
        if !loaded { out.err("notx"); continue; }
        let b2 = bytes.clone();
        let opc = op.clone();
        let r = guard(move || {
            let tx = MultiEraTx::decode_for_era(era, &b2).unwrap();
            // the facts the property is stated over
            let valid = tx.is_valid();
            let ins: Vec<Key> = tx.inputs().iter().map(key).collect();
            let col: Vec<Key> = tx.collateral().iter().map(key).collect();
            let outs: Vec<String> = tx.outputs().iter().map(out_id).collect();
            let cr: Option<String> = tx.collateral_return().as_ref().map(out_id);
            let mut viols: Vec<(String, String)> = vec![];
            let mut cov: Vec<String> = vec![];
            let expected_produces: Vec<(usize, String)> = if valid { outs.iter().cloned().enumerate().collect() }
                else { cr.iter().map(|o| (outs.len(), o.clone())).collect() };
            let reply = match opc[0].as_str() {
                "consumes" => {
                    let got = tx.consumes();
                    let gotk: Vec<Key> = got.iter().map(|i| { let r = i.output_ref(); (r.hash().to_vec(), r.index()) }).collect();
                    let src = if valid { &ins } else { &col };
                    let mut want: Vec<Key> = vec![];
                    for k in src { if !want.contains(k) { want.push(k.clone()); } }
                    if want.len() != src.len() { cov.push("dup-in-consumed-source".into()); }
                    if gotk != want {
                        viols.push((format!("consumes-{}", if valid { "valid" } else { "invalid" }),
                            format!("valid={valid} consumes()={} expected each of {} once, in order", show_ins(&got), if valid { "inputs()" } else { "collateral()" })));
                    }
                    format!("ok {}", show_ins(&got))
                }
                "produces" => {
                    let got: Vec<(usize, String)> = tx.produces().iter().map(|(i, o)| (*i, out_id(o))).collect();
                    if got != expected_produces {
                        viols.push((format!("produces-{}", if valid { "valid" } else { "invalid" }),
                            format!("valid={valid} n_outputs={} collateral_return={:?} produces()={:?}", outs.len(), cr, got)));
                    }
                    if !valid && cr.is_some() { cov.push("invalid-with-collateral-return".into()); }
                    if !valid && cr.is_none() { cov.push("invalid-without-collateral-return".into()); }
                    format!("ok [{}]", got.iter().map(|(i, o)| format!("{i}={o}")).collect::<Vec<_>>().join(" "))
                }
                "produces_at" => {
                    let i: usize = opc[1].parse().unwrap_or(0);
                    let got = tx.produces_at(i).as_ref().map(out_id);
                    let want = expected_produces.iter().find(|(k, _)| *k == i).map(|(_, o)| o.clone());
                    if got != want { viols.push(("produces-at".into(), format!("valid={valid} index={i} produces_at={:?} expected {:?}", got, want))); }
                    // and against the implementation's own produced list
                    let own = tx.produces().iter().find(|(k, _)| *k == i).map(|(_, o)| out_id(o));
                    if got != own { viols.push(("produces-at-vs-list".into(), format!("valid={valid} index={i} produces_at={:?} list has {:?}", got, own))); }
                    format!("ok {}", show_opt(got))
                }
                "sorted" => {
                    let got = tx.inputs_sorted_set();
                    let gk: Vec<Key> = got.iter().map(key).collect();
                    if !gk.windows(2).all(|w| w[0] < w[1]) {
                        let dup = gk.windows(2).any(|w| w[0] == w[1]);
                        viols.push((if dup { "sorted-set-dup".to_string() } else { "sorted-set-order".to_string() }, format!("inputs_sorted_set()={}", show_ins(&got))));
                    }
                    if !gk.iter().all(|k| ins.contains(k)) || !ins.iter().all(|k| gk.contains(k)) {
                        viols.push(("sorted-set-members".into(), format!("inputs()={} inputs_sorted_set()={}", show_ins(&tx.inputs()), show_ins(&got))));
                    }
                    format!("ok {}", show_ins(&got))
                }
                _ => "bad-op".to_string(),
            };
            let mut dd = ins.clone(); dd.sort(); dd.dedup();
            let dup_inputs = dd.len() != ins.len();
            (reply, viols, cov, valid, dup_inputs)
        });
        match r {
            Some((reply, viols, cov, valid, dup)) => {
                for (k, d) in viols { out.viol(k, d); }
                for c in cov { out.cov(c); }
                if op[0] == "sorted" {
                    out.cov(if valid { "flag-valid" } else { "flag-invalid" });
                    if dup { out.cov("dup-inputs"); }
                    if (!valid || dup) && era != Era::Byron { out.nontrivial(); }
                }
                out.reply(reply);
            }
            None => out.panic(),
        }
    }
}
