//! stream `value` — C34: preservation of value, per rule (`check_preservation_of_value` of each post-Byron era and
//! Byron `check_fees`, through `verif_hooks`) on synthesized transaction bodies and UTxO sets.
//!
//!   pv <era> I <n> <value>^n O <m> <value>^m F <fee> M <mint|->          (the rule alone, through verif_hooks)
//!   pvw <era> I <n> <value>^n O <m> <value>^m F <fee> M <mint|->         (the same scenario as a correctly signed transaction
//!                                                                          built by fixtures::synth, through validate_txs)
//!   by I <n> <amount>^n O <m> <amount>^m S <size> A <summand> B <multiplier> R <0|1>    (Byron check_fees; R 1 = every input is a redeem-address UTxO)
//!
//! `<era>` = shelley|allegra|mary|alonzo|babbage|conway. `<value>` = `c<coin>` (the `Coin` variant) or
//! `m<coin>` followed by `;<policy>:<name>=<amount>,<name>=<amount>` groups (the `Multiasset` variant; policy = two hex
//! digits repeated to 28 bytes, name = hex), `<mint>` = the groups without the leading coin, amounts signed.
//! Groups and names are listed in BTreeMap (byte) order, which is the order the code iterates them in.
//! The transaction has no certificates, withdrawals, treasury or donation fields. The oracle computes the exact
//! balance per asset with 128-bit integers.
//! replies: ok | err negative-value | err not-preserved | err wrong-era | err fees-below-min | err other | panic
use crate::fixtures::{self, synth, Fixture, InputRef, UtxoEntry};
use crate::fw::*;
use pallas_codec::minicbor::{self, data::Tag, Encoder};
use pallas_primitives::alonzo::TransactionInput;
use pallas_traverse::Era;
use pallas_validate::phase1::{alonzo, babbage, byron, conway, shelley_ma};
use pallas_validate::utils::{AlonzoError as A, ByronError as BY, MultiEraProtocolParameters as P, PostAlonzoError as PA, ShelleyMAError as S, ValidationError as VE};
use std::collections::BTreeMap;

pub const NAME: &str = "value";

type Assets = BTreeMap<(Vec<u8>, Vec<u8>), i128>;

#[derive(Clone, Debug)]
struct Val { multi: bool, coin: u64, groups: Vec<(u8, Vec<(Vec<u8>, i128)>)> }

fn parse_groups(s: &str) -> Vec<(u8, Vec<(Vec<u8>, i128)>)> {
    s.split(';').filter(|g| !g.is_empty()).map(|g| {
        let (p, rest) = g.split_once(':').expect("policy:assets");
        let assets = rest.split(',').filter(|a| !a.is_empty()).map(|a| { let (n, v) = a.split_once('=').expect("name=amount"); (unhex(n).expect("name"), v.parse().expect("amount")) }).collect();
        (u8::from_str_radix(p, 16).expect("policy"), assets)
    }).collect()
}
fn parse_val(t: &str) -> Val {
    let multi = t.starts_with('m');
    let (coin, rest) = match t[1..].split_once(';') { Some((c, r)) => (c, r), None => (&t[1..], "") };
    Val { multi, coin: coin.parse().expect("coin"), groups: parse_groups(rest) }
}
fn show_groups(g: &[(u8, Vec<(Vec<u8>, i128)>)]) -> String {
    g.iter().map(|(p, a)| format!(";{p:02x}:{}", a.iter().map(|(n, v)| format!("{}={v}", hex(n))).collect::<Vec<_>>().join(","))).collect()
}
fn show_val(v: &Val) -> String { format!("{}{}{}", if v.multi { "m" } else { "c" }, v.coin, show_groups(&v.groups)) }

fn put_groups(e: &mut Encoder<Vec<u8>>, g: &[(u8, Vec<(Vec<u8>, i128)>)]) {
    e.map(g.len() as u64).unwrap();
    for (p, assets) in g {
        e.bytes(&[*p; 28]).unwrap();
        e.map(assets.len() as u64).unwrap();
        for (n, v) in assets {
            e.bytes(n).unwrap();
            if *v >= 0 { e.u64(*v as u64).unwrap(); } else { e.i64(*v as i64).unwrap(); }
        }
    }
}
fn put_val(e: &mut Encoder<Vec<u8>>, v: &Val) {
    if v.multi { e.array(2).unwrap().u64(v.coin).unwrap(); put_groups(e, &v.groups); } else { e.u64(v.coin).unwrap(); }
}
const ADDR: [u8; 29] = [0x61, 7, 7, 7, 7, 7, 7, 7, 7, 7, 7, 7, 7, 7, 7, 7, 7, 7, 7, 7, 7, 7, 7, 7, 7, 7, 7, 7, 7];
fn put_output(e: &mut Encoder<Vec<u8>>, v: &Val, post_alonzo: bool) {
    if post_alonzo { e.map(2).unwrap().u8(0).unwrap().bytes(&ADDR).unwrap().u8(1).unwrap(); put_val(e, v); }
    else { e.array(2).unwrap().bytes(&ADDR).unwrap(); put_val(e, v); }
}

fn add_assets(acc: &mut Assets, v: &Val, sign: i128) {
    *acc.entry((vec![], vec![])).or_insert(0) += sign * v.coin as i128;
    for (p, assets) in &v.groups { for (n, a) in assets { *acc.entry((vec![*p], n.clone())).or_insert(0) += sign * a; } }
}

fn class_of(e: &VE) -> &'static str {
    match e {
        VE::Alonzo(A::NegativeValue) | VE::PostAlonzo(PA::NegativeValue) | VE::ShelleyMA(S::NegativeValue) => "negative-value",
        VE::Alonzo(A::PreservationOfValue) | VE::PostAlonzo(PA::PreservationOfValue) | VE::ShelleyMA(S::PreservationOfValue) => "not-preserved",
        VE::Byron(BY::FeesBelowMin) => "fees-below-min",
        VE::ShelleyMA(S::ValueNotShelley) | VE::ShelleyMA(S::WrongEraOutput) => "wrong-era",
        _ => "other",
    }
}

/// body `{0: inputs, 1: outputs, 2: fee, 3: ttl, 9: mint}` in the era's concrete syntax, and the UTxO entries
fn build(era: &str, ins: &[Val], outs: &[Val], fee: u64, mint: &Option<Vec<(u8, Vec<(Vec<u8>, i128)>)>>, legacy_outs: bool) -> (Vec<u8>, Vec<UtxoEntry>) {
    let mut e = Encoder::new(Vec::new());
    e.map(4 + mint.is_some() as u64).unwrap();
    e.u8(0).unwrap();
    if era == "conway" { e.tag(Tag::new(258)).unwrap(); }
    e.array(ins.len() as u64).unwrap();
    for i in 0..ins.len() { e.array(2).unwrap().bytes(&[i as u8 + 1; 32]).unwrap().u8(0).unwrap(); }
    let post = matches!(era, "babbage" | "conway") && !legacy_outs;
    e.u8(1).unwrap().array(outs.len() as u64).unwrap();
    for o in outs { put_output(&mut e, o, post); }
    e.u8(2).unwrap().u64(fee).unwrap();
    e.u8(3).unwrap().u64(u64::MAX).unwrap();
    if let Some(m) = mint { e.u8(9).unwrap(); put_groups(&mut e, m); }
    let utxo = ins.iter().enumerate().map(|(i, v)| {
        let mut oe = Encoder::new(Vec::new());
        put_output(&mut oe, v, post);
        let out_era = match era { "babbage" if post => Era::Babbage, "conway" if post => Era::Conway, _ => Era::Alonzo };
        UtxoEntry { input: InputRef::Post(TransactionInput { transaction_id: [i as u8 + 1; 32].into(), index: 0 }), era: out_era, cbor: oe.into_writer() }
    }).collect();
    (e.into_writer(), utxo)
}

// ------------------------------------------------------------------------------------------------ generator

fn amount(g: &mut Gen, conway: bool) -> i128 {
    let v = match g.rng.below(12) {
        0 => 1, 1 => (1u64 << 63) as i128, 2 => ((1u64 << 63) - 1) as i128, 3 => u64::MAX as i128, 4 => (u64::MAX - g.rng.below(10)) as i128,
        5 => ((1u64 << 62) + g.rng.below(3)) as i128, 6 => 0, _ => g.rng.range(1, 1000) as i128,
    };
    if conway && v == 0 { 1 } else { v }
}
fn gen_groups(g: &mut Gen, conway: bool, signed: bool) -> Vec<(u8, Vec<(Vec<u8>, i128)>)> {
    let pols = [0x11u8, 0x22, 0x33];
    let names: [Vec<u8>; 3] = [vec![0x01], vec![0x01, 0x00], vec![0x7f, 0xff]];
    let mut res = vec![];
    for p in pols {
        if !g.rng.chance(1, 2) { continue; }
        let mut assets = vec![];
        for n in &names {
            if !g.rng.chance(1, 2) { continue; }
            let mut a = amount(g, conway);
            if signed { a = a.min(i64::MAX as i128); if g.rng.chance(1, 2) { a = -a; } if a == 0 { a = -1; } if g.rng.chance(1, 12) { a = i64::MIN as i128; } }
            assets.push((n.clone(), a));
        }
        if !assets.is_empty() || (!conway && g.rng.chance(1, 6)) { res.push((p, assets)); }
    }
    res
}
fn gen_val(g: &mut Gen, conway: bool) -> Val {
    let coin = match g.rng.below(10) { 0 => 0, 1 => u64::MAX, 2 => g.rng.u64_edgy(), _ => g.rng.range(1_000_000, 50_000_000) };
    if g.rng.chance(1, 3) { Val { multi: false, coin, groups: vec![] } } else { Val { multi: true, coin, groups: gen_groups(g, conway, false) } }
}

/// make `outs` balance `ins + mint - fee` exactly when possible (so that accepted cases are frequent), then optionally perturb
fn balance(g: &mut Gen, ins: &[Val], mint: &Option<Vec<(u8, Vec<(Vec<u8>, i128)>)>>, fee: u64, conway: bool) -> Vec<Val> {
    let mut acc: Assets = BTreeMap::new();
    for v in ins { add_assets(&mut acc, v, 1); }
    if let Some(m) = mint { add_assets(&mut acc, &Val { multi: true, coin: 0, groups: m.clone() }, 1); }
    let coin = acc.remove(&(vec![], vec![])).unwrap_or(0) - fee as i128;
    let mut groups: BTreeMap<u8, Vec<(Vec<u8>, i128)>> = BTreeMap::new();
    for ((p, n), a) in acc { if a != 0 || (!conway && g.rng.chance(1, 3)) { groups.entry(p[0]).or_default().push((n, a)); } }
    let ok = coin >= 0 && coin <= u64::MAX as i128 && groups.values().flatten().all(|(_, a)| *a >= 0 && *a <= u64::MAX as i128);
    if !ok { return (0..g.rng.range(1, 2)).map(|_| gen_val(g, conway)).collect(); }
    let mut out = Val { multi: !groups.is_empty() || g.rng.chance(1, 2), coin: coin as u64, groups: groups.into_iter().collect() };
    // split into two outputs sometimes
    let mut outs = vec![];
    if g.rng.chance(1, 3) && out.coin > 2 {
        let part = g.rng.below(out.coin);
        out.coin -= part;
        outs.push(Val { multi: g.rng.chance(1, 2), coin: part, groups: vec![] });
    }
    outs.push(out);
    outs
}

fn perturb(g: &mut Gen, outs: &mut Vec<Val>, conway: bool) -> &'static str {
    let i = g.rng.below(outs.len() as u64) as usize;
    match g.rng.below(8) {
        0 => { outs[i].coin = outs[i].coin.wrapping_add(1); "coin+1" }
        1 => { outs[i].coin = outs[i].coin.wrapping_sub(1); "coin-1" }
        2 | 3 if !outs[i].groups.is_empty() => { let gi = g.rng.below(outs[i].groups.len() as u64) as usize; if let Some(a) = outs[i].groups[gi].1.first_mut() { a.1 = if g.rng.chance(1, 2) { a.1 + 1 } else { (a.1 - 1).max(if conway { 1 } else { 0 }) }; } "asset+-1" }
        4 => { outs[i].multi = true; outs[i].groups.push((0x44, vec![(vec![0x09], 5)])); "extra-asset" }
        5 if !outs[i].groups.is_empty() => { outs[i].groups.remove(0); "asset-dropped" }
        // the wrap-around witnesses: an output that carries 2^64 - n of an asset
        6 => { outs[i].multi = true; outs[i].groups.insert(0, (0x05, vec![(vec![0x01], (u64::MAX - g.rng.below(5)) as i128)])); "huge-asset" }
        _ => "none",
    }
}

fn small_val(g: &mut Gen, with_assets: bool) -> Val {
    let coin = g.rng.range(1_000_000, 50_000_000);
    if !with_assets { return Val { multi: g.rng.chance(1, 4), coin, groups: vec![] }; }
    let mut groups = vec![];
    for p in [0x11u8, 0x22] {
        if !g.rng.chance(2, 3) { continue; }
        let mut assets: Vec<(Vec<u8>, i128)> = vec![];
        for n in [vec![0x01u8], vec![0x01, 0x00]] { if g.rng.chance(2, 3) { assets.push((n, g.rng.range(1, 500) as i128)); } }
        if !assets.is_empty() { groups.push((p, assets)); }
    }
    Val { multi: true, coin, groups }
}

/// a mint that relates to what the inputs hold: burns up to (or one past) the held amount, fresh positive mints
fn related_mint(g: &mut Gen, ins: &[Val]) -> Vec<(u8, Vec<(Vec<u8>, i128)>)> {
    let mut held: Assets = BTreeMap::new();
    for v in ins { add_assets(&mut held, v, 1); }
    held.remove(&(vec![], vec![]));
    let mut m: BTreeMap<u8, Vec<(Vec<u8>, i128)>> = BTreeMap::new();
    for ((p, n), a) in held {
        if a <= 0 || !g.rng.chance(1, 2) { continue; }
        let burn = match g.rng.below(5) { 0 => a, 1 => a + 1, 2 => 1, _ => g.rng.range(1, a as u64) as i128 };
        m.entry(p[0]).or_default().push((n, -burn.min(i64::MAX as i128)));
    }
    if g.rng.chance(1, 2) { m.entry(0x33).or_default().push((vec![0x4e], g.rng.range(1, 1000) as i128)); }
    if g.rng.chance(1, 4) { m.entry(0x11).or_default().push((vec![0x7f, 0xff], g.rng.range(1, 9) as i128)); }
    m.into_iter().collect()
}

fn normalize(v: &mut Val, conway: bool) {
    for (_, a) in v.groups.iter_mut() { for x in a.iter_mut() { x.1 = x.1.clamp(if conway { 1 } else { 0 }, u64::MAX as i128); } a.sort(); a.dedup_by(|x, y| x.0 == y.0); }
    if conway { v.groups.retain(|(_, a)| !a.is_empty()); }
    v.groups.sort();
    v.groups.dedup_by(|x, y| x.0 == y.0);
    if !v.multi { v.groups.clear(); }
}

pub fn generate(g: &mut Gen) {
    let eras = ["shelley", "allegra", "mary", "alonzo", "babbage", "conway"];
    for i in 0..g.cases {
        let mut ops = vec![];
        for _ in 0..g.rng.range(2, 5) {
            let era = eras[(i + g.rng.below(6) as usize) % 6];
            let conway = era == "conway";
            let plain = era == "shelley" && g.rng.chance(9, 10);
            let fee = match g.rng.below(10) { 0 => 0, 1 => g.rng.u64_edgy(), _ => g.rng.range(150_000, 900_000) };
            let (mut ins, mut mint, mut outs): (Vec<Val>, Option<Vec<(u8, Vec<(Vec<u8>, i128)>)>>, Vec<Val>);
            match g.rng.below(28) {
                // name / policy asymmetries around an exactly balanced transaction: an asset name on one side only under a policy
                // both sides hold, the same name under another policy, a name swapped, a zero-quantity entry on one side
                24..=27 => {
                    ins = (0..g.rng.range(1, 2)).map(|_| small_val(g, true)).collect();
                    if ins.iter().all(|v| v.groups.is_empty()) { ins[0].multi = true; ins[0].groups = vec![(0x11, vec![(vec![0x01], g.rng.range(1, 500) as i128)])]; }
                    mint = if g.rng.chance(1, 3) { Some(related_mint(g, &ins)) } else { None };
                    if let Some(m) = &mint { if m.is_empty() { mint = None; } }
                    outs = balance(g, &ins, &mint, fee, conway);
                    let qty = *g.rng.pick(&[1i128, 1, 5, 1_000_000, (1i128 << 63), u64::MAX as i128]);
                    let fresh: Vec<u8> = vec![0x6e, 0x65, 0x77];
                    let oi = outs.len() - 1;
                    let held = |v: &Val| v.groups.first().map(|x| x.0);
                    match g.rng.below(7) {
                        // produced side only, under a policy the consumed side holds too
                        0 | 1 => if let Some(p) = held(&outs[oi]) { outs[oi].groups.iter_mut().find(|x| x.0 == p).unwrap().1.push((fresh, qty)); } else if let Some(p) = held(&ins[0]) { outs[oi].multi = true; outs[oi].groups.push((p, vec![(fresh, qty)])); },
                        // consumed side only
                        2 => if let Some(p) = held(&ins[0]) { ins[0].groups.iter_mut().find(|x| x.0 == p).unwrap().1.push((fresh, qty)); },
                        // the same name and quantity under another policy on the produced side
                        3 => if let Some(gr) = outs[oi].groups.first_mut() { gr.0 = if gr.0 == 0x22 { 0x33 } else { 0x22 }; },
                        // a name swapped for another one
                        4 => if let Some(a) = outs[oi].groups.first_mut().and_then(|x| x.1.first_mut()) { a.0 = fresh; },
                        // zero-quantity entries on one side (harmless where the era can express them)
                        5 => if let Some(gr) = outs[oi].groups.first_mut() { gr.1.push((fresh, 0)); } else { outs[oi].multi = true; outs[oi].groups.push((0x11, vec![(fresh, 0)])); },
                        _ => if let Some(gr) = ins[0].groups.first_mut() { gr.1.push((fresh, 0)); },
                    }
                }
                // burns around what the spent inputs hold (exactly, one past, a multiple, far beyond), of assets held by one input
                // or spread over several inputs / policies, optionally next to a fresh mint of another asset of the same policy;
                // the outputs carry what a clamping / wrapping / sign-dropping implementation would compute, or the exact rest
                20..=23 => {
                    let names: [Vec<u8>; 3] = [vec![0x01], vec![0x01, 0x00], vec![0x7f, 0xff]];
                    let nin = g.rng.range(1, 3) as usize;
                    let npol = g.rng.range(1, 2) as usize;
                    let nas = g.rng.range(1, 2) as usize;
                    ins = (0..nin).map(|_| Val { multi: true, coin: g.rng.range(2_000_000, 9_000_000), groups: vec![] }).collect();
                    let mut held: Assets = BTreeMap::new();
                    for p in 0..npol { for a in 0..nas {
                        // the asset sits in one input, or a part of it in every input
                        let spread = nin > 1 && g.rng.chance(1, 2);
                        for (i, v) in ins.iter_mut().enumerate() {
                            if !spread && i != (p + a) % nin { continue; }
                            let amt = g.rng.range(1, 40) as i128;
                            let pol = [0x11u8, 0x22][p];
                            match v.groups.iter_mut().find(|x| x.0 == pol) { Some(gr) => gr.1.push((names[a].clone(), amt)), None => v.groups.push((pol, vec![(names[a].clone(), amt)])) }
                            *held.entry((vec![pol], names[a].clone())).or_insert(0) += amt;
                        }
                    } }
                    let mut m: BTreeMap<u8, Vec<(Vec<u8>, i128)>> = BTreeMap::new();
                    let mut rest: Assets = held.clone();
                    let style = g.rng.below(4);   // what the outputs do with an over-burnt asset: 0 clamp to zero, 1 |difference|, 2 wrapped, 3 untouched
                    for ((p, n), a) in &held {
                        if !g.rng.chance(3, 4) { continue; }
                        let burn = match g.rng.below(7) { 0 => *a, 1 | 2 => *a + 1, 3 => 2 * *a, 4 => *a + g.rng.range(2, 1000) as i128, 5 => g.rng.range(1, *a as u64) as i128, _ => *a + 5 };
                        m.entry(p[0]).or_default().push((n.clone(), -burn));
                        let exact = *a - burn;
                        let shown = if exact >= 0 { exact } else { match style { 0 => 0, 1 => -exact, 2 => (1i128 << 64) + exact, _ => *a } };
                        rest.insert((p.clone(), n.clone()), shown);
                    }
                    // a fresh mint of another asset of a policy that also burns
                    if g.rng.chance(1, 2) { let fresh = g.rng.range(1, 50) as i128; m.entry(0x11).or_default().push((vec![0x4e, 0x45], fresh)); rest.insert((vec![0x11], vec![0x4e, 0x45]), fresh); }
                    mint = if m.is_empty() { None } else { Some(m.into_iter().collect()) };
                    let total: u64 = ins.iter().map(|v| v.coin).sum();
                    let mut groups: BTreeMap<u8, Vec<(Vec<u8>, i128)>> = BTreeMap::new();
                    for ((p, n), a) in rest { if a != 0 || (!conway && g.rng.chance(1, 4)) { groups.entry(p[0]).or_default().push((n, a)); } }
                    let all = Val { multi: !groups.is_empty() || g.rng.chance(1, 2), coin: total.saturating_sub(fee), groups: groups.into_iter().collect() };
                    outs = if g.rng.chance(1, 3) && all.coin > 2_000_000 { vec![Val { multi: false, coin: 1_000_000, groups: vec![] }, Val { coin: all.coin - 1_000_000, ..all }] } else { vec![all] };
                }
                // related scenario: moderate inputs, a mint that refers to them, outputs balancing exactly, then maybe one perturbation
                0..=10 => {
                    ins = (0..g.rng.range(1, 3)).map(|_| small_val(g, !plain)).collect();
                    if g.rng.chance(1, 6) { ins[0].coin = g.rng.u64_edgy(); }
                    mint = if !plain && g.rng.chance(2, 3) { Some(related_mint(g, &ins)) } else { None };
                    if conway { if let Some(m) = &mint { if m.is_empty() { mint = None; } } }
                    outs = balance(g, &ins, &mint, fee, conway);
                    if g.rng.chance(1, 2) { perturb(g, &mut outs, conway); }
                }
                // sums that cross 2^63 / 2^64: two inputs holding (2^64 - k) and j of one asset, the output carries the wrapped sum
                11..=13 => {
                    let k = g.rng.range(1, 6) as i128;
                    let jn = g.rng.range(1, 20) as i128;
                    let big = match g.rng.below(3) { 0 => (1i128 << 64) - k, 1 => (1i128 << 63) + k, _ => (1i128 << 63) - k };
                    ins = vec![Val { multi: true, coin: 5_000_000, groups: vec![(0x05, vec![(vec![0x01], big)])] }, Val { multi: true, coin: 5_000_000, groups: vec![(0x05, vec![(vec![0x01], jn)])] }];
                    if g.rng.chance(2, 3) { ins.swap(0, 1); }
                    mint = if g.rng.chance(1, 3) { Some(vec![(0x05, vec![(vec![0x01], -(g.rng.range(1, 3) as i128))])]) } else { None };
                    let burned = mint.as_ref().map(|m| m[0].1[0].1).unwrap_or(0);
                    let wrapped = (big + jn + burned).rem_euclid(1i128 << 64);
                    let out_amt = match g.rng.below(3) { 0 => wrapped, 1 => (big + jn + burned).min(u64::MAX as i128), _ => (big + jn + burned).rem_euclid(1i128 << 63) };
                    outs = vec![Val { multi: true, coin: 10_000_000u64.saturating_sub(fee), groups: vec![(0x05, vec![(vec![0x01], out_amt.max(0))])] }];
                }
                // burn of an asset no input holds, balanced by an output carrying 2^64 - n of it
                14..=16 => {
                    let n = g.rng.range(1, 9) as i128;
                    ins = vec![if g.rng.chance(1, 2) { Val { multi: false, coin: 9_000_000, groups: vec![] } } else { Val { multi: true, coin: 9_000_000, groups: if g.rng.chance(1, 2) { vec![] } else { vec![(0x11, vec![(vec![0x01], 3)])] } } }];
                    mint = Some(vec![(0x05, vec![(vec![0x01], -n)])]);
                    let mut groups = ins[0].groups.clone();
                    groups.insert(0, (0x05, vec![(vec![0x01], if g.rng.chance(3, 4) { (1i128 << 64) - n } else { n })]));
                    outs = vec![Val { multi: true, coin: 9_000_000u64.saturating_sub(fee), groups }];
                }
                _ => {
                    ins = (0..g.rng.range(1, 3)).map(|_| gen_val(g, conway)).collect();
                    mint = if !plain && g.rng.chance(1, 2) { Some(gen_groups(g, conway, true)) } else { None };
                    outs = balance(g, &ins, &mint, fee, conway);
                    if g.rng.chance(1, 2) { perturb(g, &mut outs, conway); }
                }
            }
            if plain { for v in ins.iter_mut().chain(outs.iter_mut()) { if g.rng.chance(19, 20) { v.multi = false; } } mint = None; }
            for v in outs.iter_mut().chain(ins.iter_mut()) { normalize(v, conway); }
            if let Some(m) = mint.as_mut() { m.sort(); for (_, a) in m.iter_mut() { a.sort(); a.dedup_by(|x, y| x.0 == y.0); a.retain(|x| x.1 != 0); } m.dedup_by(|x, y| x.0 == y.0); if conway { m.retain(|(_, a)| !a.is_empty()); } }
            if conway { if let Some(m) = &mint { if m.is_empty() { mint = None; } } }
            let text = format!("{era} I {} {} O {} {} F {fee} M {}", ins.len(), ins.iter().map(show_val).collect::<Vec<_>>().join(" "), outs.len(),
                outs.iter().map(show_val).collect::<Vec<_>>().join(" "), match &mint { None => "-".to_string(), Some(m) if m.is_empty() => ";".to_string(), Some(m) => show_groups(m) });
            ops.push(format!("pv {text}"));
            if g.rng.chance(1, 2) { ops.push(format!("pvw {text}")); }
        }
        if g.rng.chance(1, 2) {
            let n = g.rng.range(1, 3);
            let ins: Vec<u64> = (0..n).map(|_| match g.rng.below(8) { 0 => g.rng.u64_edgy(), _ => g.rng.range(1_000_000, 9_000_000_000) }).collect();
            let total: u128 = ins.iter().map(|x| *x as u128).sum();
            let (a, b, size) = (g.rng.below(300_000), g.rng.below(100), g.rng.range(100, 1000));
            let minfee = a as u128 + b as u128 * size as u128;
            let target = total as i128 - minfee as i128 + [0i128, 0, 1, -1, 5, -1000, 1 << 40][g.rng.below(7) as usize];
            let outs: Vec<u64> = if target > 0 && target <= u64::MAX as i128 { let t = target as u64; if g.rng.chance(1, 2) && t > 1 { let p = g.rng.range(1, t - 1); vec![p, t - p] } else { vec![t] } } else { vec![g.rng.u64_edgy().max(1)] };
            ops.push(format!("by I {} {} O {} {} S {size} A {a} B {b} R {}", ins.len(), ins.iter().map(|x| x.to_string()).collect::<Vec<_>>().join(" "), outs.len(), outs.iter().map(|x| x.to_string()).collect::<Vec<_>>().join(" "), g.rng.chance(1, 4) as u8));
        }
        g.case(ops);
    }
}

// ------------------------------------------------------------------------------------------------ runner

fn take_vals(toks: &[String], tag: &str) -> (Vec<Val>, usize) {
    assert_eq!(toks[0], tag);
    let n: usize = toks[1].parse().unwrap();
    ((0..n).map(|i| parse_val(&toks[2 + i])).collect(), 2 + n)
}

fn to_svalue(v: &Val) -> synth::SValue { synth::SValue { multi: v.multi, coin: v.coin, groups: v.groups.clone() } }

/// the same scenario as a whole, correctly signed transaction through `validate_txs`
fn run_pvw(era: &str, ins: &[Val], outs: &[Val], fee: u64, mint: &Option<Vec<(u8, Vec<(Vec<u8>, i128)>)>>) -> Option<Result<(), VE>> {
    let e = match era { "shelley" => Era::Shelley, "allegra" => Era::Allegra, "mary" => Era::Mary, "alonzo" => Era::Alonzo, "babbage" => Era::Babbage, _ => Era::Conway };
    let t = synth::SynthTx {
        era: e,
        inputs: ins.iter().enumerate().map(|(i, v)| (100 + i as u8, to_svalue(v))).collect(),
        outputs: outs.iter().map(to_svalue).collect(),
        fee,
        mint: mint.clone(),
        required_signers: None,
        certs: vec![],
        witnesses: None,
    };
    let f = synth::build(&t);
    guard_mut(|| f.validate())
}

fn run_pv(era: &str, ins: &[Val], outs: &[Val], fee: u64, mint: &Option<Vec<(u8, Vec<(Vec<u8>, i128)>)>>) -> Option<Result<(), VE>> {
    let (body, utxo) = build(era, ins, outs, fee, mint, false);
    let utxos = fixtures::utxos_of(&utxo);
    guard_mut(|| match era {
        "shelley" | "allegra" | "mary" => {
            let b: pallas_primitives::alonzo::TransactionBody = minicbor::decode(&body).expect("body");
            let f = fixtures::by_name("shelley_ma.successful_mainnet_shelley_tx").unwrap();
            let P::Shelley(pp) = &f.env.prot_params else { panic!("params") };
            let e = match era { "shelley" => Era::Shelley, "allegra" => Era::Allegra, _ => Era::Mary };
            shelley_ma::verif_hooks::check_preservation_of_value(&b, &utxos, &0, &0, &0, &e, pp)
        }
        "alonzo" => { let b: pallas_primitives::alonzo::TransactionBody = minicbor::decode(&body).expect("body"); alonzo::verif_hooks::check_preservation_of_value(&b, &utxos) }
        "babbage" => { let b: pallas_primitives::babbage::TransactionBody = minicbor::decode(&body).expect("body"); babbage::verif_hooks::check_preservation_of_value(&b, &utxos) }
        _ => { let b: pallas_primitives::conway::TransactionBody = minicbor::decode(&body).expect("body"); conway::verif_hooks::check_preservation_of_value(&b, &utxos) }
    })
}

pub fn run_case(case: &Case, out: &mut Out) {
    let (mut acc, mut rej) = (false, false);
    for op in &case.ops {
        match op[0].as_str() {
            "pv" | "pvw" => {
                let whole = op[0] == "pvw";
                let era = op[1].as_str();
                let (ins, a) = take_vals(&op[2..], "I");
                let (outs, b) = take_vals(&op[2 + a..], "O");
                let rest = &op[2 + a + b..];
                let fee: u64 = rest[1].parse().unwrap();
                let mint = if rest[3] == "-" { None } else { Some(parse_groups(&rest[3])) };
                let res = if whole { run_pvw(era, &ins, &outs, fee, &mint) } else { run_pv(era, &ins, &outs, fee, &mint) };
                // exact balance, per asset
                let mut bal: Assets = BTreeMap::new();
                for v in &ins { add_assets(&mut bal, v, 1); }
                if let Some(m) = &mint { add_assets(&mut bal, &Val { multi: true, coin: 0, groups: m.clone() }, 1); }
                for v in &outs { add_assets(&mut bal, v, -1); }
                *bal.entry((vec![], vec![])).or_insert(0) -= fee as i128;
                let off: Vec<String> = bal.iter().filter(|(_, v)| **v != 0).map(|((p, n), v)| format!("{}.{}:{v}", hex(p), hex(n))).collect();
                match res {
                    None => out.panic(),
                    Some(Ok(())) => {
                        acc = true;
                        if !off.is_empty() {
                            let kind = if off.iter().any(|s| s.starts_with("-.-")) { "ada" } else { "asset" };
                            let how = if mint.as_ref().map(|m| m.iter().flat_map(|g| g.1.iter()).any(|(_, a)| *a < 0)).unwrap_or(false) { "with-burn" } else { "no-burn" };
                            out.viol(format!("value-not-conserved era={era} {kind} {how}{}", if whole { " whole" } else { "" }), format!("accepted although spent + mint - produced - fee = [{}] (op {})", off.join(" "), op.join(" ")));
                        }
                        out.ok("");
                    }
                    Some(Err(e)) => { rej = true; out.err(class_of(&e)) }
                }
                out.cov(format!("{}:{era}:{}", op[0], if off.is_empty() { "balanced" } else { "unbalanced" }));
            }
            "by" => {
                let n: usize = op[2].parse().unwrap();
                let ins: Vec<u64> = op[3..3 + n].iter().map(|t| t.parse().unwrap()).collect();
                let m: usize = op[4 + n].parse().unwrap();
                let outs: Vec<u64> = op[5 + n..5 + n + m].iter().map(|t| t.parse().unwrap()).collect();
                let rest = &op[5 + n + m..];
                let (size, a, b): (u64, u64, u64) = (rest[1].parse().unwrap(), rest[3].parse().unwrap(), rest[5].parse().unwrap());
                let redeem = rest.get(7).map(|t| t == "1").unwrap_or(false);
                let f = fixtures::by_name(if redeem { "byron.successful_mainnet_tx_with_genesis_utxos" } else { "byron.successful_mainnet_tx" }).unwrap();
                let mut env = fixtures::clone_env(&f.env);
                if let P::Byron(pp) = &mut env.prot_params { pp.summand = a; pp.multiplier = b; }
                let ftx = f.tx();
                let payload = ftx.as_byron().unwrap();
                let mut tx = (*payload.transaction).clone();
                let (in0, out0) = (tx.inputs.first().unwrap().clone(), tx.outputs.first().unwrap().clone());
                let addr_out = match MultiEraOutputByron::get(&f) { Some(o) => o, None => { out.reply("bad-op".into()); continue } };
                let mk_in = |i: usize| -> pallas_primitives::byron::TxIn {
                    let mut e = Encoder::new(Vec::new());
                    e.array(2).unwrap().u8(0).unwrap().tag(Tag::new(24)).unwrap();
                    let mut inner = Encoder::new(Vec::new());
                    inner.array(2).unwrap().bytes(&[i as u8 + 1; 32]).unwrap().u32(0).unwrap();
                    e.bytes(&inner.into_writer()).unwrap();
                    minicbor::decode(&e.into_writer()).expect("byron txin")
                };
                let _ = in0;
                let new_ins: Vec<pallas_primitives::byron::TxIn> = (0..n).map(mk_in).collect();
                let mut utxo = vec![];
                for (i, amt) in ins.iter().enumerate() {
                    let mut o = addr_out.clone();
                    o.amount = *amt;
                    utxo.push(UtxoEntry { input: InputRef::Byron(new_ins[i].clone()), era: Era::Byron, cbor: minicbor::to_vec(&o).unwrap() });
                }
                tx.inputs = pallas_codec::utils::MaybeIndefArray::Def(new_ins);
                tx.outputs = pallas_codec::utils::MaybeIndefArray::Def(outs.iter().map(|amt| { let mut o = out0.clone(); o.amount = *amt; o }).collect::<Vec<_>>());
                let utxos = fixtures::utxos_of(&utxo);
                let res = guard_mut(|| { let P::Byron(pp) = &env.prot_params else { panic!("params") }; byron::verif_hooks::check_fees(&tx, &size, &utxos, pp) });
                let tin: i128 = ins.iter().map(|x| *x as i128).sum();
                let tout: i128 = outs.iter().map(|x| *x as i128).sum();
                let minfee = a as i128 + b as i128 * size as i128;
                match res {
                    None => out.panic(),
                    Some(Ok(())) => {
                        acc = true;
                        // redeem-only transactions are exempt from the minimum fee, not from `outputs <= inputs`
                        if redeem { if tin < tout { out.viol("byron-redeem-only-outputs-exceed-inputs", format!("inputs {tin} < outputs {tout} accepted")); } }
                        else if tin - tout < minfee { out.viol("byron-fee-below-min-accepted", format!("inputs {tin} - outputs {tout} < min fee {minfee}")); }
                        out.ok("");
                    }
                    Some(Err(e)) => { rej = true; out.err(class_of(&e)) }
                }
                out.cov(if redeem { "by:redeem-only" } else { "by" });
            }
            _ => out.reply("bad-op".into()),
        }
    }
    if acc && rej { out.nontrivial(); }
}

/// the (non-redeem) Byron output of the `byron.successful_mainnet_tx` fixture's UTxO, used as the address template
struct MultiEraOutputByron;
impl MultiEraOutputByron {
    fn get(f: &Fixture) -> Option<pallas_primitives::byron::TxOut> {
        f.utxo.first().and_then(|e| minicbor::decode(&e.cbor).ok())
    }
}
