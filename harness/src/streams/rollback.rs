//! stream `rollback` — C26: RollbackBuffer public API vs the list model.
use crate::fw::*;
use pallas_network::miniprotocols::Point;
use pallas_network::miniprotocols::chainsync::{RollbackBuffer, RollbackEffect};

pub const NAME: &str = "rollback";

fn show_point(p: &Point) -> String {
    match p {
        Point::Origin => "origin".into(),
        Point::Specific(s, h) => format!("{}:{}", s, hex(h)),
    }
}
fn parse_point(s: &str) -> Point {
    if s == "origin" { return Point::Origin; }
    let (a, b) = s.split_once(':').expect("point");
    Point::Specific(a.parse().expect("slot"), unhex(b).expect("hash"))
}
fn show_buf(b: &RollbackBuffer) -> String {
    format!("[{}]", b.peek().map(show_point).collect::<Vec<_>>().join(" "))
}
fn show_vec(v: &[Point]) -> String {
    format!("[{}]", v.iter().map(show_point).collect::<Vec<_>>().join(" "))
}

pub fn generate(g: &mut Gen) {
    // small alphabet forces duplicates and misses; two points share a slot with different hashes
    let alphabet: Vec<String> = vec!["origin".into(), "1:aa".into(), "1:ab".into(), "2:aa".into(), "3:-".into(),
        "4:00ff".into(), "18446744073709551615:aa".into()];
    for i in 0..g.cases {
        let len = if g.rng.chance(1, 10) { g.rng.range(100, 200) } else { g.rng.range(0, 40) } as usize;
        let k = 2 + (i % (alphabet.len() - 1));
        let mut ops = vec![];
        for _ in 0..len {
            let p = alphabet[g.rng.below(k as u64) as usize].clone();
            ops.push(match g.rng.below(16) {
                0..=6 => format!("fwd {p}"),
                7..=9 => format!("back {p}"),
                10..=11 => format!("pop {}", g.rng.below(8)),
                12 => format!("pop {}", g.rng.range(8, 300)),
                13 => format!("position {p}"),
                14 => "size".to_string(),
                _ => if g.rng.chance(1, 2) { "latest".to_string() } else { "oldest".to_string() },
            });
        }
        g.case(ops);
    }
}

pub fn run_case(case: &Case, out: &mut Out) {
    let mut buf = RollbackBuffer::new();
    // independent list oracle (the property itself, evaluated against the implementation)
    let mut spec: Vec<Point> = vec![];
    let (mut hit, mut miss, mut popped_some) = (false, false, false);
    for op in &case.ops {
        match op[0].as_str() {
            "fwd" => { let p = parse_point(&op[1]); buf.roll_forward(p.clone()); spec.push(p); out.ok(show_buf(&buf)); }
            "back" => {
                let p = parse_point(&op[1]);
                let eff = buf.roll_back(&p);
                let want_handled = spec.contains(&p);
                if want_handled {
                    let mut keep = vec![];
                    for q in &spec { keep.push(q.clone()); if *q == p { break; } }
                    spec = keep; hit = true;
                } else { spec.clear(); miss = true; }
                let got_handled = matches!(eff, RollbackEffect::Handled);
                if got_handled != want_handled { out.viol("rollback-effect", format!("point {} handled={} expected={}", op[1], got_handled, want_handled)); }
                out.ok(format!("{} {}", if got_handled { "handled" } else { "outofscope" }, show_buf(&buf)));
            }
            "pop" => {
                let d: usize = op[1].parse().unwrap();
                let got = buf.pop_with_depth(d);
                let n = spec.len().saturating_sub(d);
                let want: Vec<Point> = spec.drain(0..n).collect();
                if got != want { out.viol("pop-with-depth", format!("depth {} returned {} expected {}", d, show_vec(&got), show_vec(&want))); }
                if !got.is_empty() { popped_some = true; }
                out.ok(format!("{} {}", show_vec(&got), show_buf(&buf)));
            }
            "position" => { let p = parse_point(&op[1]); out.ok(match buf.position(&p) { Some(i) => format!("some {i}"), None => "none".into() }); }
            "size" => out.ok(buf.size().to_string()),
            "latest" => out.ok(match buf.latest() { Some(p) => format!("some {}", show_point(p)), None => "none".into() }),
            "oldest" => out.ok(match buf.oldest() { Some(p) => format!("some {}", show_point(p)), None => "none".into() }),
            _ => out.reply("bad-op".into()),
        }
        let cur: Vec<Point> = buf.peek().cloned().collect();
        if cur != spec { out.viol("buffer-contents", format!("after {:?}: buffer {} list-model {}", op, show_buf(&buf), show_vec(&spec))); }
    }
    if hit { out.cov("rollback-hit"); }
    if miss { out.cov("rollback-miss"); }
    if popped_some { out.cov("pop-nonempty"); }
    if hit && miss { out.nontrivial(); }
}
