//! stream `numwrap` — C04: `PositiveCoin` / `NonZeroInt` decoded directly and embedded in Conway
//! `Value`, `Mint` and the `donation` field of a transaction body; plus the checked constructors.
//!   pcoin|nzi <hex>      direct decode                     -> ok <n> | err <class>
//!   value <hex>          conway::Value                     -> ok coin <n> | ok multi <n> <assets> | err <class>
//!   mint <hex>           conway::Mint                      -> ok <assets> | err <class>
//!   donation <hex>       conway::TransactionBody {0,1,2,22: <hex>}.donation -> ok none | ok some <n> | err <class>
//!   try_pcoin|try_nzi <n> checked constructor               -> ok <n> | err zero
//! `<assets>` = `[ <policy> [ <name> <qty> ]* ]*` in BTreeMap order.
//! Oracle: a decoded wrapper holding zero -> `!viol zero-accepted wrapper=<w> site=<site>`.
use crate::fw::*;
use crate::streams::minicbor::err_class;
use pallas_codec::minicbor;
use pallas_codec::utils::{NonZeroInt, PositiveCoin};
use pallas_primitives::conway;

pub const NAME: &str = "numwrap";

fn show_assets<A: Copy>(m: &conway::Multiasset<A>, q: impl Fn(A) -> String) -> String {
    let mut s = String::from("[");
    for (p, assets) in m.iter() {
        s += &format!(" {} [", hex(p.as_ref()));
        for (n, a) in assets.iter() { s += &format!(" {} {}", hex(n), q(*a)); }
        s += " ]";
    }
    s += " ]";
    s
}

// unusual-but-legal alternative the wrappers must not let a zero through: RFC 8949 bignum (tag 2 / tag 3 + big-endian bytes,
// empty, minimal or zero-padded). pallas' PositiveCoin / NonZeroInt reject a tag head as a type mismatch.
fn bignum_bytes(rng: &mut Rng, tag: u8, n: u64) -> Vec<u8> {
    let mut b: Vec<u8> = n.to_be_bytes().iter().cloned().skip_while(|x| *x == 0).collect();
    match rng.below(3) { 0 => {}, 1 => { b.insert(0, 0); } _ => { while b.len() < 8 { b.insert(0, 0); } } }
    let mut v = vec![0xc0 | tag, 0x40 | b.len() as u8]; v.extend(b); v
}
fn uint_bytes(rng: &mut Rng, n: u64) -> Vec<u8> {
    if rng.chance(1, 10) { return bignum_bytes(rng, 2, n); }
    uint_plain(rng, n)
}
fn uint_plain(rng: &mut Rng, n: u64) -> Vec<u8> {
    // any width that can carry n
    let min_w = if n < 24 { 0 } else if n < 256 { 1 } else if n < 65536 { 2 } else if n < (1 << 32) { 4 } else { 8 };
    let c: Vec<u8> = [0u8, 1, 2, 4, 8].iter().cloned().filter(|x| *x >= min_w).collect();
    let w = if rng.chance(2, 3) { min_w } else { *rng.pick(&c) };
    match w { 0 => vec![n as u8], 1 => vec![0x18, n as u8], 2 => { let mut v = vec![0x19]; v.extend((n as u16).to_be_bytes()); v }
        4 => { let mut v = vec![0x1a]; v.extend((n as u32).to_be_bytes()); v } _ => { let mut v = vec![0x1b]; v.extend(n.to_be_bytes()); v } }
}
fn int_bytes(rng: &mut Rng, i: i128) -> Vec<u8> {
    if i >= 0 { uint_bytes(rng, i as u64) } else if rng.chance(1, 10) { bignum_bytes(rng, 3, (-1 - i) as u64) } else { let mut v = uint_plain(rng, (-1 - i) as u64); v[0] |= 0x20; v }
}
const QTY: [u64; 12] = [0, 0, 0, 1, 1, 2, 23, 24, 255, 65536, u64::MAX, (1 << 63) - 1];
fn qty_u(rng: &mut Rng) -> u64 { if rng.chance(3, 4) { *rng.pick(&QTY) } else { rng.u64_edgy() } }
fn qty_i(rng: &mut Rng) -> i128 {
    let m = qty_u(rng) as i128;
    match rng.below(4) { 0 => m, 1 => -m, 2 => -1 - m, _ => if rng.chance(1, 2) { 0 } else { m.min(i64::MAX as i128) } }
}
fn assets_bytes(rng: &mut Rng, signed: bool) -> Vec<u8> {
    let np = rng.below(3);
    let indef = rng.chance(1, 5);
    let mut v = if indef { vec![0xbf] } else { vec![0xa0 | np as u8] };
    for _ in 0..np {
        v.extend([0x58, 28]);
        let pid = if rng.chance(1, 2) { vec![rng.below(3) as u8; 28] } else { rng.bytes(28) };
        v.extend(pid);
        let na = rng.below(3);
        v.push(0xa0 | na as u8);
        for _ in 0..na {
            let l = rng.below(3) as usize; v.push(0x40 | l as u8); v.extend(vec![rng.below(2) as u8 + 0x61; l]);
            if signed { let q = qty_i(rng); v.extend(int_bytes(rng, q)); } else { let q = qty_u(rng); v.extend(uint_bytes(rng, q)); }
        }
    }
    if indef { v.push(0xff); }
    v
}

pub fn generate(g: &mut Gen) {
    // DESIGN §6 #6 witness and its neighbours on every run
    g.case(vec!["pcoin 00".to_string(), "pcoin 01".into(), "pcoin 1800".into(), "pcoin 1b0000000000000000".into(), "pcoin 1bffffffffffffffff".into(), "pcoin 20".into(),
        "nzi 00".into(), "nzi 01".into(), "nzi 20".into(), "nzi 1800".into(), "nzi 3b7fffffffffffffff".into(), "nzi 3b8000000000000000".into(), "nzi 1b8000000000000000".into(),
        "try_pcoin 0".into(), "try_pcoin 1".into(), "try_nzi 0".into(), "try_nzi -1".into()]);
    g.case(vec!["donation 00".to_string(), "donation 01".into(), "donation f6".into(), "donation 1800".into(), "donation 20".into(),
        format!("value 8200a1581c{}a1410000", "11".repeat(28)), format!("value 8205a1581c{}a1410001", "11".repeat(28)),
        format!("mint a1581c{}a1410000", "22".repeat(28)), format!("mint a1581c{}a1410020", "22".repeat(28)), "value 05".into(), "value 00".into()]);
    for _ in 0..g.cases.saturating_sub(2) {
        let mut rng = g.rng.fork();
        let mut ops = vec![];
        for _ in 0..1 + rng.below(4) {
            match rng.below(8) {
                0 => { let q = qty_u(&mut rng); ops.push(format!("pcoin {}", hex(&uint_bytes(&mut rng, q)))); }
                1 => { let q = qty_i(&mut rng); ops.push(format!("{} {}", if rng.chance(1, 4) { "pcoin" } else { "nzi" }, hex(&int_bytes(&mut rng, q)))); }
                2 => { let q = qty_u(&mut rng); ops.push(format!("donation {}", if rng.chance(1, 6) { "f6".to_string() } else { hex(&uint_bytes(&mut rng, q)) })); }
                3 | 4 => {
                    let mut v = vec![0x82];
                    let c = qty_u(&mut rng); v.extend(uint_bytes(&mut rng, c)); v.extend(assets_bytes(&mut rng, false));
                    if rng.chance(1, 8) { v = uint_bytes(&mut rng, c); }
                    // other legal spellings of the same item: wider map / byte-string / array heads, indefinite inner maps and strings
                    if rng.chance(1, 3) { v = crate::streams::cborwrap::restyle(&mut rng, &v, 30, 25); }
                    ops.push(format!("value {}", hex(&v)));
                }
                5 => { let mut v = assets_bytes(&mut rng, true); if rng.chance(1, 3) { v = crate::streams::cborwrap::restyle(&mut rng, &v, 30, 25); } ops.push(format!("mint {}", hex(&v))); }
                6 => { let q = qty_u(&mut rng); ops.push(format!("try_pcoin {}", q)); }
                _ => { let q = qty_i(&mut rng).clamp(i64::MIN as i128, i64::MAX as i128); ops.push(format!("try_nzi {}", q)); }
            }
        }
        g.case(ops);
    }
}

pub fn run_case(case: &Case, out: &mut Out) {
    let (mut zero_rej, mut nonzero_ok) = (false, false);
    for op in &case.ops {
        let arg = op.get(1).cloned().unwrap_or_default();
        match op[0].as_str() {
            "pcoin" => { let Some(b) = unhex(&arg) else { out.reply("bad-op".into()); continue; };
                match minicbor::decode::<PositiveCoin>(&b) {
                    Ok(p) => { let n = u64::from(p); if n == 0 { out.viol("zero-accepted wrapper=PositiveCoin site=direct", format!("{} decodes to PositiveCoin(0)", arg)); } else { nonzero_ok = true; } out.ok(n.to_string()); }
                    Err(e) => { zero_rej |= e.is_message(); out.err(err_class(&e)); }
                } }
            "nzi" => { let Some(b) = unhex(&arg) else { out.reply("bad-op".into()); continue; };
                match minicbor::decode::<NonZeroInt>(&b) {
                    Ok(p) => { let n = i64::from(p); if n == 0 { out.viol("zero-accepted wrapper=NonZeroInt site=direct", format!("{} decodes to NonZeroInt(0)", arg)); } else { nonzero_ok = true; } out.ok(n.to_string()); }
                    Err(e) => { zero_rej |= e.is_message(); out.err(err_class(&e)); }
                } }
            "value" => { let Some(b) = unhex(&arg) else { out.reply("bad-op".into()); continue; };
                match guard(|| minicbor::decode::<conway::Value>(&b)) {
                    None => out.panic(),
                    Some(Ok(conway::Value::Coin(c))) => out.ok(format!("coin {c}")),
                    Some(Ok(conway::Value::Multiasset(c, m))) => {
                        if m.values().any(|a| a.values().any(|q| u64::from(*q) == 0)) { out.viol("zero-accepted wrapper=PositiveCoin site=value", format!("{} decodes to a Value with a zero quantity", arg)); } else { nonzero_ok = true; }
                        out.ok(format!("multi {} {}", c, show_assets(&m, |q| u64::from(q).to_string())));
                    }
                    Some(Err(e)) => { zero_rej |= e.is_message(); out.err(err_class(&e)) }
                } }
            "mint" => { let Some(b) = unhex(&arg) else { out.reply("bad-op".into()); continue; };
                match guard(|| minicbor::decode::<conway::Mint>(&b)) {
                    None => out.panic(),
                    Some(Ok(m)) => {
                        if m.values().any(|a| a.values().any(|q| i64::from(*q) == 0)) { out.viol("zero-accepted wrapper=NonZeroInt site=mint", format!("{} decodes to a Mint with a zero quantity", arg)); } else { nonzero_ok = true; }
                        out.ok(show_assets(&m, |q| i64::from(q).to_string()));
                    }
                    Some(Err(e)) => { zero_rej |= e.is_message(); out.err(err_class(&e)) }
                } }
            "donation" => { let Some(b) = unhex(&arg) else { out.reply("bad-op".into()); continue; };
                let mut body = vec![0xa4, 0x00, 0x80, 0x01, 0x80, 0x02, 0x00, 0x16]; body.extend(&b);
                match guard(|| minicbor::decode::<conway::TransactionBody>(&body).map(|t| t.donation)) {
                    None => out.panic(),
                    Some(Ok(None)) => out.ok("none"),
                    Some(Ok(Some(p))) => { let n = u64::from(p); if n == 0 { out.viol("zero-accepted wrapper=PositiveCoin site=donation", format!("donation {} decodes to PositiveCoin(0)", arg)); } else { nonzero_ok = true; } out.ok(format!("some {n}")); }
                    Some(Err(e)) => { zero_rej |= e.is_message(); out.err(err_class(&e)) }
                } }
            "try_pcoin" => match arg.parse::<u64>() { Ok(n) => match PositiveCoin::try_from(n) { Ok(p) => out.ok(u64::from(p).to_string()), Err(_) => out.err("zero") }, Err(_) => out.reply("bad-op".into()) },
            "try_nzi" => match arg.parse::<i64>() { Ok(n) => match NonZeroInt::try_from(n) { Ok(p) => out.ok(i64::from(p).to_string()), Err(_) => out.err("zero") }, Err(_) => out.reply("bad-op".into()) },
            _ => out.reply("bad-op".into()),
        }
    }
    // non-trivial: the case saw both an accepted non-zero quantity and a rejected encoding
    if zero_rej { out.cov("some-rejected"); }
    if nonzero_ok { out.cov("some-nonzero-accepted"); }
    if zero_rej && nonzero_ok { out.nontrivial(); }
}
