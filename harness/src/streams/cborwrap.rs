//! stream `cborwrap` — C03: every wrapper of `pallas_codec::utils` (+ `codec_by_datatype!`) instantiated at
//! a fixed universe of concrete types (dotted prefix names, e.g. `kvp.anyuint.mia.nullable.anyuint`).
//!   dec <ty> <hex>            decode; reply `ok <value> <consumed> <re-encoding>` | `err <class>`
//!   rt <ty> <seed> <value..>  value regenerated from <seed> (must print as <value..>); encode, decode
//!   mut <ty> <hex> <k>        KeepRaw: decode, `deref_mut()` + mutate with k, re-encode
//!   peek <ty> <hex>           KeepRaw: decode, `deref()` only, re-encode
//!   kr.dec|kr.from <ty> <hex>, kr.own, kr.clone, kr.peek, kr.mut <k>, kr.clear, kr.enc, kr.raw, kr.unwrap
//!                             a live KeepRaw driven through its public operations (decode / From<T>, to_owned, clone,
//!                             deref, deref_mut + mutation, clear_raw, encode, raw_cbor, unwrap), one op per line
//!   conv <name> <hex>         conversions that must keep the form / content (NonEmptyKeyValuePairs::try_from(KeyValuePairs),
//!                             to_vec / From<Vec>, AnyCbor::from_encode / into_decode / unwrap, Set::from(Set<KeepRaw<_>>))
//! Oracles (`!viol`): `rt-*` = decoding the encoding of a value does not give an equal value;
//! `pres-loss <class> ty=..` = a retaining wrapper re-encodes an accepted input differently;
//! `keepraw-mut` / `keepraw-history ..` = a KeepRaw that was mutated at any point of its history does not re-encode from
//! the new content (or still exposes stale raw bytes), or an unmutated one lost its original span; `conv-form ..` = a conversion changed form / content.
use crate::fw::*;
use crate::streams::minicbor::err_class;
use pallas_codec::minicbor::{self, Decode, Decoder, Encode};
use pallas_codec::utils::*;
use std::collections::BTreeMap;
use std::ops::{Deref, DerefMut};
use std::sync::OnceLock;

pub const NAME: &str = "cborwrap";

pub trait Canon: Sized {
    fn show(&self) -> String;
    fn arb(rng: &mut Rng, depth: u32) -> Self;
}

pub fn leak(b: Vec<u8>) -> &'static [u8] { Box::leak(b.into_boxed_slice()) }
fn first_byte<T: Encode<()>>(v: &T) -> Option<u8> { minicbor::to_vec(v).ok().and_then(|b| b.first().copied()) }
fn small_len(rng: &mut Rng, depth: u32) -> usize { if depth == 0 { 0 } else { *rng.pick(&[0usize, 0, 1, 1, 2, 2, 3, 4]) } }

// ---------------------------------------------------------------- leaves
macro_rules! canon_uint { ($($t:ty)*) => { $( impl Canon for $t {
    fn show(&self) -> String { self.to_string() }
    fn arb(rng: &mut Rng, _d: u32) -> Self { rng.u64_edgy() as $t }
} )* } }
canon_uint!(u8 u16 u32 u64);
impl Canon for i64 {
    fn show(&self) -> String { self.to_string() }
    fn arb(rng: &mut Rng, _d: u32) -> Self { let m = rng.u64_edgy(); if rng.chance(1, 2) { m as i64 } else { (m as i64).wrapping_neg() } }
}
impl Canon for bool {
    fn show(&self) -> String { self.to_string() }
    fn arb(rng: &mut Rng, _d: u32) -> Self { rng.chance(1, 2) }
}
impl Canon for Bytes {
    fn show(&self) -> String { hex(self.deref()) }
    fn arb(rng: &mut Rng, _d: u32) -> Self { let n = *rng.pick(&[0usize, 1, 2, 5, 23, 24, 25]); Bytes::from(rng.bytes(n)) }
}
impl Canon for Int {
    fn show(&self) -> String { i128::from(*self).to_string() }
    fn arb(rng: &mut Rng, _d: u32) -> Self {
        let m = rng.u64_edgy() as i128;
        Int::try_from(if rng.chance(1, 2) { m } else { -1 - m }).unwrap()
    }
}
impl Canon for AnyUInt {
    fn show(&self) -> String {
        match self {
            AnyUInt::MajorByte(x) => format!("w0:{x}"), AnyUInt::U8(x) => format!("w1:{x}"), AnyUInt::U16(x) => format!("w2:{x}"),
            AnyUInt::U32(x) => format!("w4:{x}"), AnyUInt::U64(x) => format!("w8:{x}"),
        }
    }
    /// all five widths, every magnitude that fits the width (a `MajorByte` is an immediate value 0..=23)
    fn arb(rng: &mut Rng, _d: u32) -> Self {
        let m = rng.u64_edgy();
        match rng.below(5) {
            0 => AnyUInt::MajorByte((m % 24) as u8),
            1 => AnyUInt::U8(if rng.chance(1, 2) { (m % 24) as u8 } else { m as u8 }),
            2 => AnyUInt::U16(m as u16),
            3 => AnyUInt::U32(m as u32),
            _ => AnyUInt::U64(m),
        }
    }
}
impl Canon for AnyCbor {
    fn show(&self) -> String { hex(self.raw_bytes()) }
    fn arb(rng: &mut Rng, d: u32) -> Self {
        loop {
            let mut b = vec![];
            crate::streams::minicbor::gen_item(rng, d.min(2), &mut b);
            // keep to items `skip()` accepts (the generator also emits invalid UTF-8 on purpose)
            let mut dec = Decoder::new(&b);
            if dec.skip().is_ok() && dec.position() == b.len() { return AnyCbor::from_raw_bytes(b); }
        }
    }
}
impl Canon for NonZeroInt {
    fn show(&self) -> String { i64::from(*self).to_string() }
    fn arb(rng: &mut Rng, d: u32) -> Self { loop { if let Ok(x) = NonZeroInt::try_from(i64::arb(rng, d)) { return x; } } }
}
impl Canon for PositiveCoin {
    fn show(&self) -> String { u64::from(*self).to_string() }
    fn arb(rng: &mut Rng, d: u32) -> Self { loop { if let Ok(x) = PositiveCoin::try_from(u64::arb(rng, d)) { return x; } } }
}
impl Canon for EmptyMap {
    fn show(&self) -> String { "()".into() }
    fn arb(_rng: &mut Rng, _d: u32) -> Self { EmptyMap }
}

/// a property of an `OrderPreservingProperties`: key and value written one after the other
#[derive(Debug, Clone, PartialEq)]
pub struct Attr(pub u8, pub AnyUInt);
impl<'b, C> Decode<'b, C> for Attr {
    fn decode(d: &mut Decoder<'b>, ctx: &mut C) -> Result<Self, minicbor::decode::Error> { Ok(Attr(d.u8()?, d.decode_with(ctx)?)) }
}
impl<C> Encode<C> for Attr {
    fn encode<W: minicbor::encode::Write>(&self, e: &mut minicbor::Encoder<W>, ctx: &mut C) -> Result<(), minicbor::encode::Error<W::Error>> {
        e.u8(self.0)?; e.encode_with(&self.1, ctx)?; Ok(())
    }
}
impl Canon for Attr {
    fn show(&self) -> String { format!("attr {} {}", self.0, self.1.show()) }
    fn arb(rng: &mut Rng, d: u32) -> Self { Attr(u8::arb(rng, d), AnyUInt::arb(rng, d)) }
}

/// an enum whose codec is generated by `codec_by_datatype!`
#[derive(Debug, Clone, PartialEq)]
pub enum Thing { Coin(AnyUInt), Flag(bool), Blob(Bytes), Multi(AnyUInt, Nullable<u64>) }
pallas_codec::codec_by_datatype! {
    Thing,
    U8 | U16 | U32 | U64 => Coin,
    Bool => Flag,
    Bytes => Blob,
    (a, b => Multi)
}
impl Canon for Thing {
    fn show(&self) -> String {
        match self {
            Thing::Coin(a) => format!("coin {}", a.show()), Thing::Flag(b) => format!("flag {b}"),
            Thing::Blob(b) => format!("blob {}", b.show()), Thing::Multi(a, n) => format!("multi {} {}", a.show(), n.show()),
        }
    }
    fn arb(rng: &mut Rng, d: u32) -> Self {
        match rng.below(4) {
            0 => Thing::Coin(AnyUInt::arb(rng, d)), 1 => Thing::Flag(bool::arb(rng, d)), 2 => Thing::Blob(Bytes::arb(rng, d)),
            _ => Thing::Multi(AnyUInt::arb(rng, d), Nullable::<u64>::arb(rng, d)),
        }
    }
}

// ---------------------------------------------------------------- generic wrappers
fn show_seq<T: Canon>(open: &str, xs: &[T], close: &str) -> String {
    let mut s = String::from(open);
    for x in xs { s.push(' '); s.push_str(&x.show()); }
    s.push(' '); s.push_str(close); s
}
fn show_pairs<K: Canon, V: Canon>(open: &str, xs: &[(K, V)]) -> String {
    let mut s = String::from(open);
    for (k, v) in xs { s.push(' '); s.push_str(&k.show()); s.push(' '); s.push_str(&v.show()); }
    s.push_str(" }"); s
}
fn arb_vec<T: Canon>(rng: &mut Rng, d: u32) -> Vec<T> { let n = small_len(rng, d); (0..n).map(|_| T::arb(rng, d.saturating_sub(1))).collect() }
fn arb_pairs<K: Canon, V: Canon>(rng: &mut Rng, d: u32) -> Vec<(K, V)> {
    let n = small_len(rng, d); (0..n).map(|_| (K::arb(rng, d.saturating_sub(1)), V::arb(rng, d.saturating_sub(1)))).collect()
}

impl<T: Canon> Canon for Vec<T> {
    fn show(&self) -> String { show_seq("[", self, "]") }
    fn arb(rng: &mut Rng, d: u32) -> Self { arb_vec(rng, d) }
}
impl<T: Canon + Encode<()>> Canon for Option<T> {
    fn show(&self) -> String { match self { Some(x) => format!("some {}", x.show()), None => "none".into() } }
    fn arb(rng: &mut Rng, d: u32) -> Self {
        if rng.chance(1, 3) { return None; }
        loop { let x = T::arb(rng, d); if first_byte(&x) != Some(0xf6) { return Some(x); } }
    }
}
impl<A: Canon, B: Canon> Canon for (A, B) {
    fn show(&self) -> String { format!("( {} {} )", self.0.show(), self.1.show()) }
    fn arb(rng: &mut Rng, d: u32) -> Self { (A::arb(rng, d), B::arb(rng, d)) }
}
impl<K: Canon + Clone, V: Canon + Clone> Canon for KeyValuePairs<K, V> {
    fn show(&self) -> String { match self { KeyValuePairs::Def(x) => show_pairs("def{", x), KeyValuePairs::Indef(x) => show_pairs("indef{", x) } }
    fn arb(rng: &mut Rng, d: u32) -> Self { let v = arb_pairs(rng, d); if rng.chance(1, 2) { KeyValuePairs::Def(v) } else { KeyValuePairs::Indef(v) } }
}
impl<K: Canon + Clone, V: Canon + Clone> Canon for NonEmptyKeyValuePairs<K, V> {
    fn show(&self) -> String { match self { NonEmptyKeyValuePairs::Def(x) => show_pairs("def{", x), NonEmptyKeyValuePairs::Indef(x) => show_pairs("indef{", x) } }
    fn arb(rng: &mut Rng, d: u32) -> Self {
        let mut v = arb_pairs(rng, d);
        if v.is_empty() { v.push((K::arb(rng, 0), V::arb(rng, 0))); }
        if rng.chance(1, 2) { NonEmptyKeyValuePairs::Def(v) } else { NonEmptyKeyValuePairs::Indef(v) }
    }
}
impl<T: Canon> Canon for MaybeIndefArray<T> {
    fn show(&self) -> String { match self { MaybeIndefArray::Def(x) => show_seq("def[", x, "]"), MaybeIndefArray::Indef(x) => show_seq("indef[", x, "]") } }
    fn arb(rng: &mut Rng, d: u32) -> Self { let v = arb_vec(rng, d); if rng.chance(1, 2) { MaybeIndefArray::Def(v) } else { MaybeIndefArray::Indef(v) } }
}
impl<T: Canon> Canon for OrderPreservingProperties<T> {
    fn show(&self) -> String { show_seq("[", self.deref(), "]") }
    fn arb(rng: &mut Rng, d: u32) -> Self { arb_vec::<T>(rng, d.max(1)).into() }
}
impl<T: Canon> Canon for CborWrap<T> {
    fn show(&self) -> String { self.0.show() }
    fn arb(rng: &mut Rng, d: u32) -> Self { CborWrap(T::arb(rng, d)) }
}
impl<T: Canon, const N: u64> Canon for TagWrap<T, N> {
    fn show(&self) -> String { self.0.show() }
    fn arb(rng: &mut Rng, d: u32) -> Self { TagWrap(T::arb(rng, d)) }
}
impl<T: Canon + Encode<()> + Decode<'static, ()>> Canon for ZeroOrOneArray<T> {
    fn show(&self) -> String { match self.deref() { Some(x) => format!("some {}", x.show()), None => "none".into() } }
    /// no public constructor: built by decoding `[]` / `[x]`
    fn arb(rng: &mut Rng, d: u32) -> Self {
        let mut b = vec![0x80u8];
        if rng.chance(2, 3) { b = vec![0x81]; b.extend(minicbor::to_vec(T::arb(rng, d)).unwrap()); }
        minicbor::decode(leak(b)).unwrap()
    }
}
impl<T: Canon> Canon for Set<T> {
    fn show(&self) -> String { show_seq("[", self.deref(), "]") }
    fn arb(rng: &mut Rng, d: u32) -> Self { arb_vec::<T>(rng, d.max(1)).into() }
}
impl<T: Canon> Canon for NonEmptySet<T> {
    fn show(&self) -> String { show_seq("[", self.deref(), "]") }
    fn arb(rng: &mut Rng, d: u32) -> Self {
        let mut v = arb_vec::<T>(rng, d.max(1));
        if v.is_empty() { v.push(T::arb(rng, 0)); }
        NonEmptySet::from_vec(v).unwrap()
    }
}
impl<T: Canon + Encode<()> + Decode<'static, ()>> Canon for KeepRaw<'static, T> {
    fn show(&self) -> String { format!("kr {} {}", hex(self.raw_cbor()), self.deref().show()) }
    /// half built with `From<T>` (no raw bytes), half decoded from a restyled encoding (raw bytes kept)
    fn arb(rng: &mut Rng, d: u32) -> Self {
        let inner = T::arb(rng, d);
        if rng.chance(1, 2) { return KeepRaw::from(inner); }
        let enc = minicbor::to_vec(&inner).unwrap();
        let styled = restyle(rng, &enc, 25, 25);
        match minicbor::decode::<KeepRaw<'static, T>>(leak(styled)) { Ok(k) => k, Err(_) => KeepRaw::from(inner) }
    }
}
impl<T: Canon + Clone + Encode<()>> Canon for Nullable<T> {
    fn show(&self) -> String { match self { Nullable::Some(x) => format!("some {}", x.show()), Nullable::Null => "null".into(), Nullable::Undefined => "undef".into() } }
    /// side condition of the wrapper: the payload's encoding must not itself start with null / undefined
    fn arb(rng: &mut Rng, d: u32) -> Self {
        match rng.below(4) {
            0 => Nullable::Null, 1 => Nullable::Undefined,
            _ => loop { let x = T::arb(rng, d); let f = first_byte(&x); if f != Some(0xf6) && f != Some(0xf7) { return Nullable::Some(x); } }
        }
    }
}

// ---------------------------------------------------------------- CBOR restyling (same item, other encoding choices)
/// (major, additional info, argument value, position after the head)
pub fn read_head(b: &[u8], pos: usize) -> Option<(u8, u8, u64, usize)> {
    let i = *b.get(pos)?;
    let (m, ai) = (i >> 5, i & 31);
    let n = match ai { 0..=23 => 0usize, 24 => 1, 25 => 2, 26 => 4, 27 => 8, 31 => 0, _ => return None };
    if pos + 1 + n > b.len() { return None; }
    let mut v = 0u64;
    for k in 0..n { v = v << 8 | b[pos + 1 + k] as u64; }
    if n == 0 { v = if ai == 31 { 0 } else { ai as u64 }; }
    Some((m, ai, v, pos + 1 + n))
}
fn put_head(rng: &mut Rng, m: u8, v: u64, p_wide: u64, out: &mut Vec<u8>) {
    let min_w = if v < 24 { 0 } else if v < 256 { 1 } else if v < 65536 { 2 } else if v < (1 << 32) { 4 } else { 8 };
    let mut w = min_w;
    if rng.below(100) < p_wide { let c: Vec<u8> = [0u8, 1, 2, 4, 8].iter().cloned().filter(|x| *x >= min_w).collect(); w = *rng.pick(&c); }
    match w {
        0 => out.push(m << 5 | v as u8),
        1 => { out.push(m << 5 | 24); out.push(v as u8); }
        2 => { out.push(m << 5 | 25); out.extend_from_slice(&(v as u16).to_be_bytes()); }
        4 => { out.push(m << 5 | 26); out.extend_from_slice(&(v as u32).to_be_bytes()); }
        _ => { out.push(m << 5 | 27); out.extend_from_slice(&v.to_be_bytes()); }
    }
}
fn restyle_item(rng: &mut Rng, b: &[u8], pos: usize, p_wide: u64, p_indef: u64, out: &mut Vec<u8>) -> Option<usize> {
    let (m, ai, v, nx) = read_head(b, pos)?;
    match m {
        0 | 1 => { if ai == 31 { return None; } put_head(rng, m, v, p_wide, out); Some(nx) }
        2 | 3 => {
            if ai == 31 {
                let mut p = nx; out.push(b[pos]);
                loop { if *b.get(p)? == 0xff { out.push(0xff); return Some(p + 1); } let (_, _, l, q) = read_head(b, p)?; let e = q + l as usize; out.extend_from_slice(b.get(p..e)?); p = e; }
            }
            let e = nx + v as usize;
            let body = b.get(nx..e)?;
            if rng.below(400) < p_indef {
                // the same string in the indefinite form: 0..2 definite chunks (`bytes()`/`str()` reject it, the `_iter` forms and `skip()` take it)
                out.push(m << 5 | 31);
                let cut = if m == 2 && !body.is_empty() { rng.below(body.len() as u64 + 1) as usize } else { body.len() };
                for part in [&body[..cut], &body[cut..]] { if !part.is_empty() || rng.chance(1, 4) { put_head(rng, m, part.len() as u64, p_wide, out); out.extend_from_slice(part); } }
                out.push(0xff);
            } else { put_head(rng, m, v, p_wide, out); out.extend_from_slice(body); }
            Some(e)
        }
        4 | 5 => {
            let mut kids: Vec<u8> = vec![]; let mut p = nx; let mut count = 0u64;
            if ai == 31 { while *b.get(p)? != 0xff { p = restyle_item(rng, b, p, p_wide, p_indef, &mut kids)?; count += 1; } p += 1; }
            else { let n = if m == 4 { v } else { v.checked_mul(2)? }; for _ in 0..n { p = restyle_item(rng, b, p, p_wide, p_indef, &mut kids)?; count += 1; } }
            let flip = rng.below(100) < p_indef;
            let indef = (ai == 31) != flip;
            if indef || (m == 5 && count % 2 == 1) { out.push(m << 5 | 31); out.extend(kids); out.push(0xff); }
            else { put_head(rng, m, if m == 4 { count } else { count / 2 }, p_wide, out); out.extend(kids); }
            Some(p)
        }
        6 => { if ai == 31 { return None; } put_head(rng, 6, v, p_wide, out); restyle_item(rng, b, nx, p_wide, p_indef, out) }
        _ => { if ai == 31 { return None; } out.extend_from_slice(&b[pos..nx]); Some(nx) }
    }
}
/// the same data item with other head widths (p_wide %) and definite/indefinite choices (p_indef %)
pub fn restyle(rng: &mut Rng, b: &[u8], p_wide: u64, p_indef: u64) -> Vec<u8> {
    let mut out = vec![];
    match restyle_item(rng, b, 0, p_wide, p_indef, &mut out) { Some(p) if p == b.len() => out, _ => b.to_vec() }
}
const MAJOR_NAME: [&str; 8] = ["uint", "nint", "bytes", "text", "array", "map", "tag", "simple"];
/// why a re-encoding differs from the accepted input: `<major>-head-width` (same head value, other
/// argument width) or `structure` (anything else)
fn classify(input: &[u8], reenc: &[u8]) -> String {
    let i = input.iter().zip(reenc.iter()).position(|(a, b)| a != b).unwrap_or(input.len().min(reenc.len()));
    match (read_head(input, i), read_head(reenc, i)) {
        (Some((ma, aia, va, _)), Some((mb, aib, vb, _))) if ma == mb && va == vb && aia != 31 && aib != 31 && aia != aib => format!("{}-head-width", MAJOR_NAME[ma as usize]),
        _ => "structure".into(),
    }
}

// ---------------------------------------------------------------- type universe
fn arity(tok: &str) -> usize { match tok { "kvp" | "nekvp" | "pair" => 2, "mia" | "opp" | "wrap" | "tag30" | "tag258" | "zoo" | "set" | "neset" | "keepraw" | "nullable" | "vec" | "opt" => 1, _ => 0 } }
fn skip_ty(toks: &[&str], i: &mut usize) { let t = toks[*i]; *i += 1; for _ in 0..arity(t) { skip_ty(toks, i); } }
/// the wrappers "whose purpose is to retain the original form", closed under composition
fn pres_closed_at(toks: &[&str], i: &mut usize) -> bool {
    let t = toks[*i]; *i += 1;
    match t {
        "anyuint" | "anycbor" => true,
        "keepraw" => { skip_ty(toks, i); true }
        "kvp" | "nekvp" => { let a = pres_closed_at(toks, i); let b = pres_closed_at(toks, i); a && b }
        "mia" | "nullable" => pres_closed_at(toks, i),
        _ => { for _ in 0..arity(t) { skip_ty(toks, i); } false }
    }
}
pub fn pres_closed(ty: &str) -> bool { let toks: Vec<&str> = ty.split('.').collect(); let mut i = 0; pres_closed_at(&toks, &mut i) }

pub struct Entry {
    pub dec: fn(&'static [u8], &str, &mut Out),
    pub rt: fn(u64, &[String], &str, &mut Out),
    pub gen_value: fn(u64) -> String,
    pub gen_bytes: fn(&mut Rng) -> Vec<u8>,
}
fn norm(s: &str) -> String {
    // KeepRaw's raw bytes are a cache of the encoding, not content: compare `kr <raw> v` by `v`
    let toks: Vec<&str> = s.split(' ').collect();
    let mut out = vec![]; let mut i = 0;
    while i < toks.len() { if toks[i] == "kr" { out.push("kr"); i += 2; } else { out.push(toks[i]); i += 1; } }
    out.join(" ")
}
fn dec_op<T: Canon + Encode<()> + Decode<'static, ()>>(bytes: &'static [u8], ty: &str, out: &mut Out) {
    let mut d = Decoder::new(bytes);
    match guard_mut(|| d.decode::<T>()) {
        None => out.panic(),
        Some(Err(e)) => { out.cov(format!("dec-err-{}", err_class(&e))); out.err(err_class(&e)) }
        Some(Ok(v)) => {
            let n = d.position();
            let Some(re) = guard_mut(|| minicbor::to_vec(&v).unwrap()) else { out.panic(); return; };
            out.ok(format!("{} {} {}", v.show(), n, hex(&re)));
            out.cov("dec-ok");
            if pres_closed(ty) {
                out.cov("pres-checked");
                if re != bytes[..n] { out.viol(format!("pres-loss {} ty={}", classify(&bytes[..n], &re), ty), format!("accepted {} re-encoded {}", hex(&bytes[..n]), hex(&re))); }
                if n > 1 { out.nontrivial(); }
            }
            // round trip of the decoded value
            let mut d2 = Decoder::new(leak(re.clone()));
            match guard_mut(|| d2.decode::<T>()) {
                Some(Ok(v2)) if norm(&v2.show()) == norm(&v.show()) && d2.position() == re.len() => {}
                Some(Ok(v2)) => out.viol(format!("rt-decoded ty={ty}"), format!("{} -> {} -> {}", v.show(), hex(&re), v2.show())),
                _ => out.viol(format!("rt-decoded-reject ty={ty}"), format!("{} -> {} rejected", v.show(), hex(&re))),
            }
        }
    }
}
fn rt_op<T: Canon + Encode<()> + Decode<'static, ()>>(seed: u64, text: &[String], ty: &str, out: &mut Out) {
    let v = T::arb(&mut Rng(seed), 3);
    if v.show() != text.join(" ") { out.reply("bad-op".into()); return; }
    let Some(enc) = guard_mut(|| minicbor::to_vec(&v).unwrap()) else { out.panic(); return; };
    let mut d = Decoder::new(leak(enc.clone()));
    match guard_mut(|| d.decode::<T>()) {
        None => out.panic(),
        Some(Ok(v2)) => {
            out.ok(format!("{} {}", hex(&enc), v2.show()));
            if norm(&v2.show()) != norm(&v.show()) || d.position() != enc.len() {
                out.viol(format!("rt-mismatch ty={ty}"), format!("{} -> {} -> {} (consumed {}/{})", v.show(), hex(&enc), v2.show(), d.position(), enc.len()));
            }
            if enc.len() > 1 { out.nontrivial(); }
        }
        Some(Err(e)) => { out.err(err_class(&e)); out.viol(format!("rt-reject ty={ty}"), format!("{} -> {} rejected ({})", v.show(), hex(&enc), err_class(&e))); }
    }
}
fn gen_value<T: Canon>(seed: u64) -> String { T::arb(&mut Rng(seed), 3).show() }
fn gen_bytes<T: Canon + Encode<()>>(rng: &mut Rng) -> Vec<u8> {
    let v = T::arb(rng, 3);
    let enc = minicbor::to_vec(&v).unwrap();
    match rng.below(10) { 0 | 1 => enc, 2..=5 => restyle(rng, &enc, 30, 20), 6 | 7 => restyle(rng, &enc, 100, 0), _ => restyle(rng, &enc, 10, 60) }
}
macro_rules! reg { ($m:ident, $name:expr, $t:ty) => {
    $m.insert($name.to_string(), Entry { dec: dec_op::<$t>, rt: rt_op::<$t>, gen_value: gen_value::<$t>, gen_bytes: gen_bytes::<$t> });
} }
type U = AnyUInt;
pub fn registry() -> &'static BTreeMap<String, Entry> {
    static R: OnceLock<BTreeMap<String, Entry>> = OnceLock::new();
    R.get_or_init(|| {
        let mut m = BTreeMap::new();
        reg!(m, "u8", u8); reg!(m, "u16", u16); reg!(m, "u32", u32); reg!(m, "u64", u64); reg!(m, "i64", i64); reg!(m, "bool", bool);
        reg!(m, "bytes", Bytes); reg!(m, "int", Int); reg!(m, "anyuint", U); reg!(m, "anycbor", AnyCbor); reg!(m, "nzi", NonZeroInt);
        reg!(m, "pcoin", PositiveCoin); reg!(m, "emptymap", EmptyMap); reg!(m, "attr", Attr); reg!(m, "thing", Thing);
        reg!(m, "kvp.anyuint.anyuint", KeyValuePairs<U, U>); reg!(m, "kvp.u64.bytes", KeyValuePairs<u64, Bytes>);
        reg!(m, "nekvp.anyuint.bytes", NonEmptyKeyValuePairs<U, Bytes>); reg!(m, "nekvp.anyuint.anycbor", NonEmptyKeyValuePairs<U, AnyCbor>);
        reg!(m, "mia.anyuint", MaybeIndefArray<U>); reg!(m, "mia.u64", MaybeIndefArray<u64>); reg!(m, "mia.anycbor", MaybeIndefArray<AnyCbor>);
        reg!(m, "opp.attr", OrderPreservingProperties<Attr>);
        reg!(m, "wrap.anyuint", CborWrap<U>); reg!(m, "wrap.mia.anyuint", CborWrap<MaybeIndefArray<U>>); reg!(m, "wrap.kvp.anyuint.anycbor", CborWrap<KeyValuePairs<U, AnyCbor>>);
        reg!(m, "tag30.anyuint", TagWrap<U, 30>); reg!(m, "tag258.vec.u64", TagWrap<Vec<u64>, 258>);
        reg!(m, "zoo.anyuint", ZeroOrOneArray<U>); reg!(m, "zoo.mia.u64", ZeroOrOneArray<MaybeIndefArray<u64>>);
        reg!(m, "set.anyuint", Set<U>); reg!(m, "set.u64", Set<u64>); reg!(m, "neset.anyuint", NonEmptySet<U>); reg!(m, "set.keepraw.anyuint", Set<KeepRaw<'static, U>>);
        reg!(m, "keepraw.anyuint", KeepRaw<'static, U>); reg!(m, "keepraw.u64", KeepRaw<'static, u64>); reg!(m, "keepraw.vec.u64", KeepRaw<'static, Vec<u64>>);
        reg!(m, "keepraw.mia.anyuint", KeepRaw<'static, MaybeIndefArray<U>>); reg!(m, "keepraw.thing", KeepRaw<'static, Thing>);
        reg!(m, "keepraw.kvp.anyuint.mia.nullable.anyuint", KeepRaw<'static, KeyValuePairs<U, MaybeIndefArray<Nullable<U>>>>);
        reg!(m, "nullable.anyuint", Nullable<U>); reg!(m, "nullable.u64", Nullable<u64>); reg!(m, "nullable.bytes", Nullable<Bytes>); reg!(m, "nullable.anycbor", Nullable<AnyCbor>);
        reg!(m, "nullable.mia.anyuint", Nullable<MaybeIndefArray<U>>);
        reg!(m, "vec.anyuint", Vec<U>); reg!(m, "opt.anyuint", Option<U>); reg!(m, "pair.anyuint.anyuint", (U, U)); reg!(m, "vec.thing", Vec<Thing>);
        reg!(m, "mia.mia.anyuint", MaybeIndefArray<MaybeIndefArray<U>>); reg!(m, "mia.mia.mia.anyuint", MaybeIndefArray<MaybeIndefArray<MaybeIndefArray<U>>>);
        reg!(m, "mia.kvp.anyuint.anyuint", MaybeIndefArray<KeyValuePairs<U, U>>); reg!(m, "kvp.anyuint.mia.anyuint", KeyValuePairs<U, MaybeIndefArray<U>>);
        reg!(m, "kvp.anyuint.kvp.anyuint.mia.anyuint", KeyValuePairs<U, KeyValuePairs<U, MaybeIndefArray<U>>>);
        reg!(m, "mia.nullable.anyuint", MaybeIndefArray<Nullable<U>>); reg!(m, "mia.keepraw.mia.anyuint", MaybeIndefArray<KeepRaw<'static, MaybeIndefArray<U>>>);
        reg!(m, "mia.set.anyuint", MaybeIndefArray<Set<U>>); reg!(m, "kvp.anyuint.nullable.anycbor", KeyValuePairs<U, Nullable<AnyCbor>>);
        m
    })
}

// ---------------------------------------------------------------- generator
pub fn generate(g: &mut Gen) {
    let reg = registry();
    let names: Vec<&String> = reg.keys().collect();
    // witnesses of DESIGN §6 #4 / #5 and their harmless neighbours, every run
    g.case(vec!["dec anyuint 1805".to_string(), "dec anyuint 05".into(), "dec anyuint 1818".into(), "dec anyuint 190005".into(),
        "dec anyuint 1a00000005".into(), "dec anyuint 1b0000000000000005".into(), "dec anyuint 1817".into(), "dec anyuint 18".into()]);
    g.case(vec!["dec mia.anyuint 98020102".to_string(), "dec mia.anyuint 820102".into(), "dec mia.anyuint 9f0102ff".into(),
        "dec kvp.anyuint.anyuint b8010102".into(), "dec kvp.anyuint.anyuint a10102".into(), "dec kvp.anyuint.anyuint bf0102ff".into(),
        "dec nekvp.anyuint.bytes b9000101410a".into()]);
    g.case(vec!["dec nullable.anyuint f6".to_string(), "dec nullable.anyuint f7".into(), "dec nullable.anyuint 05".into(),
        "dec anycbor 9f0102ff".into(), "dec anycbor 98020102ff".into(), "dec keepraw.vec.u64 9f0102ff".into(),
        "mut keepraw.vec.u64 9f0102ff 3".into(), "peek keepraw.vec.u64 9f0102ff".into(), "mut keepraw.anyuint 1805 7".into()]);
    if g.thorough() {
        // exhaustive small domain: every 1- and 2-byte input for the length-preserving integer and its containers
        for hi in 0..=255u32 {
            let mut ops = vec![format!("dec anyuint {:02x}", hi), format!("dec nullable.anyuint {:02x}", hi)];
            for lo in 0..=255u32 { ops.push(format!("dec anyuint {:02x}{:02x}", hi, lo)); }
            g.case(ops);
        }
        for hi in [0x80u32, 0x81, 0x82, 0x98, 0x99, 0x9a, 0x9b, 0x9f, 0xa0, 0xa1, 0xb8, 0xbf] {
            let mut ops = vec![];
            for lo in 0..=255u32 {
                ops.push(format!("dec mia.anyuint {:02x}{:02x}01ff", hi, lo));
                ops.push(format!("dec kvp.anyuint.anyuint {:02x}{:02x}0102ff", hi, lo));
            }
            g.case(ops);
        }
    }
    // every KeepRaw history shape of the seeded-change report and its neighbours, on every run
    g.case(vec!["kr.dec keepraw.vec.u64 9f0102ff".to_string(), "kr.own".into(), "kr.enc".into(), "kr.mut 3".into(), "kr.enc".into(), "kr.raw".into()]);
    g.case(vec!["kr.dec keepraw.vec.u64 9f0102ff".to_string(), "kr.clone".into(), "kr.mut 3".into(), "kr.own".into(), "kr.enc".into(), "kr.raw".into()]);
    g.case(vec!["kr.dec keepraw.anyuint 1805".to_string(), "kr.own".into(), "kr.clone".into(), "kr.own".into(), "kr.raw".into(), "kr.mut 7".into(), "kr.enc".into(), "kr.raw".into(), "kr.unwrap".into(), "kr.enc".into()]);
    g.case(vec!["kr.from keepraw.vec.u64 9f0102ff".to_string(), "kr.enc".into(), "kr.raw".into(), "kr.own".into(), "kr.mut 9".into(), "kr.enc".into(), "kr.clear".into(), "kr.enc".into()]);
    g.case(vec!["conv kvp2ne bf0102ff".to_string(), "conv kvp2ne a10102".into(), "conv kvp2ne a0".into(), "conv kvp2ne bfff".into(), "conv kvp2vec bf0102ff".into(),
        "conv mia2vec 9f0102ff".into(), "conv anycbor.from_encode 9f011802ff".into(), "conv set.unkeep d9010282180105".into(), "conv set.unkeep 9f1805ff".into()]);
    let n = g.cases.saturating_sub(8);
    for i in 0..n {
        let mut rng = g.rng.fork();
        if i % 10 == 9 {
            // a random history of the public KeepRaw operations on a real value, observed through encode / raw_cbor
            let ty = if rng.chance(1, 2) { "keepraw.vec.u64" } else { "keepraw.anyuint" };
            let b = (reg[ty].gen_bytes)(&mut rng);
            let mut ops = vec![format!("{} {} {}", if rng.chance(3, 4) { "kr.dec" } else { "kr.from" }, ty, hex(&b))];
            for _ in 0..1 + rng.below(8) {
                ops.push(match rng.below(12) {
                    0..=2 => "kr.own".to_string(), 3 | 4 => "kr.clone".to_string(), 5 | 6 => format!("kr.mut {}", rng.u64_edgy() & 0xffff),
                    7 => "kr.peek".to_string(), 8 => "kr.clear".to_string(), 9 | 10 => "kr.enc".to_string(), _ => "kr.raw".to_string(),
                });
            }
            ops.push("kr.enc".into()); ops.push("kr.raw".into());
            if rng.chance(1, 3) { ops.push("kr.unwrap".into()); }
            g.case(ops);
            continue;
        }
        if i % 10 == 8 {
            let mut ops = vec![];
            for _ in 0..1 + rng.below(3) {
                let (conv, ty) = *rng.pick(&[("kvp2ne", "kvp.anyuint.anyuint"), ("kvp2vec", "kvp.anyuint.anyuint"), ("mia2vec", "mia.anyuint"),
                    ("anycbor.from_encode", "mia.anyuint"), ("set.unkeep", "set.keepraw.anyuint")]);
                let mut b = (reg[ty].gen_bytes)(&mut rng);
                if rng.chance(1, 8) && !b.is_empty() { let c = rng.below(b.len() as u64) as usize; b.truncate(c); }
                ops.push(format!("conv {} {}", conv, hex(&b)));
            }
            g.case(ops);
            continue;
        }
        let name = names[i % names.len()].as_str();
        let e = &reg[name];
        let mut ops = vec![];
        for _ in 0..1 + rng.below(3) {
            match rng.below(10) {
                0..=3 => { let seed = rng.next(); ops.push(format!("rt {} {} {}", name, seed, (e.gen_value)(seed))); }
                4..=7 => { let b = (e.gen_bytes)(&mut rng); ops.push(format!("dec {} {}", name, hex(&b))); }
                8 => {
                    // truncated / one byte mutated / random: the malformed share
                    let mut b = (e.gen_bytes)(&mut rng);
                    match rng.below(3) {
                        0 => { let c = rng.below(b.len() as u64 + 1) as usize; b.truncate(c); }
                        1 => { if !b.is_empty() { let k = rng.below(b.len() as u64) as usize; b[k] = rng.next() as u8; } }
                        _ => { let mut x = vec![]; crate::streams::minicbor::gen_item(&mut rng, 2, &mut x); b = x; }
                    }
                    ops.push(format!("dec {} {}", name, hex(&b)));
                }
                _ => {
                    if name == "keepraw.vec.u64" || name == "keepraw.anyuint" {
                        let b = (e.gen_bytes)(&mut rng);
                        if rng.chance(3, 4) { ops.push(format!("mut {} {} {}", name, hex(&b), rng.u64_edgy() & 0xffff)); } else { ops.push(format!("peek {} {}", name, hex(&b))); }
                    } else { let b = (e.gen_bytes)(&mut rng); ops.push(format!("dec {} {}", name, hex(&b))); }
                }
            }
        }
        g.case(ops);
    }
}

fn mut_op(ty: &str, bytes: &'static [u8], k: u64, mutate: bool, out: &mut Out) {
    macro_rules! go { ($t:ty, $m:expr) => {{
        match minicbor::decode::<KeepRaw<'static, $t>>(bytes) {
            Err(e) => out.err(err_class(&e)),
            Ok(mut kr) => {
                if mutate { let f: fn(&mut $t, u64) = $m; f(kr.deref_mut(), k); } else { let _ = kr.deref(); }
                let re = minicbor::to_vec(&kr).unwrap();
                out.ok(hex(&re));
                let fresh = minicbor::to_vec(kr.deref()).unwrap();
                if mutate && re != fresh { out.viol(format!("keepraw-mut ty={ty}"), format!("mutated content encodes as {} but the wrapper wrote {}", hex(&fresh), hex(&re))); }
                if !mutate && re[..] != bytes[..re.len().min(bytes.len())] { out.viol(format!("keepraw-peek ty={ty}"), format!("unmutated wrapper wrote {} for input {}", hex(&re), hex(bytes))); }
                out.nontrivial();
            }
        }
    }} }
    match ty {
        "keepraw.vec.u64" => go!(Vec<u64>, |v, k| v.push(k)),
        "keepraw.anyuint" => go!(AnyUInt, |v, k| *v = AnyUInt::U16(k as u16)),
        _ => out.reply("bad-op".into()),
    }
}

/// a live `KeepRaw` value of a case, driven through its public operations
trait KrSlot {
    fn own(self: Box<Self>) -> Box<dyn KrSlot>;
    fn dup(&self) -> Box<dyn KrSlot>;
    fn peek(&self) -> String;
    fn mutate(&mut self, k: u64);
    fn clear(&mut self);
    fn enc(&self) -> Vec<u8>;
    fn raw(&self) -> Vec<u8>;
    fn fresh(&self) -> Vec<u8>;
    fn unwrap_show(self: Box<Self>) -> String;
}
struct Kr<T: 'static>(KeepRaw<'static, T>, fn(&mut T, u64));
impl<T: Canon + Clone + Encode<()> + 'static> KrSlot for Kr<T> {
    fn own(self: Box<Self>) -> Box<dyn KrSlot> { let f = self.1; Box::new(Kr(self.0.to_owned(), f)) }
    fn dup(&self) -> Box<dyn KrSlot> { Box::new(Kr(self.0.clone(), self.1)) }
    fn peek(&self) -> String { self.0.deref().show() }
    fn mutate(&mut self, k: u64) { (self.1)(self.0.deref_mut(), k) }
    fn clear(&mut self) { self.0.clear_raw() }
    fn enc(&self) -> Vec<u8> { minicbor::to_vec(&self.0).unwrap() }
    fn raw(&self) -> Vec<u8> { self.0.raw_cbor().to_vec() }
    fn fresh(&self) -> Vec<u8> { minicbor::to_vec(self.0.deref()).unwrap() }
    fn unwrap_show(self: Box<Self>) -> String { self.0.unwrap().show() }
}
/// (value, the span it was decoded from if any, has its raw been invalidated by deref_mut / clear_raw)
type KrState = Option<(Box<dyn KrSlot>, Option<Vec<u8>>, bool)>;

fn kr_install<T: Canon + Clone + Encode<()> + Decode<'static, ()> + 'static>(bytes: &'static [u8], from: bool, f: fn(&mut T, u64), out: &mut Out) -> KrState {
    let mut d = Decoder::new(bytes);
    if from {
        match d.decode::<T>() {
            Ok(v) => { out.ok(v.show()); Some((Box::new(Kr(KeepRaw::from(v), f)), None, false)) }
            Err(e) => { out.err(err_class(&e)); None }
        }
    } else {
        match d.decode::<KeepRaw<'static, T>>() {
            Ok(k) => { out.ok(k.deref().show()); let span = bytes[..d.position()].to_vec(); Some((Box::new(Kr(k, f)), Some(span), false)) }
            Err(e) => { out.err(err_class(&e)); None }
        }
    }
}

fn kr_op(st: &mut KrState, op: &[String], out: &mut Out) {
    if op[0] == "kr.dec" || op[0] == "kr.from" {
        let (Some(ty), Some(b)) = (op.get(1), op.get(2).and_then(|h| unhex(h))) else { out.reply("bad-op".into()); return; };
        let from = op[0] == "kr.from";
        *st = match ty.as_str() {
            "keepraw.vec.u64" => kr_install::<Vec<u64>>(leak(b), from, |v, k| v.push(k), out),
            "keepraw.anyuint" => kr_install::<AnyUInt>(leak(b), from, |v, k| *v = AnyUInt::U16(k as u16), out),
            _ => { out.reply("bad-op".into()); return; }
        };
        return;
    }
    let Some((slot, orig, invalidated)) = st.take() else { out.err("empty"); return; };
    match op[0].as_str() {
        "kr.own" => { *st = Some((slot.own(), orig, invalidated)); out.reply("ok".into()); }
        "kr.clone" => { let c = slot.dup(); drop(slot); *st = Some((c, orig, invalidated)); out.reply("ok".into()); }
        "kr.clear" => { let mut s = slot; s.clear(); *st = Some((s, orig, true)); out.reply("ok".into()); }
        "kr.mut" => match op.get(1).and_then(|k| k.parse::<u64>().ok()) {
            Some(k) => { let mut s = slot; s.mutate(k); *st = Some((s, orig, true)); out.reply("ok".into()); }
            None => { *st = Some((slot, orig, invalidated)); out.reply("bad-op".into()); }
        },
        "kr.peek" => { out.ok(slot.peek()); *st = Some((slot, orig, invalidated)); }
        "kr.unwrap" => { out.ok(slot.unwrap_show()); }
        "kr.enc" => {
            let got = slot.enc();
            out.ok(hex(&got));
            // the property, evaluated on the history: after any mutation the current content, before any the original span
            let want = match (&orig, invalidated) { (Some(span), false) => span.clone(), _ => slot.fresh() };
            if got != want {
                out.viol(format!("keepraw-history {}", if invalidated { "stale-after-mutation" } else { "original-lost" }),
                    format!("after this history the wrapper encodes as {} (expected {})", hex(&got), hex(&want)));
            }
            out.nontrivial();
            *st = Some((slot, orig, invalidated));
        }
        "kr.raw" => {
            let got = slot.raw();
            out.ok(hex(&got));
            let want = match (&orig, invalidated) { (Some(span), false) => span.clone(), _ => vec![] };
            if got != want { out.viol(format!("keepraw-history raw-cbor {}", if invalidated { "stale-after-mutation" } else { "original-lost" }), format!("raw_cbor() is {} (expected {})", hex(&got), hex(&want))); }
            *st = Some((slot, orig, invalidated));
        }
        _ => { *st = Some((slot, orig, invalidated)); out.reply("bad-op".into()); }
    }
}

fn conv_op(name: &str, bytes: &'static [u8], out: &mut Out) {
    macro_rules! dec { ($t:ty) => { match minicbor::decode::<$t>(bytes) { Ok(v) => v, Err(e) => { out.err(err_class(&e)); return; } } } }
    match name {
        "kvp2ne" => {
            let kvp = dec!(KeyValuePairs<U, U>);
            match NonEmptyKeyValuePairs::try_from(kvp.clone()) {
                Err(_) => { out.err("empty"); if !kvp.is_empty() { out.viol("conv-form kvp2ne", "non-empty KeyValuePairs refused"); } }
                Ok(ne) => {
                    let got = minicbor::to_vec(&ne).unwrap();
                    out.ok(hex(&got));
                    if got != minicbor::to_vec(&kvp).unwrap() { out.viol("conv-form kvp2ne", format!("definite/indefinite form or entries changed by the conversion: {}", hex(&got))); }
                }
            }
        }
        "kvp2vec" => {
            let kvp = dec!(KeyValuePairs<U, U>);
            let back = KeyValuePairs::from(kvp.clone().to_vec());
            out.ok(hex(&minicbor::to_vec(&back).unwrap()));
            if !matches!(back, KeyValuePairs::Def(_)) || back.to_vec() != kvp.to_vec() { out.viol("conv-form kvp2vec", "entries changed by to_vec / From<Vec>"); }
        }
        "mia2vec" => {
            let mia = dec!(MaybeIndefArray<U>);
            let v = mia.clone().to_vec();
            out.ok(hex(&minicbor::to_vec(&v).unwrap()));
            if &v != mia.deref() { out.viol("conv-form mia2vec", "elements changed by to_vec"); }
        }
        "anycbor.from_encode" => {
            let mia = dec!(MaybeIndefArray<U>);
            let any = AnyCbor::from_encode(mia.clone());
            out.ok(hex(&minicbor::to_vec(&any).unwrap()));
            if any.raw_bytes() != &minicbor::to_vec(&mia).unwrap()[..] { out.viol("conv-form anycbor.from_encode", "from_encode does not hold the encoding of the value"); }
            if any.clone().into_decode::<MaybeIndefArray<U>>().ok().as_ref() != Some(&mia) { out.viol("conv-form anycbor.into_decode", "into_decode(from_encode(v)) != v"); }
            if any.clone().unwrap() != any.raw_bytes() { out.viol("conv-form anycbor.unwrap", "unwrap differs from raw_bytes"); }
        }
        "set.unkeep" => {
            let ks = dec!(Set<KeepRaw<'static, U>>);
            let inner: Vec<U> = ks.iter().map(|k| *k.deref()).collect();
            let plain: Set<U> = Set::from(ks);
            out.ok(hex(&minicbor::to_vec(&plain).unwrap()));
            if plain.deref() != &inner { out.viol("conv-form set.unkeep", "elements changed by Set::from(Set<KeepRaw<_>>)"); }
        }
        _ => out.reply("bad-op".into()),
    }
}

pub fn run_case(case: &Case, out: &mut Out) {
    let reg = registry();
    let mut kr: KrState = None;
    for op in &case.ops {
        if op[0].starts_with("kr.") { if guard_mut(|| kr_op(&mut kr, op, out)).is_none() { out.panic(); kr = None; } continue; }
        if op[0] == "conv" && op.len() == 3 {
            match unhex(&op[2]) { Some(b) => { if guard_mut(|| conv_op(&op[1], leak(b), out)).is_none() { out.panic(); } } None => out.reply("bad-op".into()) }
            continue;
        }
        let ty = op.get(1).map(|s| s.as_str()).unwrap_or("");
        match (op[0].as_str(), reg.get(ty)) {
            ("dec", Some(e)) if op.len() == 3 => match unhex(&op[2]) { Some(b) => (e.dec)(leak(b), ty, out), None => out.reply("bad-op".into()) },
            ("rt", Some(e)) if op.len() >= 4 => match op[2].parse::<u64>() { Ok(seed) => (e.rt)(seed, &op[3..], ty, out), Err(_) => out.reply("bad-op".into()) },
            ("mut", Some(_)) | ("peek", Some(_)) if op.len() >= 3 => {
                let k = op.get(3).and_then(|s| s.parse::<u64>().ok()).unwrap_or(0);
                match unhex(&op[2]) { Some(b) => match guard_mut(|| mut_op(ty, leak(b), k, op[0] == "mut", out)) { Some(()) => {}, None => out.panic() }, None => out.reply("bad-op".into()) }
            }
            _ => out.reply("bad-op".into()),
        }
    }
}
