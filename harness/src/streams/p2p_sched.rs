//! stream `p2p_sched` — C28: the real `InitiatorBehavior` behind an abstract connection per peer with a
//! specification-conformant simulated responder; schedules delay `Sent` confirmations, arrivals,
//! replies and deliveries arbitrarily relative to housekeeping and commands. Oracle: the responder
//! checks every message it consumes against the specification tables (DESIGN App. A).
use crate::fw::*;
#[path = "../fixtures/p2p.rs"]
mod p2p;
use p2p::{Init, SchedStep, SchedSys};

pub const NAME: &str = "p2p_sched";

const PROTOS: [&str; 7] = ["hs", "ka", "ps", "bf", "cs", "ln", "lf"];

/// `sync`: every emitting step is followed by `confirmall` (the domain of the partial theorem)
fn gen_case(g: &mut Gen, peers: u64, len: usize, sync: bool) -> Vec<String> {
    let mut ops = vec![format!("cfg {} {} {} {}", peers + 2, peers + 1, peers + 1, g.rng.range(0, 2))];
    if g.rng.chance(2, 3) { ops.push("startsync".into()); }
    // sync: confirm at once, or (lazily) only after the requests reached the responder and were perhaps answered —
    // both stay inside the domain of `initiator_conformant_delayed`
    let lazy = sync && g.rng.chance(1, 2);
    let mut r2 = g.rng.fork();
    let mut emit = |ops: &mut Vec<String>, o: String, sync: bool| {
        ops.push(o);
        if sync {
            if lazy {
                for _ in 0..r2.below(4) {
                    let p = r2.below(peers);
                    ops.push(if r2.chance(1, 2) { format!("arrive {p}") } else { format!("reply {p} {} {}", *r2.pick(&PROTOS), r2.below(4)) });
                }
            }
            ops.push("confirmall".into());
        }
    };
    for p in 0..peers {
        if g.rng.chance(4, 5) {
            // bring the peer up: include, promote+connect, handshake (version 13 or 15)
            ops.push(format!("include {p}"));
            emit(&mut ops, "hk".into(), sync);
            emit(&mut ops, format!("connect {p}"), sync);
            if !sync && g.rng.chance(2, 3) { ops.push(format!("confirm {p}")); }
            ops.push(format!("arrive {p}"));
            ops.push(format!("reply {p} hs {}", g.rng.below(2)));
            ops.push(format!("deliver {p} 0"));
        } else if g.rng.chance(1, 2) { ops.push(format!("include {p}")); }
    }
    while ops.len() < len + 1 {
        let p = g.rng.below(peers);
        match g.rng.below(40) {
            0..=7 => emit(&mut ops, if g.rng.chance(1, 4) { "idle".into() } else { "hk".into() }, sync),
            8..=9 => ops.push(format!("include {p}")),
            10..=12 => emit(&mut ops, format!("connect {p}"), sync),
            13..=15 => { if !sync { ops.push(format!("confirm {p}")); } else { ops.push(format!("arrive {p}")); } }
            16..=19 => ops.push(format!("arrive {p}")),
            20 => ops.push("arriveall".into()),
            21..=27 => { let x = *g.rng.pick(&PROTOS); ops.push(format!("reply {p} {x} {}", g.rng.below(4))); }
            28..=32 => ops.push(format!("deliver {p} {}", g.rng.below(3))),
            33 => ops.push(format!("drop {p}")),
            34 => ops.push(format!("fail {p}")),
            35 => emit(&mut ops, format!("continuesync {p}"), sync),
            36 => ops.push(format!("reqblocks {}", g.rng.below(9))),
            37 => ops.push(if g.rng.chance(1, 2) { format!("fetcheb {p} 5") } else { format!("fetchebtxs {p} 6") }),
            38 => emit(&mut ops, if g.rng.chance(1, 2) { format!("ban {p}") } else { format!("demote {p}") }, sync),
            _ => { if !sync { ops.push("confirmall".into()); } else { ops.push("arriveall".into()); } }
        }
    }
    ops
}

pub fn generate(g: &mut Gen) {
    // DESIGN §6 #16 witness: two housekeeping passes before the first confirmation
    g.case(["cfg 2 2 2 1", "include 0", "hk", "connect 0", "confirm 0", "arrive 0", "reply 0 hs 0", "deliver 0 0", "hk", "hk",
            "arrive 0", "arrive 0", "arrive 0"].map(String::from));
    for i in 0..g.cases {
        let sync = i % 3 != 0;
        let (peers, len) = match i % 4 { 0 => (1, g.rng.range(10, 40)), 1 => (2, g.rng.range(20, 100)), 2 => (3, g.rng.range(40, 200)), _ => (1, g.rng.range(60, 300)) };
        let mut ops = gen_case(g, peers, len as usize, sync);
        ops.push("arriveall".into());
        g.case(ops);
    }
}

pub fn run_case(case: &Case, out: &mut Out) {
    let mut sys: Option<SchedSys> = None;
    for op in &case.ops {
        if op[0] == "cfg" && op.len() == 5 {
            let v: Vec<u64> = op[1..].iter().filter_map(|x| x.parse().ok()).collect();
            if v.len() != 4 { out.reply("bad-op".into()); continue; }
            let s = SchedSys::new(Init::new(v[0] as usize, v[1] as usize, v[2] as usize, v[3] as u32));
            out.ok(s.text(&[]));
            sys = Some(s);
            continue;
        }
        let Some(s) = sys.as_mut() else { out.reply("bad-op".into()); continue; };
        match s.exec(op, out) {
            SchedStep::Ok(t) => out.ok(t),
            SchedStep::Panic => out.panic(),
            SchedStep::Dead => out.reply("dead".into()),
            SchedStep::Bad => out.reply("bad-op".into()),
        }
    }
    if let Some(s) = &sys {
        if s.sends >= 5 { out.cov("five-sends"); }
        if s.delivered >= 1 { out.cov("reply-delivered"); }
        if s.observed == 0 { out.cov("conformant-run"); } else { out.cov("violation-observed"); }
        if s.in_domain { out.cov("in-theorem-domain"); } else { out.cov("outside-theorem-domain"); }
        if s.sends >= 5 && s.delivered >= 1 { out.nontrivial(); }
    }
}
