//! stream `msgs` — C22: every mini-protocol message of both stacks, encoded by the real codecs,
//! must be exactly one well-formed CBOR item (independent strict reader) and decode back to itself.
use crate::fw::*;
#[path = "../fixtures/netmsg.rs"]
mod netmsg;
use netmsg::*;

pub const NAME: &str = "msgs";

pub fn generate(g: &mut Gen) {
    let protos = all_protos();
    // every (protocol, variant) pair in turn, so each variant of each stack is hit in every run
    let mut pairs: Vec<(String, u64)> = vec![];
    for p in &protos {
        let short = p.split_once('.').unwrap().1;
        for k in 0..variants(short) { pairs.push((p.clone(), k)); }
    }
    for i in 0..g.cases {
        let (proto, k) = pairs[i % pairs.len()].clone();
        let v = g_msg(&mut g.rng, &proto, k);
        let mut ops = vec![format!("enc {} {}", proto, v.show())];
        // the implementation's own bytes go through the strict reader and both decoders
        let c = codec(&proto).expect("codec");
        if let Some(Some(Ok(bytes))) = guard(|| (c.enc)(&v)) {
            ops.push(format!("single {}", hex(&bytes)));
            ops.push(format!("dec {} {}", proto, hex(&bytes)));
        }
        g.case(ops);
    }
    // the reject reasons recorded in the repo's own tests, typed as pallas types them
    let mut n = 0;
    while real_reject(n).is_some() { n += 1; }
    let mut ops: Vec<String> = (0..n).map(|i| format!("real {i}")).collect();
    ops.push("realp plutus".into());
    ops.push("realp byron".into());
    for chunk in ops.chunks(16) { g.case(chunk.to_vec()); }
}

fn real_reject(n: usize) -> Option<Vec<u8>> {
    thread_local! { static C: std::cell::RefCell<Option<Vec<Vec<u8>>>> = std::cell::RefCell::new(None); }
    C.with(|c| {
        let mut c = c.borrow_mut();
        if c.is_none() {
            let repo = std::env::var("PV_REPO").unwrap_or_else(|_| "/repo".into());
            let src = std::fs::read_to_string(format!("{repo}/pallas-network/src/miniprotocols/localtxsubmission/codec.rs")).unwrap_or_default();
            *c = Some(src.split('"').filter(|p| p.len() >= 16 && p.len() % 2 == 0 && p.bytes().all(|x| x.is_ascii_hexdigit())).filter_map(|p| hex::decode(p).ok()).collect());
        }
        c.as_ref().unwrap().get(n).cloned()
    })
}

pub fn run_case(case: &Case, out: &mut Out) {
    let mut nontrivial = false;
    for op in &case.ops {
        match op[0].as_str() {
            "enc" if op.len() >= 3 => {
                let proto = op[1].as_str();
                let (Some(c), Some(v)) = (codec(proto), parse_v(&op[2..])) else { out.reply("bad-op".into()); continue };
                let key = format!("{} {}", proto, match &v { V::Node(t, a) if a.len() == 1 && (t == "refuse" || t == "failure" || t == "rejectTx") => format!("{}.{}", t, a[0].tag()), _ => v.tag().to_string() });
                match guard(|| (c.enc)(&v)) {
                    None => { out.viol(format!("encode-panic {key}"), v.show()); out.panic(); }
                    Some(None) => out.reply("bad-op".into()),
                    Some(Some(Err(()))) => out.err("enc"),
                    Some(Some(Ok(bytes))) => {
                        out.cov(format!("msg:{key}"));
                        if !v.is_leaf_only() { nontrivial = true; }
                        // the property, on the implementation alone
                        if !is_single_item(&bytes) {
                            let why = match strict_item(&bytes, 0) { None => "truncated or malformed: a declared length is not matched by the contents", Some(_) => "trailing bytes after the first item" };
                            out.viol(format!("not-single-item {key}"), format!("{} -> {} ({})", v.show(), hex(&bytes), why));
                        }
                        match guard(|| (c.dec)(&bytes)) {
                            None => out.viol(format!("decode-panic {key}"), format!("{} -> {}", v.show(), hex(&bytes))),
                            Some(Err(e)) => out.viol(format!("roundtrip {key}"), format!("{} -> {} -> decode error {:?}", v.show(), hex(&bytes), e)),
                            Some(Ok(v2)) => if v2 != v { out.viol(format!("roundtrip {key}"), format!("{} -> {} -> {}", v.show(), hex(&bytes), v2.show())); }
                        }
                        out.ok(hex(&bytes));
                    }
                }
            }
            "dec" if op.len() == 3 => {
                let (Some(c), Some(bytes)) = (codec(&op[1]), unhex(&op[2])) else { out.reply("bad-op".into()); continue };
                match guard(|| (c.dec)(&bytes)) {
                    None => { out.viol(format!("decode-panic {}", op[1]), op[2].clone()); out.panic(); }
                    Some(Ok(v)) => out.ok(v.show()),
                    Some(Err(DecErr::Eoi)) => out.err("eoi"),
                    Some(Err(DecErr::Other)) => out.err("other"),
                }
            }
            // the node-to-client reject reason as pallas really types it (TxValidationError, not modelled in Lean):
            // recorded reject payload n of the repo's own tests -> decode -> encode -> strict reader -> decode
            "real" if op.len() == 2 => {
                let Some(bytes) = op[1].parse::<usize>().ok().and_then(real_reject) else { out.reply("bad-op".into()); continue };
                use pallas_network::miniprotocols::localtxsubmission::{EraTx, Message, TxValidationError};
                type M = Message<EraTx, TxValidationError>;
                let mut msg_bytes = vec![0x82, 0x02];
                msg_bytes.extend_from_slice(&bytes);
                match guard(|| pallas_codec::minicbor::decode::<M>(&msg_bytes).ok()) {
                    None => out.viol(format!("real-reject decode-panic p{}", op[1]), op[1].clone()),
                    Some(None) => out.cov("real-reject:undecodable"),
                    Some(Some(m)) => {
                        let shown = format!("{:?}", m);
                        match guard(move || pallas_codec::minicbor::to_vec(&m).ok()) {
                            None => out.viol(format!("real-reject encode-panic p{}", op[1]), format!("payload {} : {}", op[1], &shown[..shown.len().min(120)])),
                            Some(None) => out.viol(format!("real-reject encode-error p{}", op[1]), op[1].clone()),
                            Some(Some(b2)) => {
                                nontrivial = true;
                                if !is_single_item(&b2) { out.viol(format!("real-reject not-single-item p{}", op[1]), format!("payload {} re-encodes to {}", op[1], hex(&b2[..b2.len().min(64)]))); }
                                match guard(|| pallas_codec::minicbor::decode::<M>(&b2).ok().map(|m2| format!("{:?}", m2))) {
                                    Some(Some(s2)) if s2 == shown => out.cov("real-reject:roundtrips"),
                                    Some(Some(_)) => out.viol(format!("real-reject roundtrip p{}", op[1]), format!("payload {}: decode(encode(m)) differs from m", op[1])),
                                    Some(None) => out.viol(format!("real-reject roundtrip p{}", op[1]), format!("payload {}: encode(m) = {}… does not decode", op[1], hex(&b2[..b2.len().min(24)]))),
                                    None => out.viol(format!("real-reject decode-panic p{}", op[1]), op[1].clone()),
                                }
                            }
                        }
                    }
                }
                out.reply("checked".into());
            }
            // reject reasons that can only be built, not received: the encoder is `todo!()` for them
            "realp" if op.len() == 2 => {
                use pallas_network::miniprotocols::localtxsubmission::{ApplyTxError, EraTx, Message, TxValidationError};
                let rej = match op[1].as_str() {
                    "plutus" => TxValidationError::Plutus("script failed".into()),
                    "byron" => TxValidationError::ByronTxValidationError { error: ApplyTxError(vec![]) },
                    _ => { out.reply("bad-op".into()); continue }
                };
                let m: Message<EraTx, TxValidationError> = Message::RejectTx(rej);
                match guard(move || pallas_codec::minicbor::to_vec(&m).ok()) {
                    None => out.viol(format!("real-reject encode-panic {}", op[1]), format!("encoding RejectTx(TxValidationError::{}) panics (todo!())", op[1])),
                    Some(None) => out.viol(format!("real-reject encode-error {}", op[1]), op[1].clone()),
                    Some(Some(b)) => if !is_single_item(&b) { out.viol(format!("real-reject not-single-item {}", op[1]), hex(&b)) },
                }
                out.reply("checked".into());
            }
            "single" if op.len() == 2 => match unhex(&op[1]) {
                Some(bytes) => out.ok(if is_single_item(&bytes) { "true" } else { "false" }),
                None => out.reply("bad-op".into()),
            },
            _ => out.reply("bad-op".into()),
        }
    }
    if nontrivial { out.nontrivial(); }
}
