//! stream `msgs` — C22: every mini-protocol message of both stacks, encoded by the real codecs,
//! must be exactly one well-formed CBOR item (independent strict reader) and decode back to itself.
use crate::fw::*;
#[path = "../fixtures/netmsg.rs"]
mod netmsg;
use netmsg::*;

pub const NAME: &str = "msgs";

pub fn generate(g: &mut Gen) {
    let protos = all_protos();
    // every (protocol, variant) pair in turn, so each variant of each stack is hit in every run
    let mut pairs: Vec<(String, u64)> = vec![];
    for p in &protos {
        let short = p.split_once('.').unwrap().1;
        for k in 0..variants(short) { pairs.push((p.clone(), k)); }
    }
    for i in 0..g.cases {
        let (proto, k) = pairs[i % pairs.len()].clone();
        let v = g_msg(&mut g.rng, &proto, k);
        let mut ops = vec![format!("enc {} {}", proto, v.show())];
        // the implementation's own bytes go through the strict reader and both decoders
        let c = codec(&proto).expect("codec");
        if let Some(Some(Ok(bytes))) = guard(|| (c.enc)(&v)) {
            ops.push(format!("single {}", hex(&bytes)));
            ops.push(format!("dec {} {}", proto, hex(&bytes)));
        }
        g.case(ops);
    }
}

pub fn run_case(case: &Case, out: &mut Out) {
    let mut nontrivial = false;
    for op in &case.ops {
        match op[0].as_str() {
            "enc" if op.len() >= 3 => {
                let proto = op[1].as_str();
                let (Some(c), Some(v)) = (codec(proto), parse_v(&op[2..])) else { out.reply("bad-op".into()); continue };
                let key = format!("{} {}", proto, match &v { V::Node(t, a) if a.len() == 1 && (t == "refuse" || t == "failure" || t == "rejectTx") => format!("{}.{}", t, a[0].tag()), _ => v.tag().to_string() });
                match guard(|| (c.enc)(&v)) {
                    None => { out.viol(format!("encode-panic {key}"), v.show()); out.panic(); }
                    Some(None) => out.reply("bad-op".into()),
                    Some(Some(Err(()))) => out.err("enc"),
                    Some(Some(Ok(bytes))) => {
                        out.cov(format!("msg:{key}"));
                        if !v.is_leaf_only() { nontrivial = true; }
                        // the property, on the implementation alone
                        if !is_single_item(&bytes) {
                            let why = match strict_item(&bytes, 0) { None => "truncated or malformed: a declared length is not matched by the contents", Some(_) => "trailing bytes after the first item" };
                            out.viol(format!("not-single-item {key}"), format!("{} -> {} ({})", v.show(), hex(&bytes), why));
                        }
                        match guard(|| (c.dec)(&bytes)) {
                            None => out.viol(format!("decode-panic {key}"), format!("{} -> {}", v.show(), hex(&bytes))),
                            Some(Err(e)) => out.viol(format!("roundtrip {key}"), format!("{} -> {} -> decode error {:?}", v.show(), hex(&bytes), e)),
                            Some(Ok(v2)) => if v2 != v { out.viol(format!("roundtrip {key}"), format!("{} -> {} -> {}", v.show(), hex(&bytes), v2.show())); }
                        }
                        out.ok(hex(&bytes));
                    }
                }
            }
            "dec" if op.len() == 3 => {
                let (Some(c), Some(bytes)) = (codec(&op[1]), unhex(&op[2])) else { out.reply("bad-op".into()); continue };
                match guard(|| (c.dec)(&bytes)) {
                    None => { out.viol(format!("decode-panic {}", op[1]), op[2].clone()); out.panic(); }
                    Some(Ok(v)) => out.ok(v.show()),
                    Some(Err(DecErr::Eoi)) => out.err("eoi"),
                    Some(Err(DecErr::Other)) => out.err("other"),
                }
            }
            "single" if op.len() == 2 => match unhex(&op[1]) {
                Some(bytes) => out.ok(if is_single_item(&bytes) { "true" } else { "false" }),
                None => out.reply("bad-op".into()),
            },
            _ => out.reply("bad-op".into()),
        }
    }
    if nontrivial { out.nontrivial(); }
}
