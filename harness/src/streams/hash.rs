//! stream `hash` — C10: pallas_crypto::hash::{Hasher, Hash} and pallas_crypto::nonce vs the Lean
//! BLAKE2b / codec model. Oracle: an independent RFC 7693 implementation (fixtures/blake2b_ref.rs)
//! and the round-trip / rejection clauses of the property evaluated directly on the results.
use crate::fw::*;
use pallas_codec::minicbor;
use pallas_crypto::hash::{Hash, Hasher};
use pallas_crypto::nonce::{generate_epoch_nonce, generate_rolling_nonce};

#[path = "../fixtures/blake2b_ref.rs"]
mod blake2b_ref;
use blake2b_ref::blake2b as ref_blake2b;

pub const NAME: &str = "hash";

// ------------------------------------------------------------------ dispatch on the const generics

fn feed(bits: u64, chunks: &[Vec<u8>]) -> Option<Vec<u8>> {
    macro_rules! go { ($b:literal) => {{ let mut h = Hasher::<$b>::new(); for c in chunks { h.input(c); } Some(h.finalize().to_vec()) }}; }
    match bits { 160 => go!(160), 224 => go!(224), 256 => go!(256), _ => None }
}
fn one_shot(bits: u64, d: &[u8]) -> Option<Vec<u8>> {
    match bits { 160 => Some(Hasher::<160>::hash(d).to_vec()), 224 => Some(Hasher::<224>::hash(d).to_vec()), 256 => Some(Hasher::<256>::hash(d).to_vec()), _ => None }
}
fn tagged(bits: u64, d: &[u8], tag: u8) -> Option<Vec<u8>> {
    match bits { 160 => Some(Hasher::<160>::hash_tagged(d, tag).to_vec()), 224 => Some(Hasher::<224>::hash_tagged(d, tag).to_vec()), 256 => Some(Hasher::<256>::hash_tagged(d, tag).to_vec()), _ => None }
}
fn cbor(bits: u64, v: &Toks, tag: Option<u8>) -> Option<Vec<u8>> {
    macro_rules! go { ($b:literal) => { Some(match tag { None => Hasher::<$b>::hash_cbor(v).to_vec(), Some(t) => Hasher::<$b>::hash_tagged_cbor(v, t).to_vec() }) }; }
    match bits { 160 => go!(160), 224 => go!(224), 256 => go!(256), _ => None }
}

const SIZES: [usize; 7] = [0, 1, 4, 20, 28, 32, 64];
macro_rules! with_size {
    ($n:expr, $f:ident, $($a:expr),*) => { match $n { 0 => $f::<0>($($a),*), 1 => $f::<1>($($a),*), 4 => $f::<4>($($a),*), 20 => $f::<20>($($a),*),
        28 => $f::<28>($($a),*), 32 => $f::<32>($($a),*), 64 => $f::<64>($($a),*), _ => None } };
}
fn to_hex<const N: usize>(b: &[u8]) -> Option<String> { if b.len() != N { return None; } Some(Hash::<N>::from(b).to_string()) }
fn from_str<const N: usize>(s: &str) -> Option<Result<Vec<u8>, &'static str>> {
    Some(match s.parse::<Hash<N>>() {
        Ok(h) => Ok(h.to_vec()),
        Err(hex::FromHexError::OddLength) => Err("odd"),
        Err(hex::FromHexError::InvalidStringLength) => Err("length"),
        Err(hex::FromHexError::InvalidHexCharacter { .. }) => Err("char"),
    })
}
fn enc<const N: usize>(b: &[u8]) -> Option<Vec<u8>> { if b.len() != N { return None; } minicbor::to_vec(Hash::<N>::from(b)).ok() }
fn dec<const N: usize>(b: &[u8]) -> Option<Result<Vec<u8>, &'static str>> {
    Some(match minicbor::decode::<Hash<N>>(b) {
        Ok(h) => Ok(h.to_vec()),
        Err(e) if e.is_end_of_input() => Err("eoi"),
        Err(e) if e.is_type_mismatch() => Err("type"),
        Err(e) if e.is_message() => Err("msg"),
        Err(_) => Err("other"),
    })
}
fn ser<const N: usize>(b: &[u8]) -> Option<String> { if b.len() != N { return None; } serde_json::to_string(&Hash::<N>::from(b)).ok() }
fn deser<const N: usize>(s: &str) -> Option<Option<Vec<u8>>> { Some(serde_json::from_str::<Hash<N>>(s).ok().map(|h| h.to_vec())) }
fn from_slice<const N: usize>(b: &[u8]) -> Option<Option<Vec<u8>>> { let b = b.to_vec(); Some(guard(move || Hash::<N>::from(&b[..]).to_vec())) }

// ------------------------------------------------------------------ CBOR token sequences

#[derive(Clone, Debug)]
enum T { U(u64), N(u64), B(Vec<u8>), S(String), A(u64), M(u64), G(u64), Bool(bool), Null, IA, IM, IB, Brk, H(Vec<u8>) }
struct Toks(Vec<T>);

impl<C> minicbor::Encode<C> for Toks {
    fn encode<W: minicbor::encode::Write>(&self, e: &mut minicbor::Encoder<W>, ctx: &mut C) -> Result<(), minicbor::encode::Error<W::Error>> {
        for t in &self.0 {
            match t {
                T::U(n) => { e.u64(*n)?; }
                T::N(n) => { e.i64(-1 - (*n as i64))?; }
                T::B(b) => { e.bytes(b)?; }
                T::S(s) => { e.str(s)?; }
                T::A(n) => { e.array(*n)?; }
                T::M(n) => { e.map(*n)?; }
                T::G(n) => { e.tag(minicbor::data::Tag::new(*n))?; }
                T::Bool(b) => { e.bool(*b)?; }
                T::Null => { e.null()?; }
                T::IA => { e.begin_array()?; }
                T::IM => { e.begin_map()?; }
                T::IB => { e.begin_bytes()?; }
                T::Brk => { e.end()?; }
                // a real pallas value: Hash<N>'s own Encode impl
                T::H(h) => match h.len() {
                    28 => { e.encode_with(Hash::<28>::from(&h[..]), ctx)?; }
                    32 => { e.encode_with(Hash::<32>::from(&h[..]), ctx)?; }
                    20 => { e.encode_with(Hash::<20>::from(&h[..]), ctx)?; }
                    _ => { e.bytes(h)?; }
                },
            }
        }
        Ok(())
    }
}

fn parse_tok(s: &str) -> Option<T> {
    let (k, a) = match s.split_once(':') { Some((k, a)) => (k, Some(a)), None => (s, None) };
    Some(match (k, a) {
        ("u", Some(a)) => T::U(a.parse().ok()?),
        ("n", Some(a)) => T::N(a.parse().ok()?),
        ("b", Some(a)) => T::B(unhex(a)?),
        ("t", Some(a)) => T::S(String::from_utf8(unhex(a)?).ok()?),
        ("a", Some(a)) => T::A(a.parse().ok()?),
        ("m", Some(a)) => T::M(a.parse().ok()?),
        ("g", Some(a)) => T::G(a.parse().ok()?),
        ("h", Some(a)) => T::H(unhex(a)?),
        ("T", None) => T::Bool(true),
        ("F", None) => T::Bool(false),
        ("N", None) => T::Null,
        ("ia", None) => T::IA,
        ("im", None) => T::IM,
        ("ib", None) => T::IB,
        ("brk", None) => T::Brk,
        _ => return None,
    })
}

fn gen_tok(r: &mut Rng) -> String {
    match r.below(16) {
        0..=2 => format!("u:{}", r.u64_edgy()),
        3 => format!("n:{}", r.u64_edgy() >> 1),
        4 | 5 => { let n = edgy_len(r, 300); format!("b:{}", hex(&r.bytes(n))) }
        6 => { let n = edgy_len(r, 80); let s: String = (0..n).map(|_| *r.pick(&['a', 'Z', '0', ' ', 'é', '√', '\u{1F600}'])).collect(); format!("t:{}", hex(s.as_bytes())) }
        7 => format!("a:{}", r.u64_edgy()),
        8 => format!("m:{}", r.u64_edgy()),
        9 => format!("g:{}", r.u64_edgy()),
        10 => (*r.pick(&["T", "F", "N"])).to_string(),
        11 => (*r.pick(&["ia", "im", "ib", "brk"])).to_string(),
        _ => { let n = *r.pick(&[20usize, 28, 32, 32, 28]); format!("h:{}", hex(&r.bytes(n))) }
    }
}

// ------------------------------------------------------------------ generator

fn edgy_len(r: &mut Rng, max: usize) -> usize {
    const E: [usize; 22] = [0, 1, 2, 23, 24, 31, 32, 33, 63, 64, 65, 127, 128, 129, 254, 255, 256, 257, 383, 384, 385, 512];
    let n = if r.chance(1, 2) { *r.pick(&E) } else { r.below(max as u64 + 1) as usize };
    n.min(max)
}

/// split `data` into chunks: random cut points, some empty chunks, some cuts exactly at block boundaries
fn split(r: &mut Rng, data: &[u8]) -> Vec<Vec<u8>> {
    let mut cuts: Vec<usize> = vec![];
    let k = r.below(7) as usize;
    for _ in 0..k {
        let c = match r.below(4) {
            0 => (r.below(data.len() as u64 / 128 + 1) as usize) * 128,
            1 => ((r.below(data.len() as u64 / 128 + 1) as usize) * 128).saturating_add(*r.pick(&[1usize, 127])),
            _ => r.below(data.len() as u64 + 1) as usize,
        };
        cuts.push(c.min(data.len()));
    }
    if r.chance(1, 4) { if let Some(&c) = cuts.first() { cuts.push(c); } } // empty chunk
    cuts.sort();
    let mut res = vec![];
    let mut prev = 0;
    for c in cuts { res.push(data[prev..c].to_vec()); prev = c; }
    res.push(data[prev..].to_vec());
    res
}

fn hex_string_case(r: &mut Rng, b: &[u8]) -> String {
    let s = hex::encode(b);
    match r.below(3) { 0 => s, 1 => s.to_uppercase(), _ => s.chars().map(|c| if r.chance(1, 2) { c.to_ascii_uppercase() } else { c }).collect() }
}

fn cbor_bytes_head(r: &mut Rng, len: usize, minimal: bool) -> Vec<u8> {
    let widths: &[u8] = if minimal { &[0] } else { &[0, 1, 2, 4, 8] };
    let mut w = *r.pick(widths);
    let min_w = if len < 24 { 0 } else if len < 256 { 1 } else if len < 65536 { 2 } else { 4 };
    if w < min_w { w = min_w; }
    let mut v = vec![];
    match w {
        0 => v.push(0x40 + len as u8),
        1 => { v.push(0x58); v.push(len as u8); }
        2 => { v.push(0x59); v.extend((len as u16).to_be_bytes()); }
        4 => { v.push(0x5a); v.extend((len as u32).to_be_bytes()); }
        _ => { v.push(0x5b); v.extend((len as u64).to_be_bytes()); }
    }
    v
}

pub fn generate(g: &mut Gen) {
    let max_total = if g.thorough() { 16384 } else { 4096 };
    g.case(vec!["selftest".to_string()]);
    // EXHAUSTIVE small domains, every run ------------------------------------------------------------
    // every tag byte (one short message, 256-bit digest)
    { let m = g.rng.bytes(40); g.case((0..256).map(|t| format!("tagged 256 {} {}", t, hex(&m))).collect::<Vec<_>>()); }
    for n in [28usize, 32] {
        // every byte-string length 0..=66 through CBOR decode (minimal and 1-byte-length heads), From<&[u8]>, and
        // every hex-string length 0..=2n+3 through FromStr
        let mut ops = vec![];
        for len in 0..=66usize {
            let body = g.rng.bytes(len);
            let mut e = if len < 24 { vec![0x40 + len as u8] } else { vec![0x58, len as u8] };
            e.extend(&body);
            ops.push(format!("dec {} {}", n, hex(&e)));
            if len < 24 { let mut e2 = vec![0x58, len as u8]; e2.extend(&body); ops.push(format!("dec {} {}", n, hex(&e2))); }
            ops.push(format!("fromslice {} {}", n, hex(&body)));
        }
        for chars in 0..=(2 * n + 3) {
            let s: String = (0..chars).map(|_| *g.rng.pick(&['0', '9', 'a', 'f', 'A', 'F', '5', 'c'])).collect();
            ops.push(format!("fromstr {} {}", n, hex(s.as_bytes())));
        }
        g.case(ops);
    }
    // every possible first byte of the CBOR input, with no / short / ample following bytes
    { let tail = g.rng.bytes(40);
      let mut ops = vec![];
      for b in 0..=255u8 {
          ops.push(format!("dec 32 {:02x}", b));
          ops.push(format!("dec 32 {:02x}{}", b, hex(&tail[..2])));
          ops.push(format!("dec 32 {:02x}{}", b, hex(&tail)));
      }
      g.case(ops); }
    // every VRF-output length 0..=70 and 128 for the rolling nonce
    { let prev = g.rng.bytes(32);
      let mut ops: Vec<String> = (0..=70usize).chain(std::iter::once(128)).map(|l| { let v = g.rng.bytes(l); format!("rolling {} {}", hex(&prev), hex(&v)) }).collect();
      ops.push(format!("epoch {} {} -", hex(&prev), hex(&prev)));
      g.case(ops); }
    for i in 0..g.cases {
        let mut ops = vec![];
        let r = &mut g.rng;
        let bits = *r.pick(&[160u64, 224, 256, 256]);
        // 1. chunked hashing
        let total = match r.below(4) { 0 => edgy_len(r, max_total), 1 => r.below(600) as usize, 2 => (r.below(max_total as u64 / 128 + 1) as usize) * 128, _ => r.below(max_total as u64 + 1) as usize };
        let data = r.bytes(total);
        let chunks = split(r, &data);
        ops.push(format!("chunks {} {}", bits, chunks.iter().map(|c| hex(c)).collect::<Vec<_>>().join(" ")).trim_end().to_string());
        ops.push(format!("hash {} {}", bits, hex(&data)));
        // 2. tagged: every tag byte comes up (i mod 256)
        let n = edgy_len(r, 300);
        ops.push(format!("tagged {} {} {}", *r.pick(&[160u64, 224, 256]), i % 256, hex(&r.bytes(n))));
        // 3. CBOR values
        let nt = r.below(12) as usize;
        let toks: Vec<String> = (0..nt).map(|_| gen_tok(r)).collect();
        let tag = if r.chance(1, 2) { "-".to_string() } else { r.below(256).to_string() };
        ops.push(format!("cbor {} {} {}", *r.pick(&[224u64, 256, 160]), tag, toks.join(" ")).trim_end().to_string());
        // 4. hex codec
        let n = *r.pick(&[20usize, 28, 32, 32, 28, 4, 1, 0, 64]);
        let h = r.bytes(n);
        ops.push(format!("tohex {}", hex(&h)));
        let s: String = match r.below(8) {
            0..=2 => hex_string_case(r, &h),
            3 => { let m = r.below(66) as usize; let b = r.bytes(m); hex_string_case(r, &b) }               // wrong (or right) length 0..65
            4 => { let mut s = hex_string_case(r, &h); s.pop(); s }                                   // odd
            5 => { let mut s = hex_string_case(r, &h); if !s.is_empty() { let k = r.below(s.len() as u64) as usize; s.replace_range(k..k + 1, *r.pick(&["g", "G", " ", "x", "-", "/", ":", "@", "`"])); } s }
            6 => { let mut s = hex_string_case(r, &h); if s.len() >= 2 { s.replace_range(0..2, "é"); } s } // non-ASCII, same byte length
            _ => { let mut s = hex_string_case(r, &h); s.push_str(*r.pick(&["0", "00", "0a0", "ff"])); s }
        };
        ops.push(format!("fromstr {} {}", n, hex(s.as_bytes())));
        // serde: Serialize = the hex string, Deserialize = FromStr on a JSON string
        ops.push(format!("serde {}", hex(&h)));
        let json = match r.below(6) { 0 => "null".to_string(), 1 => r.below(1000).to_string(), 2 => format!("\"{}", s), _ => format!("\"{}\"", s) };
        ops.push(format!("deserde {} {}", n, hex(json.as_bytes())));
        // 5. CBOR codec
        ops.push(format!("enc {}", hex(&h)));
        let len = match r.below(4) { 0 => n, 1 => r.below(65) as usize, 2 => n + 1, _ => n.saturating_sub(1) };
        let body = r.bytes(len);
        let mut enc: Vec<u8> = match r.below(10) {
            0..=4 => { let minimal = r.chance(1, 2); let mut v = cbor_bytes_head(r, len, minimal); v.extend(&body); v }
            5 => { let mut v = vec![0x5f]; v.extend(cbor_bytes_head(r, len, true)); v.extend(&body); v.push(0xff); v } // indefinite
            6 => { let mut v = vec![*r.pick(&[0x00u8, 0x18, 0x38, 0x39, 0x3a, 0x3b, 0x60, 0x78, 0x80, 0xa0, 0xc2, 0xf6, 0xff, 0x5c, 0x5d, 0x5e, 0x7f, 0x9f, 0x1c, 0xfc])]; v.extend(&body[..len.min(3)]); v }
            7 => r.bytes(len.min(6)),
            _ => { let mut v = cbor_bytes_head(r, len, false); v.extend(&body); let cut = r.below(v.len() as u64 + 1) as usize; v.truncate(cut); v } // truncated
        };
        if r.chance(1, 5) { enc.extend(r.bytes(3)); } // trailing bytes are not the decoder's business
        ops.push(format!("dec {} {}", n, hex(&enc)));
        ops.push(format!("fromslice {} {}", n, hex(&body)));
        // 6. nonces
        let (nc, nh) = (r.bytes(32), r.bytes(32));
        let extra = match r.below(4) { 0 | 1 => "none".to_string(), 2 => hex(&r.bytes(32)), _ => { let m = edgy_len(r, 200); hex(&r.bytes(m)) } };
        ops.push(format!("epoch {} {} {}", hex(&nc), hex(&nh), extra));
        let vl = match r.below(6) { 0 | 1 => 32, 2 | 3 => 64, 4 => *r.pick(&[0usize, 31, 33, 63, 65, 128]), _ => r.below(100) as usize };
        ops.push(format!("rolling {} {}", hex(&r.bytes(32)), hex(&r.bytes(vl))));
        g.case(ops);
    }
    // the repo's own rolling-nonce chain start (shelley genesis hash, first VRF output) as a fixed case
    g.case(vec!["rolling 1a3be38bcbb7911969283716ad7aa550250226b76a61fc51cc9a9a35d9276d81 36ec5378d1f5041a59eb8d96e61de96f0950fb41b49ff511f7bc7fd109d4383e1d24be7034e6749c6612700dd5ceb0c66577b88a19ae286b1321d15bce1ab736".to_string(),
        "epoch e86e133bd48ff5e79bec43af1ac3e348b539172f33e502d2c96735e8c51bd04d d7a1ff2a365abed59c9ae346cba842b6d3df06d055dba79a113e0704b44cc3e9 none".to_string(),
        "epoch d1340a9c1491f0face38d41fd5c82953d0eb48320d65e952414a0c5ebaf87587 ee91d679b0a6ce3015b894c575c799e971efac35c7a8cbdc2b3f579005e69abd d982e06fd33e7440b43cefad529b7ecafbaa255e38178ad4189a37e4ce9bf1fa".to_string()]);
}

// ------------------------------------------------------------------ run + oracle

/// independent reading of "a definite-length CBOR byte string at the start of `b`"
fn definite_bytes(b: &[u8]) -> Option<&[u8]> {
    let first = *b.first()?;
    if first >> 5 != 2 { return None; }
    let (len, off): (u64, usize) = match first & 31 {
        n @ 0..=23 => (n as u64, 1),
        24 => (*b.get(1)? as u64, 2),
        25 => (u16::from_be_bytes(b.get(1..3)?.try_into().ok()?) as u64, 3),
        26 => (u32::from_be_bytes(b.get(1..5)?.try_into().ok()?) as u64, 5),
        27 => (u64::from_be_bytes(b.get(1..9)?.try_into().ok()?), 9),
        _ => return None,
    };
    let end = off.checked_add(usize::try_from(len).ok()?)?;
    b.get(off..end)
}

const VECTORS: [(u64, &[u8], &str); 5] = [
    (256, b"", "0e5751c026e543b2e8ab2eb06099daa1d1e5df47778f7787faab45cdf12fe3a8"),
    (256, b"abc", "bddd813c634239723171ef3fee98579b94964e3bb1cb3e427262c8c068d52319"),
    (224, b"", "836cc68931c2e4e3e838602eca1902591d216837bafddfe6f0c8cb07"),
    (160, b"", "3345524abf6bbe1809449224b5972c41790b6cf2"),
    (256, b"My transaction", "0d8d00cdd4657ac84d82f0a56067634a7adfdf43da41cb534bcaa45060973d21"),
];

pub fn run_case(case: &Case, out: &mut Out) {
    let mut crossing = false;
    for op in &case.ops {
        let a = |i: usize| op.get(i).map(|s| s.as_str()).unwrap_or("");
        let num = |i: usize| a(i).parse::<u64>().ok();
        match a(0) {
            "selftest" => {
                let mut ok = true;
                for (bits, inp, want) in VECTORS {
                    let got = one_shot(bits, inp).map(|d| hex::encode(d));
                    if got.as_deref() != Some(want) { ok = false; out.viol(format!("rfc-vector bits={bits}"), format!("input {:?}: {:?} expected {}", inp, got, want)); }
                    if hex::encode(ref_blake2b(bits as usize / 8, inp)) != want { ok = false; out.viol("oracle-selftest", "harness reference BLAKE2b disagrees with a published vector"); }
                }
                out.ok(ok.to_string());
            }
            "chunks" => {
                let Some(bits) = num(1) else { out.reply("bad-op".into()); continue };
                let chunks: Option<Vec<Vec<u8>>> = op[2..].iter().map(|s| unhex(s)).collect();
                let Some(chunks) = chunks else { out.reply("bad-op".into()); continue };
                let cs = chunks.clone();
                match guard(move || feed(bits, &cs)) {
                    Some(Some(d)) => {
                        let all: Vec<u8> = chunks.concat();
                        let want = ref_blake2b(bits as usize / 8, &all);
                        if d != want {
                            out.viol(format!("chunked-digest bits={bits}"), format!("{} chunks, {} bytes: {} but RFC 7693 digest of the concatenation is {}", chunks.len(), all.len(), hex(&d), hex(&want)));
                        }
                        if one_shot(bits, &all).as_deref() != Some(&d[..]) { out.viol(format!("split-dependence bits={bits}"), format!("{} chunks, {} bytes", chunks.len(), all.len())); }
                        if all.len() > 128 && chunks.iter().filter(|c| !c.is_empty()).count() >= 2 { crossing = true; out.cov("multi-chunk>128"); }
                        if chunks.iter().any(|c| c.is_empty()) { out.cov("empty-chunk"); }
                        if all.len() % 128 == 0 && !all.is_empty() { out.cov("total-multiple-of-128"); }
                        out.ok(hex(&d));
                    }
                    Some(None) => out.reply("bad-op".into()),
                    None => out.panic(),
                }
            }
            "hash" => {
                let (Some(bits), Some(d)) = (num(1), unhex(a(2))) else { out.reply("bad-op".into()); continue };
                let d2 = d.clone();
                match guard(move || one_shot(bits, &d2)) {
                    Some(Some(h)) => {
                        let want = ref_blake2b(bits as usize / 8, &d);
                        if h != want { out.viol(format!("digest bits={bits}"), format!("{} bytes: {} expected {}", d.len(), hex(&h), hex(&want))); }
                        out.ok(hex(&h));
                    }
                    Some(None) => out.reply("bad-op".into()),
                    None => out.panic(),
                }
            }
            "tagged" => {
                let (Some(bits), Some(tag), Some(d)) = (num(1), num(2), unhex(a(3))) else { out.reply("bad-op".into()); continue };
                let d2 = d.clone();
                match guard(move || tagged(bits, &d2, tag as u8)) {
                    Some(Some(h)) => {
                        let mut pre = vec![tag as u8]; pre.extend(&d);
                        let want = ref_blake2b(bits as usize / 8, &pre);
                        if h != want { out.viol(format!("tagged-digest bits={bits}"), format!("tag {} + {} bytes: {} expected digest of tag||bytes {}", tag, d.len(), hex(&h), hex(&want))); }
                        out.ok(hex(&h));
                    }
                    Some(None) => out.reply("bad-op".into()),
                    None => out.panic(),
                }
            }
            "cbor" => {
                let Some(bits) = num(1) else { out.reply("bad-op".into()); continue };
                let tag = if a(2) == "-" { None } else { num(2).map(|t| t as u8) };
                let toks: Option<Vec<T>> = op[3..].iter().map(|s| parse_tok(s)).collect();
                let Some(toks) = toks else { out.reply("bad-op".into()); continue };
                let v = Toks(toks);
                match guard_mut(|| cbor(bits, &v, tag)) {
                    Some(Some(h)) => {
                        let mut pre: Vec<u8> = tag.into_iter().collect();
                        pre.extend(minicbor::to_vec(&v).unwrap());
                        let want = ref_blake2b(bits as usize / 8, &pre);
                        if h != want { out.viol(format!("cbor-digest bits={bits} tagged={}", tag.is_some()), format!("{:?}: {} expected digest of [tag]||cbor {}", v.0, hex(&h), hex(&want))); }
                        out.ok(hex(&h));
                    }
                    Some(None) => out.reply("bad-op".into()),
                    None => out.panic(),
                }
            }
            "tohex" => {
                let Some(b) = unhex(a(1)) else { out.reply("bad-op".into()); continue };
                match with_size!(b.len(), to_hex, &b) {
                    Some(s) => {
                        // round trip through FromStr
                        let back = with_size!(b.len(), from_str, &s);
                        if back != Some(Ok(b.clone())) { out.viol(format!("hex-roundtrip n={}", b.len()), format!("{} printed as {} parses to {:?}", hex(&b), s, back)); }
                        out.ok(hex(s.as_bytes()));
                    }
                    None => out.reply("bad-op".into()),
                }
            }
            "fromstr" => {
                let (Some(n), Some(sb)) = (num(1), unhex(a(2))) else { out.reply("bad-op".into()); continue };
                let Ok(s) = String::from_utf8(sb.clone()) else { out.reply("bad-op".into()); continue };
                match with_size!(n as usize, from_str, &s) {
                    Some(Ok(h)) => {
                        if sb.len() != 2 * n as usize || h.len() != n as usize { out.viol(format!("hex-wrong-length-accepted n={n}"), format!("{:?} ({} chars) accepted as Hash<{}>", s, sb.len(), n)); }
                        else if hex::encode(&h) != s.to_lowercase() { out.viol(format!("hex-value n={n}"), format!("{:?} parsed to {}", s, hex(&h))); }
                        out.cov("fromstr-ok");
                        out.ok(hex(&h));
                    }
                    Some(Err(c)) => {
                        let valid = sb.len() == 2 * n as usize && sb.iter().all(|c| c.is_ascii_hexdigit());
                        if valid { out.viol(format!("hex-valid-rejected n={n}"), format!("{:?} rejected ({c})", s)); }
                        out.err(c);
                    }
                    None => out.reply("bad-op".into()),
                }
            }
            "serde" => {
                let Some(b) = unhex(a(1)) else { out.reply("bad-op".into()); continue };
                match with_size!(b.len(), ser, &b) {
                    Some(j) => {
                        if j != format!("\"{}\"", hex::encode(&b)) { out.viol(format!("serde-serialize n={}", b.len()), format!("{} -> {}", hex(&b), j)); }
                        if with_size!(b.len(), deser, &j) != Some(Some(b.clone())) { out.viol(format!("serde-roundtrip n={}", b.len()), format!("{} -> {}", hex(&b), j)); }
                        out.ok(hex(j.as_bytes()));
                    }
                    None => out.reply("bad-op".into()),
                }
            }
            "deserde" => {
                let (Some(n), Some(jb)) = (num(1), unhex(a(2))) else { out.reply("bad-op".into()); continue };
                let Ok(j) = String::from_utf8(jb.clone()) else { out.reply("bad-op".into()); continue };
                match with_size!(n as usize, deser, &j) {
                    Some(Some(h)) => {
                        if jb.len() != 2 * n as usize + 2 || h.len() != n as usize { out.viol(format!("serde-wrong-length-accepted n={n}"), format!("{} accepted as Hash<{}>", j, n)); }
                        out.cov("deserde-ok");
                        out.ok(hex(&h));
                    }
                    Some(None) => {
                        let inner_ok = jb.len() == 2 * n as usize + 2 && jb[0] == b'"' && jb[jb.len() - 1] == b'"' && jb[1..jb.len() - 1].iter().all(|c| c.is_ascii_hexdigit());
                        if inner_ok { out.viol(format!("serde-valid-rejected n={n}"), j.clone()); }
                        out.err("invalid");
                    }
                    None => out.reply("bad-op".into()),
                }
            }
            "enc" => {
                let Some(b) = unhex(a(1)) else { out.reply("bad-op".into()); continue };
                match with_size!(b.len(), enc, &b) {
                    Some(e) => {
                        let back = with_size!(b.len(), dec, &e);
                        if back != Some(Ok(b.clone())) { out.viol(format!("cbor-roundtrip n={}", b.len()), format!("{} encoded as {} decodes to {:?}", hex(&b), hex(&e), back)); }
                        if definite_bytes(&e) != Some(&b[..]) { out.viol(format!("cbor-encoding n={}", b.len()), format!("{} encoded as {}", hex(&b), hex(&e))); }
                        out.ok(hex(&e));
                    }
                    None => out.reply("bad-op".into()),
                }
            }
            "dec" => {
                let (Some(n), Some(b)) = (num(1), unhex(a(2))) else { out.reply("bad-op".into()); continue };
                let b2 = b.clone();
                match guard(move || with_size!(n as usize, dec, &b2)) {
                    Some(Some(r)) => {
                        let wf = definite_bytes(&b);
                        match (&r, wf) {
                            (Ok(h), Some(p)) if p.len() == n as usize && p == &h[..] => out.cov("dec-ok"),
                            (Ok(h), _) => out.viol(format!("cbor-wrong-length-accepted n={n}"), format!("{} decoded to {} ({} bytes)", hex(&b), hex(h), h.len())),
                            (Err(c), Some(p)) if p.len() == n as usize => out.viol(format!("cbor-valid-rejected n={n}"), format!("{} rejected ({c})", hex(&b))),
                            (Err(c), Some(_)) => out.cov(format!("dec-wrong-length-{c}")),
                            (Err(_), None) => out.cov("dec-malformed"),
                        }
                        match r { Ok(h) => out.ok(hex(&h)), Err(c) => out.err(c) }
                    }
                    Some(None) => out.reply("bad-op".into()),
                    None => { out.viol(format!("cbor-decode-panic n={n}"), hex(&b)); out.panic() }
                }
            }
            "fromslice" => {
                let (Some(n), Some(b)) = (num(1), unhex(a(2))) else { out.reply("bad-op".into()); continue };
                match with_size!(n as usize, from_slice, &b) {
                    Some(Some(h)) => {
                        if b.len() != n as usize || h != b { out.viol(format!("from-slice n={n}"), format!("{} bytes accepted as Hash<{}>", b.len(), n)); }
                        out.ok(hex(&h));
                    }
                    Some(None) => {
                        if b.len() == n as usize { out.viol(format!("from-slice-panic n={n}"), hex(&b)); }
                        out.panic();
                    }
                    None => out.reply("bad-op".into()),
                }
            }
            "epoch" => {
                let (Some(nc), Some(nh)) = (unhex(a(1)), unhex(a(2))) else { out.reply("bad-op".into()); continue };
                if nc.len() != 32 || nh.len() != 32 { out.reply("bad-op".into()); continue; }
                let extra = if a(3) == "none" { None } else { unhex(a(3)) };
                let (nc2, nh2, ex2) = (nc.clone(), nh.clone(), extra.clone());
                match guard(move || generate_epoch_nonce(Hash::<32>::from(&nc2[..]), Hash::<32>::from(&nh2[..]), ex2.as_deref()).to_vec()) {
                    Some(h) => {
                        // Praos: (nc ⭒ nh) [⭒ extra], a ⭒ b = blake2b_256(a || b)
                        let mut want = ref_blake2b(32, &[nc.clone(), nh.clone()].concat());
                        if let Some(e) = &extra { want = ref_blake2b(32, &[want, e.clone()].concat()); }
                        if h != want { out.viol(format!("epoch-nonce extra={}", extra.is_some()), format!("{} expected {}", hex(&h), hex(&want))); }
                        out.cov(if extra.is_some() { "epoch-extra" } else { "epoch-plain" });
                        out.ok(hex(&h));
                    }
                    None => out.panic(),
                }
            }
            "rolling" => {
                let (Some(prev), Some(vrf)) = (unhex(a(1)), unhex(a(2))) else { out.reply("bad-op".into()); continue };
                if prev.len() != 32 { out.reply("bad-op".into()); continue; }
                let (p2, v2) = (prev.clone(), vrf.clone());
                match guard(move || generate_rolling_nonce(Hash::<32>::from(&p2[..]), &v2).to_vec()) {
                    Some(h) => {
                        let want = ref_blake2b(32, &[prev.clone(), ref_blake2b(32, &vrf)].concat());
                        if h != want { out.viol(format!("rolling-nonce vrf-len={}", vrf.len()), format!("{} expected {}", hex(&h), hex(&want))); }
                        if vrf.len() != 32 && vrf.len() != 64 { out.viol(format!("rolling-nonce-accepts-len vrf-len={}", vrf.len()), "documented to panic unless 32 or 64 bytes"); }
                        out.cov(format!("rolling-{}", vrf.len()));
                        out.ok(hex(&h));
                    }
                    None => {
                        if vrf.len() == 32 || vrf.len() == 64 { out.viol(format!("rolling-nonce-panic vrf-len={}", vrf.len()), hex(&vrf)); }
                        out.cov("rolling-panic");
                        out.panic();
                    }
                }
            }
            _ => out.reply("bad-op".into()),
        }
    }
    if crossing { out.nontrivial(); }
}
