//! stream `negotiate` — C25: the two real handshake responders on generated version-table pairs.
//!   entry = v:magic:initiatorOnly:peerSharing:query (decimal; v, magic over the full u64 range; peerSharing 256 = None, query 2 = None)
//!   n1 ours <entry>* theirs <entry>*                 pallas-network `handshake::Server::handshake` over a real
//!        multiplexer: the peer writes `Propose(theirs)`, the server runs `handshake(ours)`, the reply is
//!        read off the wire
//!   n2 ours … theirs …                               pallas-network2 `HandshakeResponder` (through
//!        `ResponderState::apply_msg(Propose)` + `visit_inbound_msg`), reply = the `Send` it queues
//! The tables go into real `HashMap`s (random iteration order per process), the Lean model sees the
//! order written in the op — so every run also samples order independence.
//! Oracle (independent): computed here from the two tables as sets — an `Accept(v, d)` needs v in both,
//! v = max of the common versions, equal magics, d = our data for v; disjoint tables need
//! `Refuse(VersionMismatch(l))` with l = our versions as a set.
use crate::fw::*;
use pallas_codec::minicbor;
use pallas_network::miniprotocols::handshake as hs1;
use pallas_network::multiplexer::{Bearer, Demuxer, Muxer, Plexer};
use pallas_network2::behavior::responder::handshake::{HandshakeResponder, HandshakeResponderConfig};
use pallas_network2::behavior::responder::{ResponderPeerVisitor, ResponderState};
use pallas_network2::behavior::AnyMessage;
use pallas_network2::protocol::handshake as hs2;
use pallas_network2::{BehaviorOutput, InterfaceCommand, OutboundQueue, PeerId};
use std::collections::HashMap;
use std::time::Duration;

pub const NAME: &str = "negotiate";

#[derive(Clone, Copy, PartialEq, Debug)]
struct Ent { v: u64, magic: u64, init: u64, ps: u64, q: u64 }

fn parse(op: &[String]) -> Option<(Vec<Ent>, Vec<Ent>)> {
    if op.get(1).map(|s| s.as_str()) != Some("ours") { return None; }
    let split = op.iter().position(|s| s == "theirs")?;
    let ent = |s: &String| -> Option<Ent> {
        let p: Vec<&str> = s.split(':').collect();
        if p.len() != 5 { return None; }
        Some(Ent { v: p[0].parse().ok()?, magic: p[1].parse().ok()?, init: p[2].parse().ok()?, ps: p[3].parse().ok()?, q: p[4].parse().ok()? })
    };
    let ours: Option<Vec<Ent>> = op[2..split].iter().map(ent).collect();
    let theirs: Option<Vec<Ent>> = op[split + 1..].iter().map(ent).collect();
    Some((ours?, theirs?))
}

#[derive(Debug, PartialEq)]
enum Reply { Accept(u64, Ent), Refused(u64), Mismatch(Vec<u64>), Other(String) }

// ------------------------------------------------------------------------------------------ stack 1
fn opt_ps(e: &Ent) -> Option<u8> { if e.ps >= 256 { None } else { Some(e.ps as u8) } }
fn opt_q(e: &Ent) -> Option<bool> { match e.q { 0 => Some(false), 1 => Some(true), _ => None } }
/// stack 1 is generic in the version data; the N2N data has all four compared fields
fn vd1(e: &Ent) -> hs1::n2n::VersionData { hs1::n2n::VersionData::new(e.magic, e.init == 1, opt_ps(e), opt_q(e)) }
fn ent1(v: u64, d: &hs1::n2n::VersionData) -> Ent {
    Ent { v, magic: d.network_magic, init: d.initiator_only_diffusion_mode as u64, ps: d.peer_sharing.map_or(256, |x| x as u64), q: d.query.map_or(2, |x| x as u64) }
}
fn table1(es: &[Ent]) -> hs1::VersionTable<hs1::n2n::VersionData> { hs1::VersionTable { values: es.iter().map(|e| (e.v, vd1(e))).collect::<HashMap<_, _>>() } }

async fn run_n1(ours: &[Ent], theirs: &[Ent]) -> Result<(Reply, Option<u64>), String> {
    let (a, b) = tokio::net::UnixStream::pair().map_err(|e| e.to_string())?;
    let mut plexer = Plexer::new(Bearer::Unix(a));
    let ch = plexer.subscribe_server(0);
    let mut server: hs1::Server<hs1::n2n::VersionData> = hs1::Server::new(ch);
    let _running = plexer.spawn();
    let (r, w) = Bearer::Unix(b).into_split();
    let (mut demux, mut mux) = (Demuxer::new(r), Muxer::new(w));
    let propose: hs1::Message<hs1::n2n::VersionData> = hs1::Message::Propose(table1(theirs));
    mux.mux((0, minicbor::to_vec(&propose).map_err(|e| e.to_string())?)).await.map_err(|_| "mux".to_string())?;
    let ret = tokio::time::timeout(Duration::from_secs(5), server.handshake(table1(ours))).await.map_err(|_| "timeout".to_string())?
        .map_err(|e| format!("{e:?}"))?;
    let (_, payload) = tokio::time::timeout(Duration::from_secs(5), demux.read_segment()).await.map_err(|_| "no-reply".to_string())?
        .map_err(|_| "read".to_string())?;
    let msg: hs1::Message<hs1::n2n::VersionData> = minicbor::decode(&payload).map_err(|e| e.to_string())?;
    let reply = match msg {
        hs1::Message::Accept(v, d) => Reply::Accept(v, ent1(v, &d)),
        hs1::Message::Refuse(hs1::RefuseReason::Refused(v, _)) => Reply::Refused(v),
        hs1::Message::Refuse(hs1::RefuseReason::VersionMismatch(l)) => Reply::Mismatch(l),
        other => Reply::Other(format!("{other:?}").chars().take(20).collect()),
    };
    Ok((reply, ret.map(|(v, _)| v)))
}

// ------------------------------------------------------------------------------------------ stack 2
fn vd2(e: &Ent) -> hs2::n2n::VersionData {
    hs2::n2n::VersionData { network_magic: e.magic, initiator_only_diffusion_mode: e.init == 1, peer_sharing: opt_ps(e), query: opt_q(e) }
}
fn ent2(v: u64, d: &hs2::n2n::VersionData) -> Ent {
    Ent { v, magic: d.network_magic, init: d.initiator_only_diffusion_mode as u64, ps: d.peer_sharing.map_or(256, |x| x as u64), q: d.query.map_or(2, |x| x as u64) }
}
fn table2(es: &[Ent]) -> hs2::VersionTable<hs2::n2n::VersionData> { hs2::VersionTable { values: es.iter().map(|e| (e.v, vd2(e))).collect::<HashMap<_, _>>() } }

fn run_n2(ours: &[Ent], theirs: &[Ent]) -> Result<(Reply, bool), String> {
    let mut responder = HandshakeResponder::new(HandshakeResponderConfig { supported_version: table2(ours) });
    let pid = PeerId { host: "10.0.0.1".into(), port: 3001 };
    let mut state = ResponderState::new();
    state.apply_msg(&AnyMessage::Handshake(hs2::Message::Propose(table2(theirs))));
    let mut outbound: OutboundQueue<pallas_network2::behavior::responder::ResponderBehavior> = OutboundQueue::new();
    responder.visit_inbound_msg(&pid, &mut state, &mut outbound);
    let mut reply = None;
    let mut n = 0;
    while let Some(Some(o)) = futures::FutureExt::now_or_never(outbound.poll_next()) {
        if let BehaviorOutput::InterfaceCommand(InterfaceCommand::Send(_, AnyMessage::Handshake(m))) = o {
            n += 1;
            reply = Some(match m {
                hs2::Message::Accept(v, d) => Reply::Accept(v, ent2(v, &d)),
                hs2::Message::Refuse(hs2::RefuseReason::Refused(v, _)) => Reply::Refused(v),
                hs2::Message::Refuse(hs2::RefuseReason::VersionMismatch(mut l)) => { l.sort(); Reply::Mismatch(l) }
                other => Reply::Other(format!("{other:?}").chars().take(20).collect()),
            });
        }
    }
    if n != 1 { return Err(format!("{n} handshake messages queued")); }
    Ok((reply.unwrap(), state.is_initialized()))
}

// ------------------------------------------------------------------------------------------ oracle
fn oracle(tag: &str, ours: &[Ent], theirs: &[Ent], reply: &Reply, out: &mut Out) {
    let common: Vec<u64> = ours.iter().map(|e| e.v).filter(|v| theirs.iter().any(|t| t.v == *v)).collect();
    let detail = format!("ours={:?} theirs={:?} reply={:?}", ours.iter().map(|e| (e.v, e.magic, e.init, e.ps, e.q)).collect::<Vec<_>>(),
                         theirs.iter().map(|e| (e.v, e.magic, e.init, e.ps, e.q)).collect::<Vec<_>>(), reply);
    match reply {
        Reply::Accept(v, d) => {
            let o = ours.iter().find(|e| e.v == *v);
            let t = theirs.iter().find(|e| e.v == *v);
            match (o, t) {
                (Some(o), Some(t)) => {
                    if common.iter().any(|w| w > v) { out.viol(format!("{tag}-accept-not-highest"), &detail); }
                    if o.magic != t.magic { out.viol(format!("{tag}-accept-magic-differs"), &detail); }
                    // the 64-bit values themselves are compared here: u64 `!=`, nothing narrower
                    if (o.magic, o.init, o.ps, o.q) != (d.magic, d.init, d.ps, d.q) { out.viol(format!("{tag}-accept-foreign-data"), &detail); }
                }
                _ => out.viol(format!("{tag}-accept-version-not-common"), &detail),
            }
        }
        Reply::Mismatch(l) => {
            let mut a = l.clone(); a.sort();
            let mut b: Vec<u64> = ours.iter().map(|e| e.v).collect(); b.sort();
            if common.is_empty() && a != b { out.viol(format!("{tag}-mismatch-list"), &detail); }
        }
        Reply::Refused(_) => {}
        Reply::Other(_) => out.viol(format!("{tag}-unexpected-reply"), &detail),
    }
    if common.is_empty() && !matches!(reply, Reply::Mismatch(_)) { out.viol(format!("{tag}-disjoint-not-mismatch"), &detail); }
}

fn show(r: &Reply) -> String {
    match r {
        Reply::Accept(v, d) => format!("ok accept {v} {}:{}:{}:{}", d.magic, d.init, d.ps, d.q),
        Reply::Refused(v) => format!("ok refused {v}"),
        Reply::Mismatch(l) => format!("ok mismatch [{}]", l.iter().map(|v| v.to_string()).collect::<Vec<_>>().join(" ")),
        Reply::Other(s) => format!("err {s}"),
    }
}

// ------------------------------------------------------------------------------------------ generator
const MAGICS: [u64; 6] = [764824073, 1, 2, 1097911063, 0, 4];

/// a value that agrees with `m` in its low 8 / 16 / 32 / 63 bits and differs above (every plausible narrowing)
fn collide(g: &mut Gen, m: u64) -> u64 {
    match g.rng.below(7) {
        0 => m.wrapping_add(1 << 32),
        1 => m.wrapping_add(1 << 16),
        2 => m.wrapping_add(1 << 8),
        3 => m ^ (1 << 63),
        4 => m.wrapping_add(g.rng.range(1, 0xffff_ffff) << 32),
        5 => m ^ (1 << 31) ^ (1 << 47),
        _ => m.wrapping_add(3 << 40),
    }
}

/// version numbers: small ones, the real N2N/N2C numbers, and numbers that collide with them under u8/u16/u32 narrowing
fn version_pool(g: &mut Gen) -> (Vec<u64>, Vec<u64>) {
    let lift = |xs: &[u64]| -> Vec<u64> {
        let mut v = xs.to_vec();
        for x in xs { v.extend([x + (1 << 8), x + (1 << 16), x + (1 << 32), x | (1 << 63)]); }
        v
    };
    match g.rng.below(7) {
        0 => ((1..=16).collect(), (17..=32).collect()),                                   // disjoint
        1 => ((7..=20).collect(), (7..=20).collect()),                                    // same pool
        2 => (vec![0, 1, 23, 24, 255, 256, 65535, 65536, 32783, 32784, u32::MAX as u64, 1 << 32, (1 << 63) - 1, 1 << 63, u64::MAX],
              vec![0, 24, 256, 65536, 32784, u64::MAX, 5, 1 << 32, 1 << 63]),
        3 => ((1..=8).collect(), (5..=12).collect()),
        4 => (lift(&[11, 12, 13, 14]), lift(&[12, 13, 14, 15])),                          // 13, 13+2^8, 13+2^16, 13+2^32, 13|2^63 side by side
        5 => (vec![13, 14], vec![13 + (1 << 16), 14 + (1 << 32), 13 + (1 << 8), 14 | (1 << 63)]), // disjoint as u64, equal when narrowed
        _ => ((10..=14).collect(), (9..=15).collect()),
    }
}

fn table(g: &mut Gen, n: usize, pool: &[u64], magics: &[u64]) -> Vec<Ent> {
    let mut vs: Vec<u64> = vec![];
    while vs.len() < n.min(pool.len()) {
        let v = *g.rng.pick(pool);
        if !vs.contains(&v) { vs.push(v); }
    }
    vs.into_iter().map(|v| {
        let mut magic = *g.rng.pick(magics);
        if g.rng.chance(1, 5) { magic = match g.rng.below(4) { 0 => u64::MAX, 1 => collide(g, magic), 2 => u32::MAX as u64, _ => (1 << 32) + magic }; }
        // (peer sharing, query) both present or both absent: the N2N codec of stack 1 only round-trips those
        let (ps, q) = if g.rng.chance(3, 4) { (*g.rng.pick(&[0u64, 1, 1, 255]), g.rng.below(2)) } else { (256, 2) };
        Ent { v, magic, init: g.rng.below(2), ps, q }
    }).collect()
}

pub fn generate(g: &mut Gen) {
    for i in 0..g.cases {
        let (pa, pb) = version_pool(g);
        let magics: &[u64] = if g.rng.chance(2, 3) { &MAGICS[..1] } else { &MAGICS[..] };
        let na = g.rng.range(0, 16) as usize;
        let nb = g.rng.range(0, 16) as usize;
        let mut ours = table(g, na, &pa, magics);
        let mut theirs = table(g, nb, &pb, magics);
        // often make the common versions agree completely, so that accepts are frequent
        if g.rng.chance(2, 3) { for t in theirs.iter_mut() { if let Some(o) = ours.iter().find(|o| o.v == t.v) { *t = *o; } } }
        // then spoil only the highest common one, in one field; for the magic mostly by a value that
        // collides with ours under a narrowing cast (low 8/16/32 bits equal, high bits different)
        if g.rng.chance(1, 3) {
            if let Some(top) = ours.iter().map(|e| e.v).filter(|v| theirs.iter().any(|t| t.v == *v)).max() {
                let om = ours.iter().find(|o| o.v == top).unwrap().magic;
                if let Some(t) = theirs.iter_mut().find(|t| t.v == top) {
                    match g.rng.below(8) {
                        0..=3 => t.magic = collide(g, om),
                        4 => t.magic = om ^ 1,
                        5 => t.init ^= 1,
                        6 => { if t.ps < 256 { t.ps = (t.ps + 1) % 256; } else { t.ps = 1; t.q = 0; } }
                        _ => { if t.q < 2 { t.q ^= 1; } else { t.ps = 0; t.q = 1; } }
                    }
                }
            }
        }
        if g.rng.chance(1, 2) { ours.reverse(); theirs.reverse(); }
        let fmt = |es: &[Ent]| es.iter().map(|e| format!(" {}:{}:{}:{}:{}", e.v, e.magic, e.init, e.ps, e.q)).collect::<String>();
        let stack = if i % 2 == 0 { "n1" } else { "n2" };
        g.case(vec![format!("{stack} ours{} theirs{}", fmt(&ours), fmt(&theirs))]);
    }
}

// ------------------------------------------------------------------------------------------ run
pub fn run_case(case: &Case, out: &mut Out) {
    let (mut acc, mut other) = (false, false);
    for op in &case.ops {
        let Some((ours, theirs)) = parse(op) else { out.reply("bad-op".into()); continue };
        match op[0].as_str() {
            "n1" => {
                let rt = tokio::runtime::Builder::new_current_thread().enable_all().build().expect("tokio runtime");
                let res = guard_mut(|| rt.block_on(run_n1(&ours, &theirs)));
                rt.shutdown_background();
                match res {
                    None => { out.viol("neg1-panic", format!("{:?}", op)); out.panic(); }
                    Some(Err(e)) => out.err(e.chars().take(30).collect::<String>().replace(' ', "_")),
                    Some(Ok((reply, ret))) => {
                        oracle("neg1", &ours, &theirs, &reply, out);
                        let accepted = if let Reply::Accept(v, _) = &reply { Some(*v) } else { None };
                        if accepted != ret { out.viol("neg1-return-differs-from-wire", format!("returned {:?}, sent {:?}", ret, reply)); }
                        if accepted.is_some() { acc = true; out.cov("n1:accept"); } else { other = true; out.cov(if matches!(reply, Reply::Refused(_)) { "n1:refused" } else { "n1:mismatch" }); }
                        out.reply(show(&reply));
                    }
                }
            }
            "n2" => match guard_mut(|| run_n2(&ours, &theirs)) {
                None => { out.viol("neg2-panic", format!("{:?}", op)); out.panic(); }
                Some(Err(e)) => out.err(e.replace(' ', "_")),
                Some(Ok((reply, initialized))) => {
                    oracle("neg2", &ours, &theirs, &reply, out);
                    let accepted = matches!(reply, Reply::Accept(..));
                    if accepted != initialized { out.viol("neg2-initialized-differs-from-reply", format!("initialized={initialized} reply={:?}", reply)); }
                    if accepted { acc = true; out.cov("n2:accept"); } else { other = true; out.cov(if matches!(reply, Reply::Refused(_)) { "n2:refused" } else { "n2:mismatch" }); }
                    out.reply(show(&reply));
                }
            },
            _ => out.reply("bad-op".into()),
        }
    }
    // a single negotiation per case: non-trivial = the tables overlap (the outcome depends on more than emptiness)
    let _ = other;
    if acc || case.ops.iter().any(|op| parse(op).map_or(false, |(o, t)| o.iter().any(|e| t.iter().any(|x| x.v == e.v)))) { out.nontrivial(); }
}
