//! stream `memsec` — C14: the real `pallas_crypto::memsec::{memeq, memcmp}` vs the BitVec-32 model.
//! Oracle (independent of the Lean model): `==` and `Ord::cmp` on the slices.
use crate::fw::*;
use pallas_crypto::memsec::{memcmp, memeq};
use std::cmp::Ordering;

pub const NAME: &str = "memsec";

fn show_ord(o: Ordering) -> &'static str {
    match o { Ordering::Less => "lt", Ordering::Equal => "eq", Ordering::Greater => "gt" }
}

fn real_eq(a: &[u8], b: &[u8]) -> Option<bool> {
    let (a, b) = (a.to_vec(), b.to_vec());
    guard(move || unsafe { memeq(a.as_ptr(), b.as_ptr(), a.len()) })
}
fn real_cmp(a: &[u8], b: &[u8]) -> Option<Ordering> {
    let (a, b) = (a.to_vec(), b.to_vec());
    guard(move || unsafe { memcmp(a.as_ptr(), b.as_ptr(), a.len()) })
}

fn rand_pair(g: &mut Gen) -> (Vec<u8>, Vec<u8>) {
    const LENS: [usize; 14] = [1, 2, 3, 4, 7, 8, 31, 32, 33, 63, 64, 65, 255, 257];
    let n = if g.rng.chance(1, 3) { *g.rng.pick(&LENS) } else { g.rng.range(1, 40) as usize };
    let a: Vec<u8> = match g.rng.below(4) {
        0 => (0..n).map(|_| *g.rng.pick(&[0u8, 1, 0x7f, 0x80, 0xfe, 0xff])).collect(),
        _ => g.rng.bytes(n),
    };
    let mut b = a.clone();
    match g.rng.below(8) {
        0 => {}                                    // equal
        1 => { b = g.rng.bytes(n); }               // unrelated
        _ => {
            // long common prefix: first difference at a chosen index, later bytes adversarial
            let i = match g.rng.below(3) { 0 => n - 1, 1 => 0, _ => g.rng.below(n as u64) as usize };
            let delta = *g.rng.pick(&[1u8, 0xff, 0x80, 0x7f, 2, 0xfe]);
            b[i] = b[i].wrapping_add(if g.rng.chance(1, 2) { delta } else { (g.rng.next() as u8) | 1 });
            for j in i + 1..n {
                match g.rng.below(4) {
                    0 => {}
                    1 => b[j] = !a[j],                                  // pulls the other way
                    2 => b[j] = if a[j] > b[j] { 0 } else { 255 },
                    _ => b[j] = g.rng.next() as u8,
                }
            }
        }
    }
    (a, b)
}

pub fn generate(g: &mut Gen) {
    // case 0: the documented panic + all 256 one-byte sweeps (= all 2^16 pairs of length 1)
    let mut ops = vec!["eq - -".to_string(), "cmp - -".to_string()];
    for a in 0..256u32 { ops.push(format!("sweep {:02x}", a)); }
    g.case(ops);
    // two-byte sweeps: each op = one `a` against all 2^16 `b`
    let nsweep = if g.thorough() { 1024 } else { 16 };
    let mut firsts: Vec<u16> = vec![0x0000, 0xffff, 0x00ff, 0xff00, 0x0100, 0x0001, 0x7f80, 0x807f, 0x8000, 0x0080];
    while firsts.len() < nsweep { firsts.push(g.rng.next() as u16); }
    for chunk in firsts.chunks(16) {
        g.case(chunk.iter().map(|a| format!("sweep {:04x}", a)));
    }
    // implementation-only exhaustive check of ALL pairs of length 2 sharing the first byte `a0`
    // (2^24 pairs per op, judged by the slice oracle; the model replies the pair count only)
    let exh: Vec<u8> = if g.thorough() { (0..=255u8).collect() } else { vec![0, 0xff, 0x80, g.rng.next() as u8] };
    for chunk in exh.chunks(32) {
        g.case(chunk.iter().map(|a| format!("exh2 {:02x}", a)));
    }
    // long buffers: lengths around and beyond 2^16 (a length counter narrower than usize would wrap here); the only
    // difference lies in the leading part (index 0, or anywhere before len - 65536), the tails are equal
    for &n in &[65535usize, 65536, 65537, 65552, 131073] {
        let a = g.rng.bytes(n);
        let mut ops = vec![];
        for lead in [0usize, (n - 1).saturating_sub(65536).min(n - 1)] {
            let mut b = a.clone();
            b[lead] = b[lead].wrapping_add(if g.rng.chance(1, 2) { 1 } else { 0xff });
            ops.push(format!("cmp {} {}", hex(&a), hex(&b)));
            ops.push(format!("eq {} {}", hex(&a), hex(&b)));
        }
        ops.push(format!("cmp {} {}", hex(&a), hex(&a)));
        g.case(ops);
    }
    for _ in 0..g.cases {
        let k = g.rng.range(1, 12);
        let mut ops = vec![];
        for _ in 0..k {
            let (a, b) = rand_pair(g);
            ops.push(format!("cmp {} {}", hex(&a), hex(&b)));
            ops.push(format!("eq {} {}", hex(&a), hex(&b)));
        }
        g.case(ops);
    }
}

fn check_pair(a: &[u8], b: &[u8], o: Option<Ordering>, e: Option<bool>, out: &mut Out) {
    if a.is_empty() { return; }
    if o != Some(a.cmp(b)) {
        out.viol("memcmp-vs-lex", format!("a={} b={} memcmp={:?} lexicographic={:?}", hex(a), hex(b), o, a.cmp(b)));
    }
    if e != Some(a == b) {
        out.viol("memeq-vs-eq", format!("a={} b={} memeq={:?} equal={}", hex(a), hex(b), e, a == b));
    }
}

pub fn run_case(case: &Case, out: &mut Out) {
    let (mut lt, mut gt, mut eq, mut prefix) = (false, false, false, false);
    for op in &case.ops {
        match (op[0].as_str(), op.len()) {
            ("eq", 3) | ("cmp", 3) => {
                let (Some(a), Some(b)) = (unhex(&op[1]), unhex(&op[2])) else { out.reply("bad-op".into()); continue };
                if a.len() != b.len() { out.reply("bad-op".into()); continue; }
                if op[0] == "eq" {
                    let r = real_eq(&a, &b);
                    if !a.is_empty() && r != Some(a == b) {
                        out.viol("memeq-vs-eq", format!("a={} b={} memeq={:?} equal={}", hex(&a), hex(&b), r, a == b));
                    }
                    match r { Some(v) => out.ok(if v { "true" } else { "false" }), None => out.panic() }
                } else {
                    let r = real_cmp(&a, &b);
                    if !a.is_empty() && r != Some(a.cmp(&b)) {
                        out.viol("memcmp-vs-lex", format!("a={} b={} memcmp={:?} lexicographic={:?}", hex(&a), hex(&b), r, a.cmp(&b)));
                    }
                    if a.len() >= 3 && a[0] == b[0] && a != b { prefix = true; }
                    match r {
                        Some(v) => { match v { Ordering::Less => lt = true, Ordering::Greater => gt = true, _ => eq = true }; out.ok(show_ord(v)) }
                        None => out.panic(),
                    }
                }
            }
            ("sweep", 2) => {
                let Some(a) = unhex(&op[1]) else { out.reply("bad-op".into()); continue };
                if a.is_empty() || a.len() > 2 { out.reply("bad-op".into()); continue; }
                let n = a.len();
                let (mut nlt, mut neq, mut ngt, mut ntrue, mut chk, mut bad) = (0u64, 0u64, 0u64, 0u64, 0u64, 0u64);
                let mut first_bad = true;
                for i in 0..(1u32 << (8 * n)) {
                    let b: Vec<u8> = (0..n).map(|j| (i >> (8 * (n - 1 - j))) as u8).collect();
                    let (o, e) = (real_cmp(&a, &b), real_eq(&a, &b));
                    if (o != Some(a.cmp(&b)) || e != Some(a == b)) && first_bad { check_pair(&a, &b, o, e, out); first_bad = false; }
                    match (o, e) {
                        (Some(o), Some(e)) => {
                            let c = match o { Ordering::Less => { nlt += 1; 0 } Ordering::Equal => { neq += 1; 1 } Ordering::Greater => { ngt += 1; 2 } } + if e { 3 } else { 0 };
                            if e { ntrue += 1; }
                            chk = (chk * 7 + c) % 1_000_000_007;
                        }
                        _ => bad += 1,
                    }
                }
                out.cov(format!("sweep-len{}", n));
                lt = true; gt = true; eq = true; prefix = true;
                out.ok(format!("{nlt} {neq} {ngt} {ntrue} {chk} {bad}"));
            }
            ("exh2", 2) => {
                let Some(a0) = unhex(&op[1]).filter(|v| v.len() == 1) else { out.reply("bad-op".into()); continue };
                let mut reported = 0;
                let mut n = 0u64;
                for a1 in 0..=255u8 {
                    let a = [a0[0], a1];
                    for i in 0..=65535u16 {
                        let b = i.to_be_bytes();
                        let (o, e) = guard(move || unsafe { (memcmp(a.as_ptr(), b.as_ptr(), 2), memeq(a.as_ptr(), b.as_ptr(), 2)) })
                            .map(|(o, e)| (Some(o), Some(e))).unwrap_or((None, None));
                        n += 1;
                        if (o != Some(a.cmp(&b)) || e != Some(a == b)) && reported < 1 { check_pair(&a, &b, o, e, out); reported += 1; }
                    }
                }
                out.cov("exh2-2^24-pairs");
                out.ok(n.to_string());
            }
            _ => out.reply("bad-op".into()),
        }
    }
    if lt { out.cov("lt"); }
    if gt { out.cov("gt"); }
    if eq { out.cov("eq"); }
    if prefix { out.cov("common-prefix-then-diff"); }
    // non-trivial: the case saw both a strict verdict and a pair that differs only after a common prefix
    if (lt || gt) && prefix { out.nontrivial(); }
}
