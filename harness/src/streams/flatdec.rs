//! stream `flatdec` — C02: arbitrary (mostly malformed) byte strings × every public decoder entry
//! point and sequences of them. Oracle: no call panics (the op runner in `flat.rs` reports a panic
//! as `!viol dec-panic <entry point>`); replies (value / error class / cursor) are diffed against the
//! Lean model.
use super::flat::{self, gen_dec_op, gen_val, Val};
use crate::fw::*;

pub const NAME: &str = "flatdec";

const ENTRY: [&str; 20] = ["d.string", "d.bool", "d.u8", "d.bits 0", "d.bits 1", "d.bits 3", "d.bits 7", "d.bits 8", "d.bits 9", "d.word", "d.int",
    "d.char", "d.bytes", "d.utf8", "d.bools", "d.filler", "d.bits 2", "d.bits 4", "d.bits 5", "d.bits 6"];

/// every entry point on a freshly loaded buffer, at bit offset `off`
fn all_entry_points(bytes: &[u8], off: usize) -> Vec<String> {
    let mut ops = vec![];
    for e in ENTRY {
        ops.push(format!("load {}", hex(bytes)));
        for _ in 0..off { ops.push("d.bool".into()); }
        ops.push(e.to_string());
        ops.push("d.end".into());
    }
    if off == 0 {
        for k in ["bool", "u8", "word", "int", "char", "bytes", "utf8"] { ops.push(format!("t.dec {k} {}", hex(bytes))); }
    }
    ops
}

fn structured(r: &mut Rng) -> Vec<u8> {
    match r.below(12) {
        0 => vec![],
        1 => { let n = r.range(1, 13) as usize; vec![0xff; n] }
        2 => { let n = r.range(1, 12) as usize; let mut v = vec![0xff; n]; v.push(*r.pick(&[0x00u8, 0x01, 0x02, 0x7f, 0x80])); v }
        3 => { let n = r.range(1, 12) as usize; let mut v = vec![0x80; n]; v.push(*r.pick(&[0x00u8, 0x01, 0x7f])); v }
        4 => { // block header promising more than there is
            let l = *r.pick(&[1u8, 2, 5, 254, 255]);
            let have = r.below(l as u64 + 2) as usize;
            let mut v = vec![0x01, l];
            v.extend(r.bytes(have));
            v
        }
        5 => { // well-formed block list with a damaged terminator / continuation
            let n = r.range(0, 300) as usize;
            let mut v = vec![0x01];
            let body = r.bytes(n);
            for c in body.chunks(255) { v.push(c.len() as u8); v.extend(c); }
            match r.below(3) { 0 => {} 1 => v.push(0), _ => v.push(r.range(1, 255) as u8) }
            v
        }
        6 | 7 => { // a valid encoding, truncated or with one byte changed
            let mut e = pallas_codec::flat::en::Encoder::new();
            for _ in 0..r.range(1, 4) {
                match gen_val(r, true) {
                    Val::Bool(b) => { e.bool(b); }
                    Val::U8(x) => { let _ = e.u8(x); }
                    Val::Bits(n, x) => { e.bits(n as i64, x); }
                    Val::Word(w) => { e.word(w); }
                    Val::Int(i) => { e.integer(i); }
                    Val::Char(c) => { e.char(char::from_u32(c).unwrap()); }
                    Val::Bytes(b) | Val::Utf8(b) => { let _ = e.bytes(&b); }
                    Val::Bools(l) => { for b in l { e.bool(true); e.bool(b); } e.bool(false); }
                    Val::Str(cs) => { let s: String = cs.iter().map(|c| char::from_u32(*c).unwrap()).collect(); e.string(&s); }
                    Val::Unit => {}
                }
            }
            let _ = e.encode(pallas_codec::flat::filler::Filler::FillerEnd);
            let mut v = e.buffer;
            if r.chance(1, 2) { let k = r.below(v.len() as u64 + 1) as usize; v.truncate(k); }
            else if !v.is_empty() { let k = r.below(v.len() as u64) as usize; v[k] ^= 1 << r.below(8); }
            v.truncate(200);
            v
        }
        8 => { let n = r.range(1, 8) as usize; vec![0x00; n] }
        9 => { // UTF-8 edge material inside a block
            let s: &[u8] = *r.pick(&[&[0xc0u8, 0x80][..], &[0xed, 0xa0, 0x80], &[0xf4, 0x90, 0x80, 0x80], &[0xe0, 0x9f, 0xbf], &[0xf0, 0x8f, 0xbf, 0xbf],
                &[0xc2], &[0xe2, 0x82], &[0xf0, 0x9d, 0x84], &[0x80], &[0xf5, 0x80, 0x80, 0x80], &[0xed, 0x9f, 0xbf], &[0xf4, 0x8f, 0xbf, 0xbf], &[0xef, 0xbf, 0xbf]]);
            let mut v = vec![0x01, s.len() as u8]; v.extend(s); v.push(0); v
        }
        _ => { let n = r.below(65) as usize; r.bytes(n) }
    }
}

pub fn generate(g: &mut Gen) {
    let mut made = 0usize;
    // exhaustive small domains: every byte string of length ≤ 1 (quick) / ≤ 2 (thorough) × every entry point
    let mut small: Vec<Vec<u8>> = vec![vec![]];
    for a in 0..=255u8 { small.push(vec![a]); }
    if g.thorough() { for a in 0..=255u8 { for b in 0..=255u8 { small.push(vec![a, b]); } } }
    for (k, s) in small.iter().enumerate() {
        g.case(all_entry_points(s, if s.len() == 2 { k % 8 } else { 0 }));
        made += 1;
    }
    // the three recorded witnesses, every start offset
    for off in 0..8 {
        g.case(all_entry_points(&[0xff; 11], off));
        g.case(all_entry_points(&[0xff, 0xff, 0xff, 0xff, 0xff, 0xff, 0xff, 0xff, 0xff, 0xff, 0x01], off));
        made += 2;
    }
    let target = made + g.cases;
    while made < target {
        made += 1;
        let b = structured(&mut g.rng);
        if g.rng.chance(1, 4) {
            let off = g.rng.below(8) as usize;
            g.case(all_entry_points(&b, off));
        } else {
            let mut ops = vec![format!("load {}", hex(&b))];
            for _ in 0..g.rng.range(1, 10) { ops.push(gen_dec_op(&mut g.rng)); }
            ops.push("d.end".into());
            g.case(ops);
        }
    }
}

pub fn run_case(case: &Case, out: &mut Out) {
    let o = flat::run_ops(case, out);
    if o.dec_ok >= 1 && o.dec_err >= 1 { out.nontrivial(); }
    if o.dec_ok >= 1 { out.cov("some-ok"); }
    if o.dec_err >= 1 { out.cov("some-err"); }
}
