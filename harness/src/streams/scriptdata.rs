//! stream `scriptdata` — C08: `LanguageViews` encoding, `ScriptData::hash`, `ScriptData::build_for`
//! against the Lean implementation (own encoder + BLAKE2b), plus a direct oracle of the ledger formula
//! evaluated with an independent canonical-CBOR writer and the *original* bytes of the witness set.
//!
//! Specs:  V := `none` | `views <n> (<lang> <k> <int>*k)*n`
//!         R := `none` | `L <n> (<tag> <idx> <PData> <mem> <steps>)*n` | `M <n> (…)*n`
//!         D := `none` | `raw <hex>` | `set <n> <PData>*n`
//! Ops: `views V`, `encr R`, `hash R D V`, `build <ws-hex> V [expected-hash]`,
//!      `txb <nin> (nored | red <k> <PData> <mem> <steps>) (nodat | dat <PData>) V` — pallas-txbuilder:
//!      `nin` inputs, optionally one spend redeemer on input `k` and one witness datum, language views
//!      -> script_data_hash of the built transaction (`none` | digest).
use super::pdata::{gen_value, parse as parse_pd, show_s};
use crate::fw::*;
use pallas_codec::minicbor;
use pallas_codec::utils::{KeepRaw, KeyValuePairs, MaybeIndefArray, NonEmptySet};
use pallas_crypto::hash::Hasher;
use pallas_primitives::conway::{LanguageViews, Redeemer, RedeemerTag, Redeemers, RedeemersKey, RedeemersValue, ScriptData, WitnessSet};
use pallas_primitives::{BigInt, ExUnits, PlutusData};
use std::collections::BTreeMap;
use pallas_txbuilder::{BuildConway, ExUnits as TxExUnits, Input, Output, StagingTransaction};

#[path = "../fixtures/cost_models.rs"]
mod cost_models;

pub const NAME: &str = "scriptdata";

// ---------------------------------------------------------------- parsed specs

type Views = Option<Vec<(u8, Vec<i64>)>>;
#[derive(Clone)]
struct Rd { tag: u8, index: u32, data: PlutusData, mem: u64, steps: u64 }
enum Rs { List(Vec<Rd>), Map(Vec<Rd>) }
enum Ds { Raw(Vec<u8>), Set(Vec<PlutusData>) }

fn next<'a>(t: &'a [String], pos: &mut usize) -> Option<&'a str> { let s = t.get(*pos)?; *pos += 1; Some(s.as_str()) }

fn parse_views(t: &[String], pos: &mut usize) -> Option<Views> {
    match next(t, pos)? {
        "none" => Some(None),
        "views" => {
            let n: usize = next(t, pos)?.parse().ok()?;
            let mut es = vec![];
            for _ in 0..n {
                let lang: u8 = next(t, pos)?.parse().ok()?;
                let k: usize = next(t, pos)?.parse().ok()?;
                let mut cm = vec![];
                for _ in 0..k { cm.push(next(t, pos)?.parse::<i64>().ok()?); }
                es.push((lang, cm));
            }
            Some(Some(es))
        }
        _ => None,
    }
}
fn parse_redeemers(t: &[String], pos: &mut usize) -> Option<Option<Rs>> {
    let k = next(t, pos)?;
    if k == "none" { return Some(None); }
    let n: usize = next(t, pos)?.parse().ok()?;
    let mut rs = vec![];
    for _ in 0..n {
        let tag: u8 = next(t, pos)?.parse().ok()?;
        let index: u32 = next(t, pos)?.parse().ok()?;
        let data = parse_pd(t, pos)?;
        let mem: u64 = next(t, pos)?.parse().ok()?;
        let steps: u64 = next(t, pos)?.parse().ok()?;
        rs.push(Rd { tag, index, data, mem, steps });
    }
    match k { "L" => Some(Some(Rs::List(rs))), "M" => Some(Some(Rs::Map(rs))), _ => None }
}
fn parse_datums(t: &[String], pos: &mut usize) -> Option<Option<Ds>> {
    match next(t, pos)? {
        "none" => Some(None),
        "raw" => Some(Some(Ds::Raw(unhex(next(t, pos)?)?))),
        "set" => {
            let n: usize = next(t, pos)?.parse().ok()?;
            let mut ds = vec![];
            for _ in 0..n { ds.push(parse_pd(t, pos)?); }
            Some(Some(Ds::Set(ds)))
        }
        _ => None,
    }
}

fn to_views(v: &Views) -> Option<LanguageViews> { v.as_ref().map(|es| LanguageViews::from_iter(es.iter().cloned())) }
fn to_tag(t: u8) -> RedeemerTag {
    match t { 0 => RedeemerTag::Spend, 1 => RedeemerTag::Mint, 2 => RedeemerTag::Cert, 3 => RedeemerTag::Reward, 4 => RedeemerTag::Vote, _ => RedeemerTag::Propose }
}
fn to_redeemers(r: &Rs) -> Redeemers {
    match r {
        Rs::List(rs) => Redeemers::List(rs.iter().map(|r| Redeemer { tag: to_tag(r.tag), index: r.index, data: r.data.clone(), ex_units: ExUnits { mem: r.mem, steps: r.steps } }).collect()),
        Rs::Map(rs) => {
            let mut m = BTreeMap::new();
            for r in rs { m.insert(RedeemersKey { tag: to_tag(r.tag), index: r.index }, RedeemersValue { data: r.data.clone(), ex_units: ExUnits { mem: r.mem, steps: r.steps } }); }
            Redeemers::Map(m)
        }
    }
}

// ---------------------------------------------------------------- independent canonical CBOR writer (oracle side)

fn head(major: u8, n: u64, out: &mut Vec<u8>) {
    let m = major << 5;
    if n < 24 { out.push(m | n as u8) }
    else if n <= 0xff { out.push(m | 24); out.push(n as u8) }
    else if n <= 0xffff { out.push(m | 25); out.extend((n as u16).to_be_bytes()) }
    else if n <= 0xffff_ffff { out.push(m | 26); out.extend((n as u32).to_be_bytes()) }
    else { out.push(m | 27); out.extend(n.to_be_bytes()) }
}
fn w_int(i: i128, out: &mut Vec<u8>) { if i >= 0 { head(0, i as u64, out) } else { head(1, (-1 - i) as u64, out) } }
fn w_bytes(bs: &[u8], out: &mut Vec<u8>) { head(2, bs.len() as u64, out); out.extend(bs); }
fn w_bounded(bs: &[u8], out: &mut Vec<u8>) {
    if bs.len() <= 64 { w_bytes(bs, out) } else { out.push(0x5f); for c in bs.chunks(64) { w_bytes(c, out); } out.push(0xff); }
}
fn w_list(d: bool, xs: &[PlutusData], out: &mut Vec<u8>) {
    if d { head(4, xs.len() as u64, out); for x in xs { w_pd(x, out); } } else { out.push(0x9f); for x in xs { w_pd(x, out); } out.push(0xff); }
}
/// PlutusData the way the Haskell / pallas encoders write it (minimal heads, 64-byte chunks)
pub fn w_pd(v: &PlutusData, out: &mut Vec<u8>) {
    match v {
        PlutusData::Constr(c) => {
            head(6, c.tag, out);
            if c.tag == 102 { head(4, 2, out); head(0, c.any_constructor.unwrap_or(0), out); }
            let d = matches!(c.fields, MaybeIndefArray::Def(_));
            w_list(d, &c.fields, out);
        }
        PlutusData::Map(m) => {
            if matches!(m, KeyValuePairs::Def(_)) { head(5, m.len() as u64, out); for (k, v) in m.iter() { w_pd(k, out); w_pd(v, out); } }
            else { out.push(0xbf); for (k, v) in m.iter() { w_pd(k, out); w_pd(v, out); } out.push(0xff); }
        }
        PlutusData::Array(a) => w_list(matches!(a, MaybeIndefArray::Def(_)), a, out),
        PlutusData::BigInt(BigInt::Int(i)) => w_int(i128::from(*i), out),
        PlutusData::BigInt(BigInt::BigUInt(b)) => { head(6, 2, out); w_bounded(b, out); }
        PlutusData::BigInt(BigInt::BigNInt(b)) => { head(6, 3, out); w_bounded(b, out); }
        PlutusData::BoundedBytes(b) => w_bounded(b, out),
    }
}
fn w_redeemers(r: &Rs, out: &mut Vec<u8>) {
    let ex = |r: &Rd, out: &mut Vec<u8>| { head(4, 2, out); head(0, r.mem, out); head(0, r.steps, out); };
    match r {
        Rs::List(rs) => {
            head(4, rs.len() as u64, out);
            for r in rs { head(4, 4, out); head(0, r.tag as u64, out); head(0, r.index as u64, out); w_pd(&r.data, out); ex(r, out); }
        }
        Rs::Map(rs) => {
            // a map keyed by (tag, index): later duplicates replace earlier ones, entries ascending
            let mut m: BTreeMap<(u8, u32), &Rd> = BTreeMap::new();
            for r in rs { m.insert((r.tag, r.index), r); }
            head(5, m.len() as u64, out);
            for ((t, i), r) in m { head(4, 2, out); head(0, t as u64, out); head(0, i as u64, out); head(4, 2, out); w_pd(&r.data, out); ex(r, out); }
        }
    }
}
/// language views by the ledger rule: canonical CBOR map (keys ordered by encoded length, then bytes);
/// PlutusV1: key = bytes(0x00), value = bytes(indefinite list); others: uint key, definite list
fn w_views(v: &[(u8, Vec<i64>)], out: &mut Vec<u8>) {
    let mut m: BTreeMap<u8, &Vec<i64>> = BTreeMap::new();
    for (l, c) in v { m.insert(*l, c); }
    let mut entries: Vec<(Vec<u8>, Vec<u8>)> = vec![];
    for (l, c) in m {
        let (mut k, mut val) = (vec![], vec![]);
        if l == 0 {
            w_bytes(&[0x00], &mut k);
            let mut inner = vec![0x9f]; for x in c { w_int(*x as i128, &mut inner); } inner.push(0xff);
            w_bytes(&inner, &mut val);
        } else {
            head(0, l as u64, &mut k);
            head(4, c.len() as u64, &mut val); for x in c { w_int(*x as i128, &mut val); }
        }
        entries.push((k, val));
    }
    entries.sort_by(|a, b| (a.0.len(), &a.0).cmp(&(b.0.len(), &b.0)));
    head(5, entries.len() as u64, out);
    for (k, v) in entries { out.extend(k); out.extend(v); }
}

/// end offset of the CBOR item starting at `pos` (None if malformed)
fn item_end(bs: &[u8], pos: usize) -> Option<usize> {
    let b = *bs.get(pos)?;
    let (m, ai) = (b >> 5, b & 31);
    let n = match ai { 0..=23 => 0usize, 24 => 1, 25 => 2, 26 => 4, 27 => 8, 31 => 0, _ => return None };
    if pos + 1 + n > bs.len() { return None; }
    let mut v: u64 = ai as u64;
    if n > 0 { v = 0; for i in 0..n { v = (v << 8) | bs[pos + 1 + i] as u64; } }
    let mut p = pos + 1 + n;
    match m {
        0 | 1 => if ai == 31 { None } else { Some(p) },
        7 => if ai == 31 { None } else { Some(p) },
        2 | 3 => {
            if ai == 31 { loop { if *bs.get(p)? == 0xff { return Some(p + 1); } if bs[p] >> 5 != m || bs[p] & 31 == 31 { return None; } p = item_end(bs, p)?; } }
            else { let e = p.checked_add(v as usize)?; if e > bs.len() { None } else { Some(e) } }
        }
        4 | 5 => {
            if ai == 31 { let mut k = 0u64; loop { if *bs.get(p)? == 0xff { return if m == 5 && k % 2 == 1 { None } else { Some(p + 1) }; } p = item_end(bs, p)?; k += 1; } }
            else { let cnt = if m == 4 { v } else { v.checked_mul(2)? }; for _ in 0..cnt { p = item_end(bs, p)?; } Some(p) }
        }
        _ => if ai == 31 { None } else { item_end(bs, p) },
    }
}
/// spans of the values of the top-level map keys 4 and 5 (first occurrence), None if not a map
fn ws_fields(bs: &[u8]) -> Option<(Option<(usize, usize)>, Option<(usize, usize)>)> {
    let b = *bs.first()?;
    if b >> 5 != 5 { return None; }
    let indef = b & 31 == 31;
    let hdr_end = if indef { 1 } else { let mut probe = bs.to_vec(); probe[0] = b & 31; item_end(&probe, 0)? };
    let mut cnt: u64 = 0;
    if !indef { let ai = b & 31; cnt = if ai < 24 { ai as u64 } else { let mut v = 0u64; for i in 1..hdr_end { v = (v << 8) | bs[i] as u64; } v }; }
    let (mut p, mut f4, mut f5, mut i) = (hdr_end, None, None, 0u64);
    loop {
        if indef { if *bs.get(p)? == 0xff { break; } } else if i == cnt { break; }
        let kend = item_end(bs, p)?;
        let key = if bs[p] >> 5 == 0 { let mut v = (bs[p] & 31) as u64; if v >= 24 { v = 0; for j in p + 1..kend { v = (v << 8) | bs[j] as u64; } } Some(v) } else { None };
        let vend = item_end(bs, kend)?;
        if key == Some(4) && f4.is_none() { f4 = Some((kend, vend)); }
        if key == Some(5) && f5.is_none() { f5 = Some((kend, vend)); }
        p = vend; i += 1;
    }
    Some((f4, f5))
}

fn formula(r: Option<&[u8]>, d: Option<&[u8]>, v: Option<&[(u8, Vec<i64>)]>) -> String {
    let mut buf = vec![];
    match r { Some(x) => buf.extend(x), None => buf.push(0xa0) }
    if let Some(x) = d { buf.extend(x); }
    match v { Some(x) => w_views(x, &mut buf), None => buf.push(0xa0) }
    hex(Hasher::<256>::hash(&buf).as_ref())
}

// ---------------------------------------------------------------- generator

const LANG_POOL: [u8; 12] = [0, 1, 2, 3, 4, 22, 23, 24, 25, 100, 254, 255];
fn gen_cost(r: &mut Rng) -> i64 {
    match r.below(8) {
        0 => 0, 1 => -(r.below(1000) as i64) - 1, 2 => r.below(24) as i64, 3 => r.u64_edgy() as i64,
        4 => *r.pick(&[i64::MIN, i64::MAX, -1, -24, -25, -256, -257, 4294967296, -4294967297, 23, 24, 255, 256, 65535, 65536]),
        _ => r.below(100_000_000) as i64,
    }
}
fn gen_views(r: &mut Rng) -> Vec<(u8, Vec<i64>)> {
    let mut es = vec![];
    let plutus_only = r.chance(3, 5);
    let n = if plutus_only { r.below(4) } else { r.below(7) };
    for _ in 0..n {
        let lang = if plutus_only { r.below(3) as u8 } else { *r.pick(&LANG_POOL) };
        let k = match r.below(8) { 0 => 0, 1 => 1, 2 => 23, 3 => 24, 4 => 166, 5 => 255 + r.below(3) as usize, _ => r.below(12) as usize };
        es.push((lang, (0..k).map(|_| gen_cost(r)).collect()));
    }
    es
}
fn show_views(v: &Option<Vec<(u8, Vec<i64>)>>) -> String {
    match v {
        None => "none".into(),
        Some(es) => {
            let mut s = format!("views {}", es.len());
            for (l, c) in es { s += &format!(" {} {}", l, c.len()); for x in c { s += &format!(" {}", x); } }
            s
        }
    }
}
fn gen_redeemers(r: &mut Rng) -> Rs {
    let n = r.below(4) as usize;
    let rs: Vec<Rd> = (0..n).map(|_| Rd {
        tag: r.below(6) as u8,
        index: match r.below(4) { 0 => 0, 1 => r.below(3) as u32, 2 => *r.pick(&[23u32, 24, 255, 256, 65535, 65536, u32::MAX]), _ => r.next() as u32 },
        data: { let d = r.below(3) as u32; gen_value(r, d) }, mem: r.u64_edgy(), steps: r.u64_edgy() }).collect();
    if r.chance(1, 2) { Rs::List(rs) } else { Rs::Map(rs) }
}
fn show_redeemers(r: &Option<Rs>) -> String {
    match r {
        None => "none".into(),
        Some(rs) => {
            let (k, v) = match rs { Rs::List(v) => ("L", v), Rs::Map(v) => ("M", v) };
            let mut s = format!("{} {}", k, v.len());
            for r in v { s += &format!(" {} {} {} {} {}", r.tag, r.index, show_s(&r.data), r.mem, r.steps); }
            s
        }
    }
}
fn gen_datum_set_bytes(r: &mut Rng) -> Vec<u8> {
    // as it may appear on chain: optional tag 258, definite or indefinite array, >= 1 element
    let n = r.range(1, 3);
    let mut out = vec![];
    if r.chance(1, 2) { out.extend([0xd9, 0x01, 0x02]); }
    let ds: Vec<PlutusData> = (0..n).map(|_| { let d = r.below(3) as u32; gen_value(r, d) }).collect();
    if r.chance(2, 3) { head(4, n, &mut out); for d in &ds { w_pd(d, &mut out); } } else { out.push(0x9f); for d in &ds { w_pd(d, &mut out); } out.push(0xff); }
    out
}
/// redeemers as they may appear on chain but not the way pallas would write them
fn gen_redeemer_bytes_alt(r: &mut Rng, rs: &Rs) -> Vec<u8> {
    let mut out = vec![];
    let wide = |r: &mut Rng, major: u8, n: u64, out: &mut Vec<u8>| {
        if r.chance(1, 2) { head(major, n, out) } else { out.push((major << 5) | 27); out.extend(n.to_be_bytes()); }
    };
    match rs {
        Rs::List(v) => {
            let indef = r.chance(1, 2);
            if indef { out.push(0x9f); } else { wide(r, 4, v.len() as u64, &mut out); }
            for x in v { head(4, 4, &mut out); wide(r, 0, x.tag as u64, &mut out); wide(r, 0, x.index as u64, &mut out); w_pd(&x.data, &mut out);
                head(4, 2, &mut out); wide(r, 0, x.mem, &mut out); wide(r, 0, x.steps, &mut out); }
            if indef { out.push(0xff); }
        }
        Rs::Map(v) => {
            // distinct keys, in the order given (not sorted), possibly an indefinite map
            let mut seen = vec![]; let mut es = vec![];
            for x in v { if !seen.contains(&(x.tag, x.index)) { seen.push((x.tag, x.index)); es.push(x); } }
            es.reverse();
            let indef = r.chance(1, 2);
            if indef { out.push(0xbf); } else { head(5, es.len() as u64, &mut out); }
            for x in es { head(4, 2, &mut out); wide(r, 0, x.tag as u64, &mut out); wide(r, 0, x.index as u64, &mut out);
                head(4, 2, &mut out); w_pd(&x.data, &mut out); head(4, 2, &mut out); wide(r, 0, x.mem, &mut out); wide(r, 0, x.steps, &mut out); }
            if indef { out.push(0xff); }
        }
    }
    out
}
fn gen_witness_set(r: &mut Rng, alt: bool) -> Vec<u8> {
    let mut fields: Vec<(u64, Vec<u8>)> = vec![];
    if r.chance(1, 2) {
        // vkey witnesses
        let n = r.range(1, 2);
        let mut v = vec![];
        if r.chance(1, 2) { v.extend([0xd9, 0x01, 0x02]); }
        head(4, n, &mut v);
        for _ in 0..n { head(4, 2, &mut v); w_bytes(&r.bytes(32), &mut v); w_bytes(&r.bytes(64), &mut v); }
        fields.push((0, v));
    }
    if r.chance(3, 5) { fields.push((4, gen_datum_set_bytes(r))); }
    if r.chance(3, 5) {
        let rs = gen_redeemers(r);
        let mut v = vec![];
        if alt { v = gen_redeemer_bytes_alt(r, &rs); } else { w_redeemers(&rs, &mut v); }
        fields.push((5, v));
    }
    if r.chance(1, 3) { let i = r.below(fields.len() as u64 + 1) as usize; let mut v = vec![]; head(4, 1, &mut v); w_bytes(&r.bytes(5), &mut v); let mut w = vec![0xd9, 0x01, 0x02]; w.extend(v); fields.insert(i.min(fields.len()), (6, w)); }
    if r.chance(1, 4) { fields.reverse(); }
    let mut out = vec![];
    let indef = r.chance(1, 5);
    if indef { out.push(0xbf); } else { head(5, fields.len() as u64, &mut out); }
    for (k, v) in fields { head(0, k, &mut out); out.extend(v); }
    if indef { out.push(0xff); }
    out
}

fn real_vectors() -> Vec<(String, Views)> {
    let repo = std::env::var("PV_REPO").unwrap_or_else(|_| "/repo".into());
    let (v1, v2, v3) = (cost_models::COST_MODEL_PLUTUS_V1.to_vec(), cost_models::COST_MODEL_PLUTUS_V2.to_vec(), cost_models::COST_MODEL_PLUTUS_V3.to_vec());
    vec![
        ("conway1.tx".to_string(), Some(vec![(1u8, v2.clone())])),
        ("conway2.tx".to_string(), Some(vec![(0, v1.clone())])),
        ("hydra-init.tx".to_string(), Some(vec![(1, v2.clone())])),
        ("datum-only.tx".to_string(), None),
        ("conway9.tx".to_string(), Some(vec![(0, v1), (1, v2), (2, v3)])),
    ].into_iter().filter_map(|(f, v)| std::fs::read_to_string(format!("{repo}/test_data/{f}")).ok().map(|s| (s.trim().to_string(), v))).collect()
}

pub fn generate(g: &mut Gen) {
    // the five real transactions: witness set bytes + the hash recorded in the body
    for (txhex, views) in real_vectors() {
        let Some(tx) = unhex(&txhex) else { continue };
        // tx = [body, witness_set, valid, aux]
        let Some(b0) = item_end(&tx, 1) else { continue };
        let Some(w0) = item_end(&tx, b0) else { continue };
        let body = &tx[1..b0];
        // script_data_hash = value of key 11 in the body map: find `0b 58 20`
        let expected = body.windows(3).position(|w| w == [0x0b, 0x58, 0x20]).map(|i| hex(&body[i + 3..i + 35]));
        g.case(vec![format!("build {} {} {}", hex(&tx[b0..w0]), show_views(&views), expected.unwrap_or("-".into()))]);
    }
    // every subset of {V1, V2, V3}
    for mask in 0..8u8 {
        let mut r = g.rng.fork();
        let es: Vec<(u8, Vec<i64>)> = (0..3u8).filter(|l| mask & (1 << l) != 0).map(|l| (l, (0..r.below(6)).map(|_| gen_cost(&mut r)).collect())).collect();
        g.case(vec![format!("views {}", show_views(&Some(es)))]);
    }
    for i in 0..g.cases {
        let mut r = g.rng.fork();
        let mut ops = vec![];
        let views = if r.chance(4, 5) { Some(gen_views(&mut r)) } else { None };
        if let Some(v) = &views { ops.push(format!("views {}", show_views(&Some(v.clone())))); }
        let reds = if r.chance(2, 3) { Some(gen_redeemers(&mut r)) } else { None };
        if reds.is_some() { ops.push(format!("encr {}", show_redeemers(&reds))); }
        let dat = match r.below(4) {
            0 => "none".to_string(),
            1 => { let n = r.range(1, 3); format!("set {} {}", n, (0..n).map(|_| show_s(&gen_value(&mut r, 2))).collect::<Vec<_>>().join(" ")) }
            _ => format!("raw {}", hex(&gen_datum_set_bytes(&mut r))),
        };
        ops.push(format!("hash {} {} {}", show_redeemers(&reds), dat, show_views(&views)));
        // witness sets: canonical redeemer encodings, and (every 4th case) encodings pallas would not write itself
        let ws = gen_witness_set(&mut r, i % 4 == 3);
        ops.push(format!("build {} {}", hex(&ws), show_views(&views)));
        if r.chance(1, 10) { let mut t = ws.clone(); let n = r.below(t.len() as u64) as usize; t.truncate(n); ops.push(format!("build {} none", hex(&t))); }
        if i % 3 == 0 {
            let nin = r.range(1, 3);
            let red = if r.chance(1, 2) { let k = r.below(nin); let d = r.below(2) as u32; format!("red {} {} {} {}", k, show_s(&gen_value(&mut r, d)), r.u64_edgy(), r.u64_edgy()) } else { "nored".into() };
            let dat = if r.chance(1, 2) { let d = r.below(3) as u32; format!("dat {}", show_s(&gen_value(&mut r, d))) } else { "nodat".into() };
            ops.push(format!("txb {} {} {} {}", nin, red, dat, show_views(&views)));
        }
        g.case(ops);
    }
}

// ---------------------------------------------------------------- runner + oracles

pub fn run_case(case: &Case, out: &mut Out) {
    let (mut saw_views, mut saw_hash) = (false, false);
    for op in &case.ops {
        let mut pos = 1;
        match op[0].as_str() {
            "views" => {
                let Some(Some(v)) = parse_views(op, &mut pos) else { out.reply("bad-op".into()); continue; };
                let lv = to_views(&Some(v.clone())).unwrap();
                let got = minicbor::to_vec(&lv).unwrap();
                let mut want = vec![]; w_views(&v, &mut want);
                if got != want { out.viol(format!("views-bytes langs={:?}", lv.0.keys().collect::<Vec<_>>()), format!("got {} want {}", hex(&got), hex(&want))); }
                if lv.0.len() >= 2 { saw_views = true; }
                if lv.0.contains_key(&0) { out.cov("views-with-v1"); }
                if lv.0.keys().any(|k| *k >= 24) { out.cov("views-two-byte-key"); }
                out.ok(hex(&got));
            }
            "encr" => {
                let Some(Some(r)) = parse_redeemers(op, &mut pos) else { out.reply("bad-op".into()); continue; };
                let got = minicbor::to_vec(&to_redeemers(&r)).unwrap();
                let mut want = vec![]; w_redeemers(&r, &mut want);
                if got != want { out.viol("redeemers-bytes", format!("got {} want {}", hex(&got), hex(&want))); }
                out.ok(hex(&got));
            }
            "hash" => {
                let (Some(r), Some(d), Some(v)) = (parse_redeemers(op, &mut pos), parse_datums(op, &mut pos), parse_views(op, &mut pos)) else { out.reply("bad-op".into()); continue; };
                let raw_d: Option<Vec<u8>> = match &d {
                    None => None, Some(Ds::Raw(b)) => Some(b.clone()),
                    Some(Ds::Set(ds)) => { let mut o = vec![0xd9, 0x01, 0x02]; head(4, ds.len() as u64, &mut o); for x in ds { w_pd(x, &mut o); } Some(o) }
                };
                let datums: Option<KeepRaw<'_, NonEmptySet<KeepRaw<'_, PlutusData>>>> = match &d {
                    None => None,
                    Some(Ds::Raw(b)) => match minicbor::decode(b) { Ok(x) => Some(x), Err(_) => { out.err("datums"); continue; } },
                    Some(Ds::Set(ds)) => Some(KeepRaw::from(NonEmptySet::from_vec(ds.iter().cloned().map(KeepRaw::from).collect()).unwrap())),
                };
                let sd = ScriptData { redeemers: r.as_ref().map(|x| to_redeemers(x).into()), datums, language_views: to_views(&v) };
                let got = hex(sd.hash().as_ref());
                let rb = r.as_ref().map(|x| { let mut o = vec![]; w_redeemers(x, &mut o); o });
                let want = formula(rb.as_deref(), raw_d.as_deref(), v.as_deref());
                if got != want { out.viol(format!("hash-formula r={} d={} v={}", r.is_some(), d.is_some(), v.is_some()), format!("got {} want {}", got, want)); }
                saw_hash = true;
                out.cov(format!("hash r={} d={} v={}", r.is_some(), d.is_some(), v.is_some()));
                out.ok(got);
            }
            "build" => {
                let Some(ws) = op.get(1).and_then(|s| unhex(s)) else { out.reply("bad-op".into()); continue; };
                pos = 2;
                let Some(v) = parse_views(op, &mut pos) else { out.reply("bad-op".into()); continue; };
                let expected_chain = op.get(pos).filter(|s| s.as_str() != "-").cloned();
                let w: WitnessSet = match minicbor::decode(&ws) { Ok(w) => w, Err(_) => { out.cov("build-decode-err"); out.err("decode"); continue; } };
                let got = ScriptData::build_for(&w, &to_views(&v)).map(|sd| hex(sd.hash().as_ref()));
                // the ledger formula on the ORIGINAL bytes of fields 5 and 4
                if let Some((f4, f5)) = ws_fields(&ws) {
                    let rb = f5.map(|(a, b)| &ws[a..b]);
                    let db = f4.map(|(a, b)| &ws[a..b]);
                    let want = if rb.is_none() && db.is_none() { None } else { Some(formula(rb, db, if rb.is_some() { v.as_deref() } else { None })) };
                    if got != want {
                        let canonical = rb.map(|b| minicbor::decode::<Redeemers>(b).ok().map(|x| minicbor::to_vec(&x).unwrap() == b)).flatten();
                        let key = if want.is_none() || got.is_none() { "build-no-hash" } else if canonical == Some(false) { "build-redeemers-reencoded" } else { "build-hash" };
                        out.viol(key, format!("ws {} got {:?} want {:?}", hex(&ws), got, want));
                    }
                    out.cov(format!("build r={} d={}", rb.is_some(), db.is_some()));
                }
                if let Some(e) = expected_chain { if got.as_deref() != Some(e.as_str()) { out.viol("build-real-tx", format!("got {:?} on-chain {}", got, e)); } out.cov("real-tx"); saw_hash = true; saw_views = true; }
                out.ok(got.unwrap_or("none".into()));
            }
            "txb" => {
                let Some(nin) = next(op, &mut pos).and_then(|s| s.parse::<u8>().ok()) else { out.reply("bad-op".into()); continue; };
                let red = match next(op, &mut pos) {
                    Some("nored") => None,
                    Some("red") => {
                        let (Some(k), Some(d)) = (next(op, &mut pos).and_then(|s| s.parse::<u8>().ok()), parse_pd(op, &mut pos)) else { out.reply("bad-op".into()); continue; };
                        let (Some(mem), Some(steps)) = (next(op, &mut pos).and_then(|s| s.parse::<u64>().ok()), next(op, &mut pos).and_then(|s| s.parse::<u64>().ok())) else { out.reply("bad-op".into()); continue; };
                        Some((k, d, mem, steps))
                    }
                    _ => { out.reply("bad-op".into()); continue; }
                };
                let dat = match next(op, &mut pos) {
                    Some("nodat") => None,
                    Some("dat") => { let Some(d) = parse_pd(op, &mut pos) else { out.reply("bad-op".into()); continue; }; Some(d) }
                    _ => { out.reply("bad-op".into()); continue; }
                };
                let Some(v) = parse_views(op, &mut pos) else { out.reply("bad-op".into()); continue; };
                let input = |i: u8| Input::new(pallas_crypto::hash::Hash::<32>::from([i + 1; 32]), 0);
                let addr = pallas_addresses::Address::from_bech32("addr1g9ekml92qyvzrjmawxkh64r2w5xr6mg9ngfmxh2khsmdrcudevsft64mf887333adamant").unwrap();
                let mut tx = StagingTransaction::new().output(Output::new(addr, 2_000_000)).fee(200_000);
                for i in 0..nin { tx = tx.input(input(i)); }
                if let Some((k, d, mem, steps)) = &red { tx = tx.add_spend_redeemer(input(*k), minicbor::to_vec(d).unwrap(), Some(TxExUnits { mem: *mem, steps: *steps })); }
                if let Some(d) = &dat { tx = tx.datum(minicbor::to_vec(d).unwrap()); }
                if let Some(lv) = to_views(&v) { tx = tx.language_views(lv); }
                let built = match guard_mut(|| tx.build_conway_raw()) { None => { out.panic(); continue; } Some(Err(_)) => { out.err("build"); continue; } Some(Ok(b)) => b };
                let bytes = built.tx_bytes.0.clone();
                // tx = [body, witness_set, valid, aux]; body key 11 = script_data_hash
                let (Some(b0), ) = (item_end(&bytes, 1), ) else { out.err("tx"); continue; };
                let Some(w0) = item_end(&bytes, b0) else { out.err("tx"); continue; };
                let body = &bytes[1..b0];
                let got = body.windows(3).position(|w| w == [0x0b, 0x58, 0x20]).map(|i| hex(&body[i + 3..i + 35]));
                let ws = &bytes[b0..w0];
                if let Some((f4, f5)) = ws_fields(ws) {
                    let rb = f5.map(|(a, b)| &ws[a..b]);
                    let db = f4.map(|(a, b)| &ws[a..b]);
                    let want = if rb.is_none() && db.is_none() { None } else { Some(formula(rb, db, if rb.is_some() { v.as_deref() } else { None })) };
                    // a builder without language views has no cost models to hash: no claim then
                    if v.is_some() && got != want {
                        let key = if want.is_none() { "txbuilder-hash-without-script-data" } else if rb.is_none() { "txbuilder-hash-datum-only" } else { "txbuilder-hash" };
                        out.viol(key, format!("script_data_hash {:?}, ledger formula on the built witness set {} gives {:?}", got, hex(ws), want));
                    }
                    out.cov(format!("txb r={} d={} v={}", rb.is_some(), db.is_some(), v.is_some()));
                }
                out.ok(got.unwrap_or("none".into()));
            }
            _ => out.reply("bad-op".into()),
        }
    }
    if saw_views && saw_hash { out.nontrivial(); }
}
