//! stream `pdata` — C07: the real PlutusData codec and `Ord` impls vs the Lean model, plus direct
//! property oracles (order laws on every triple of a case, equality up to definite/indefinite
//! encoding, CBOR round trip, 64-byte chunk shape, decoding of alternative encodings).
//!
//! Value tokens (prefix form):  `C <tag> <any|-> <d|i> <n> V*n` | `M <d|i> <n> (V V)*n` |
//! `A <d|i> <n> V*n` | `I <int>` | `U <hex>` | `N <hex>` | `B <hex>`
//! Ops: `cmp V V` -> `ok lt|eq|gt` / `panic`;  `rt V` -> `ok <hex> <V'|err>`;
//!      `dec <hex>` -> `ok V` / `err`;  `decx <hex> V` (alternative encoding of V) -> `ok V'` / `err`.
use crate::fw::*;
use pallas_codec::minicbor;
use pallas_codec::utils::{Int, KeyValuePairs, MaybeIndefArray};
use pallas_primitives::{BigInt, BoundedBytes, Constr, PlutusData};
use std::cmp::Ordering;

pub const NAME: &str = "pdata";

// ---------------------------------------------------------------- text form

fn di(b: bool) -> &'static str { if b { "d" } else { "i" } }

pub fn show(v: &PlutusData, out: &mut Vec<String>) {
    match v {
        PlutusData::Constr(c) => {
            let (d, xs) = match &c.fields { MaybeIndefArray::Def(x) => (true, x), MaybeIndefArray::Indef(x) => (false, x) };
            out.push("C".into());
            out.push(c.tag.to_string());
            out.push(match c.any_constructor { Some(a) => a.to_string(), None => "-".into() });
            out.push(di(d).into());
            out.push(xs.len().to_string());
            for x in xs { show(x, out); }
        }
        PlutusData::Map(m) => {
            let (d, xs) = match m { KeyValuePairs::Def(x) => (true, x), KeyValuePairs::Indef(x) => (false, x) };
            out.push("M".into());
            out.push(di(d).into());
            out.push(xs.len().to_string());
            for (k, v) in xs { show(k, out); show(v, out); }
        }
        PlutusData::Array(a) => {
            let (d, xs) = match a { MaybeIndefArray::Def(x) => (true, x), MaybeIndefArray::Indef(x) => (false, x) };
            out.push("A".into());
            out.push(di(d).into());
            out.push(xs.len().to_string());
            for x in xs { show(x, out); }
        }
        PlutusData::BigInt(BigInt::Int(i)) => { out.push("I".into()); out.push(i128::from(*i).to_string()); }
        PlutusData::BigInt(BigInt::BigUInt(b)) => { out.push("U".into()); out.push(hex(b)); }
        PlutusData::BigInt(BigInt::BigNInt(b)) => { out.push("N".into()); out.push(hex(b)); }
        PlutusData::BoundedBytes(b) => { out.push("B".into()); out.push(hex(b)); }
    }
}
pub fn show_s(v: &PlutusData) -> String { let mut o = vec![]; show(v, &mut o); o.join(" ") }

pub fn parse(t: &[String], pos: &mut usize) -> Option<PlutusData> {
    let k = t.get(*pos)?.clone();
    *pos += 1;
    let mut next = |pos: &mut usize| -> Option<String> { let s = t.get(*pos)?.clone(); *pos += 1; Some(s) };
    match k.as_str() {
        "C" => {
            let tag: u64 = next(pos)?.parse().ok()?;
            let a = next(pos)?;
            let any = if a == "-" { None } else { Some(a.parse::<u64>().ok()?) };
            let d = next(pos)? == "d";
            let n: usize = next(pos)?.parse().ok()?;
            let mut xs = vec![];
            for _ in 0..n { xs.push(parse(t, pos)?); }
            Some(PlutusData::Constr(Constr { tag, any_constructor: any, fields: if d { MaybeIndefArray::Def(xs) } else { MaybeIndefArray::Indef(xs) } }))
        }
        "M" => {
            let d = next(pos)? == "d";
            let n: usize = next(pos)?.parse().ok()?;
            let mut xs = vec![];
            for _ in 0..n { let k = parse(t, pos)?; let v = parse(t, pos)?; xs.push((k, v)); }
            Some(PlutusData::Map(if d { KeyValuePairs::Def(xs) } else { KeyValuePairs::Indef(xs) }))
        }
        "A" => {
            let d = next(pos)? == "d";
            let n: usize = next(pos)?.parse().ok()?;
            let mut xs = vec![];
            for _ in 0..n { xs.push(parse(t, pos)?); }
            Some(PlutusData::Array(if d { MaybeIndefArray::Def(xs) } else { MaybeIndefArray::Indef(xs) }))
        }
        "I" => { let i: i128 = next(pos)?.parse().ok()?; Some(PlutusData::BigInt(BigInt::Int(Int::try_from(i).ok()?))) }
        "U" => Some(PlutusData::BigInt(BigInt::BigUInt(BoundedBytes::from(unhex(&next(pos)?)?)))),
        "N" => Some(PlutusData::BigInt(BigInt::BigNInt(BoundedBytes::from(unhex(&next(pos)?)?)))),
        "B" => Some(PlutusData::BoundedBytes(BoundedBytes::from(unhex(&next(pos)?)?))),
        _ => None,
    }
}

// ---------------------------------------------------------------- independent helpers for the oracles

/// text of `v` with every d/i flag forced to `d`
fn erase_flags(v: &PlutusData) -> PlutusData {
    let ev = |xs: &Vec<PlutusData>| xs.iter().map(erase_flags).collect::<Vec<_>>();
    match v {
        PlutusData::Constr(c) => PlutusData::Constr(Constr { tag: c.tag, any_constructor: c.any_constructor, fields: MaybeIndefArray::Def(ev(&c.fields.clone().to_vec())) }),
        PlutusData::Map(m) => PlutusData::Map(KeyValuePairs::Def(m.clone().to_vec().iter().map(|(k, v)| (erase_flags(k), erase_flags(v))).collect())),
        PlutusData::Array(a) => PlutusData::Array(MaybeIndefArray::Def(ev(&a.clone().to_vec()))),
        x => x.clone(),
    }
}
/// what decoding can reconstruct: `any_constructor` only exists on tag 102
fn norm_any(v: &PlutusData) -> PlutusData {
    let nv = |xs: Vec<PlutusData>| xs.iter().map(norm_any).collect::<Vec<_>>();
    match v {
        PlutusData::Constr(c) => {
            let xs = nv(c.fields.clone().to_vec());
            PlutusData::Constr(Constr { tag: c.tag, any_constructor: if c.tag == 102 { c.any_constructor } else { None },
                fields: match c.fields { MaybeIndefArray::Def(_) => MaybeIndefArray::Def(xs), MaybeIndefArray::Indef(_) => MaybeIndefArray::Indef(xs) } })
        }
        PlutusData::Map(m) => {
            let xs: Vec<_> = m.clone().to_vec().iter().map(|(k, v)| (norm_any(k), norm_any(v))).collect();
            PlutusData::Map(match m { KeyValuePairs::Def(_) => KeyValuePairs::Def(xs), KeyValuePairs::Indef(_) => KeyValuePairs::Indef(xs) })
        }
        PlutusData::Array(a) => {
            let xs = nv(a.clone().to_vec());
            PlutusData::Array(match a { MaybeIndefArray::Def(_) => MaybeIndefArray::Def(xs), MaybeIndefArray::Indef(_) => MaybeIndefArray::Indef(xs) })
        }
        x => x.clone(),
    }
}

/// the property's quantifier: every constructor tag is one `constr_index` accepts
fn valid_tags(v: &PlutusData) -> bool {
    match v {
        PlutusData::Constr(c) => (matches!(c.tag, 121..=127 | 1280..=1400) || (c.tag == 102 && c.any_constructor.is_some())) && c.fields.iter().all(valid_tags),
        PlutusData::Map(m) => m.iter().all(|(k, v)| valid_tags(k) && valid_tags(v)),
        PlutusData::Array(a) => a.iter().all(valid_tags),
        _ => true,
    }
}

/// minimal CBOR walker used only to check the chunking rule on produced encodings.
/// returns Err(description) on the first byte string that breaks the rule.
fn scan_chunks(bs: &[u8], pos: &mut usize) -> Result<(), String> {
    fn head(bs: &[u8], pos: &mut usize) -> Result<(u8, u8, u64), String> {
        let b = *bs.get(*pos).ok_or("eof")?;
        *pos += 1;
        let (m, ai) = (b >> 5, b & 31);
        let n = match ai { 0..=23 => 0, 24 => 1, 25 => 2, 26 => 4, 27 => 8, 31 => 0, _ => return Err("reserved".into()) };
        let mut v: u64 = ai as u64;
        if n > 0 { v = 0; for _ in 0..n { v = (v << 8) | *bs.get(*pos).ok_or("eof")? as u64; *pos += 1; } }
        Ok((m, ai, v))
    }
    let (m, ai, v) = head(bs, pos)?;
    match m {
        0 | 1 | 7 => Ok(()),
        2 | 3 => {
            if ai == 31 {
                let mut lens = vec![];
                loop {
                    if *bs.get(*pos).ok_or("eof")? == 0xff { *pos += 1; break; }
                    let (m2, ai2, v2) = head(bs, pos)?;
                    if m2 != m || ai2 == 31 { return Err("bad chunk".into()); }
                    *pos += v2 as usize;
                    lens.push(v2);
                }
                let total: u64 = lens.iter().sum();
                if total <= 64 { return Err(format!("indefinite string for {} bytes", total)); }
                for (i, l) in lens.iter().enumerate() {
                    if i + 1 < lens.len() && *l != 64 { return Err(format!("inner chunk of {} bytes", l)); }
                    if i + 1 == lens.len() && (*l == 0 || *l > 64) { return Err(format!("last chunk of {} bytes", l)); }
                }
                Ok(())
            } else {
                if v > 64 { return Err(format!("definite string of {} bytes", v)); }
                *pos += v as usize;
                Ok(())
            }
        }
        4 | 5 => {
            if ai == 31 {
                loop {
                    if *bs.get(*pos).ok_or("eof")? == 0xff { *pos += 1; return Ok(()); }
                    scan_chunks(bs, pos)?;
                }
            } else {
                let n = if m == 4 { v } else { 2 * v };
                for _ in 0..n { scan_chunks(bs, pos)?; }
                Ok(())
            }
        }
        _ => scan_chunks(bs, pos),
    }
}

// ---------------------------------------------------------------- generator

const LENS: [usize; 14] = [0, 1, 2, 31, 32, 63, 64, 65, 66, 127, 128, 129, 192, 193];

fn gen_bytes(r: &mut Rng) -> Vec<u8> {
    let n = match r.below(10) { 0..=5 => r.below(6) as usize, 6..=8 => *r.pick(&LENS), _ => r.range(0, 260) as usize };
    if r.chance(1, 4) { vec![r.next() as u8; n] } else { r.bytes(n) }
}
fn gen_mag(r: &mut Rng) -> Vec<u8> {
    // magnitudes with leading zeros, around 2^64, empty, long
    let mut core: Vec<u8> = match r.below(8) {
        0 => vec![],
        1 => vec![r.below(3) as u8],
        2 => vec![0xff; 8],
        3 => { let mut v = vec![1]; v.extend(vec![0; 8]); v }
        4 => r.u64_edgy().to_be_bytes().to_vec(),
        5 => { let n = *r.pick(&[9usize, 16, 17, 63, 64, 65, 70]); r.bytes(n) }
        _ => { let n = r.range(1, 3) as usize; r.bytes(n) }
    };
    let z = match r.below(4) { 0 => 0, 1 => 1, 2 => 2, _ => r.below(5) as usize };
    let mut v = vec![0u8; z];
    v.append(&mut core);
    v
}
fn gen_i128(r: &mut Rng) -> i128 {
    let m = r.u64_edgy() as i128;
    match r.below(6) { 0 => 0, 1 | 2 => m, 3 | 4 => -m, _ => -m - 1 }
}
fn gen_bigint(r: &mut Rng) -> BigInt {
    match r.below(7) {
        0..=2 => BigInt::Int(Int::try_from(gen_i128(r)).unwrap()),
        3 | 4 => BigInt::BigUInt(BoundedBytes::from(gen_mag(r))),
        _ => BigInt::BigNInt(BoundedBytes::from(gen_mag(r))),
    }
}
fn gen_tag(r: &mut Rng) -> (u64, Option<u64>) {
    match r.below(10) {
        0..=3 => (r.range(121, 127), None),
        4..=6 => (*r.pick(&[1280u64, 1281, 1282, 1399, 1400, 1300]), None),
        7 => (r.range(1280, 1400), None),
        8 => (102, Some(*r.pick(&[0u64, 1, 6, 7, 8, 23, 24, 126, 127, 128, 255, 256, u64::MAX]))),
        _ => (102, Some(r.u64_edgy())),
    }
}
pub fn gen_value(r: &mut Rng, depth: u32) -> PlutusData {
    let leaf = depth == 0 || r.chance(2, 5);
    if leaf {
        return if r.chance(3, 5) { PlutusData::BigInt(gen_bigint(r)) } else { PlutusData::BoundedBytes(BoundedBytes::from(gen_bytes(r))) };
    }
    let w = r.below(4) as usize;
    match r.below(3) {
        0 => {
            let (tag, any) = gen_tag(r);
            let xs: Vec<_> = (0..w).map(|_| gen_value(r, depth - 1)).collect();
            PlutusData::Constr(Constr { tag, any_constructor: any, fields: if r.chance(1, 2) { MaybeIndefArray::Def(xs) } else { MaybeIndefArray::Indef(xs) } })
        }
        1 => {
            let xs: Vec<_> = (0..w).map(|_| (gen_value(r, depth - 1), gen_value(r, depth - 1))).collect();
            PlutusData::Map(if r.chance(1, 2) { KeyValuePairs::Def(xs) } else { KeyValuePairs::Indef(xs) })
        }
        _ => {
            let xs: Vec<_> = (0..w).map(|_| gen_value(r, depth - 1)).collect();
            PlutusData::Array(if r.chance(1, 2) { MaybeIndefArray::Def(xs) } else { MaybeIndefArray::Indef(xs) })
        }
    }
}

/// a value "close to" `v`: same up to representation (expected equal) or differing in one place
fn mutate(r: &mut Rng, v: &PlutusData, depth: u32) -> PlutusData {
    let flip = |r: &mut Rng, d: bool| if r.chance(1, 2) { !d } else { d };
    match v {
        PlutusData::BigInt(b) => {
            // re-represent or nudge
            let (neg, mag): (bool, Vec<u8>) = match b {
                BigInt::Int(i) => { let x = i128::from(*i); (x < 0, x.unsigned_abs().to_be_bytes().to_vec()) }
                BigInt::BigUInt(bs) => (false, bs.to_vec()),
                BigInt::BigNInt(bs) => (true, bs.to_vec()),
            };
            match r.below(6) {
                0 | 1 => { // same number, other representation (leading zeros kept / added / removed)
                    let mut m: Vec<u8> = mag.iter().copied().skip_while(|b| *b == 0).collect();
                    let small = m.len() <= 8;
                    if small && r.chance(1, 2) {
                        let mut x: i128 = 0; for b in &m { x = (x << 8) | *b as i128; }
                        PlutusData::BigInt(BigInt::Int(Int::try_from(if neg { -x } else { x }).unwrap()))
                    } else {
                        let z = r.below(3) as usize; let mut v = vec![0u8; z]; v.append(&mut m);
                        PlutusData::BigInt(if neg { BigInt::BigNInt(v.into()) } else { BigInt::BigUInt(v.into()) })
                    }
                }
                2 => PlutusData::BigInt(if neg { BigInt::BigUInt(mag.into()) } else { BigInt::BigNInt(mag.into()) }), // flip sign
                3 => { let mut m = mag.clone(); if let Some(l) = m.last_mut() { *l = l.wrapping_add(1); } else { m.push(1); }
                       PlutusData::BigInt(if neg { BigInt::BigNInt(m.into()) } else { BigInt::BigUInt(m.into()) }) }
                4 => PlutusData::BigInt(gen_bigint(r)),
                _ => v.clone(),
            }
        }
        PlutusData::BoundedBytes(bs) => {
            let mut m = bs.to_vec();
            match r.below(4) { 0 => { m.push(r.next() as u8); } 1 => { m.pop(); } 2 => { if let Some(l) = m.last_mut() { *l ^= 1; } } _ => {} }
            PlutusData::BoundedBytes(m.into())
        }
        PlutusData::Array(a) => {
            let d = matches!(a, MaybeIndefArray::Def(_));
            let mut xs = a.clone().to_vec();
            mutate_list(r, &mut xs, depth);
            PlutusData::Array(if flip(r, d) { MaybeIndefArray::Def(xs) } else { MaybeIndefArray::Indef(xs) })
        }
        PlutusData::Map(m) => {
            let d = matches!(m, KeyValuePairs::Def(_));
            let mut xs = m.clone().to_vec();
            if !xs.is_empty() && r.chance(1, 2) {
                let i = r.below(xs.len() as u64) as usize;
                if r.chance(1, 2) { xs[i].0 = mutate(r, &xs[i].0.clone(), depth.saturating_sub(1)); } else { xs[i].1 = mutate(r, &xs[i].1.clone(), depth.saturating_sub(1)); }
            } else if r.chance(1, 4) { xs.push((gen_value(r, 0), gen_value(r, 0))); } else if r.chance(1, 4) { xs.pop(); }
            PlutusData::Map(if flip(r, d) { KeyValuePairs::Def(xs) } else { KeyValuePairs::Indef(xs) })
        }
        PlutusData::Constr(c) => {
            let d = matches!(c.fields, MaybeIndefArray::Def(_));
            let mut xs = c.fields.clone().to_vec();
            mutate_list(r, &mut xs, depth);
            // same constructor index through another spelling, or a neighbouring one
            let idx: Option<u64> = match c.tag { 121..=127 => Some(c.tag - 121), 1280..=1400 => Some(c.tag - 1280 + 7), 102 => c.any_constructor, _ => None };
            let (tag, any) = match (r.below(5), idx) {
                (0, Some(i)) => (102, Some(i)),
                (1, Some(i)) if i < 7 => (121 + i, None),
                (1, Some(i)) if i <= 127 => (1280 + i - 7, None),
                (2, Some(i)) if i < 127 => { let j = i + 1; if j < 7 { (121 + j, None) } else { (1280 + j - 7, None) } }
                (3, _) if c.tag != 102 => (c.tag, Some(r.below(3))), // any_constructor is ignored off tag 102
                _ => (c.tag, c.any_constructor),
            };
            PlutusData::Constr(Constr { tag, any_constructor: any, fields: if flip(r, d) { MaybeIndefArray::Def(xs) } else { MaybeIndefArray::Indef(xs) } })
        }
    }
}
fn mutate_list(r: &mut Rng, xs: &mut Vec<PlutusData>, depth: u32) {
    match r.below(6) {
        0 | 1 if !xs.is_empty() => { let i = r.below(xs.len() as u64) as usize; xs[i] = mutate(r, &xs[i].clone(), depth.saturating_sub(1)); }
        2 => xs.push(gen_value(r, 0)),
        3 => { xs.pop(); }
        _ => {}
    }
}

// alternative (non-canonical but valid) encoder: any head width, any chunking
fn alt_head(r: &mut Rng, major: u8, n: u64, out: &mut Vec<u8>) {
    let min = if n < 24 { 0 } else if n < 256 { 1 } else if n < 65536 { 2 } else if n < (1 << 32) { 3 } else { 4 };
    let w = if r.chance(1, 2) { min } else { r.range(min.max(1), 4) };
    match w {
        0 => out.push((major << 5) | n as u8),
        1 => { out.push((major << 5) | 24); out.push(n as u8); }
        2 => { out.push((major << 5) | 25); out.extend((n as u16).to_be_bytes()); }
        3 => { out.push((major << 5) | 26); out.extend((n as u32).to_be_bytes()); }
        _ => { out.push((major << 5) | 27); out.extend(n.to_be_bytes()); }
    }
}
fn alt_bytes(r: &mut Rng, bs: &[u8], out: &mut Vec<u8>) {
    if r.chance(1, 2) { alt_head(r, 2, bs.len() as u64, out); out.extend(bs); return; }
    out.push(0x5f);
    let mut rest = bs;
    while !rest.is_empty() {
        let k = match r.below(4) { 0 => 0, 1 => 1, 2 => 64, _ => r.range(1, 100) as usize }.min(rest.len());
        alt_head(r, 2, k as u64, out); out.extend(&rest[..k]); rest = &rest[k..];
    }
    if r.chance(1, 4) { out.push(0x40); }
    out.push(0xff);
}
fn alt_encode(r: &mut Rng, v: &PlutusData, out: &mut Vec<u8>) {
    let arr = |r: &mut Rng, d: bool, xs: &Vec<PlutusData>, out: &mut Vec<u8>| {
        if d { alt_head(r, 4, xs.len() as u64, out); for x in xs { alt_encode(r, x, out); } }
        else { out.push(0x9f); for x in xs { alt_encode(r, x, out); } out.push(0xff); }
    };
    match v {
        PlutusData::Constr(c) => {
            alt_head(r, 6, c.tag, out);
            let d = matches!(c.fields, MaybeIndefArray::Def(_));
            if c.tag == 102 { out.push(0x82); alt_head(r, 0, c.any_constructor.unwrap_or(0), out); }
            arr(r, d, &c.fields.clone().to_vec(), out);
        }
        PlutusData::Map(m) => {
            let xs = m.clone().to_vec();
            if matches!(m, KeyValuePairs::Def(_)) { alt_head(r, 5, xs.len() as u64, out); for (k, v) in &xs { alt_encode(r, k, out); alt_encode(r, v, out); } }
            else { out.push(0xbf); for (k, v) in &xs { alt_encode(r, k, out); alt_encode(r, v, out); } out.push(0xff); }
        }
        PlutusData::Array(a) => arr(r, matches!(a, MaybeIndefArray::Def(_)), &a.clone().to_vec(), out),
        PlutusData::BigInt(BigInt::Int(i)) => { let x = i128::from(*i); if x >= 0 { alt_head(r, 0, x as u64, out) } else { alt_head(r, 1, (-1 - x) as u64, out) } }
        PlutusData::BigInt(BigInt::BigUInt(b)) => { alt_head(r, 6, 2, out); alt_bytes(r, b, out); }
        PlutusData::BigInt(BigInt::BigNInt(b)) => { alt_head(r, 6, 3, out); alt_bytes(r, b, out); }
        PlutusData::BoundedBytes(b) => alt_bytes(r, b, out),
    }
}
/// tag 102 with an inner array head the Rust does not check (`d.array()?` ignores the length; for an
/// indefinite head the break is not consumed): any head, then uint, then the fields, then junk
fn lenient102(r: &mut Rng) -> Vec<u8> {
    let mut out = vec![];
    let wrap = r.below(5);
    match wrap { 1 => out.push(0x81), 2 => out.push(0x9f), 3 => out.push(0x82), 4 => out.extend([0xa1, 0x00]), _ => {} }
    alt_head(r, 6, 102, &mut out);
    match r.below(8) { 0 => out.push(0x80), 1 => out.push(0x81), 2 => out.push(0x82), 3 => out.push(0x83), 4 => out.extend([0x98, 0x02]), 5 => out.push(0x9f), 6 => out.extend([0x9a, 0, 0, 0, 2]), _ => out.push(0x97) }
    let any = r.u64_edgy();
    alt_head(r, 0, any, &mut out);
    let n = r.below(3) as usize;
    let fields: Vec<PlutusData> = (0..n).map(|_| gen_value(r, 0)).collect();
    if r.chance(1, 2) { alt_head(r, 4, n as u64, &mut out); for x in &fields { alt_encode(r, x, &mut out); } }
    else { out.push(0x9f); for x in &fields { alt_encode(r, x, &mut out); } out.push(0xff); }
    match r.below(4) { 0 => out.push(0x05), 1 => out.push(0xff), 2 => out.extend([0x05, 0xff]), _ => {} }
    match wrap { 2 => out.push(0xff), 3 => out.push(0x00), _ => {} }
    out
}

pub fn generate(g: &mut Gen) {
    // outside the property's quantifier (constr_index panics): compared with the model only
    for i in 0..(g.cases / 50).max(4) {
        let mut r = g.rng.fork();
        let bad = |r: &mut Rng| {
            let (tag, any) = match r.below(6) { 0 => (102, None), 1 => (*r.pick(&[0u64, 2, 3, 5, 101, 103, 120, 128, 1279, 1401, u64::MAX]), None), 2 => (r.u64_edgy(), Some(1)), 3 => (2, None), _ => (r.below(2000), None) };
            let n = r.below(3) as usize;
            PlutusData::Constr(Constr { tag, any_constructor: any, fields: MaybeIndefArray::Def((0..n).map(|_| gen_value(r, 0)).collect()) })
        };
        let a = bad(&mut r);
        let b = if i % 2 == 0 { gen_value(&mut r, 2) } else { PlutusData::Array(MaybeIndefArray::Indef(vec![gen_value(&mut r, 1), bad(&mut r)])) };
        let c = PlutusData::Array(MaybeIndefArray::Def(vec![gen_value(&mut r, 0), a.clone()]));
        let vals = [a, b, c];
        let mut ops = vec![];
        for x in &vals { for y in &vals { ops.push(format!("cmp {} {}", show_s(x), show_s(y))); } }
        for x in &vals { ops.push(format!("rt {}", show_s(x))); }
        g.case(ops);
    }
    for _ in 0..g.cases {
        let mut r = g.rng.fork();
        let depth = match r.below(10) { 0..=2 => 0, 3..=5 => 1, 6 | 7 => 2, 8 => 3, _ => 4 };
        let a = gen_value(&mut r, depth);
        let b = if r.chance(4, 5) { mutate(&mut r, &a, depth) } else { gen_value(&mut r, depth) };
        let c = match r.below(5) { 0 | 1 => mutate(&mut r, &b, depth), 2 => mutate(&mut r, &a, depth), 3 => erase_flags(&a), _ => gen_value(&mut r, depth) };
        let vals = [a, b, c];
        let mut ops = vec![];
        for x in &vals { for y in &vals { ops.push(format!("cmp {} {}", show_s(x), show_s(y))); } }
        for x in &vals {
            ops.push(format!("rt {}", show_s(x)));
            let mut alt = vec![]; alt_encode(&mut r, x, &mut alt);
            ops.push(format!("decx {} {}", hex(&alt), show_s(&norm_any(x))));
        }
        // malformed / truncated input, and the tag-102 leniency of the decoder
        let mut enc = minicbor::to_vec(&vals[0]).unwrap();
        match r.below(4) {
            0 => { let n = r.below(enc.len() as u64 + 1) as usize; enc.truncate(n); }
            1 => { if !enc.is_empty() { let i = r.below(enc.len() as u64) as usize; enc[i] = r.next() as u8; } }
            2 => { let n = r.range(1, 12) as usize; enc = r.bytes(n); }
            _ => { enc.extend(r.bytes(3)); }
        }
        ops.push(format!("dec {}", hex(&enc)));
        if r.chance(1, 4) { ops.push(format!("dec {}", hex(&lenient102(&mut r)))); }
        g.case(ops);
    }
}

// ---------------------------------------------------------------- runner + oracles

fn ord_s(o: Ordering) -> &'static str { match o { Ordering::Less => "lt", Ordering::Equal => "eq", Ordering::Greater => "gt" } }

pub fn run_case(case: &Case, out: &mut Out) {
    // (text a, text b) -> outcome, for the order-law oracle
    let mut table: Vec<(String, String, Ordering)> = vec![];
    let mut names: Vec<String> = vec![];
    let (mut saw_eq_diff, mut saw_strict) = (false, false);
    for op in &case.ops {
        match op[0].as_str() {
            "cmp" => {
                let mut pos = 1;
                let (Some(a), Some(b)) = (parse(op, &mut pos), parse(op, &mut pos)) else { out.reply("bad-op".into()); continue; };
                let inq = valid_tags(&a) && valid_tags(&b);
                if !inq { out.cov("outside-quantifier"); }
                match guard(|| a.cmp(&b)) {
                    None => {
                        if inq { out.viol("cmp-panic", format!("{} | {}", show_s(&a), show_s(&b))); }
                        out.panic(); out.cov("cmp-panic");
                    }
                    Some(o) if !inq => out.ok(ord_s(o)),
                    Some(o) => {
                        let (ta, tb) = (show_s(&a), show_s(&b));
                        // equality ignores definite/indefinite encodings (independent structural check)
                        if show_s(&erase_flags(&a)) == show_s(&erase_flags(&b)) && o != Ordering::Equal {
                            out.viol("eq-def-indef", format!("values equal up to def/indef flags compare {}: {} | {}", ord_s(o), ta, tb));
                        }
                        // PartialEq / PartialOrd agree with Ord
                        if (a == b) != (o == Ordering::Equal) || a.partial_cmp(&b) != Some(o) { out.viol("eq-ord-consistency", format!("{} | {}", ta, tb)); }
                        if o == Ordering::Equal && ta != tb { saw_eq_diff = true; }
                        if o != Ordering::Equal { saw_strict = true; }
                        for t in [&ta, &tb] { if !names.contains(t) { names.push(t.clone()); } }
                        table.push((ta, tb, o));
                        out.ok(ord_s(o));
                    }
                }
            }
            "rt" => {
                let mut pos = 1;
                let Some(a) = parse(op, &mut pos) else { out.reply("bad-op".into()); continue; };
                let enc = minicbor::to_vec(&a).unwrap();
                if !valid_tags(&a) {
                    // outside the quantifier: only compared with the model
                    out.cov("outside-quantifier");
                    match guard(|| minicbor::decode::<PlutusData>(&enc)) {
                        None => out.panic(),
                        Some(Err(_)) => out.ok(format!("{} err", hex(&enc))),
                        Some(Ok(b)) => out.ok(format!("{} {}", hex(&enc), show_s(&b))),
                    }
                    continue;
                }
                let mut p = 0;
                if let Err(e) = scan_chunks(&enc, &mut p) { out.viol("chunking", format!("{} in encoding {} of {}", e, hex(&enc), show_s(&a))); }
                else if p != enc.len() { out.viol("encoding-not-one-item", format!("{} of {}", hex(&enc), show_s(&a))); }
                match guard(|| minicbor::decode::<PlutusData>(&enc)) {
                    None => { out.viol("roundtrip-panic", show_s(&a)); out.panic(); }
                    Some(Err(_)) => { out.viol("roundtrip-decode-error", format!("{} -> {}", show_s(&a), hex(&enc))); out.ok(format!("{} err", hex(&enc))); }
                    Some(Ok(b)) => {
                        if show_s(&b) != show_s(&norm_any(&a)) { out.viol("roundtrip-structure", format!("{} -> {} -> {}", show_s(&a), hex(&enc), show_s(&b))); }
                        if guard(|| b == a) != Some(true) { out.viol("roundtrip-equality", format!("{} -> {}", show_s(&a), show_s(&b))); }
                        if enc.len() > 70 { out.cov("rt-long"); }
                        out.ok(format!("{} {}", hex(&enc), show_s(&b)));
                    }
                }
            }
            "dec" | "decx" => {
                let Some(bs) = op.get(1).and_then(|s| unhex(s)) else { out.reply("bad-op".into()); continue; };
                match guard(|| minicbor::decode::<PlutusData>(&bs)) {
                    None => { out.viol("decode-panic", hex(&bs)); out.panic(); }
                    Some(Err(_)) => {
                        if op[0] == "decx" { out.viol("decode-alt-encoding-rejected", format!("{} should decode to {}", hex(&bs), op[2..].join(" "))); }
                        out.cov("dec-err");
                        out.err("decode");
                    }
                    Some(Ok(v)) => {
                        // the decoder never leaves the quantifier: valid tags, comparable without panic
                        if !valid_tags(&v) || guard(|| v == v) != Some(true) { out.viol("decode-produced-invalid-constr", format!("{} -> {}", hex(&bs), show_s(&v))); }
                        if op[0] == "decx" {
                            if show_s(&v) != op[2..].join(" ") { out.viol("decode-alt-encoding", format!("{} decoded to {} expected {}", hex(&bs), show_s(&v), op[2..].join(" "))); }
                            out.cov("dec-alt-ok");
                        } else {
                            // round trip from the byte side
                            let re = minicbor::to_vec(&v).unwrap();
                            match minicbor::decode::<PlutusData>(&re) { Ok(v2) if show_s(&v2) == show_s(&v) => {}, _ => out.viol("reencode-roundtrip", hex(&bs)) }
                            out.cov("dec-ok");
                        }
                        out.ok(show_s(&v));
                    }
                }
            }
            _ => out.reply("bad-op".into()),
        }
    }
    // order laws over everything this case compared
    let get = |a: &String, b: &String| table.iter().find(|(x, y, _)| x == a && y == b).map(|t| t.2);
    for a in &names {
        if let Some(o) = get(a, a) { if o != Ordering::Equal { out.viol("order-reflexive", a.clone()); } }
        for b in &names {
            if let (Some(x), Some(y)) = (get(a, b), get(b, a)) {
                if x != y.reverse() { out.viol("order-antisymmetric", format!("cmp(a,b)={} cmp(b,a)={} a={} b={}", ord_s(x), ord_s(y), a, b)); }
            }
            for c in &names {
                if let (Some(x), Some(y), Some(z)) = (get(a, b), get(b, c), get(a, c)) {
                    // a<=b, b<=c => a<=c ; strict if either is strict ; eq,eq => eq
                    if x != Ordering::Greater && y != Ordering::Greater {
                        let want = if x == Ordering::Equal && y == Ordering::Equal { Ordering::Equal } else { Ordering::Less };
                        if z != want { out.viol("order-transitive", format!("cmp(a,b)={} cmp(b,c)={} cmp(a,c)={} a={} b={} c={}", ord_s(x), ord_s(y), ord_s(z), a, b, c)); }
                    }
                }
            }
        }
    }
    if saw_eq_diff { out.cov("eq-across-representations"); }
    if saw_strict { out.cov("strict"); }
    if saw_eq_diff && saw_strict { out.nontrivial(); }
}
