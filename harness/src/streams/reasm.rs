//! stream `reasm` — C21: message reassembly of both networking stacks with *real* protocol messages.
//!
//! `n1 <proto> <count> <chunk hex>*` : two real `Plexer`s over a `UnixStream::pair`; a client agent enqueues the chunks
//!     exactly as given (one segment each), the peer server agent wraps its channel in `ChannelBuffer` and calls
//!     `recv_full_msg::<M>()` `count` times (M = the message type of `<proto>`).
//! `n2 <rawchannel>:<hex>*` : network2 `BearerWriteHalf::write_segment` per segment into a socket pair,
//!     `BearerReadHalf::read_full_msgs::<AnyMessage>` once per segment with one `partial_chunks` map.
//! The first op of a case (`sent` / `sent2`) lists the encodings of the messages that were *sent*; the property oracle
//! compares what the real receive path yields with that list, independently of the Lean model.
use crate::fw::*;
use pallas_codec::minicbor;
use pallas_codec::utils::{AnyCbor, Bytes, TagWrap};
use pallas_network::miniprotocols as n1;
use pallas_network::multiplexer as m1;
use pallas_network2::behavior::AnyMessage;
use pallas_network2::protocol as n2;
use pallas_network2::{bearer as m2, Message as _};
use std::collections::HashMap;
use std::time::Duration;
use tokio::net::UnixStream;

pub const NAME: &str = "reasm";

const N1_PROTOS: [&str; 11] = ["handshake-n2n", "handshake-n2c", "chainsync-header", "chainsync-block", "blockfetch", "txsubmission",
    "keepalive", "peersharing", "localstate", "localtxsubmission", "txmonitor"];
const N2_PROTOS: [(&str, u16); 8] = [("handshake", 0), ("chainsync", 2), ("blockfetch", 3), ("txsubmission", 4), ("keepalive", 8),
    ("peersharing", 10), ("leiosnotify", 18), ("leiosfetch", 19)];

// ------------------------------------------------------------------ message generators (encodings only)

fn blob(r: &mut Rng) -> Vec<u8> {
    let n = match r.below(12) { 0 => 0, 1 => 1, 2 => 23, 3 => 24, 4 => 255, 5 => 256, 6 => r.range(60000, 70000), 7 => 65535 - r.below(12), _ => r.below(80) } as usize;
    r.bytes(n)
}
fn small_blob(r: &mut Rng) -> Vec<u8> { let n = r.below(40) as usize; r.bytes(n) }
fn item(r: &mut Rng) -> Vec<u8> {
    // one well-formed CBOR item (for AnyCbor leaves)
    match r.below(6) {
        0 => minicbor::to_vec(r.u64_edgy()).unwrap(),
        1 => minicbor::to_vec((r.below(30) as u8, vec![r.below(1000) as u32, 7])).unwrap(),
        2 => minicbor::to_vec(minicbor::bytes::ByteVec::from(small_blob(r))).unwrap(),
        3 => vec![0x9f, 0x01, 0x82, 0x02, 0x03, 0xff],                                   // indefinite array
        4 => vec![0xbf, 0x61, 0x61, 0x5f, 0x41, 0x01, 0x42, 0x02, 0x03, 0xff, 0xff],     // indefinite map with a chunked byte string
        _ => minicbor::to_vec("text").unwrap(),
    }
}
fn point1(r: &mut Rng) -> n1::Point { if r.chance(1, 5) { n1::Point::Origin } else { n1::Point::Specific(r.u64_edgy(), r.bytes(32)) } }
fn point2(r: &mut Rng) -> n2::Point { if r.chance(1, 5) { n2::Point::Origin } else { n2::Point::Specific(r.u64_edgy(), r.bytes(32)) } }
fn enc<T: minicbor::Encode<()>>(x: &T) -> Vec<u8> { minicbor::to_vec(x).expect("encode") }

fn gen_n1(proto: &str, r: &mut Rng) -> Vec<u8> {
    use n1::*;
    match proto {
        "handshake-n2n" => {
            let vd = |r: &mut Rng| if r.chance(1, 2) { handshake::n2n::VersionData::new(r.u64_edgy(), r.chance(1, 2), None, None) }
                                   else { handshake::n2n::VersionData::new(r.below(1 << 32), r.chance(1, 2), Some(r.below(3) as u8), Some(r.chance(1, 2))) };
            let tbl = |r: &mut Rng| handshake::VersionTable { values: (0..r.below(5)).map(|i| (7 + i + r.below(2) * 100, vd(r))).collect() };
            let m: handshake::Message<handshake::n2n::VersionData> = match r.below(6) {
                0 => handshake::Message::Propose(tbl(r)),
                1 => handshake::Message::Accept(r.below(20), vd(r)),
                2 => handshake::Message::Refuse(handshake::RefuseReason::VersionMismatch((0..r.below(4)).map(|_| r.below(30)).collect())),
                3 => handshake::Message::Refuse(handshake::RefuseReason::HandshakeDecodeError(r.below(20), "decode error".into())),
                4 => handshake::Message::Refuse(handshake::RefuseReason::Refused(r.below(20), String::new())),
                _ => handshake::Message::QueryReply(tbl(r)),
            };
            enc(&m)
        }
        "handshake-n2c" => {
            let vd = |r: &mut Rng| handshake::n2c::VersionData::new(r.u64_edgy(), if r.chance(1, 2) { Some(r.chance(1, 2)) } else { None });
            let m: handshake::Message<handshake::n2c::VersionData> = match r.below(3) {
                0 => handshake::Message::Propose(handshake::VersionTable { values: (0..r.below(4)).map(|i| (32784 + i, vd(r))).collect() }),
                1 => handshake::Message::Accept(32784 + r.below(8), vd(r)),
                _ => handshake::Message::Refuse(handshake::RefuseReason::VersionMismatch(vec![1, 2, 32790])),
            };
            enc(&m)
        }
        "chainsync-header" | "chainsync-block" => {
            let tip = chainsync::Tip(point1(r), r.u64_edgy());
            let hdr = |r: &mut Rng| if r.chance(1, 4) { chainsync::HeaderContent { variant: 0, byron_prefix: Some((r.below(2) as u8, r.u64_edgy())), cbor: blob(r) } }
                                    else { chainsync::HeaderContent { variant: r.range(1, 7) as u8, byron_prefix: None, cbor: blob(r) } };
            macro_rules! cs { ($content:expr, $t:ty) => {{
                let m: chainsync::Message<$t> = match r.below(8) {
                    0 => chainsync::Message::RequestNext, 1 => chainsync::Message::AwaitReply,
                    2 => chainsync::Message::RollForward($content, tip), 3 => chainsync::Message::RollBackward(point1(r), tip),
                    4 => chainsync::Message::FindIntersect((0..r.below(5)).map(|_| point1(r)).collect()),
                    5 => chainsync::Message::IntersectFound(point1(r), tip), 6 => chainsync::Message::IntersectNotFound(tip),
                    _ => chainsync::Message::Done };
                enc(&m) }} }
            if proto == "chainsync-header" { let h = hdr(r); cs!(h, chainsync::HeaderContent) } else { let b = chainsync::BlockContent(blob(r)); cs!(b, chainsync::BlockContent) }
        }
        "blockfetch" => enc(&match r.below(6) {
            0 => blockfetch::Message::RequestRange { range: (point1(r), point1(r)) }, 1 => blockfetch::Message::ClientDone,
            2 => blockfetch::Message::StartBatch, 3 => blockfetch::Message::NoBlocks, 4 => blockfetch::Message::Block { body: blob(r) },
            _ => blockfetch::Message::BatchDone }),
        "txsubmission" => {
            use txsubmission::*;
            let m: Message<EraTxId, EraTxBody> = match r.below(6) {
                0 => Message::Init, 1 => Message::RequestTxIds(r.chance(1, 2), r.u64_edgy() as u16, r.u64_edgy() as u16),
                2 => Message::ReplyTxIds((0..r.below(4)).map(|_| TxIdAndSize(EraTxId(r.below(8) as u16, r.bytes(32)), r.u64_edgy() as u32)).collect()),
                3 => Message::RequestTxs((0..r.below(4)).map(|_| EraTxId(r.below(8) as u16, r.bytes(32))).collect()),
                4 => Message::ReplyTxs((0..r.below(3)).map(|_| EraTxBody(r.below(8) as u16, blob(r))).collect()),
                _ => Message::Done };
            enc(&m)
        }
        "keepalive" => enc(&match r.below(3) { 0 => keepalive::Message::KeepAlive(r.u64_edgy() as u16), 1 => keepalive::Message::ResponseKeepAlive(r.u64_edgy() as u16), _ => keepalive::Message::Done }),
        "peersharing" => enc(&match r.below(3) {
            0 => peersharing::Message::ShareRequest(r.next() as u8),
            // V4 only: V6 is written with a wrong array length (DESIGN §6 #10, property C22) and is not a well-formed item
            1 => peersharing::Message::SharePeers((0..r.below(5)).map(|_| peersharing::PeerAddress::V4(std::net::Ipv4Addr::from(r.next() as u32), r.u64_edgy() as u16 as u32)).collect()),
            _ => peersharing::Message::Done }),
        "localstate" => enc(&match r.below(10) {
            0 => localstate::Message::Acquire(Some(point1(r))), 1 => localstate::Message::Acquire(None),
            2 => localstate::Message::Failure(if r.chance(1, 2) { localstate::AcquireFailure::PointTooOld } else { localstate::AcquireFailure::PointNotOnChain }),
            3 => localstate::Message::Acquired, 4 => localstate::Message::Query(AnyCbor::from_raw_bytes(item(r))),
            5 => localstate::Message::Result(AnyCbor::from_raw_bytes(item(r))), 6 => localstate::Message::ReAcquire(Some(point1(r))),
            7 => localstate::Message::ReAcquire(None), 8 => localstate::Message::Release, _ => localstate::Message::Done }),
        "localtxsubmission" => {
            use localtxsubmission::*;
            // RejectTx is not generated: its encoder and decoder disagree (C22), so it cannot be sent and received through pallas
            let m: Message<EraTx, TxValidationError> = match r.below(3) { 0 => Message::SubmitTx(EraTx(r.below(8) as u16, blob(r))), 1 => Message::AcceptTx, _ => Message::Done };
            enc(&m)
        }
        "txmonitor" => {
            use txmonitor::*;
            enc(&match r.below(11) {
                0 => Message::Acquire, 1 => Message::AwaitAcquire, 2 => Message::Acquired(r.u64_edgy()), 3 => Message::RequestHasTx(hex::encode(r.bytes(32))),
                4 => Message::RequestNextTx, 5 => Message::RequestSizeAndCapacity, 6 => Message::ResponseHasTx(r.chance(1, 2)),
                7 => Message::ResponseNextTx(None), 8 => Message::ResponseNextTx(Some((r.below(8) as u8, TagWrap::new(Bytes::from(small_blob(r)))))),
                9 => Message::ResponseSizeAndCapacity(MempoolSizeAndCapacity { capacity_in_bytes: r.u64_edgy() as u32, size_in_bytes: r.u64_edgy() as u32, number_of_txs: r.u64_edgy() as u32 }),
                _ => if r.chance(1, 2) { Message::Release } else { Message::Done } })
        }
        _ => vec![],
    }
}

fn gen_n2(proto: &str, r: &mut Rng) -> Vec<u8> {
    use n2::*;
    let m: AnyMessage = match proto {
        "handshake" => {
            let vd = |r: &mut Rng| if r.chance(1, 2) { handshake::n2n::VersionData::new(r.u64_edgy(), r.chance(1, 2), None, None) }
                                   else { handshake::n2n::VersionData::new(r.below(1 << 32), r.chance(1, 2), Some(r.below(3) as u8), Some(r.chance(1, 2))) };
            AnyMessage::Handshake(match r.below(4) {
                0 => handshake::Message::Propose(handshake::VersionTable { values: (0..r.below(5)).map(|i| (7 + i, vd(r))).collect() }),
                1 => handshake::Message::Accept(r.below(20), vd(r)),
                2 => handshake::Message::Refuse(handshake::RefuseReason::Refused(r.below(20), "no".into())),
                _ => handshake::Message::QueryReply(handshake::VersionTable { values: (0..r.below(3)).map(|i| (11 + i, vd(r))).collect() }) })
        }
        "keepalive" => AnyMessage::KeepAlive(match r.below(3) { 0 => keepalive::Message::KeepAlive(r.u64_edgy() as u16), 1 => keepalive::Message::ResponseKeepAlive(r.u64_edgy() as u16), _ => keepalive::Message::Done }),
        "chainsync" => {
            let tip = chainsync::Tip(point2(r), r.u64_edgy());
            let h = if r.chance(1, 4) { chainsync::HeaderContent { variant: 0, byron_prefix: Some((r.below(2) as u8, r.u64_edgy())), cbor: blob(r) } }
                    else { chainsync::HeaderContent { variant: r.range(1, 7) as u8, byron_prefix: None, cbor: blob(r) } };
            AnyMessage::ChainSync(match r.below(8) {
                0 => chainsync::Message::RequestNext, 1 => chainsync::Message::AwaitReply, 2 => chainsync::Message::RollForward(h, tip),
                3 => chainsync::Message::RollBackward(point2(r), tip), 4 => chainsync::Message::FindIntersect((0..r.below(5)).map(|_| point2(r)).collect()),
                5 => chainsync::Message::IntersectFound(point2(r), tip), 6 => chainsync::Message::IntersectNotFound(tip), _ => chainsync::Message::Done })
        }
        "peersharing" => AnyMessage::PeerSharing(match r.below(3) {
            0 => peersharing::Message::ShareRequest(r.next() as u8),
            1 => peersharing::Message::SharePeers((0..r.below(5)).map(|_| peersharing::PeerAddress::V4(std::net::Ipv4Addr::from(r.next() as u32), r.u64_edgy() as u16)).collect()),
            _ => peersharing::Message::Done }),
        "blockfetch" => AnyMessage::BlockFetch(match r.below(6) {
            0 => blockfetch::Message::RequestRange((point2(r), point2(r))), 1 => blockfetch::Message::ClientDone, 2 => blockfetch::Message::StartBatch,
            3 => blockfetch::Message::NoBlocks, 4 => blockfetch::Message::Block(blob(r)), _ => blockfetch::Message::BatchDone }),
        "txsubmission" => { use txsubmission::*; AnyMessage::TxSubmission(match r.below(6) {
            0 => Message::Init, 1 => Message::RequestTxIds(r.chance(1, 2), r.u64_edgy() as u16, r.u64_edgy() as u16),
            2 => Message::ReplyTxIds((0..r.below(4)).map(|_| TxIdAndSize(EraTxId(r.below(8) as u16, r.bytes(32)), r.u64_edgy() as u32)).collect()),
            3 => Message::RequestTxs((0..r.below(4)).map(|_| EraTxId(r.below(8) as u16, r.bytes(32))).collect()),
            4 => Message::ReplyTxs((0..r.below(3)).map(|_| EraTxBody(r.below(8) as u16, blob(r))).collect()), _ => Message::Done }) }
        "leiosnotify" => AnyMessage::LeiosNotify(match r.below(6) {
            0 => leiosnotify::Message::RequestNext, 1 => leiosnotify::Message::BlockAnnouncement(AnyCbor::from_raw_bytes(item(r))),
            2 => leiosnotify::Message::BlockOffer(point2(r), r.u64_edgy() as u32), 3 => leiosnotify::Message::BlockTxsOffer(point2(r)),
            4 => leiosnotify::Message::Votes((0..r.below(4)).map(|_| AnyCbor::from_raw_bytes(item(r))).collect()), _ => leiosnotify::Message::Done }),
        _ => AnyMessage::LeiosFetch(match r.below(5) {
            0 => leiosfetch::Message::BlockRequest(point2(r)), 1 => leiosfetch::Message::Block(AnyCbor::from_raw_bytes(item(r))),
            2 => leiosfetch::Message::BlockTxsRequest(point2(r), leiosfetch::Bitmaps((0..r.below(3)).map(|i| (i as u16, r.u64_edgy())).collect())),
            3 => leiosfetch::Message::BlockTxs { point: point2(r), bitmaps: leiosfetch::Bitmaps((0..r.below(3)).map(|i| (i as u16 * 3, r.next())).collect()),
                                                  txs: (0..r.below(3)).map(|_| AnyCbor::from_raw_bytes(item(r))).collect() },
            _ => leiosfetch::Message::Done }),
    };
    m.payload()
}

// ------------------------------------------------------------------ splits

fn split_at(stream: &[u8], cuts: &[usize]) -> Vec<Vec<u8>> {
    let mut out = vec![];
    let mut prev = 0;
    for &c in cuts { out.push(stream[prev..c].to_vec()); prev = c; }
    out.push(stream[prev..].to_vec());
    out
}
/// chunk lists for one stream: (all cuts are sorted positions in 0..=len, repeats = empty chunks); every chunk <= 65535 bytes
fn gen_splits(r: &mut Rng, stream: &[u8], idx: &mut usize, bounds: &[usize]) -> Vec<Vec<u8>> {
    let n = stream.len();
    let fix = |mut parts: Vec<Vec<u8>>| -> Vec<Vec<u8>> {   // respect the segment maximum
        let mut out = vec![];
        for p in parts.drain(..) { if p.len() <= 65535 { out.push(p) } else { for c in p.chunks(65535) { out.push(c.to_vec()) } } }
        out
    };
    let k = *idx; *idx += 1;
    let parts = match k % 6 {
        0 => if n <= 64 { let c = (k / 6) % (n + 1); split_at(stream, &[c]) } else { let c = r.below(n as u64 + 1) as usize; split_at(stream, &[c]) },   // every 2-way split of short streams
        1 => if n <= 600 { (0..n).map(|i| vec![stream[i]]).collect() } else { let c = r.below(n as u64) as usize; split_at(stream, &[c, (c + 1).min(n)]) },   // 1-byte segments
        2 => { let mut cuts: Vec<usize> = (0..r.range(1, 8)).map(|_| r.below(n as u64 + 1) as usize).collect(); cuts.sort(); split_at(stream, &cuts) }
        3 => { // cut right after / inside the first bytes of each message
            let mut cuts = vec![];
            for &b in bounds { for d in [0usize, 1, 2, 3] { if r.chance(1, 2) && b + d <= n { cuts.push(b + d); } } }
            cuts.sort(); cuts.dedup(); split_at(stream, &cuts) }
        4 => vec![stream.to_vec()],
        _ => { let mut cuts: Vec<usize> = (0..r.range(2, 20)).map(|_| r.below(n as u64 + 1) as usize).collect(); cuts.push(0); cuts.push(n); cuts.sort(); split_at(stream, &cuts) }   // with empty chunks
    };
    fix(parts)
}

/// a block-fetch `Block` message (same bytes in both stacks) whose encoding is exactly `total` bytes long
fn block_msg_of_len(r: &mut Rng, total: usize) -> Vec<u8> {
    // 82 04 d8 18 <bytes head> body
    let mut body = if total >= 4 + 5 + 65536 { total - 9 } else { total.saturating_sub(7) };
    loop {
        let m = enc(&n1::blockfetch::Message::Block { body: vec![0u8; body] });
        if m.len() == total { let mut b = r.bytes(body); if b.is_empty() { b = vec![]; } return enc(&n1::blockfetch::Message::Block { body: b }); }
        if m.len() > total { body -= 1 } else { body += 1 }
    }
}

/// streams whose message boundaries fall exactly on, one before and one after a multiple of the segment maximum,
/// cut the way `send_msg_chunks` / `into_chunks` cut (65535-byte segments from the start of the stream)
fn boundary_case(r: &mut Rng, net2: bool) -> Vec<String> {
    let mut ops = vec![];
    let small = |r: &mut Rng| -> Vec<u8> { enc(&match r.below(3) { 0 => n1::blockfetch::Message::StartBatch, 1 => n1::blockfetch::Message::BatchDone, _ => n1::blockfetch::Message::Block { body: small_blob(r) } }) };
    let k = if r.chance(1, 3) { 2 } else { 1 };
    let delta = [0isize, 0, -1, 1][r.below(4) as usize];
    let mut msgs: Vec<Vec<u8>> = (0..r.below(3)).map(|_| small(r)).collect();
    let l0: usize = msgs.iter().map(|m| m.len()).sum();
    let target = (k * 65535) as isize + delta;
    msgs.push(block_msg_of_len(r, (target as usize) - l0));
    let trailing = r.chance(1, 3);
    if trailing { msgs.push(small(r)); }
    let stream: Vec<u8> = msgs.concat();
    let seg: Vec<Vec<u8>> = stream.chunks(65535).map(|c| c.to_vec()).collect();
    // same boundaries, but reached through smaller segments first
    let mut alt: Vec<Vec<u8>> = vec![];
    { let cut = r.range(1, 2000) as usize; let mut rest = &stream[..]; if rest.len() > cut { alt.push(rest[..cut].to_vec()); rest = &rest[cut..]; } for c in rest.chunks(65535) { alt.push(c.to_vec()); } }
    if !net2 {
        ops.push(format!("sent {}", msgs.iter().map(|m| hex(m)).collect::<Vec<_>>().join(" ")));
        ops.push(format!("n1 blockfetch valid {} {}", msgs.len(), seg.iter().map(|c| hex(c)).collect::<Vec<_>>().join(" ")));
        ops.push(format!("n1 blockfetch valid {} {}", msgs.len(), alt.iter().map(|c| hex(c)).collect::<Vec<_>>().join(" ")));
    } else {
        ops.push(format!("sent2 3:{} 8:-", msgs.iter().map(|m| hex::encode(m)).collect::<Vec<_>>().join(",")));
        let dir = if r.chance(1, 2) { 0x8000u16 } else { 0 };
        ops.push(format!("n2 valid {}", seg.iter().map(|c| format!("{}:{}", 3 | dir, hex(c))).collect::<Vec<_>>().join(" ")));
        ops.push(format!("n2 valid {}", alt.iter().map(|c| format!("{}:{}", 3 | dir, hex(c))).collect::<Vec<_>>().join(" ")));
    }
    ops
}

pub fn generate(g: &mut Gen) {
    let mut idx = 0usize;
    for i in 0..g.cases {
        let r = &mut g.rng;
        let mut ops = vec![];
        let net2 = i % 2 == 1;
        if i % 80 == 6 || i % 80 == 47 {
            // a few big cases: message ends exactly at k x 65535 (and one byte before / after)
            let ops = boundary_case(r, net2);
            g.case(ops);
            continue;
        }
        let n_msgs = r.range(1, 8) as usize;
        if !net2 {
            let proto = N1_PROTOS[(i / 2) % N1_PROTOS.len()];
            let mut budget = 400_000usize;
            let mut msgs: Vec<Vec<u8>> = vec![];
            for _ in 0..n_msgs { let m = gen_n1(proto, r); if m.len() > budget { break; } budget -= m.len(); msgs.push(m); }
            if msgs.is_empty() { msgs.push(gen_n1("keepalive", r)); }
            let stream: Vec<u8> = msgs.concat();
            let mut bounds = vec![0usize]; for m in &msgs { bounds.push(bounds.last().unwrap() + m.len()); }
            // what was sent, for the oracle
            ops.push(format!("sent {}", msgs.iter().map(|m| hex(m)).collect::<Vec<_>>().join(" ")));
            if proto == "chainsync-header" {
                // tie of the chain-sync decoder model (csDec / csEnc)
                for _ in 0..r.range(8, 16) {
                    let head = |major: u8, v: u64, w: u8| -> Vec<u8> { let m = major << 5; match w { 0 if v < 24 => vec![m | v as u8], 0 | 1 if v < 256 => vec![m | 24, v as u8], 0 | 1 | 2 if v < 65536 => { let mut x = vec![m | 25]; x.extend((v as u16).to_be_bytes()); x }
                        0..=3 if v < (1 << 32) => { let mut x = vec![m | 26]; x.extend((v as u32).to_be_bytes()); x } _ => { let mut x = vec![m | 27]; x.extend(v.to_be_bytes()); x } } };
                    let pt = |r: &mut Rng| -> Vec<u8> { if r.chance(1, 4) { vec![0x80] } else { let hl = *r.pick(&[0usize, 1, 24, 32]); let h = r.bytes(hl); let mut x = head(4, *r.pick(&[2u64, 2, 2, 1, 3]), r.below(5) as u8); x.extend(head(0, r.u64_edgy(), r.below(5) as u8)); x.extend(head(2, h.len() as u64, r.below(5) as u8)); x.extend(h); x } };
                    let tip = |r: &mut Rng| -> Vec<u8> { let mut x = head(4, *r.pick(&[2u64, 2, 3]), r.below(3) as u8); x.extend(pt(r)); x.extend(head(0, r.u64_edgy(), r.below(5) as u8)); x };
                    let hdrc = |r: &mut Rng| -> Vec<u8> { let body = small_blob(r); let v = *r.pick(&[0u64, 0, 1, 6, 255, 256]); let mut x = head(4, 2, r.below(3) as u8); x.extend(head(0, v, r.below(5) as u8));
                        if v == 0 { x.extend(head(4, 2, 0)); x.extend(head(4, *r.pick(&[2u64, 2, 2, 3]), r.below(3) as u8)); x.extend(head(0, *r.pick(&[0u64, 1, 255, 256]), r.below(5) as u8)); x.extend(head(0, r.u64_edgy(), r.below(5) as u8)); }
                        x.extend(head(6, *r.pick(&[24u64, 24, 2]), r.below(3) as u8)); x.extend(head(2, body.len() as u64, r.below(5) as u8)); x.extend(body); x };
                    let mut b = match r.below(10) {
                        0 => { let mut x = head(4, 3, r.below(5) as u8); x.extend(head(0, 2, r.below(5) as u8)); x.extend(hdrc(r)); x.extend(tip(r)); x }
                        1 => { let mut x = head(4, 3, 0); x.extend(head(0, *r.pick(&[3u64, 5]), 0)); x.extend(pt(r)); x.extend(tip(r)); x }
                        2 => { let n = r.below(4); let mut x = vec![0x82, 0x04]; if r.chance(1, 3) { x.push(0x9f); for _ in 0..n { x.extend(pt(r)); } if r.chance(3, 4) { x.push(0xff); } } else { x.extend(head(4, n + r.below(2), r.below(5) as u8)); for _ in 0..n { x.extend(pt(r)); } } x }
                        3 => { let mut x = vec![0x82, 0x06]; x.extend(tip(r)); x }
                        4 => { let mut x = head(4, 1, r.below(3) as u8); x.extend(head(0, r.below(10), r.below(5) as u8)); x }
                        5 => { let n = r.below(10) as usize; r.bytes(n) }
                        _ => gen_n1("chainsync-header", r),
                    };
                    if b.len() > 4000 { b.truncate(4000); }
                    match r.below(4) { 0 => { let n = r.below(b.len() as u64 + 1) as usize; b.truncate(n); }, 1 => b.extend(r.bytes(2)), _ => {} }
                    ops.push(format!("{} {}", if r.chance(1, 4) { "csenc" } else { "csdec" }, hex(&b)));
                }
            }
            if proto == "blockfetch" {
                // tie of the block-fetch decoder model (bfDec / bfEnc): valid, hand-built with every head width, indefinite strings,
                // other tags, truncated, extended, random bytes
                for _ in 0..r.range(8, 16) {
                    let head = |major: u8, v: u64, w: u8| -> Vec<u8> { let m = major << 5; match w { 0 if v < 24 => vec![m | v as u8], 0 | 1 if v < 256 => vec![m | 24, v as u8], 0 | 1 | 2 if v < 65536 => { let mut x = vec![m | 25]; x.extend((v as u16).to_be_bytes()); x }
                        0..=3 if v < (1 << 32) => { let mut x = vec![m | 26]; x.extend((v as u32).to_be_bytes()); x } _ => { let mut x = vec![m | 27]; x.extend(v.to_be_bytes()); x } } };
                    let pt = |r: &mut Rng| -> Vec<u8> { match r.below(6) {
                        0 => vec![0x80],
                        1 => { let mut x = vec![*r.pick(&[0x81u8, 0x83, 0x9f, 0x98])]; if x[0] == 0x98 { x.push(2); } x.extend(head(0, r.u64_edgy(), 0)); x.extend(head(2, 2, 0)); x.extend([1, 2]); x }
                        _ => { let hl = *r.pick(&[0usize, 1, 23, 24, 32]); let h = r.bytes(hl); let mut x = head(4, 2, r.below(5) as u8); x.extend(head(0, r.u64_edgy(), r.below(5) as u8)); x.extend(head(2, h.len() as u64, r.below(5) as u8)); x.extend(h); x } } };
                    let mut b = match r.below(9) {
                        0 => { let mut x = head(4, 3, r.below(5) as u8); x.extend(head(0, 0, r.below(5) as u8)); x.extend(pt(r)); x.extend(pt(r)); x }
                        1 => { let mut x = head(4, *r.pick(&[0u64, 1, 2, 7]), r.below(3) as u8); x.extend(head(0, r.below(8), r.below(5) as u8)); x }
                        2 => { let body = small_blob(r); let mut x = head(4, 2, r.below(5) as u8); x.extend(head(0, 4, r.below(5) as u8)); x.extend(head(6, *r.pick(&[24u64, 0, 23, 1000, 1 << 40]), r.below(5) as u8));
                               x.extend(head(2, body.len() as u64, r.below(5) as u8)); x.extend(body); x }
                        3 => { let mut x = vec![0x82, 0x04, 0xd8, 0x18]; x.extend(*r.pick(&[&[0x5fu8, 0x41, 0x01, 0xff][..], &[0x5f, 0xff], &[0x61, 0x61], &[0x18, 0x18], &[0x5b, 0xff, 0xff, 0xff, 0xff, 0xff, 0xff, 0xff, 0xff], &[0x5c, 0x00], &[0x3b, 0x00]])); x }
                        4 => { let n = r.below(10) as usize; r.bytes(n) }
                        5 => { let mut x = vec![0x82, 0x04]; x.extend(head(*r.pick(&[0u8, 1, 2, 3, 4, 5, 7]), 24, 1)); x.extend([0x41, 0x00]); x }
                        _ => gen_n1("blockfetch", r),
                    };
                    if b.len() > 4000 { b.truncate(4000); }
                    match r.below(4) { 0 => { let n = r.below(b.len() as u64 + 1) as usize; b.truncate(n); }, 1 => b.extend(r.bytes(2)), _ => {} }
                    ops.push(format!("{} {}", if r.chance(1, 4) { "bfenc" } else { "bfdec" }, hex(&b)));
                }
            }
            if proto == "keepalive" {
                // tie of the keep-alive decoder model (kDec / kEnc): valid, truncated, wider heads, wrong types, random bytes
                for _ in 0..r.range(6, 14) {
                    let c = match r.below(4) { 0 => r.below(24), 1 => r.range(24, 255), 2 => r.range(256, 65535), _ => *r.pick(&[0u64, 23, 24, 255, 256, 65535]) };
                    let k = r.below(3);
                    ops.push(format!("kenc {k} {c}"));
                    let label = k as u8;
                    let head = |v: u64, w: u8| -> Vec<u8> { match w { 0 => vec![v as u8 & 0x17], 1 => vec![0x18, v as u8], 2 => { let mut x = vec![0x19]; x.extend((v as u16).to_be_bytes()); x }
                                                                        3 => { let mut x = vec![0x1a]; x.extend((v as u32).to_be_bytes()); x } _ => { let mut x = vec![0x1b]; x.extend(v.to_be_bytes()); x } } };
                    let mut b = match r.below(8) {
                        0 => { let mut x = vec![*r.pick(&[0x82u8, 0x81, 0x83, 0x9f, 0x98, 0x80])]; if x[0] == 0x98 { x.push(2); } x.extend(head(label as u64, r.below(5) as u8)); x.extend(head(if r.chance(1, 3) { r.u64_edgy() } else { c }, r.below(5) as u8)); x }
                        1 => { let n = r.below(8) as usize; r.bytes(n) }
                        2 => vec![*r.pick(&[0xa2u8, 0x42, 0x62, 0xc2, 0xf6, 0x20, 0x1c, 0xff, 0x38, 0x39, 0x3a, 0x3b]), label, c as u8],
                        3 => { let mut x = vec![0x82, *r.pick(&[3u8, 0x17, 0x18, 0x20, 0x40, 0x80, 0x38, 0x3b])]; x.extend(head(c, 2)); x }
                        _ => { let m = match k { 0 => n1::keepalive::Message::KeepAlive(c as u16), 1 => n1::keepalive::Message::ResponseKeepAlive(c as u16), _ => n1::keepalive::Message::Done }; enc(&m) }
                    };
                    match r.below(4) { 0 => { let n = r.below(b.len() as u64 + 1) as usize; b.truncate(n); }, 1 => b.extend(r.bytes(2)), _ => {} }
                    ops.push(format!("kdec {}", hex(&b)));
                }
            }
            for _ in 0..(if stream.len() > 100_000 { 2 } else { r.range(3, 6) }) {
                let mut chunks = gen_splits(r, &stream, &mut idx, &bounds);
                let mut count = msgs.len();
                let tag = match r.below(16) {
                    0 => { let at = *r.pick(&bounds); let bad = if proto == "localtxsubmission" { *r.pick(&[0xffu8, 0x1c, 0x61, 0x38, 0xc3, 0x9c]) } else { *r.pick(&[0xffu8, 0x1c]) }; // ill-formed byte at a message boundary (local-tx-submission: also bytes that reach its plain-string fallback)
                           let mut s = stream.clone(); s.insert(at, bad); let mut j = 0; chunks = gen_splits(r, &s, &mut j, &bounds); count = msgs.len(); "bad" }
                    1 => { let cut = r.below(stream.len() as u64 + 1) as usize; let mut j = 2; chunks = gen_splits(r, &stream[..cut], &mut j, &bounds); "trunc" }
                    _ => "valid",
                };
                ops.push(format!("n1 {proto} {tag} {count} {}", chunks.iter().map(|c| hex(c)).collect::<Vec<_>>().join(" ")));
            }
        } else {
            // network2: one main channel, optionally a second channel interleaved
            let (p1, c1) = N2_PROTOS[(i / 2) % N2_PROTOS.len()];
            let (p2, c2) = *r.pick(&N2_PROTOS);
            let mut budget = 300_000usize;
            let mut mk = |r: &mut Rng, p: &str, n: usize| -> Vec<Vec<u8>> { let mut v = vec![]; for _ in 0..n { let m = gen_n2(p, r); if m.len() > budget { break; } budget -= m.len(); v.push(m); } v };
            let m1v = mk(r, p1, n_msgs);
            let k2 = r.range(1, 4) as usize;
            let m2v = if c2 != c1 && r.chance(1, 2) { mk(r, p2, k2) } else { vec![] };
            ops.push(format!("sent2 {}:{} {}:{}", c1, if m1v.is_empty() { "-".into() } else { m1v.iter().map(|m| hex::encode(m)).collect::<Vec<_>>().join(",") },
                                                  c2, if m2v.is_empty() { "-".into() } else { m2v.iter().map(|m| hex::encode(m)).collect::<Vec<_>>().join(",") }));
            let s1: Vec<u8> = m1v.concat();
            let s2: Vec<u8> = m2v.concat();
            let mut b1 = vec![0usize]; for m in &m1v { b1.push(b1.last().unwrap() + m.len()); }
            let mut b2 = vec![0usize]; for m in &m2v { b2.push(b2.last().unwrap() + m.len()); }
            for _ in 0..(if s1.len() + s2.len() > 100_000 { 2 } else { r.range(3, 6) }) {
                let bad = r.chance(1, 12);
                let s1x = if bad { let mut s = s1.clone(); let at = *r.pick(&b1); s.insert(at, *r.pick(&[0xffu8, 0x1c])); s } else { s1.clone() };
                let a = gen_splits(r, &s1x, &mut idx, &b1);
                let mut j = 2usize;
                let b = if s2.is_empty() { vec![] } else { gen_splits(r, &s2, &mut j, &b2) };
                // random interleaving that keeps each channel's order; random direction bit; sometimes an unsupported channel
                let (mut ia, mut ib) = (0, 0);
                let mut segs = vec![];
                let dir1 = if r.chance(1, 2) { 0x8000u16 } else { 0 };
                while ia < a.len() || ib < b.len() {
                    if ib >= b.len() || (ia < a.len() && r.chance(1, 2)) { segs.push(format!("{}:{}", c1 | dir1, hex(&a[ia]))); ia += 1; }
                    else { segs.push(format!("{}:{}", c2 | 0x8000, hex(&b[ib]))); ib += 1; }
                    if r.chance(1, 15) { segs.push(format!("{}:{}", *r.pick(&[5u16, 7, 99, 0x8005]), hex(&r.bytes(3)))); }
                }
                ops.push(format!("n2 {} {}", if bad { "bad" } else { "valid" }, segs.join(" ")));
            }
        }
        g.case(ops);
    }
}

// ------------------------------------------------------------------ real receive paths

/// received message back to bytes (some pallas encoders `todo!()` or fail: such a message is shown as `00`)
fn reencode<M: minicbor::Encode<()>>(m: &M) -> Vec<u8> {
    match std::panic::catch_unwind(std::panic::AssertUnwindSafe(|| minicbor::to_vec(m))) { Ok(Ok(v)) => v, _ => vec![0] }
}

/// one multi-thread runtime for the whole process
fn rt() -> &'static tokio::runtime::Runtime {
    static RT: std::sync::OnceLock<tokio::runtime::Runtime> = std::sync::OnceLock::new();
    RT.get_or_init(|| tokio::runtime::Builder::new_multi_thread().worker_threads(3).enable_all().build().expect("runtime"))
}

/// `count` calls of `recv_full_msg`. "blocked" is decided without a clock: the sender enqueues a marker chunk on a second
/// protocol after the last chunk; mux, bearer and demux are FIFO, so once the marker has arrived every chunk is already in
/// the channel's queue and a `recv_full_msg` that is still pending after a few polls is waiting for bytes that never come.
async fn recv_n<M: pallas_codec::Fragment>(buf: &mut m1::ChannelBuffer, marker: &mut m1::AgentChannel, count: usize) -> (Vec<Vec<u8>>, &'static str) {
    let mut msgs = vec![];
    let mut marker_seen = false;
    for _ in 0..count {
        let fut = buf.recv_full_msg::<M>();
        tokio::pin!(fut);
        let res = loop {
            if !marker_seen {
                tokio::select! {
                    biased;
                    r = &mut fut => break Some(r),
                    _ = marker.dequeue_chunk() => { marker_seen = true; }
                }
            } else {
                let mut done = None;
                for _ in 0..16 {
                    if let std::task::Poll::Ready(r) = futures::poll!(&mut fut) { done = Some(r); break; }
                    tokio::task::yield_now().await;
                }
                break done;
            }
        };
        match res {
            Some(Ok(m)) => msgs.push(reencode(&m)),
            Some(Err(_)) => return (msgs, "error"),
            None => return (msgs, "blocked"),
        }
    }
    (msgs, "done")
}

fn run_n1(proto: &str, count: usize, chunks: Vec<Vec<u8>>) -> Result<(Vec<Vec<u8>>, &'static str), String> {
    let proto = proto.to_string();
    let rt = rt();
    let res = rt.block_on(async move {
        let (s0, s1) = UnixStream::pair().map_err(|e| e.to_string())?;
        let mut pa = m1::Plexer::new(m1::Bearer::Unix(s0));
        let mut pb = m1::Plexer::new(m1::Bearer::Unix(s1));
        let mut tx = pa.subscribe_client(2);
        let rx = pb.subscribe_server(2);
        let mut tx_marker = pa.subscribe_client(3);
        let mut marker = pb.subscribe_server(3);
        let (ra, rb) = (pa.spawn(), pb.spawn());
        let sender = tokio::spawn(async move {
            for c in chunks { if tx.enqueue_chunk(c).await.is_err() { break; } }
            let _ = tx_marker.enqueue_chunk(vec![1]).await;
            // keep both handles alive until the receiver is done
            std::future::pending::<()>().await;
            (tx, tx_marker)
        });
        let mut buf = m1::ChannelBuffer::new(rx);
        use n1::*;
        let out = tokio::time::timeout(Duration::from_secs(60), async { match proto.as_str() {
            "handshake-n2n" => recv_n::<handshake::Message<handshake::n2n::VersionData>>(&mut buf, &mut marker, count).await,
            "handshake-n2c" => recv_n::<handshake::Message<handshake::n2c::VersionData>>(&mut buf, &mut marker, count).await,
            "chainsync-header" => recv_n::<chainsync::Message<chainsync::HeaderContent>>(&mut buf, &mut marker, count).await,
            "chainsync-block" => recv_n::<chainsync::Message<chainsync::BlockContent>>(&mut buf, &mut marker, count).await,
            "blockfetch" => recv_n::<blockfetch::Message>(&mut buf, &mut marker, count).await,
            "txsubmission" => recv_n::<txsubmission::Message<txsubmission::EraTxId, txsubmission::EraTxBody>>(&mut buf, &mut marker, count).await,
            "keepalive" => recv_n::<keepalive::Message>(&mut buf, &mut marker, count).await,
            "peersharing" => recv_n::<peersharing::Message>(&mut buf, &mut marker, count).await,
            "localstate" => recv_n::<localstate::Message>(&mut buf, &mut marker, count).await,
            "localtxsubmission" => recv_n::<localtxsubmission::Message<localtxsubmission::EraTx, localtxsubmission::TxValidationError>>(&mut buf, &mut marker, count).await,
            "txmonitor" => recv_n::<txmonitor::Message>(&mut buf, &mut marker, count).await,
            _ => (vec![], "error"),
        } }).await.unwrap_or((vec![], "timeout"));
        sender.abort();
        let _ = sender.await;
        ra.abort().await; rb.abort().await;
        Ok(out)
    });
    res
}

fn run_n2(segs: Vec<(u16, Vec<u8>)>) -> Result<(Vec<(u16, Vec<u8>)>, Vec<(u16, usize)>), String> {
    let rt = rt();
    let res = rt.block_on(async move {
        let (s0, s1) = UnixStream::pair().map_err(|e| e.to_string())?;
        let (_r0, mut w) = m2::Bearer::Unix(s0).into_split();
        let (mut r, _w1) = m2::Bearer::Unix(s1).into_split();
        let n = segs.len();
        let writer = tokio::spawn(async move { for (c, p) in segs { if w.write_segment(c, 0, &p).await.is_err() { break; } } w });
        let mut partial: HashMap<u16, Vec<u8>> = HashMap::new();
        let mut out = vec![];
        for _ in 0..n {
            match tokio::time::timeout(Duration::from_secs(3), r.read_full_msgs::<AnyMessage>(&mut partial)).await {
                Ok(Ok(ms)) => for m in ms { out.push((m.channel(), m.payload())); },
                _ => return Err("read_full_msgs failed".to_string()),
            }
        }
        let _ = writer.await;
        let mut parts: Vec<(u16, usize)> = partial.iter().map(|(k, v)| (*k, v.len())).collect();
        parts.sort();
        Ok((out, parts))
    });
    res
}

pub fn run_case(case: &Case, out: &mut Out) {
    let mut sent1: Vec<Vec<u8>> = vec![];
    let mut sent2: Vec<(u16, Vec<Vec<u8>>)> = vec![];
    let (mut valid_ops, mut inside_cut) = (0, false);
    for op in &case.ops {
        match op[0].as_str() {
            "kdec" => {
                let Some(b) = unhex(&op[1]) else { out.reply("bad-op".into()); continue; };
                let show1 = |b: &[u8]| -> String {
                    let mut d = minicbor::Decoder::new(b);
                    match d.decode::<n1::keepalive::Message>() {
                        Ok(n1::keepalive::Message::KeepAlive(c)) => format!("ok keepalive {c} {}", d.position()),
                        Ok(n1::keepalive::Message::ResponseKeepAlive(c)) => format!("ok response {c} {}", d.position()),
                        Ok(n1::keepalive::Message::Done) => format!("ok done {}", d.position()),
                        Err(e) if e.is_end_of_input() => "err eoi".into(),
                        Err(_) => "err other".into(),
                    }
                };
                let show2 = |b: &[u8]| -> String {
                    let mut d = minicbor::Decoder::new(b);
                    match d.decode::<n2::keepalive::Message>() {
                        Ok(n2::keepalive::Message::KeepAlive(c)) => format!("ok keepalive {c} {}", d.position()),
                        Ok(n2::keepalive::Message::ResponseKeepAlive(c)) => format!("ok response {c} {}", d.position()),
                        Ok(n2::keepalive::Message::Done) => format!("ok done {}", d.position()),
                        Err(e) if e.is_end_of_input() => "err eoi".into(),
                        Err(_) => "err other".into(),
                    }
                };
                let (a, c) = (show1(&b), show2(&b));
                if a != c { out.viol("keepalive-stacks-differ", format!("{} : {a} vs {c}", hex(&b))); }
                out.cov(format!("kdec:{}", a.split(' ').take(2).collect::<Vec<_>>().join("-")));
                out.reply(a);
            }
            "bfdec" | "bfenc" => {
                let Some(b) = unhex(&op[1]) else { out.reply("bad-op".into()); continue; };
                let pt1 = |p: &n1::Point| match p { n1::Point::Origin => "origin".to_string(), n1::Point::Specific(s, h) => format!("{s}:{}", hex(h)) };
                let pt2 = |p: &n2::Point| match p { n2::Point::Origin => "origin".to_string(), n2::Point::Specific(s, h) => format!("{s}:{}", hex(h)) };
                let mut d = minicbor::Decoder::new(&b);
                let r1 = d.decode::<n1::blockfetch::Message>();
                let pos1 = d.position();
                let mut d = minicbor::Decoder::new(&b);
                let r2 = d.decode::<n2::blockfetch::Message>();
                let pos2 = d.position();
                let s1 = match &r1 {
                    Ok(n1::blockfetch::Message::RequestRange { range }) => format!("ok range {} {} {pos1}", pt1(&range.0), pt1(&range.1)),
                    Ok(n1::blockfetch::Message::ClientDone) => format!("ok clientdone {pos1}"), Ok(n1::blockfetch::Message::StartBatch) => format!("ok startbatch {pos1}"),
                    Ok(n1::blockfetch::Message::NoBlocks) => format!("ok noblocks {pos1}"), Ok(n1::blockfetch::Message::Block { body }) => format!("ok block {} {pos1}", hex(body)),
                    Ok(n1::blockfetch::Message::BatchDone) => format!("ok batchdone {pos1}"),
                    Err(e) if e.is_end_of_input() => "err eoi".into(), Err(_) => "err other".into() };
                let s2 = match &r2 {
                    Ok(n2::blockfetch::Message::RequestRange(range)) => format!("ok range {} {} {pos2}", pt2(&range.0), pt2(&range.1)),
                    Ok(n2::blockfetch::Message::ClientDone) => format!("ok clientdone {pos2}"), Ok(n2::blockfetch::Message::StartBatch) => format!("ok startbatch {pos2}"),
                    Ok(n2::blockfetch::Message::NoBlocks) => format!("ok noblocks {pos2}"), Ok(n2::blockfetch::Message::Block(body)) => format!("ok block {} {pos2}", hex(body)),
                    Ok(n2::blockfetch::Message::BatchDone) => format!("ok batchdone {pos2}"),
                    Err(e) if e.is_end_of_input() => "err eoi".into(), Err(_) => "err other".into() };
                if s1 != s2 { out.viol("blockfetch-stacks-differ", format!("{} : {s1} vs {s2}", hex(&b))); }
                if op[0] == "bfdec" { out.cov(format!("bfdec:{}", s1.split(' ').take(2).collect::<Vec<_>>().join("-"))); out.reply(s1); }
                else { match r1 { Ok(m) => out.ok(hex(&enc(&m))), Err(_) => out.err("decode") } }
            }
            "csdec" | "csenc" => {
                let Some(b) = unhex(&op[1]) else { out.reply("bad-op".into()); continue; };
                macro_rules! show_cs { ($ns:ident, $b:expr) => {{
                    let pt = |p: &$ns::Point| match p { $ns::Point::Origin => "origin".to_string(), $ns::Point::Specific(s, h) => format!("{s}:{}", hex(h)) };
                    let tip = |t: &$ns::chainsync::Tip| format!("{}@{}", pt(&t.0), t.1);
                    let hdr = |c: &$ns::chainsync::HeaderContent| format!("v{}/{}/{}", c.variant, c.byron_prefix.map(|(a, b)| format!("{a},{b}")).unwrap_or("-".into()), hex(&c.cbor));
                    let mut d = minicbor::Decoder::new($b);
                    let r = d.decode::<$ns::chainsync::Message<$ns::chainsync::HeaderContent>>();
                    let pos = d.position();
                    use $ns::chainsync::Message as M;
                    let s = match &r {
                        Ok(M::RequestNext) => format!("ok next {pos}"), Ok(M::AwaitReply) => format!("ok await {pos}"),
                        Ok(M::RollForward(c, t)) => format!("ok fwd {} {} {pos}", hdr(c), tip(t)), Ok(M::RollBackward(p, t)) => format!("ok bwd {} {} {pos}", pt(p), tip(t)),
                        Ok(M::FindIntersect(ps)) => format!("ok find [{}] {pos}", ps.iter().map(|p| pt(p)).collect::<Vec<_>>().join(" ")),
                        Ok(M::IntersectFound(p, t)) => format!("ok found {} {} {pos}", pt(p), tip(t)), Ok(M::IntersectNotFound(t)) => format!("ok notfound {} {pos}", tip(t)),
                        Ok(M::Done) => format!("ok done {pos}"),
                        Err(e) if e.is_end_of_input() => "err eoi".into(), Err(_) => "err other".into() };
                    (s, r.ok().and_then(|m| minicbor::to_vec(&m).ok()))
                }} }
                let (s1, e1) = show_cs!(n1, &b);
                let (s2, _e2) = show_cs!(n2, &b);
                if s1 != s2 { out.viol("chainsync-stacks-differ", format!("{} : {s1} vs {s2}", hex(&b))); }
                if op[0] == "csdec" { out.cov(format!("csdec:{}", s1.split(' ').take(2).collect::<Vec<_>>().join("-"))); out.reply(s1); }
                else { match e1 { Some(v) => out.ok(hex(&v)), None => out.err("decode") } }
            }
            "kenc" => {
                let (k, c) = (op[1].parse::<u8>().unwrap_or(9), op[2].parse::<u16>().unwrap_or(0));
                let m = match k { 0 => n1::keepalive::Message::KeepAlive(c), 1 => n1::keepalive::Message::ResponseKeepAlive(c), _ => n1::keepalive::Message::Done };
                out.ok(hex(&enc(&m)));
            }
            "sent" => { sent1 = op[1..].iter().filter_map(|h| unhex(h)).collect(); out.reply("ok".into()); }
            "sent2" => {
                sent2 = op[1..].iter().filter_map(|t| { let (c, l) = t.split_once(':')?; Some((c.parse().ok()?, if l == "-" { vec![] } else { l.split(',').filter_map(|h| hex::decode(h).ok()).collect() })) }).collect();
                out.reply("ok".into());
            }
            "n1" => {
                if op.len() < 4 { out.reply("bad-op".into()); continue; }
                let (proto, tag) = (op[1].as_str(), op[2].as_str());
                let Ok(count) = op[3].parse::<usize>() else { out.reply("bad-op".into()); continue; };
                let Some(chunks) = op[4..].iter().map(|h| unhex(h)).collect::<Option<Vec<_>>>() else { out.reply("bad-op".into()); continue; };
                out.cov(format!("n1:{proto}")); out.cov(format!("kind:{tag}"));
                let total: usize = chunks.iter().map(|c| c.len()).sum();
                let n_chunks = chunks.len();
                match run_n1(proto, count, chunks.clone()) {
                    Ok((msgs, end)) => {
                        // ---- property oracle: a valid stream under any split yields exactly the sent messages, no error, nothing missing
                        if tag == "valid" && !sent1.is_empty() && total == sent1.iter().map(|m| m.len()).sum::<usize>() {
                            valid_ops += 1;
                            let mut pos = 0; let bounds: Vec<usize> = sent1.iter().map(|m| { pos += m.len(); pos }).collect();
                            let mut p = 0; for c in &chunks { p += c.len(); if p < total && !bounds.contains(&p) { inside_cut = true; } }
                            if msgs != sent1 || end != "done" {
                                let k = msgs.iter().zip(sent1.iter()).take_while(|(a, b)| a == b).count();
                                // a complete message left in the buffer while the receiver waits = stall
                                let key = if end == "blocked" { format!("reassembly-network1 stall proto={proto}") } else { format!("reassembly-network1 proto={proto}") };
                                out.viol(key, format!("{} chunks; sent {} messages, received {} (first difference at #{k}: sent {} got {}), end={end}",
                                    n_chunks, sent1.len(), msgs.len(), sent1.get(k).map(|m| hex(m)).unwrap_or("-".into()), msgs.get(k).map(|m| hex(m)).unwrap_or("-".into())));
                            }
                        }
                        out.ok(format!("[{}] end={end}", msgs.iter().map(|m| hex(m)).collect::<Vec<_>>().join(" ")));
                    }
                    Err(_) => out.err("io"),
                }
            }
            "n2" => {
                let tag = op.get(1).map(|s| s.as_str()).unwrap_or("");
                let Some(segs) = op[2..].iter().map(|t| { let (c, h) = t.split_once(':')?; Some((c.parse::<u16>().ok()?, unhex(h)?)) }).collect::<Option<Vec<_>>>() else { out.reply("bad-op".into()); continue; };
                out.cov(format!("kind2:{tag}"));
                match run_n2(segs.clone()) {
                    Ok((msgs, parts)) => {
                        if tag == "valid" && !sent2.is_empty() {
                            valid_ops += 1;
                            for (c, want) in &sent2 {
                                let got: Vec<Vec<u8>> = msgs.iter().filter(|(k, _)| k == c).map(|(_, p)| p.clone()).collect();
                                let arrived: usize = segs.iter().filter(|(k, _)| k & 0x7fff == *c).map(|(_, p)| p.len()).sum();
                                if arrived != want.iter().map(|m| m.len()).sum::<usize>() { continue; }
                                out.cov(format!("n2:{c}"));
                                if want.len() >= 2 { inside_cut = true; }
                                if &got != want || parts.iter().any(|(k, _)| k == c) {
                                    out.viol(format!("reassembly-network2 channel={c}"), format!("sent {} messages, received {}, left-over {:?}", want.len(), got.len(), parts));
                                }
                            }
                        }
                        out.ok(format!("[{}] partial=[{}]", msgs.iter().map(|(c, p)| format!("{}:{}", c, hex(p))).collect::<Vec<_>>().join(" "),
                            parts.iter().map(|(k, n)| format!("{k}={n}")).collect::<Vec<_>>().join(" ")));
                    }
                    Err(_) => out.err("io"),
                }
            }
            _ => out.reply("bad-op".into()),
        }
    }
    if valid_ops >= 2 && inside_cut && (sent1.len() >= 2 || sent2.iter().any(|s| s.1.len() >= 2)) { out.nontrivial(); }
}
