//! stream `fsm1` — C23: the real client/server agents of the nine original-stack mini-protocols,
//! driven over a real multiplexer (`Plexer` on a `UnixStream::pair()`); the other end of the socket
//! is a bare `Muxer`/`Demuxer` pair ("the peer") that can write *any* encoded message and sees
//! exactly which segments the agent emitted (a marker segment on a side channel, sent through the
//! same FIFO egress queue after every op, delimits what the op emitted).
//!
//! ops (see lean/PallasVerif/Streams/Fsm1.lean): agent | peer | send | recv | callsend | callrecv | comp
//! Oracle (independent): DESIGN Appendix A as typed in fixtures/fsm_spec.rs — a send is accepted iff the
//! specification lets the agent's role send that message in the state; a receive iff the peer may
//! send it; an accepted method call ends in the prescribed state; every refusal leaves `state()`
//! unchanged and emits nothing; an accepted send emits exactly that message.
use crate::fw::*;
use pallas_codec::minicbor;
use pallas_codec::utils::AnyCbor;
use pallas_network::miniprotocols::{blockfetch as bf, chainsync as cs, handshake as hs, keepalive as ka, localstate as ls,
    localtxsubmission as lt, peersharing as ps, txmonitor as tm, txsubmission as tx, Point};
use pallas_network::multiplexer::{AgentChannel, Bearer, Demuxer, Muxer, Plexer, RunningPlexer};
use std::time::Duration;

#[path = "../fixtures/fsm_spec.rs"]
mod fsm_spec;
use fsm_spec::{agency, spec_n1, PSpec, N1_PROTOCOLS};

pub const NAME: &str = "fsm1";
const MARKER: u16 = 0x1234;

type CsMsg = cs::Message<cs::BlockContent>;
type HsMsg = hs::Message<hs::n2c::VersionData>;
type LtMsg = lt::Message<lt::EraTx, String>;
type TxMsg = tx::Message<tx::EraTxId, tx::EraTxBody>;

enum A {
    BfC(bf::Client), BfS(bf::Server),
    CsC(cs::Client<cs::BlockContent>), CsS(cs::Server<cs::BlockContent>),
    HsC(hs::Client<hs::n2c::VersionData>), HsS(hs::Server<hs::n2c::VersionData>),
    KaC(ka::Client), KaS(ka::Server),
    LsC(ls::Client), LsS(ls::Server),
    LtC(lt::GenericClient<lt::EraTx, String>), LtS(lt::GenericServer<lt::EraTx, String>),
    PsC(ps::Client), PsS(ps::Server),
    TmC(tm::Client),
    TxC(tx::Client), TxS(tx::Server),
}

fn proto_id(p: &str) -> u16 {
    match p { "handshake" => 0, "chainsync" => 5, "blockfetch" => 3, "txsubmission" => 4, "keepalive" => 8, "peersharing" => 10,
              "localstate" => 7, "localtxsubmission" => 6, "txmonitor" => 9, _ => 99 }
}

/// leading identifier of a `Debug` rendering = the variant name
fn ident<T: std::fmt::Debug>(x: &T) -> String {
    let s = format!("{:?}", x);
    s.chars().take_while(|c| c.is_ascii_alphanumeric() || *c == '_').collect()
}

// ------------------------------------------------------------------------------------------ messages
fn pt(k: u64) -> Point { Point::Specific(k, vec![k as u8; 4]) }
fn tip(k: u64) -> cs::Tip { cs::Tip(pt(k), k) }
fn vt(k: u64) -> hs::VersionTable<hs::n2c::VersionData> {
    let mut values = std::collections::HashMap::new();
    values.insert(k + 1, hs::n2c::VersionData::new(764824073, Some(false)));
    hs::VersionTable { values }
}

fn bf_msg(c: &str, k: u64) -> Option<bf::Message> {
    Some(match c { "RequestRange" => bf::Message::RequestRange { range: (pt(k), pt(k + 1)) }, "ClientDone" => bf::Message::ClientDone,
        "StartBatch" => bf::Message::StartBatch, "NoBlocks" => bf::Message::NoBlocks, "Block" => bf::Message::Block { body: vec![k as u8; 5] },
        "BatchDone" => bf::Message::BatchDone, _ => return None })
}
fn cs_msg(c: &str, k: u64) -> Option<CsMsg> {
    Some(match c { "RequestNext" => cs::Message::RequestNext, "AwaitReply" => cs::Message::AwaitReply,
        "RollForward" => cs::Message::RollForward(cs::BlockContent(vec![0x18, k as u8]), tip(k)),
        "RollBackward" => cs::Message::RollBackward(pt(k), tip(k)), "FindIntersect" => cs::Message::FindIntersect(vec![pt(k)]),
        "IntersectFound" => cs::Message::IntersectFound(pt(k), tip(k)), "IntersectNotFound" => cs::Message::IntersectNotFound(tip(k)),
        "Done" => cs::Message::Done, _ => return None })
}
fn hs_msg(c: &str, k: u64) -> Option<HsMsg> {
    Some(match c { "Propose" => hs::Message::Propose(vt(k)), "Accept" => hs::Message::Accept(k + 1, hs::n2c::VersionData::new(764824073, Some(false))),
        "Refuse" => hs::Message::Refuse(hs::RefuseReason::VersionMismatch(vec![k])), "QueryReply" => hs::Message::QueryReply(vt(k)), _ => return None })
}
fn ka_msg(c: &str, k: u64) -> Option<ka::Message> {
    Some(match c { "KeepAlive" => ka::Message::KeepAlive(k as u16), "ResponseKeepAlive" => ka::Message::ResponseKeepAlive(k as u16), "Done" => ka::Message::Done, _ => return None })
}
fn ls_msg(c: &str, k: u64) -> Option<ls::Message> {
    Some(match c { "Acquire" => ls::Message::Acquire(Some(pt(k))), "Failure" => ls::Message::Failure(ls::AcquireFailure::PointTooOld),
        "Acquired" => ls::Message::Acquired, "Query" => ls::Message::Query(AnyCbor::from_encode(k)), "Result" => ls::Message::Result(AnyCbor::from_encode(k)),
        "ReAcquire" => ls::Message::ReAcquire(None), "Release" => ls::Message::Release, "Done" => ls::Message::Done, _ => return None })
}
fn lt_msg(c: &str, k: u64) -> Option<LtMsg> {
    Some(match c { "SubmitTx" => lt::Message::SubmitTx(lt::EraTx(6, vec![0x80 | (k as u8 & 7)])), "AcceptTx" => lt::Message::AcceptTx,
        "RejectTx" => lt::Message::RejectTx(format!("r{k}")), "Done" => lt::Message::Done, _ => return None })
}
fn ps_msg(c: &str, k: u64) -> Option<ps::Message> {
    Some(match c { "ShareRequest" => ps::Message::ShareRequest(k as u8), "SharePeers" => ps::Message::SharePeers(vec![ps::PeerAddress::V4(std::net::Ipv4Addr::from(k as u32), k as u32)]),
        "Done" => ps::Message::Done, _ => return None })
}
fn tm_msg(c: &str, k: u64) -> Option<tm::Message> {
    Some(match c { "Acquire" => tm::Message::Acquire, "AwaitAcquire" => tm::Message::AwaitAcquire, "Acquired" => tm::Message::Acquired(k),
        "RequestHasTx" => tm::Message::RequestHasTx(format!("{:064x}", k)), "RequestNextTx" => tm::Message::RequestNextTx,
        "RequestSizeAndCapacity" => tm::Message::RequestSizeAndCapacity, "ResponseHasTx" => tm::Message::ResponseHasTx(k % 2 == 0),
        "ResponseNextTx" => tm::Message::ResponseNextTx(None),
        "ResponseSizeAndCapacity" => tm::Message::ResponseSizeAndCapacity(tm::MempoolSizeAndCapacity { capacity_in_bytes: k as u32, size_in_bytes: 1, number_of_txs: 2 }),
        "Release" => tm::Message::Release, "Done" => tm::Message::Done, _ => return None })
}
fn tx_msg(c: &str, k: u64) -> Option<TxMsg> {
    Some(match c { "Init" => tx::Message::Init, "RequestTxIds(true)" => tx::Message::RequestTxIds(true, 0, k as u16 + 1),
        "RequestTxIds(false)" => tx::Message::RequestTxIds(false, 0, k as u16 + 1),
        "ReplyTxIds" => tx::Message::ReplyTxIds(vec![tx::TxIdAndSize(tx::EraTxId(6, vec![k as u8; 32]), 100)]),
        "RequestTxs" => tx::Message::RequestTxs(vec![tx::EraTxId(6, vec![k as u8; 32])]),
        "ReplyTxs" => tx::Message::ReplyTxs(vec![tx::EraTxBody(6, vec![0x80])]), "Done" => tx::Message::Done, _ => return None })
}

fn encode(p: &str, c: &str, k: u64) -> Option<Vec<u8>> {
    fn enc<T: minicbor::Encode<()>>(m: Option<T>) -> Option<Vec<u8>> { m.map(|m| minicbor::to_vec(&m).unwrap()) }
    match p {
        "blockfetch" => enc(bf_msg(c, k)), "chainsync" => enc(cs_msg(c, k)), "handshake" => enc(hs_msg(c, k)), "keepalive" => enc(ka_msg(c, k)),
        "localstate" => enc(ls_msg(c, k)), "localtxsubmission" => enc(lt_msg(c, k)), "peersharing" => enc(ps_msg(c, k)),
        "txmonitor" => enc(tm_msg(c, k)), "txsubmission" => enc(tx_msg(c, k)), _ => None,
    }
}

/// message classes contained in the bytes an agent emitted (concatenated CBOR items)
fn classify(p: &str, bytes: &[u8]) -> (Vec<String>, Option<u16>) {
    let mut d = minicbor::Decoder::new(bytes);
    let mut res = vec![];
    let mut cookie = None;
    while d.position() < bytes.len() {
        let name = match p {
            "blockfetch" => d.decode::<bf::Message>().map(|m| ident(&m)).ok(),
            "chainsync" => d.decode::<CsMsg>().map(|m| ident(&m)).ok(),
            "handshake" => d.decode::<HsMsg>().map(|m| ident(&m)).ok(),
            "keepalive" => d.decode::<ka::Message>().map(|m| { if let ka::Message::KeepAlive(c) | ka::Message::ResponseKeepAlive(c) = &m { cookie = Some(*c); } ident(&m) }).ok(),
            "localstate" => d.decode::<ls::Message>().map(|m| ident(&m)).ok(),
            "localtxsubmission" => d.decode::<LtMsg>().map(|m| ident(&m)).ok(),
            "peersharing" => d.decode::<ps::Message>().map(|m| ident(&m)).ok(),
            "txmonitor" => d.decode::<tm::Message>().map(|m| ident(&m)).ok(),
            "txsubmission" => d.decode::<TxMsg>().map(|m| match &m { tx::Message::RequestTxIds(b, ..) => format!("RequestTxIds({b})"), _ => ident(&m) }).ok(),
            _ => None,
        };
        match name { Some(n) => res.push(n), None => { res.push("undecodable".into()); break; } }
    }
    (res, cookie)
}

// ------------------------------------------------------------------------------------------ the agents
fn new_agent(p: &str, role: &str, ch: AgentChannel) -> Option<A> {
    Some(match (p, role) {
        ("blockfetch", "client") => A::BfC(bf::Client::new(ch)), ("blockfetch", "server") => A::BfS(bf::Server::new(ch)),
        ("chainsync", "client") => A::CsC(cs::Client::new(ch)), ("chainsync", "server") => A::CsS(cs::Server::new(ch)),
        ("handshake", "client") => A::HsC(hs::Client::new(ch)), ("handshake", "server") => A::HsS(hs::Server::new(ch)),
        ("keepalive", "client") => A::KaC(ka::Client::new(ch)), ("keepalive", "server") => A::KaS(ka::Server::new(ch)),
        ("localstate", "client") => A::LsC(ls::Client::new(ch)), ("localstate", "server") => A::LsS(ls::Server::new(ch)),
        ("localtxsubmission", "client") => A::LtC(lt::GenericClient::new(ch)), ("localtxsubmission", "server") => A::LtS(lt::GenericServer::new(ch)),
        ("peersharing", "client") => A::PsC(ps::Client::new(ch)), ("peersharing", "server") => A::PsS(ps::Server::new(ch)),
        ("txmonitor", "client") => A::TmC(tm::Client::new(ch)),
        ("txsubmission", "client") => A::TxC(tx::Client::new(ch)), ("txsubmission", "server") => A::TxS(tx::Server::new(ch)),
        _ => return None,
    })
}

fn kind<E: std::fmt::Debug>(e: E) -> String {
    let k = ident(&e);
    if k == "KeepAliveCookieMismatch" { "Payload".into() } else { k }
}
/// `Err` values that report the *content* of a permitted, fully processed message (the exchange itself
/// was accepted and the state moved on): local-state-query `Failure` is returned as `Err(Acquire..)`
fn app_level(k: &str) -> bool { k == "AcquirePointTooOld" || k == "AcquirePointNotOnChain" }
fn fold<T>(r: Result<T, String>) -> Result<(), String> { match r { Ok(_) => Ok(()), Err(k) if app_level(&k) => Ok(()), Err(k) => Err(k) } }
macro_rules! r { ($e:expr) => { Some(fold($e.map_err(kind))) }; }

impl A {
    fn state(&self) -> String {
        match self {
            A::BfC(a) => ident(a.state()), A::BfS(a) => ident(a.state()), A::CsC(a) => ident(a.state()), A::CsS(a) => ident(a.state()),
            A::HsC(a) => ident(a.state()), A::HsS(a) => ident(a.state()), A::KaC(a) => ident(a.state()), A::KaS(a) => ident(a.state()),
            A::LsC(a) => ident(a.state()), A::LsS(a) => ident(a.state()), A::LtC(a) => ident(a.state()), A::LtS(a) => ident(a.state()),
            A::PsC(a) => ident(a.state()), A::PsS(a) => ident(a.state()), A::TmC(a) => ident(a.state()), A::TxC(a) => ident(a.state()),
            A::TxS(a) => ident(a.state()),
        }
    }

    /// low-level send_message (None: not part of the public API of this agent / unknown class)
    async fn raw_send(&mut self, c: &str, k: u64) -> Option<Result<(), String>> {
        match self {
            A::BfC(a) => r!(a.send_message(&bf_msg(c, k)?).await), A::BfS(a) => r!(a.send_message(&bf_msg(c, k)?).await),
            A::CsC(a) => r!(a.send_message(&cs_msg(c, k)?).await), A::CsS(a) => r!(a.send_message(&cs_msg(c, k)?).await),
            A::HsC(a) => r!(a.send_message(&hs_msg(c, k)?).await), A::HsS(a) => r!(a.send_message(&hs_msg(c, k)?).await),
            A::KaC(a) => r!(a.send_message(&ka_msg(c, k)?).await), A::KaS(a) => r!(a.send_message(&ka_msg(c, k)?).await),
            A::LsC(a) => r!(a.send_message(&ls_msg(c, k)?).await), A::LsS(a) => r!(a.send_message(&ls_msg(c, k)?).await),
            A::PsC(a) => r!(a.send_message(&ps_msg(c, k)?).await), A::PsS(a) => r!(a.send_message(&ps_msg(c, k)?).await),
            A::TmC(a) => r!(a.send_message(&tm_msg(c, k)?).await),
            A::TxC(a) => r!(a.send_message(&tx_msg(c, k)?).await), A::TxS(a) => r!(a.send_message(&tx_msg(c, k)?).await),
            A::LtC(_) | A::LtS(_) => None,
        }
    }

    /// low-level recv_message -> class of the message returned
    async fn raw_recv(&mut self) -> Option<Result<String, String>> {
        macro_rules! rr { ($e:expr) => { Some($e.map(|m| ident(&m)).map_err(kind)) }; }
        match self {
            A::BfC(a) => rr!(a.recv_message().await), A::BfS(a) => rr!(a.recv_message().await),
            A::CsC(a) => rr!(a.recv_message().await),
            A::HsC(a) => rr!(a.recv_message().await), A::HsS(a) => rr!(a.recv_message().await),
            A::KaC(a) => rr!(a.recv_message().await), A::KaS(a) => rr!(a.recv_message().await),
            A::LsC(a) => rr!(a.recv_message().await), A::LsS(a) => rr!(a.recv_message().await),
            A::PsC(a) => rr!(a.recv_message().await), A::PsS(a) => rr!(a.recv_message().await),
            A::TmC(a) => rr!(a.recv_message().await),
            A::TxC(a) => Some(a.recv_message().await.map(|m| match &m { tx::Message::RequestTxIds(b, ..) => format!("RequestTxIds({b})"), _ => ident(&m) }).map_err(kind)),
            A::TxS(a) => rr!(a.recv_message().await),
            A::CsS(_) | A::LtC(_) | A::LtS(_) => None,
        }
    }

    /// a sending method, by (method, message class)
    async fn call_send(&mut self, f: &str, c: &str, k: u64) -> Option<Result<(), String>> {
        match (self, f, c) {
            (A::BfC(a), "send_request_range", "RequestRange") => r!(a.send_request_range((pt(k), pt(k + 1))).await),
            (A::BfC(a), "send_done", "ClientDone") => r!(a.send_done().await),
            (A::BfS(a), "send_start_batch", "StartBatch") => r!(a.send_start_batch().await),
            (A::BfS(a), "send_no_blocks", "NoBlocks") => r!(a.send_no_blocks().await),
            (A::BfS(a), "send_block", "Block") => r!(a.send_block(vec![k as u8; 5]).await),
            (A::BfS(a), "send_batch_done", "BatchDone") => r!(a.send_batch_done().await),
            (A::CsC(a), "send_find_intersect", "FindIntersect") => r!(a.send_find_intersect(vec![pt(k)]).await),
            (A::CsC(a), "send_request_next", "RequestNext") => r!(a.send_request_next().await),
            (A::CsC(a), "send_done", "Done") => r!(a.send_done().await),
            (A::CsS(a), "send_intersect_not_found", "IntersectNotFound") => r!(a.send_intersect_not_found(tip(k)).await),
            (A::CsS(a), "send_intersect_found", "IntersectFound") => r!(a.send_intersect_found(pt(k), tip(k)).await),
            (A::CsS(a), "send_roll_forward", "RollForward") => r!(a.send_roll_forward(cs::BlockContent(vec![0x18, k as u8]), tip(k)).await),
            (A::CsS(a), "send_roll_backward", "RollBackward") => r!(a.send_roll_backward(pt(k), tip(k)).await),
            (A::CsS(a), "send_await_reply", "AwaitReply") => r!(a.send_await_reply().await),
            (A::HsC(a), "send_propose", "Propose") => r!(a.send_propose(vt(k)).await),
            (A::HsS(a), "accept_version", "Accept") => r!(a.accept_version(k + 1, hs::n2c::VersionData::new(764824073, Some(false))).await),
            (A::HsS(a), "refuse", "Refuse") => r!(a.refuse(hs::RefuseReason::VersionMismatch(vec![k])).await),
            (A::HsS(a), "query_reply", "QueryReply") => r!(a.query_reply(vt(k)).await),
            (A::KaC(a), "send_keepalive_request", "KeepAlive") => r!(a.send_keepalive_request().await),
            (A::KaC(a), "send_done", "Done") => r!(a.send_done().await),
            (A::TmC(a), "send_done", "Done") => r!(a.send_done().await),
            (A::KaS(a), "send_keepalive_response", "ResponseKeepAlive") => r!(a.send_keepalive_response().await),
            (A::LsC(a), "send_acquire", "Acquire") => r!(a.send_acquire(Some(pt(k))).await),
            (A::LsC(a), "send_reacquire", "ReAcquire") => r!(a.send_reacquire(None).await),
            (A::LsC(a), "send_release", "Release") => r!(a.send_release().await),
            (A::LsC(a), "send_done", "Done") => r!(a.send_done().await),
            (A::LsC(a), "send_query", "Query") => r!(a.send_query(AnyCbor::from_encode(k)).await),
            (A::LsS(a), "send_failure", "Failure") => r!(a.send_failure(ls::AcquireFailure::PointTooOld).await),
            (A::LsS(a), "send_acquired", "Acquired") => r!(a.send_acquired().await),
            (A::LsS(a), "send_result", "Result") => r!(a.send_result(AnyCbor::from_encode(k)).await),
            (A::LtC(a), "terminate_gracefully", "Done") => r!(a.terminate_gracefully().await),
            (A::LtC(a), "send_submit_tx", "SubmitTx") => r!(a.send_submit_tx(lt::EraTx(6, vec![0x80])).await),
            (A::LtS(a), "send_submit_tx_response", "AcceptTx") => r!(a.send_submit_tx_response(lt::Response::Accepted).await),
            (A::LtS(a), "send_submit_tx_response", "RejectTx") => r!(a.send_submit_tx_response(lt::Response::Rejected(format!("r{k}"))).await),
            (A::PsC(a), "send_share_request", "ShareRequest") => r!(a.send_share_request(k as u8).await),
            (A::PsC(a), "send_done", "Done") => r!(a.send_done().await),
            (A::PsS(a), "send_peer_addresses", "SharePeers") => r!(a.send_peer_addresses(vec![]).await),
            (A::TmC(a), "release", "Release") => r!(a.release().await),
            (A::TxC(a), "send_init", "Init") => r!(a.send_init().await),
            (A::TxC(a), "reply_tx_ids", "ReplyTxIds") => r!(a.reply_tx_ids(vec![]).await),
            (A::TxC(a), "reply_txs", "ReplyTxs") => r!(a.reply_txs(vec![]).await),
            (A::TxC(a), "send_done", "Done") => r!(a.send_done().await),
            (A::TxS(a), "acknowledge_and_request_tx_ids", "RequestTxIds(true)") => r!(a.acknowledge_and_request_tx_ids(true, 0, k as u16 + 1).await),
            (A::TxS(a), "acknowledge_and_request_tx_ids", "RequestTxIds(false)") => r!(a.acknowledge_and_request_tx_ids(false, 0, k as u16 + 1).await),
            (A::TxS(a), "request_txs", "RequestTxs") => r!(a.request_txs(vec![tx::EraTxId(6, vec![k as u8; 32])]).await),
            _ => None,
        }
    }

    async fn call_recv(&mut self, f: &str) -> Option<Result<(), String>> {
        match (self, f) {
            (A::BfC(a), "recv_while_busy") => r!(a.recv_while_busy().await),
            (A::BfC(a), "recv_while_streaming") => r!(a.recv_while_streaming().await),
            (A::BfS(a), "recv_while_idle") => r!(a.recv_while_idle().await),
            (A::CsC(a), "recv_intersect_response") => r!(a.recv_intersect_response().await),
            (A::CsC(a), "recv_while_can_await") => r!(a.recv_while_can_await().await),
            (A::CsC(a), "recv_while_must_reply") => r!(a.recv_while_must_reply().await),
            (A::CsS(a), "recv_while_idle") => r!(a.recv_while_idle().await),
            (A::HsC(a), "recv_while_confirm") => r!(a.recv_while_confirm().await),
            (A::HsS(a), "receive_proposed_versions") => r!(a.receive_proposed_versions().await),
            (A::KaC(a), "recv_keepalive_response") => r!(a.recv_keepalive_response().await),
            (A::KaS(a), "recv_keepalive_request") => r!(a.recv_keepalive_request().await),
            (A::LsC(a), "recv_while_acquiring") => r!(a.recv_while_acquiring().await),
            (A::LsC(a), "recv_while_querying") => r!(a.recv_while_querying().await),
            (A::LsS(a), "recv_while_idle") => r!(a.recv_while_idle().await),
            (A::LsS(a), "recv_while_acquired") => r!(a.recv_while_acquired().await),
            (A::LtC(a), "recv_submit_tx_response") => r!(a.recv_submit_tx_response().await),
            (A::LtS(a), "recv_next_request") => r!(a.recv_next_request().await),
            (A::PsC(a), "recv_peer_addresses") => r!(a.recv_peer_addresses().await),
            (A::PsS(a), "recv_share_request") => r!(a.recv_share_request().await),
            (A::TxC(a), "next_request") => r!(a.next_request().await),
            (A::TxS(a), "wait_for_init") => r!(a.wait_for_init().await),
            (A::TxS(a), "receive_next_reply") => r!(a.receive_next_reply().await),
            _ => None,
        }
    }

    /// public methods that send and then receive (tx-monitor exposes only these)
    async fn call_comp(&mut self, f: &str, c: &str, g: &str, k: u64) -> Option<Result<(), String>> {
        match (self, f, c, g) {
            (A::TmC(a), "send_acquire", "Acquire", "recv_while_acquiring") => r!(a.acquire().await),
            (A::TmC(a), "send_request_has_tx", "RequestHasTx", "recv_while_requesting_has_tx") => r!(a.query_has_tx(format!("{:064x}", k)).await),
            (A::TmC(a), "send_request_next_tx", "RequestNextTx", "recv_while_requesting_next_tx") => r!(a.query_next_tx().await),
            (A::TmC(a), "send_request_size_and_capacity", "RequestSizeAndCapacity", "recv_while_requesting_size_and_capacity") => r!(a.query_size_and_capacity().await),
            (A::BfC(a), "send_request_range", "RequestRange", "recv_while_busy") => r!(a.request_range((pt(k), pt(k + 1))).await),
            (A::CsC(a), "send_request_next", "RequestNext", "recv_while_can_await") => r!(a.request_next().await),
            (A::LsC(a), "send_acquire", "Acquire", "recv_while_acquiring") => r!(a.acquire(Some(pt(k))).await),
            (A::LsC(a), "send_query", "Query", "recv_while_querying") => r!(a.query_any(AnyCbor::from_encode(k)).await),
            (A::HsC(a), "send_propose", "Propose", "recv_while_confirm") => r!(a.handshake(vt(k)).await),
            (A::LtC(a), "send_submit_tx", "SubmitTx", "recv_submit_tx_response") => r!(a.submit_tx(lt::EraTx(6, vec![0x80])).await),
            _ => None,
        }
    }
}

// ------------------------------------------------------------------------------------------ method tables (for the generator and the completeness oracle)
struct AgentDef {
    proto: &'static str,
    role: &'static str,
    sends: &'static [(&'static str, &'static str)],
    /// receiving method, message classes it has an arm for
    recvs: &'static [(&'static str, &'static [&'static str])],
    comps: &'static [(&'static str, &'static str, &'static str)],
    raw_send: bool,
    raw_recv: bool,
}

const AGENTS: &[AgentDef] = &[
    AgentDef { proto: "blockfetch", role: "client", raw_send: true, raw_recv: true,
        sends: &[("send_request_range", "RequestRange"), ("send_done", "ClientDone")],
        recvs: &[("recv_while_busy", &["StartBatch", "NoBlocks"]), ("recv_while_streaming", &["Block", "BatchDone"])],
        comps: &[("send_request_range", "RequestRange", "recv_while_busy")] },
    AgentDef { proto: "blockfetch", role: "server", raw_send: true, raw_recv: true,
        sends: &[("send_start_batch", "StartBatch"), ("send_no_blocks", "NoBlocks"), ("send_block", "Block"), ("send_batch_done", "BatchDone")],
        recvs: &[("recv_while_idle", &["RequestRange", "ClientDone"])], comps: &[] },
    AgentDef { proto: "chainsync", role: "client", raw_send: true, raw_recv: true,
        sends: &[("send_find_intersect", "FindIntersect"), ("send_request_next", "RequestNext"), ("send_done", "Done")],
        recvs: &[("recv_intersect_response", &["IntersectFound", "IntersectNotFound"]), ("recv_while_can_await", &["AwaitReply", "RollForward", "RollBackward"]),
                 ("recv_while_must_reply", &["RollForward", "RollBackward"])],
        comps: &[("send_request_next", "RequestNext", "recv_while_can_await")] },
    AgentDef { proto: "chainsync", role: "server", raw_send: true, raw_recv: false,
        sends: &[("send_intersect_not_found", "IntersectNotFound"), ("send_intersect_found", "IntersectFound"), ("send_roll_forward", "RollForward"),
                 ("send_roll_backward", "RollBackward"), ("send_await_reply", "AwaitReply")],
        recvs: &[("recv_while_idle", &["FindIntersect", "RequestNext", "Done"])], comps: &[] },
    AgentDef { proto: "handshake", role: "client", raw_send: true, raw_recv: true,
        sends: &[("send_propose", "Propose")], recvs: &[("recv_while_confirm", &["Accept", "Refuse", "QueryReply"])],
        comps: &[("send_propose", "Propose", "recv_while_confirm")] },
    AgentDef { proto: "handshake", role: "server", raw_send: true, raw_recv: true,
        sends: &[("accept_version", "Accept"), ("refuse", "Refuse"), ("query_reply", "QueryReply")],
        recvs: &[("receive_proposed_versions", &["Propose"])], comps: &[] },
    AgentDef { proto: "keepalive", role: "client", raw_send: true, raw_recv: true,
        sends: &[("send_keepalive_request", "KeepAlive"), ("send_done", "Done")], recvs: &[("recv_keepalive_response", &["ResponseKeepAlive"])], comps: &[] },
    AgentDef { proto: "keepalive", role: "server", raw_send: true, raw_recv: true,
        sends: &[("send_keepalive_response", "ResponseKeepAlive")], recvs: &[("recv_keepalive_request", &["KeepAlive", "Done"])], comps: &[] },
    AgentDef { proto: "localstate", role: "client", raw_send: true, raw_recv: true,
        sends: &[("send_acquire", "Acquire"), ("send_reacquire", "ReAcquire"), ("send_release", "Release"), ("send_done", "Done"), ("send_query", "Query")],
        recvs: &[("recv_while_acquiring", &["Acquired", "Failure"]), ("recv_while_querying", &["Result"])],
        comps: &[("send_acquire", "Acquire", "recv_while_acquiring"), ("send_query", "Query", "recv_while_querying")] },
    AgentDef { proto: "localstate", role: "server", raw_send: true, raw_recv: true,
        sends: &[("send_failure", "Failure"), ("send_acquired", "Acquired"), ("send_result", "Result")],
        recvs: &[("recv_while_idle", &["Acquire", "Done"]), ("recv_while_acquired", &["ReAcquire", "Query", "Release"])], comps: &[] },
    AgentDef { proto: "localtxsubmission", role: "client", raw_send: false, raw_recv: false,
        sends: &[("terminate_gracefully", "Done"), ("send_submit_tx", "SubmitTx")], recvs: &[("recv_submit_tx_response", &["AcceptTx", "RejectTx"])],
        comps: &[("send_submit_tx", "SubmitTx", "recv_submit_tx_response")] },
    AgentDef { proto: "localtxsubmission", role: "server", raw_send: false, raw_recv: false,
        sends: &[("send_submit_tx_response", "AcceptTx"), ("send_submit_tx_response", "RejectTx")], recvs: &[("recv_next_request", &["SubmitTx", "Done"])], comps: &[] },
    AgentDef { proto: "peersharing", role: "client", raw_send: true, raw_recv: true,
        sends: &[("send_share_request", "ShareRequest"), ("send_done", "Done")], recvs: &[("recv_peer_addresses", &["SharePeers"])], comps: &[] },
    AgentDef { proto: "peersharing", role: "server", raw_send: true, raw_recv: true,
        sends: &[("send_peer_addresses", "SharePeers")], recvs: &[("recv_share_request", &["ShareRequest", "Done"])], comps: &[] },
    AgentDef { proto: "txmonitor", role: "client", raw_send: true, raw_recv: true,
        sends: &[("release", "Release"), ("send_done", "Done")], recvs: &[],
        comps: &[("send_acquire", "Acquire", "recv_while_acquiring"), ("send_request_has_tx", "RequestHasTx", "recv_while_requesting_has_tx"),
                 ("send_request_next_tx", "RequestNextTx", "recv_while_requesting_next_tx"),
                 ("send_request_size_and_capacity", "RequestSizeAndCapacity", "recv_while_requesting_size_and_capacity")] },
    AgentDef { proto: "txsubmission", role: "client", raw_send: true, raw_recv: true,
        sends: &[("send_init", "Init"), ("reply_tx_ids", "ReplyTxIds"), ("reply_txs", "ReplyTxs"), ("send_done", "Done")],
        recvs: &[("next_request", &["RequestTxIds(true)", "RequestTxIds(false)", "RequestTxs"])], comps: &[] },
    AgentDef { proto: "txsubmission", role: "server", raw_send: true, raw_recv: true,
        sends: &[("acknowledge_and_request_tx_ids", "RequestTxIds(true)"), ("acknowledge_and_request_tx_ids", "RequestTxIds(false)"), ("request_txs", "RequestTxs")],
        recvs: &[("wait_for_init", &["Init"]), ("receive_next_reply", &["ReplyTxIds", "ReplyTxs", "Done"])], comps: &[] },
];

/// replies the receive half of the tx-monitor composites has an arm for (their step methods are private)
fn comp_handles(recv_method: &str, m: &str) -> bool {
    matches!((recv_method, m), ("recv_while_acquiring", "Acquired") | ("recv_while_requesting_has_tx", "ResponseHasTx")
        | ("recv_while_requesting_next_tx", "ResponseNextTx") | ("recv_while_requesting_size_and_capacity", "ResponseSizeAndCapacity"))
}

fn agent_def(p: &str, r: &str) -> Option<&'static AgentDef> { AGENTS.iter().find(|a| a.proto == p && a.role == r) }
fn role_char(r: &str) -> char { if r == "client" { 'C' } else { 'S' } }

// ------------------------------------------------------------------------------------------ generator
/// ops that bring a fresh agent into state `target` (None if the public API cannot get there)
fn path_to(d: &AgentDef, sp: &PSpec, target: &str, k: &mut u64) -> Option<Vec<String>> {
    // tx-monitor: only composite methods are public; the intermediate states are reached by letting the
    // receive half fail on a message the state does not admit
    if d.proto == "txmonitor" {
        let acq = vec!["peer Acquired 7".to_string(), "comp send_acquire Acquire recv_while_acquiring 0".to_string()];
        return Some(match target {
            "Idle" => vec![],
            "Acquiring" => vec!["peer AwaitAcquire 0".into(), "comp send_acquire Acquire recv_while_acquiring 0".into()],
            "Acquired" => acq,
            "Busy" => { let mut v = acq; v.push("peer AwaitAcquire 0".into()); v.push("comp send_request_next_tx RequestNextTx recv_while_requesting_next_tx 0".into()); v }
            "Done" => vec!["callsend send_done Done 0".into()],
            _ => return None,
        });
    }
    // breadth-first over the specification's graph
    let mut prev: Vec<(&str, Option<(&str, &str)>)> = vec![(sp.init, None)];
    let mut i = 0;
    while i < prev.len() {
        let cur = prev[i].0;
        if cur == target { break; }
        for t in sp.trans.iter().filter(|t| t.0 == cur) {
            if !prev.iter().any(|p| p.0 == t.2) { prev.push((t.2, Some((cur, t.1)))); }
        }
        i += 1;
    }
    let mut steps = vec![];
    let mut cur = target;
    loop {
        let e = prev.iter().find(|p| p.0 == cur)?;
        match e.1 { None => break, Some((from, m)) => { steps.push((from, m)); cur = from; } }
    }
    steps.reverse();
    let mut ops = vec![];
    for (from, m) in steps {
        *k += 1;
        if agency(sp.name, from) == role_char(d.role) {
            let f = d.sends.iter().find(|s| s.1 == m)?.0;
            ops.push(format!("callsend {f} {m} {k}"));
        } else {
            let f = d.recvs.iter().find(|r| r.1.contains(&m))?.0;
            ops.push(format!("peer {m} {}", ptok(m, *k, true)));
            ops.push(format!("callrecv {f}"));
        }
    }
    Some(ops)
}

/// payload token of a peer message: the keep-alive response refers to the cookie of the last request
fn ptok(m: &str, k: u64, same: bool) -> String {
    if m == "ResponseKeepAlive" { if same { "same".into() } else { ["other", "hi", "top"][(k % 3) as usize].into() } }
    else if m == "KeepAlive" { [0u64, 1, 255, 256, 257, 32767, 32768, 65534, 65535][(k % 9) as usize].to_string() }   // u16 cookie boundaries
    else { k.to_string() }
}

pub fn generate(g: &mut Gen) {
    let mut k = 0u64;
    // (a) exhaustive: every agent × reachable state × message class × every way of offering the message
    for d in AGENTS {
        let sp = spec_n1(d.proto).unwrap();
        for (st, _) in sp.states {
            let Some(path) = path_to(d, sp, st, &mut k) else { continue };
            let head = format!("agent {} {}", d.proto, d.role);
            for (m, _) in sp.msgs {
                k += 1;
                let mut variants: Vec<Vec<String>> = vec![];
                if d.raw_send { variants.push(vec![format!("send {m} {k}")]); }
                if d.raw_recv { variants.push(vec![format!("peer {m} {}", ptok(m, k, true)), "recv".into()]); }
                for (f, c) in d.sends.iter().filter(|s| s.1 == *m) { variants.push(vec![format!("callsend {f} {c} {k}")]); }
                for (f, _) in d.recvs {
                    variants.push(vec![format!("peer {m} {}", ptok(m, k, true)), format!("callrecv {f}")]);
                    if *m == "ResponseKeepAlive" { for wrong in ["other", "hi", "top"] { variants.push(vec![format!("peer ResponseKeepAlive {wrong}"), format!("callrecv {f}")]); } }
                }
                for (f, c, r) in d.comps.iter().filter(|c| c.1 == *m) {
                    // every reply the peer could have queued, including none-matching ones
                    for (reply, _) in sp.msgs { variants.push(vec![format!("peer {reply} {}", ptok(reply, k, true)), format!("comp {f} {c} {r} {k}")]); }
                }
                for v in variants {
                    let mut ops = vec![head.clone()];
                    ops.extend(path.iter().cloned());
                    ops.extend(v);
                    g.case(ops);
                }
            }
        }
    }
    // (b) random histories: mostly what the specification allows next, sometimes anything
    for i in 0..g.cases {
        let d = &AGENTS[i % AGENTS.len()];
        let sp = spec_n1(d.proto).unwrap();
        let mut ops = vec![format!("agent {} {}", d.proto, d.role)];
        let mut cur = sp.init;
        let mut pending = 0usize;
        let len = g.rng.range(1, 30);
        for _ in 0..len {
            k += 1;
            let allowed: Vec<_> = sp.trans.iter().filter(|t| t.0 == cur && (t.2 != "Done" || g.rng.chance(1, 6))).collect();
            let mine = agency(sp.name, cur) == role_char(d.role);
            if !allowed.is_empty() && pending == 0 && g.rng.chance(4, 5) {
                let t = allowed[g.rng.below(allowed.len() as u64) as usize];
                if mine {
                    if let Some(c) = d.comps.iter().find(|c| c.1 == t.1) {
                        // composite: queue a permitted reply first
                        let after = t.2;
                        let replies: Vec<_> = sp.trans.iter().filter(|x| x.0 == after).collect();
                        if let Some(rp) = replies.first().filter(|_| d.proto == "txmonitor" || g.rng.chance(1, 3)) {
                            let rp = replies[g.rng.below(replies.len() as u64) as usize];
                            let _ = rp;
                        }
                        if !replies.is_empty() && (d.proto == "txmonitor" || g.rng.chance(1, 3)) {
                            let rp = replies[g.rng.below(replies.len() as u64) as usize];
                            ops.push(format!("peer {} {}", rp.1, ptok(rp.1, k, true)));
                            ops.push(format!("comp {} {} {} {k}", c.0, c.1, c.2));
                            // the model decides the real outcome; this is only the generator's guess of where we are
                            cur = if d.recvs.iter().any(|r| r.0 == c.2 && r.1.contains(&rp.1)) || d.proto == "txmonitor" { rp.2 } else { after };
                            if d.proto == "txmonitor" {
                                // the reply must be the one the method expects, else the agent stays in the intermediate state
                                let expect = match c.2 { "recv_while_acquiring" => "Acquired", "recv_while_requesting_has_tx" => "ResponseHasTx",
                                    "recv_while_requesting_next_tx" => "ResponseNextTx", _ => "ResponseSizeAndCapacity" };
                                cur = if rp.1 == expect { rp.2 } else { after };
                            }
                            continue;
                        }
                    }
                    if let Some(s) = d.sends.iter().find(|s| s.1 == t.1) { ops.push(format!("callsend {} {} {k}", s.0, s.1)); cur = t.2; continue; }
                    if d.raw_send { ops.push(format!("send {} {k}", t.1)); }
                } else if let Some(r) = d.recvs.iter().find(|r| r.1.contains(&t.1)) {
                    let same = g.rng.chance(5, 6);
                    ops.push(format!("peer {} {}", t.1, ptok(t.1, k, same)));
                    ops.push(format!("callrecv {}", r.0));
                    if t.1 != "ResponseKeepAlive" || same { cur = t.2; }
                    continue;
                }
            }
            // something arbitrary
            let m = sp.msgs[g.rng.below(sp.msgs.len() as u64) as usize].0;
            match g.rng.below(5) {
                0 if d.raw_send => ops.push(format!("send {m} {k}")),
                1 if !d.sends.is_empty() => { let s = d.sends[g.rng.below(d.sends.len() as u64) as usize]; ops.push(format!("callsend {} {} {k}", s.0, s.1));
                    if mine && sp.step(cur, s.1).is_some() { cur = sp.step(cur, s.1).unwrap().0; } }
                2 if d.raw_recv && (mine || pending > 0) => { ops.push("recv".into()); if !mine && pending > 0 { pending -= 1; } }
                3 if !d.recvs.is_empty() && (mine || pending > 0) => {
                    let r = d.recvs[g.rng.below(d.recvs.len() as u64) as usize];
                    ops.push(format!("callrecv {}", r.0));
                    // the generator loses track of the exact state here; later ops are then simply "arbitrary"
                    if !mine && pending > 0 { pending -= 1; }
                }
                _ => { if pending < 3 { let same = g.rng.chance(1, 2); ops.push(format!("peer {m} {}", ptok(m, k, same))); pending += 1; } }
            }
        }
        g.case(ops);
    }
}

// ------------------------------------------------------------------------------------------ run
struct Peer { demux: Demuxer, mux: Muxer, marker: AgentChannel, seq: u8, proto: &'static str, role: &'static str, cookie: u16,
              /// cookie of the last KeepAlive the peer wrote (what a keep-alive *server* has to echo) and of the last response seen
              last_request: Option<u16>, last_response: Option<u16>, _plexer: RunningPlexer }

impl Peer {
    /// everything the agent emitted since the last call, as message classes
    async fn emitted(&mut self, track_cookie: bool) -> String {
        self.seq = self.seq.wrapping_add(1);
        if self.marker.enqueue_chunk(vec![self.seq]).await.is_err() { return "plexer-closed".into(); }
        let mut bytes = vec![];
        loop {
            match tokio::time::timeout(Duration::from_secs(5), self.demux.read_segment()).await {
                Ok(Ok((p, payload))) => { if p == MARKER { if payload == vec![self.seq] { break; } } else { bytes.extend(payload); } }
                _ => return "marker-lost".into(),
            }
        }
        if bytes.is_empty() { return "none".into(); }
        let (classes, cookie) = classify(self.proto, &bytes);
        // `same` refers to the cookie of the latest request made through send_keepalive_request (a raw
        // send_message(KeepAlive) does not touch the client's state)
        if let (true, Some(c)) = (track_cookie, cookie) { self.cookie = c; }
        if classes.iter().any(|c| c == "ResponseKeepAlive") { self.last_response = cookie; }
        classes.join("+")
    }
    async fn write(&mut self, class: &str, tok: &str) -> bool {
        // keep-alive responses: the outstanding cookie, or that cookie with bit 0 / 8 / 15 flipped (a cookie
        // comparison narrowed to u8, or one that drops the top bit, would let `hi` / `top` through)
        let k = match tok { "same" => self.cookie as u64, "other" => (self.cookie ^ 1) as u64, "hi" => (self.cookie ^ 0x100) as u64,
                            "top" => (self.cookie ^ 0x8000) as u64, t => t.parse().unwrap_or(0) };
        if class == "KeepAlive" { self.last_request = Some(k as u16); }   // (kept for the evidence; the oracle tracks the queue itself)
        let Some(bytes) = encode(self.proto, class, k) else { return false };
        // what a client agent reads arrives with the server bit set
        let id = if self.role == "client" { proto_id(self.proto) | 0x8000 } else { proto_id(self.proto) };
        self.mux.mux((id, bytes)).await.is_ok()
    }
}

async fn start(p: &str, role: &str) -> Option<(A, Peer)> {
    let d = agent_def(p, role)?;
    let (a, b) = tokio::net::UnixStream::pair().ok()?;
    let mut plexer = Plexer::new(Bearer::Unix(a));
    let ch = if role == "client" { plexer.subscribe_client(proto_id(p)) } else { plexer.subscribe_server(proto_id(p)) };
    let marker = plexer.subscribe_client(MARKER);
    let agent = new_agent(p, role, ch)?;
    let running = plexer.spawn();
    let (r, w) = Bearer::Unix(b).into_split();
    Some((agent, Peer { demux: Demuxer::new(r), mux: Muxer::new(w), marker, seq: 0, proto: d.proto, role: d.role, cookie: 0, last_request: None, last_response: None, _plexer: running }))
}

async fn with_timeout<T>(f: impl std::future::Future<Output = Option<Result<T, String>>>) -> Option<Result<T, String>> {
    match tokio::time::timeout(Duration::from_millis(400), f).await { Ok(r) => r, Err(_) => Some(Err("Timeout".into())) }
}

async fn run_async(case: &Case, out: &mut Out) {
    let mut cur: Option<(A, Peer, &'static PSpec, &'static AgentDef)> = None;
    let mut queue: Vec<String> = vec![]; // oracle's view of the peer messages not yet read
    let mut ka_cookies: Vec<u16> = vec![]; // cookies of the queued KeepAlive requests, in order
    let mut served: Option<u16> = None;    // cookie of the request a keep-alive server last took in through its method
    let mut resp_tokens: Vec<String> = vec![]; // tokens of the queued keep-alive responses (same | other | hi | top)
    let (mut acc, mut rej) = (0, 0);
    for op in &case.ops {
        let k: u64 = op.last().and_then(|s| s.parse().ok()).unwrap_or(0);
        if op[0] == "agent" && op.len() == 3 {
            match (start(&op[1], &op[2]).await, spec_n1(&op[1]), agent_def(&op[1], &op[2])) {
                (Some((a, p)), Some(sp), Some(d)) => {
                    if a.state() != sp.init { out.viol(format!("n1-initial:{}/{} got={} want={}", d.proto, d.role, a.state(), sp.init), "initial state"); }
                    // every exchange of the specification needs a method that performs it and tracks the state
                    for t in sp.trans {
                        let mine = agency(sp.name, t.0) == role_char(d.role);
                        let has = if mine { d.sends.iter().any(|s| s.1 == t.1) || d.comps.iter().any(|c| c.1 == t.1) }
                                  else { d.recvs.iter().any(|r| r.1.contains(&t.1)) || d.comps.iter().any(|c| sp.step(t.0, t.1).is_some() && spec_n1(d.proto).map_or(false, |_| true) && comp_handles(c.2, t.1)) };
                        if !has { out.viol(format!("n1-nomethod:{}/{}:{}+{}", d.proto, d.role, t.0, t.1), format!("no public method of the agent {} {} in state {} and moves to {}", if mine { "sends" } else { "receives" }, t.1, t.0, t.2)); }
                    }
                    out.ok(a.state());
                    cur = Some((a, p, sp, d));
                    queue.clear(); ka_cookies.clear(); served = None; resp_tokens.clear();
                }
                _ => out.reply("bad-op".into()),
            }
            continue;
        }
        let Some((a, peer, sp, d)) = cur.as_mut() else { out.reply("bad-op".into()); continue };
        let who = format!("{}/{}", d.proto, d.role);
        let me = role_char(d.role);
        let before = a.state();
        let ag = agency(sp.name, &before);
        match op[0].as_str() {
            "peer" if op.len() == 3 => {
                if peer.write(&op[1], &op[2]).await {
                    queue.push(op[1].clone());
                    if op[1] == "KeepAlive" { ka_cookies.push(peer.last_request.unwrap_or(0)); }
                    if op[1] == "ResponseKeepAlive" { resp_tokens.push(op[2].clone()); }
                    out.reply("ok".into());
                } else { out.reply("bad-op".into()); }
            }
            "send" | "callsend" if op.len() >= 3 => {
                let (m, res) = if op[0] == "send" { (op[1].clone(), with_timeout(a.raw_send(&op[1], k)).await) }
                               else { (op[2].clone(), with_timeout(a.call_send(&op[1], &op[2], k)).await) };
                let Some(res) = res else { out.reply("bad-op".into()); continue };
                let sent = peer.emitted(op[0] == "callsend").await;
                let after = a.state();
                // an `Ok(())` that sent nothing is a refusal without an error (keep-alive server outside `Server`)
                let res = if res.is_ok() && sent == "none" { Err("NoOp".to_string()) } else { res };
                let want = if ag == me { sp.step(&before, &m).map(|x| x.0) } else { None };
                let accepted = res.is_ok();
                if accepted != want.is_some() {
                    out.viol(format!("n1-send:{who}:{before}+{m} got={} want={}", if accepted { "accept" } else { "refuse" }, if want.is_some() { "accept" } else { "refuse" }),
                             format!("{} of {m} in state {before}: the specification {} the {} to send it there", op[0], if want.is_some() { "lets" } else { "does not let" }, d.role));
                }
                if accepted && sent != m { out.viol(format!("n1-emit:{who}:{before}+{m} emitted={sent}"), "an accepted send must put exactly that message on the wire"); }
                if accepted && op[0] == "callsend" && m == "ResponseKeepAlive" && peer.last_response != served {
                    out.viol(format!("n1-cookie-echo:{who}"), format!("keep-alive response carries cookie {:?}, the request had {:?}", peer.last_response, served));
                }
                if !accepted && sent != "none" { out.viol(format!("n1-emit:{who}:{before}+{m} refused-but-emitted={sent}"), "a refused send must not reach the wire"); }
                let want_after = if op[0] == "send" || !accepted { before.clone() } else { want.unwrap_or(&before).to_string() };
                if after != want_after && (accepted == want.is_some()) {
                    out.viol(format!("n1-next:{who}:{before}+{m} got={after} want={want_after}"), format!("state after {} {}", op[0], if accepted { "accepted" } else { "refused" }));
                }
                if accepted { acc += 1; out.cov(format!("sent:{who}:{before}+{m}")); out.ok(format!("{after} sent={sent}")); } else { rej += 1; out.err(format!("{} {after} sent={sent}", res.unwrap_err())); }
            }
            "recv" | "callrecv" => {
                let res: Option<Result<String, String>> = if op[0] == "recv" { with_timeout(a.raw_recv()).await }
                    else if op.len() == 2 { with_timeout(a.call_recv(&op[1])).await.map(|r| r.map(|_| String::new())) } else { None };
                let Some(res) = res else { out.reply("bad-op".into()); continue };
                let after = a.state();
                // did the agent read? it does unless it refused on agency (or timed out on an empty queue)
                let read = !matches!(&res, Err(e) if e == "AgencyIsOurs" || e == "Timeout" || e == "AlreadyInitialized");
                let m = if read && !queue.is_empty() { Some(queue.remove(0)) } else { None };
                let accepted = res.is_ok();
                if m.as_deref() == Some("ResponseKeepAlive") && !resp_tokens.is_empty() {
                    let tok = resp_tokens.remove(0);
                    if accepted && op[0] == "callrecv" && tok != "same" {
                        out.viol(format!("n1-cookie-accepted:{who}:{tok}"), format!("{} accepted a keep-alive response whose cookie differs from the request's (bit {} flipped)", op[1],
                                 match tok.as_str() { "other" => "0", "hi" => "8", _ => "15" }));
                    }
                }
                if m.as_deref() == Some("KeepAlive") && !ka_cookies.is_empty() { let c = ka_cookies.remove(0); if accepted && op[0] == "callrecv" { served = Some(c); } }
                match &m {
                    Some(m) => {
                        let permitted = if ag != me && ag != 'N' { sp.step(&before, m).map(|x| x.0) } else { None };
                        if op[0] == "recv" {
                            if accepted != permitted.is_some() {
                                out.viol(format!("n1-recv:{who}:{before}+{m} got={} want={}", if accepted { "accept" } else { "refuse" }, if permitted.is_some() { "accept" } else { "refuse" }),
                                         format!("recv_message in state {before} when the peer sent {m}"));
                            }
                            if after != before { out.viol(format!("n1-next:{who}:{before}+{m} got={after} want={before}"), "recv_message must not change the state"); }
                        } else {
                            let designated = d.recvs.iter().any(|r| r.0 == op[1] && r.1.contains(&m.as_str()));
                            let payload_fail = matches!(&res, Err(e) if e == "Payload");
                            if accepted && permitted.is_none() {
                                out.viol(format!("n1-recv:{who}:{before}+{m} got=accept want=refuse"), format!("{} accepted {m} in state {before}", op[1]));
                            } else if !accepted && permitted.is_some() && designated && !payload_fail {
                                out.viol(format!("n1-recv:{who}:{before}+{m} got=refuse want=accept"), format!("{} refused {m} in state {before}", op[1]));
                            }
                            let want_after = if accepted { permitted.unwrap_or(&before).to_string() } else { before.clone() };
                            if after != want_after && (accepted == permitted.is_some() || !accepted) {
                                out.viol(format!("n1-next:{who}:{before}+{m} got={after} want={want_after}"), format!("state after {} {}", op[1], if accepted { "accepted" } else { "refused" }));
                            }
                        }
                    }
                    None => {
                        if accepted { out.viol(format!("n1-recv:{who}:{before}+nothing got=accept"), "a receive succeeded although the peer sent nothing"); }
                        if after != before { out.viol(format!("n1-next:{who}:{before}+refused got={after} want={before}"), "refused receive changed the state"); }
                    }
                }
                if accepted { acc += 1; if let Some(m) = &m { out.cov(format!("received:{who}:{before}+{m}")); } } else { rej += 1; }
                match res {
                    Ok(c) => out.ok(if op[0] == "recv" { format!("{c} {after}") } else { after }),
                    Err(e) => out.err(format!("{e} {after}")),
                }
            }
            "comp" if op.len() == 5 => {
                let Some(res) = with_timeout(a.call_comp(&op[1], &op[2], &op[3], k)).await else { out.reply("bad-op".into()); continue };
                let sent = peer.emitted(true).await;
                let after = a.state();
                let m = op[2].clone();
                // send half
                let want1 = if ag == me { sp.step(&before, &m).map(|x| x.0) } else { None };
                let did_send = sent == m;
                if did_send != want1.is_some() {
                    out.viol(format!("n1-send:{who}:{before}+{m} got={} want={}", if did_send { "accept" } else { "refuse" }, if want1.is_some() { "accept" } else { "refuse" }),
                             format!("{} (send half) in state {before}", op[1]));
                }
                if !did_send && sent != "none" { out.viol(format!("n1-emit:{who}:{before}+{m} emitted={sent}"), "unexpected bytes on the wire"); }
                let mut want_after = before.clone();
                if let (true, Some(mid)) = (did_send, want1) {
                    want_after = mid.to_string();
                    // receive half (only if the send half went through)
                    let read = !matches!(&res, Err(e) if e == "AgencyIsOurs" || e == "Timeout");
                    if read && !queue.is_empty() {
                        let reply = queue.remove(0);
                        let permitted = if agency(sp.name, mid) != me { sp.step(mid, &reply).map(|x| x.0) } else { None };
                        if res.is_ok() && permitted.is_none() { out.viol(format!("n1-recv:{who}:{mid}+{reply} got=accept want=refuse"), format!("{} accepted {reply} in {mid}", op[3])); }
                        if res.is_ok() { want_after = permitted.unwrap_or(mid).to_string(); }
                        if after != want_after { out.viol(format!("n1-next:{who}:{mid}+{reply} got={after} want={want_after}"), format!("state after {} (receive half of a send-then-receive method)", op[3])); }
                        want_after = after.clone();
                    } else if res.is_ok() { out.viol(format!("n1-recv:{who}:{mid}+nothing got=accept"), "receive half succeeded without a message"); }
                }
                if after != want_after { out.viol(format!("n1-next:{who}:{before}+{m} got={after} want={want_after}"), format!("state after {}", op[1])); }
                match res {
                    Ok(()) => { acc += 1; out.ok(format!("{after} sent={sent}")); }
                    Err(e) => { rej += 1; out.err(format!("{e} {after} sent={sent}")); }
                }
            }
            _ => out.reply("bad-op".into()),
        }
    }
    if acc > 0 && rej > 0 { out.nontrivial(); }
}

pub fn run_case(case: &Case, out: &mut Out) {
    let rt = tokio::runtime::Builder::new_current_thread().enable_all().build().expect("tokio runtime");
    rt.block_on(run_async(case, out));
    rt.shutdown_background();
}

#[allow(dead_code)]
fn _protocols() -> &'static [&'static str] { N1_PROTOCOLS }
