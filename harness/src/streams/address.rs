//! stream `address` — C18: Shelley / stake addresses of `pallas_addresses` (header, bytes, hex, bech32, Display/FromStr,
//! pointer varuints) against `Model/Address.lean`.
//!
//! Property oracle (independent of the Lean model), evaluated on every `mk` whose network comes from
//! `Network::from(id)`, id < 16: bytes / hex / (mainnet, testnet) bech32 / Display+FromStr round-trip to an equal
//! `Address`; header byte = (type id of the requested shape) << 4 | id; bech32 prefix per CIP-19 table.
use crate::fw::*;
use pallas_addresses::{varuint, Address, Network, Pointer, ShelleyAddress, ShelleyDelegationPart, ShelleyPaymentPart, StakeAddress, StakePayload};
use pallas_crypto::hash::Hash;
use std::io::Cursor;
use std::str::FromStr;

pub const NAME: &str = "address";

fn show_net(n: &Network) -> String {
    match n { Network::Testnet => "testnet".into(), Network::Mainnet => "mainnet".into(), Network::Other(x) => format!("other:{x}") }
}
fn show_addr(a: &Address) -> String {
    match a {
        Address::Byron(_) => "byron".into(),
        Address::Shelley(s) => format!("shelley {} {} {}", show_net(&s.network()),
            match s.payment() { ShelleyPaymentPart::Key(h) => format!("key:{}", hex(h.as_ref())), ShelleyPaymentPart::Script(h) => format!("script:{}", hex(h.as_ref())) },
            match s.delegation() {
                ShelleyDelegationPart::Key(h) => format!("key:{}", hex(h.as_ref())),
                ShelleyDelegationPart::Script(h) => format!("script:{}", hex(h.as_ref())),
                ShelleyDelegationPart::Pointer(p) => format!("ptr:{}:{}:{}", p.slot(), p.tx_idx(), p.cert_idx()),
                ShelleyDelegationPart::Null => "null".into(),
            }),
        Address::Stake(s) => format!("stake {} {}", show_net(&s.network()),
            match s.payload() { StakePayload::Stake(h) => format!("stake:{}", hex(h.as_ref())), StakePayload::Script(h) => format!("script:{}", hex(h.as_ref())) }),
    }
}
fn show_res(bytes_first: Option<u8>, r: Result<Address, pallas_addresses::Error>) -> String {
    use pallas_addresses::Error as E;
    // header type 8 is delegated to the Byron decoder (C19): one opaque outcome
    if let Some(h) = bytes_first { if h & 0xF0 == 0x80 { return "ok byron".into(); } }
    match r {
        Ok(a) => format!("ok {}", show_addr(&a)),
        Err(e) => format!("err {}", match e {
            E::MissingHeader => "missing-header", E::InvalidHeader(_) => "invalid-header", E::InvalidAddressLength(_) => "invalid-length",
            E::InvalidHashSize(_) => "invalid-hash-size", E::VarUintError(_) => "varuint", E::UnknownNetworkHrp(_) => "unknown-hrp",
            E::BadHex => "bad-hex", E::BadBech32(_) => "bad-bech32", E::UnknownStringFormat(_) => "unknown-format",
            E::InvalidByronCbor(_) => "byron-cbor", _ => "other",
        }),
    }
}

fn hash28(s: &str) -> Option<Hash<28>> {
    let v = unhex(s)?;
    if v.len() != 28 { return None; }
    let mut a = [0u8; 28];
    a.copy_from_slice(&v);
    Some(a.into())
}
fn net_of(s: &str) -> Option<(Network, Option<u8>)> {
    let id: u8 = s.get(1..)?.parse().ok()?;
    match s.as_bytes().first()? { b'n' => Some((Network::from(id), Some(id))), b'o' => Some((Network::Other(id), None)), _ => None }
}

fn mk(args: &[String]) -> Option<(Address, u8, Option<u8>)> {
    let shape: u8 = args.first()?.parse().ok()?;
    let (net, id) = net_of(args.get(1)?)?;
    let h1 = hash28(args.get(2)?)?;
    let pay = |script: bool| if script { ShelleyPaymentPart::Script(h1) } else { ShelleyPaymentPart::Key(h1) };
    let a: Address = match (shape, args.len()) {
        (0..=3, 4) => {
            let h2 = hash28(&args[3])?;
            let d = if shape >= 2 { ShelleyDelegationPart::Script(h2) } else { ShelleyDelegationPart::Key(h2) };
            ShelleyAddress::new(net, pay(shape & 1 == 1), d).into()
        }
        (4..=5, 6) => {
            let p = Pointer::new(args[3].parse().ok()?, args[4].parse().ok()?, args[5].parse().ok()?);
            ShelleyAddress::new(net, pay(shape == 5), ShelleyDelegationPart::Pointer(p)).into()
        }
        (6..=7, 3) => ShelleyAddress::new(net, pay(shape == 7), ShelleyDelegationPart::Null).into(),
        (14, 3) => StakeAddress::new(net, StakePayload::Stake(h1)).into(),
        (15, 3) => StakeAddress::new(net, StakePayload::Script(h1)).into(),
        _ => return None,
    };
    Some((a, shape, id))
}

fn gen_hash(r: &mut Rng) -> String {
    match r.below(8) { 0 => hex(&[0u8; 28]), 1 => hex(&[0xffu8; 28]), _ => hex(&r.bytes(28)) }
}
fn gen_u64(r: &mut Rng) -> u64 {
    match r.below(6) {
        0 => { let k = r.range(1, 9) * 7; let b = 1u64 << k; *r.pick(&[b - 1, b, b + 1]) }   // varuint group boundaries
        1 => *r.pick(&[0u64, 1, 127, 128, 16383, 16384, u64::MAX, u64::MAX - 1, 1 << 63, (1 << 63) - 1, 1 << 32]),
        2 => r.below(1 << 20),
        _ => r.u64_edgy(),
    }
}
fn gen_mk(r: &mut Rng, raw_net: bool) -> String {
    let shape = *r.pick(&[0u8, 1, 2, 3, 4, 5, 6, 7, 14, 15]);
    let net = if raw_net { format!("o{}", *r.pick(&[0u8, 1, 2, 15, 16, 17, 128, 255])) }
              else { format!("n{}", match r.below(4) { 0 => 0, 1 => 1, _ => r.below(16) }) };
    let h1 = gen_hash(r);
    match shape {
        0..=3 => format!("mk {shape} {net} {h1} {}", gen_hash(r)),
        4..=5 => format!("mk {shape} {net} {h1} {} {} {}", gen_u64(r), gen_u64(r), gen_u64(r)),
        _ => format!("mk {shape} {net} {h1}"),
    }
}
fn varuint_bytes(n: u64) -> Vec<u8> { let mut c = Cursor::new(vec![]); varuint::write(&mut c, n); c.into_inner() }

fn gen_bytes(r: &mut Rng) -> Vec<u8> {
    // a valid address, then maybe damaged
    let raw = r.chance(1, 6);
    let line = gen_mk(r, raw);
    let toks: Vec<String> = line.split_whitespace().skip(1).map(|s| s.to_string()).collect();
    let mut b = mk(&toks).map(|(a, _, _)| a.to_vec()).unwrap_or_default();
    match r.below(10) {
        0 => { let k = r.below(b.len() as u64 + 1) as usize; b.truncate(k); }
        1 => { let n = r.range(1, 40) as usize; b.extend(r.bytes(n)); }
        2 => if !b.is_empty() { b[0] = r.next() as u8; },
        3 => if !b.is_empty() { b[0] = (b[0] & 0x0F) | (*r.pick(&[0x80u8, 0x90, 0xA0, 0xB0, 0xC0, 0xD0])); },
        4 => { b.truncate(29); b[0] = 0x40 | (b[0] & 0x0F); while b.len() < 29 { b.push(0); } let n = r.range(0, 14) as usize; b.extend(std::iter::repeat(0xff).take(n)); b.extend(r.bytes(3)); } // overlong / saturating varuints
        5 => { let k = r.below(70) as usize; b = r.bytes(k); }
        6 => { let k = *r.pick(&[1usize, 28, 29, 30, 56, 57, 58]); b.truncate(k.min(b.len())); }
        7 => if b.len() > 1 { let i = r.range(1, b.len() as u64 - 1) as usize; b[i] ^= 1 << r.below(8); },
        _ => {}
    }
    b
}

pub fn generate(g: &mut Gen) {
    for _ in 0..g.cases {
        let n = g.rng.range(4, 16);
        let mut ops = vec![];
        for _ in 0..n {
            let r = &mut g.rng;
            ops.push(match r.below(20) {
                0..=9 => gen_mk(r, false),
                10 => gen_mk(r, true),
                11..=13 => format!("parse {}", hex(&gen_bytes(r))),
                14 => {
                    let mut t = hex::encode(gen_bytes(r));
                    match r.below(5) { 0 => t = t.to_uppercase(), 1 => { t.pop(); }, 2 => t.push('g'), 3 => t = format!("0x{t}"), _ => {} }
                    format!("parsehex {}", hex(t.as_bytes()))
                }
                15..=16 => format!("vwrite {}", gen_u64(r)),
                17..=18 => {
                    let mut b = varuint_bytes(gen_u64(r));
                    match r.below(6) { 0 => { b.pop(); }, 1 => b.insert(0, 0x80 | r.next() as u8), 2 => { let n = r.range(9, 12) as usize; b = vec![0xff; n]; b.push(0x7f); }, 3 => b.extend(r.bytes(2)), 4 => { let k = r.below(12) as usize; b = r.bytes(k); }, _ => {} }
                    format!("vread {}", hex(&b))
                }
                _ => {
                    let mut b = [varuint_bytes(gen_u64(r)), varuint_bytes(gen_u64(r)), varuint_bytes(gen_u64(r))].concat();
                    match r.below(4) { 0 => { let k = r.below(b.len() as u64 + 1) as usize; b.truncate(k); }, 1 => b.extend(r.bytes(3)), _ => {} }
                    format!("pparse {}", hex(&b))
                }
            });
        }
        g.case(ops);
    }
}

pub fn run_case(case: &Case, out: &mut Out) {
    let (mut saw_ptr, mut saw_other_net, mut saw_parse_err) = (false, false, false);
    for op in &case.ops {
        match op[0].as_str() {
            "mk" => {
                let Some((a, shape, id)) = mk(&op[1..]) else { out.reply("bad-op".into()); continue; };
                let bytes = a.to_vec();
                let hrp = a.hrp().ok();
                let rt = guard(|| Address::from_bytes(&bytes));
                let rth = guard(|| Address::from_hex(&a.to_hex()));
                out.cov(format!("shape:{shape}"));
                // ---- property oracle (only inside the property's quantifier: Network::from(id), id < 16)
                if let Some(id) = id.filter(|i| *i < 16) {
                    let tag = format!("shape={shape} net={id}");
                    if shape == 4 || shape == 5 { saw_ptr = true; }
                    if id >= 2 { saw_other_net = true; }
                    match &rt { Some(Ok(b)) if *b == a => {}, other => out.viol(format!("roundtrip-bytes {tag}"), format!("{} -> {:?}", hex(&bytes), other.as_ref().map(|r| r.as_ref().map(show_addr).map_err(|e| e.to_string())))) }
                    match &rth { Some(Ok(b)) if *b == a => {}, _ => out.viol(format!("roundtrip-hex {tag}"), a.to_hex()) }
                    if bytes.first().map(|h| (h >> 4, h & 0x0F)) != Some((shape, id)) { out.viol(format!("header {tag}"), format!("header byte {:?}", bytes.first())); }
                    let want_hrp = match (shape >= 14, id) { (false, 1) => Some("addr"), (false, 0) => Some("addr_test"), (true, 1) => Some("stake"), (true, 0) => Some("stake_test"), _ => None };
                    match (want_hrp, guard(|| a.to_bech32())) {
                        (Some(w), Some(Ok(s))) => {
                            if !s.starts_with(&format!("{w}1")) || s.rfind('1') != Some(w.len()) { out.viol(format!("hrp {tag}"), s.clone()); }
                            match guard(|| Address::from_bech32(&s)) { Some(Ok(b)) if b == a => {}, _ => out.viol(format!("roundtrip-bech32 {tag}"), s.clone()) }
                            out.cov("bech32");
                        }
                        (None, Some(Err(_))) => {}
                        (w, got) => out.viol(format!("hrp {tag}"), format!("expected prefix {:?}, to_bech32 = {:?}", w, got.map(|r| r.map_err(|e| e.to_string())))),
                    }
                    match guard(|| Address::from_str(&a.to_string())) { Some(Ok(b)) if b == a => {}, _ => out.viol(format!("roundtrip-str {tag}"), a.to_string()) }
                } else { out.cov("outside-quantifier"); }
                let f = |r: Option<Result<Address, pallas_addresses::Error>>| match r { Some(r) => show_res(bytes.first().copied(), r), None => "panic".into() };
                out.ok(format!("{} hdr={} hrp={} rt={} rth={}", hex(&bytes), bytes[0], hrp.unwrap_or("none"), f(rt), f(rth)));
            }
            "parse" => {
                let Some(b) = unhex(&op[1]) else { out.reply("bad-op".into()); continue; };
                match guard(|| Address::from_bytes(&b)) {
                    Some(r) => { if r.is_err() { saw_parse_err = true; } let s = show_res(b.first().copied(), r); out.cov(format!("parse:{}", s.split(' ').take(2).collect::<Vec<_>>().join("-"))); out.reply(s) }
                    None => out.panic(),
                }
            }
            "parsehex" => {
                let Some(t) = unhex(&op[1]).and_then(|b| String::from_utf8(b).ok()) else { out.reply("bad-op".into()); continue; };
                let first = hex::decode(&t).ok().and_then(|b| b.first().copied());
                match guard(|| Address::from_hex(&t)) { Some(r) => out.reply(show_res(first, r)), None => out.panic() }
            }
            "vwrite" => {
                let Ok(n) = op[1].parse::<u64>() else { out.reply("bad-op".into()); continue; };
                let b = varuint_bytes(n);
                let back = varuint::read(&mut Cursor::new(&b[..]));
                if !matches!(back, Ok(m) if m == n) || b.is_empty() || b.len() > 10 { out.viol("varuint-roundtrip", format!("{n} -> {} -> {:?}", hex(&b), back.ok())); }
                out.ok(hex(&b));
            }
            "vread" => {
                let Some(b) = unhex(&op[1]) else { out.reply("bad-op".into()); continue; };
                let mut c = Cursor::new(&b[..]);
                match guard_mut(|| varuint::read(&mut c)) {
                    Some(Ok(n)) => out.ok(format!("{n} {}", c.position())),
                    Some(Err(_)) => out.err("eof"),
                    None => out.panic(),
                }
            }
            "pparse" => {
                let Some(b) = unhex(&op[1]) else { out.reply("bad-op".into()); continue; };
                match guard(|| Pointer::parse(&b)) {
                    Some(Ok(p)) => out.ok(format!("{} {} {}", p.slot(), p.tx_idx(), p.cert_idx())),
                    Some(Err(_)) => out.err("varuint"),
                    None => out.panic(),
                }
            }
            _ => out.reply("bad-op".into()),
        }
    }
    if saw_ptr && saw_other_net { out.nontrivial(); }
}
