//! stream `txsign` — C41: BuiltTransaction::{sign, add_signature, remove_signature} on built
//! Conway transactions vs the Lean model (signature map + witness list), with an independent
//! oracle evaluating the property on what the real code returns.
use crate::fw::*;
use pallas_crypto::hash::Hasher;
use pallas_crypto::key::ed25519::{PublicKey, SecretKey, SecretKeyExtended, Signature};
use pallas_primitives::Fragment;
use pallas_primitives::conway;
use pallas_txbuilder::{BuildConway, BuiltTransaction, Input, Output, StagingTransaction};
use std::collections::BTreeMap;

pub const NAME: &str = "txsign";

const NKEYS: u64 = 4;

enum Key { Plain(SecretKey), Ext(SecretKeyExtended) }
impl Key {
    fn public(&self) -> PublicKey { match self { Key::Plain(k) => k.public_key(), Key::Ext(k) => k.public_key() } }
    fn sign(&self, msg: &[u8]) -> Signature { match self { Key::Plain(k) => k.sign(msg), Key::Ext(k) => k.sign(msg) } }
}
/// fixed key pool: 0..2 plain keys, 3 an extended key
fn key(i: u64) -> Key {
    if i < 3 { return Key::Plain(SecretKey::from([i as u8 + 1; 32])); }
    let mut b = [7u8; 64];
    b[0] &= 0b1111_1000; b[31] &= 0b0011_1111; b[31] |= 0b0100_0000;
    Key::Ext(SecretKeyExtended::from_bytes(b).expect("extended key"))
}
fn pk_bytes(p: &PublicKey) -> [u8; 32] { let mut a = [0u8; 32]; a.copy_from_slice(p.as_ref()); a }
fn sig_bytes(s: &Signature) -> [u8; 64] { let mut a = [0u8; 64]; a.copy_from_slice(s.as_ref()); a }

fn addr(rng: &mut Rng) -> pallas_addresses::Address {
    let mut b = vec![0x61u8];
    b.extend(rng.bytes(28));
    pallas_addresses::Address::from_bytes(&b).expect("address")
}

/// a built Conway transaction determined by `variant` (same in `gen` and `run`)
pub fn mk_built(variant: u64) -> BuiltTransaction {
    let mut rng = Rng::new(variant ^ 0x7478_7369_676e);
    let mut st = StagingTransaction::new();
    for _ in 0..rng.range(1, 3) {
        let h: [u8; 32] = rng.bytes(32).try_into().unwrap();
        st = st.input(Input::new(h.into(), rng.below(4)));
    }
    for _ in 0..rng.range(1, 3) {
        let mut o = Output::new(addr(&mut rng), rng.u64_edgy());
        if rng.chance(1, 3) {
            let p: [u8; 28] = rng.bytes(28).try_into().unwrap();
            o = o.add_asset(p.into(), rng.bytes(3), 1 + rng.below(1000)).unwrap();
        }
        if rng.chance(1, 4) { o = o.set_inline_datum(vec![0x18, 0x2a]); }
        st = st.output(o);
    }
    st = st.fee(rng.u64_edgy());
    if variant % 3 == 1 {
        let p: [u8; 28] = rng.bytes(28).try_into().unwrap();
        st = st.mint_asset(p.into(), rng.bytes(4), 1 + rng.below(50) as i64).unwrap();
    }
    if variant % 4 == 2 {
        let s: [u8; 28] = rng.bytes(28).try_into().unwrap();
        st = st.disclosed_signer(s.into()).datum(vec![0x01]).network_id(1);
    }
    if variant % 5 == 3 { st = st.invalid_from_slot(rng.u64_edgy()).valid_from_slot(rng.below(1000)); }
    st.build_conway_raw().expect("fixture builds")
}

pub fn generate(g: &mut Gen) {
    for i in 0..g.cases {
        let variant = g.rng.below(40);
        let tx = mk_built(variant);
        let id = tx.tx_hash.0;
        let pool = if i % 5 == 0 { 1 } else { 2 + g.rng.below(NKEYS - 1) };
        let len = if g.rng.chance(1, 12) { g.rng.range(20, 40) } else { g.rng.range(1, 12) };
        let mut ops = vec![format!("new {variant}")];
        for _ in 0..len {
            let k = g.rng.below(pool);
            let key = key(k);
            let pk = hex(&pk_bytes(&key.public()));
            let sig = hex(&sig_bytes(&key.sign(&id)));
            ops.push(match g.rng.below(10) {
                0..=3 => format!("sign {k} {pk} {sig}"),
                4..=5 => format!("add {pk} {sig} 1"),
                6 => {
                    // a signature that does not verify (out-of-band garbage): still has to be kept in step
                    let mut bad = sig_bytes(&key.sign(&id));
                    bad[g.rng.below(64) as usize] ^= 1 << g.rng.below(8);
                    format!("add {pk} {} 0", hex(&bad))
                }
                _ => format!("remove {pk}"),
            });
        }
        g.case(ops);
    }
}

struct View { map: BTreeMap<[u8; 32], [u8; 64]>, wits: Option<Vec<([u8; 32], [u8; 64])>>, body: Vec<u8>, id: [u8; 32] }

fn view(tx: &BuiltTransaction) -> Result<View, String> {
    let dec = conway::Tx::decode_fragment(&tx.tx_bytes.0).map_err(|e| format!("tx_bytes do not decode: {e}"))?;
    let mut map = BTreeMap::new();
    for (k, v) in tx.signatures.iter().flatten() { map.insert(k.0, v.0); }
    let wits = match &dec.transaction_witness_set.vkeywitness {
        None => None,
        Some(ws) => {
            let mut v = vec![];
            for w in ws.iter() {
                let k: [u8; 32] = w.vkey.as_slice().try_into().map_err(|_| "witness key length".to_string())?;
                let s: [u8; 64] = w.signature.as_slice().try_into().map_err(|_| "witness sig length".to_string())?;
                v.push((k, s));
            }
            Some(v)
        }
    };
    Ok(View { map, wits, body: dec.transaction_body.raw_cbor().to_vec(), id: tx.tx_hash.0 })
}

fn show(v: &View, body0: &[u8], id0: &[u8; 32]) -> String {
    let m: Vec<String> = v.map.iter().map(|(k, s)| format!("{}:{}", hex(k), hex(s))).collect();
    let w = match &v.wits {
        None => "none".to_string(),
        Some(ws) => format!("[{}]", ws.iter().map(|(k, s)| format!("{}:{}", hex(k), hex(s))).collect::<Vec<_>>().join(" ")),
    };
    format!("m=[{}] w={} body={} id={}", m.join(" "), w, (v.body == body0) as u8, (v.id == *id0) as u8)
}

pub fn run_case(case: &Case, out: &mut Out) {
    let mut cur: Option<BuiltTransaction> = None;
    let (mut body0, mut id0) = (vec![], [0u8; 32]);
    // independent specification state: what the signature map must be, and which entries verify
    let mut spec: BTreeMap<[u8; 32], ([u8; 64], bool)> = BTreeMap::new();
    let (mut replaced, mut removed_present, mut removed_absent, mut emptied) = (false, false, false, false);
    for op in &case.ops {
        let name = op[0].as_str();
        if name == "new" {
            let tx = mk_built(op[1].parse().unwrap());
            let v = view(&tx).expect("fresh tx decodes");
            body0 = v.body.clone(); id0 = v.id; spec.clear();
            if *Hasher::<256>::hash(&body0) != id0 { out.viol("id-not-body-hash", format!("variant {}", op[1])); }
            out.ok(show(&v, &body0, &id0));
            cur = Some(tx);
            continue;
        }
        let Some(tx) = cur.clone() else { out.reply("bad-op".into()); continue };
        let spec_before = spec.clone();
        let before = view(&tx).map(|v| v.wits.map(|w| w.len()).unwrap_or(0)).unwrap_or(0);
        let res = match name {
            "sign" => {
                let k = key(op[1].parse().unwrap());
                let pk = pk_bytes(&k.public());
                if spec.contains_key(&pk) { replaced = true; }
                // expected entry: any signature of the id that verifies (checked below on what comes back)
                spec.insert(pk, (sig_bytes(&k.sign(&id0)), true));
                guard_mut(|| match &k { Key::Plain(s) => tx.sign(s), Key::Ext(s) => tx.sign(s) })
            }
            "add" => {
                let pk: [u8; 32] = unhex(&op[1]).unwrap().try_into().unwrap();
                let sg: [u8; 64] = unhex(&op[2]).unwrap().try_into().unwrap();
                if spec.contains_key(&pk) { replaced = true; }
                spec.insert(pk, (sg, op[3] == "1"));
                guard_mut(|| tx.add_signature(PublicKey::from(pk), sg))
            }
            "remove" => {
                let pk: [u8; 32] = unhex(&op[1]).unwrap().try_into().unwrap();
                if spec.remove(&pk).is_some() { removed_present = true; if spec.is_empty() { emptied = true; } } else { removed_absent = true; }
                guard_mut(|| tx.remove_signature(PublicKey::from(pk)))
            }
            _ => { out.reply("bad-op".into()); continue }
        };
        match res {
            None => {
                out.viol(format!("panic op={name} witnesses-before={}", if before == 0 { "0" } else if before == 1 { "1" } else { "many" }),
                         format!("{name} panicked (signature map would hold {} entries)", spec.len()));
                out.panic();
                // the transaction was consumed by the panicking call: go on from the state before it
                spec = spec_before;
            }
            Some(Err(e)) => {
                out.viol(format!("error op={name}"), format!("{e:?} on a transaction produced by build_conway_raw"));
                out.err("builder");
                spec = spec_before;
            }
            Some(Ok(tx2)) => {
                match view(&tx2) {
                    Err(e) => { out.viol("undecodable-after-op", e); out.err("decode"); spec = spec_before; continue; }
                    Ok(v) => {
                        if v.body != body0 { out.viol("body-changed", format!("after {name}")); }
                        if v.id != id0 || *Hasher::<256>::hash(&v.body) != v.id { out.viol("id-changed", format!("after {name}")); }
                        let ws = v.wits.clone().unwrap_or_default();
                        let mut seen = BTreeMap::new();
                        for (k, s) in &ws {
                            if seen.insert(*k, *s).is_some() {
                                out.viol(format!("duplicate-witness op={name}"), format!("key {} has more than one witness ({} witnesses, {} map entries)", hex(k), ws.len(), v.map.len()));
                                break;
                            }
                        }
                        if seen != v.map && seen.len() == ws.len() {
                            out.viol(format!("witnesses-differ-from-map op={name}"), format!("{} witnesses vs {} map entries", ws.len(), v.map.len()));
                        }
                        let want: BTreeMap<[u8; 32], [u8; 64]> = spec.iter().map(|(k, (s, _))| (*k, *s)).collect();
                        if v.map != want { out.viol(format!("map-differs-from-history op={name}"), format!("{} entries vs {} expected", v.map.len(), want.len())); }
                        for (k, s) in &ws {
                            let verifies = PublicKey::from(*k).verify(&v.id, &Signature::from(*s));
                            let supplied_valid = spec.get(k).map(|x| x.1).unwrap_or(true);
                            if supplied_valid && !verifies { out.viol(format!("invalid-witness op={name}"), format!("witness of {} does not verify against the id", hex(k))); }
                        }
                        if matches!(&v.wits, Some(w) if w.is_empty()) { out.viol("empty-witness-set-encoded", format!("after {name}")); }
                        out.ok(show(&v, &body0, &id0));
                    }
                }
                cur = Some(tx2);
            }
        }
    }
    if replaced { out.cov("replaced-signature"); }
    if removed_present { out.cov("removed-present"); }
    if removed_absent { out.cov("removed-absent"); }
    if emptied { out.cov("removed-last"); }
    if replaced && removed_present && removed_absent { out.nontrivial(); }
}
